//! C11: CharPartition construction programs + queries.
//!
//! case  = <ctor> <npush> {a b}* <query>
//! ctor  = new | from_set a b | try_from_list n {a b}* | try_from_iter n {a b}*
//! query = class_of_char x | interval_cover a b | class_of_set a b | good_char_set a b | dump
//!       | get i | start i | end i | interval i | pick i
//!       | valid_class_id (I i | C) | pick_in_class (I i | C)
//!
//! CharSet::range, CharPartition::push and interval_cover have debug assertions for their documented
//! preconditions; the generator only produces valid sets and pushes that satisfy the precondition.
//! If the constructor returns Err the line is `ERR <error name>` whatever the query.
use crate::util::*;
use aws_smt_strings::character_sets::{CharPartition, CharSet, ClassId, CoverResult};
use aws_smt_strings::errors::Error;

fn cs(c: &mut Cur) -> CharSet {
    let a = c.u();
    let b = c.u();
    CharSet::range(a, b)
}
fn sets(c: &mut Cur) -> Vec<CharSet> {
    let n = c.us();
    (0..n).map(|_| cs(c)).collect()
}
fn show_set(s: &CharSet) -> String {
    // start = pick(); end = start + size - 1 ; both are public API
    let a = s.pick();
    format!("{}-{}", a, a + (s.size() - 1))
}
fn err_name(e: &Error) -> &'static str {
    match e {
        Error::NonDisjointCharSets => "NonDisjointCharSets",
        Error::AmbiguousCharSet => "AmbiguousCharSet",
        _ => "OtherError",
    }
}
fn cid(x: ClassId) -> String {
    match x {
        ClassId::Interval(i) => format!("I{}", i),
        ClassId::Complement => "C".to_string(),
    }
}
fn read_cid(c: &mut Cur) -> ClassId {
    match c.next() {
        "I" => ClassId::Interval(c.us()),
        "C" => ClassId::Complement,
        _ => panic!("bad class id"),
    }
}

fn build(c: &mut Cur) -> Result<CharPartition, Error> {
    let ctor = c.next();
    let p0 = match ctor {
        "new" => Ok(CharPartition::new()),
        "from_set" => Ok(CharPartition::from_set(&cs(c))),
        "try_from_list" => {
            let v = sets(c);
            CharPartition::try_from_list(&v)
        }
        "try_from_iter" => {
            let v = sets(c);
            CharPartition::try_from_iter(v.into_iter())
        }
        _ => panic!("bad constructor"),
    };
    let n = c.us();
    let pushes: Vec<(u32, u32)> = (0..n)
        .map(|_| {
            let a = c.u();
            let b = c.u();
            (a, b)
        })
        .collect();
    let mut p = p0?;
    for (a, b) in pushes {
        p.push(a, b);
    }
    Ok(p)
}

fn dump(p: &CharPartition) -> String {
    let n = p.len();
    let get: Vec<String> = (0..n)
        .map(|i| {
            let (a, b) = p.get(i);
            format!("{}-{}", a, b)
        })
        .collect();
    let ranges: Vec<String> = p.ranges().map(show_set).collect();
    let it = p.class_ids();
    let (lo, hi) = it.size_hint();
    let ids: Vec<String> = it.map(cid).collect();
    let picks: Vec<String> = p.picks().map(|x| format!("{}", x)).collect();
    let (sa, sb) = p.get(n);
    format!(
        "len={} is_empty={} get=[{}] ranges=[{}] sentinel={}-{} wit={} ec={} nc={} hint={}-{} ids=[{}] picks=[{}]",
        n,
        b(p.is_empty()),
        get.join(","),
        ranges.join(","),
        sa,
        sb,
        p.pick_complement(),
        b(p.empty_complement()),
        p.num_classes(),
        lo,
        match hi {
            Some(h) => format!("{}", h),
            None => "none".to_string(),
        },
        ids.join(","),
        picks.join(",")
    )
}

pub fn run(t: &[&str]) -> String {
    let mut c = Cur::new(t);
    let p = match build(&mut c) {
        Ok(p) => p,
        Err(e) => return format!("ERR {}", err_name(&e)),
    };
    let q = c.next();
    match q {
        "class_of_char" => cid(p.class_of_char(c.u())),
        "interval_cover" => match p.interval_cover(&cs(&mut c)) {
            CoverResult::CoveredBy(i) => format!("COV {}", i),
            CoverResult::DisjointFromAll => "DISJ".to_string(),
            CoverResult::Overlaps => "OVER".to_string(),
        },
        "class_of_set" => match p.class_of_set(&cs(&mut c)) {
            Ok(x) => cid(x),
            Err(e) => format!("ERR {}", err_name(&e)),
        },
        "good_char_set" => b(p.good_char_set(&cs(&mut c))).to_string(),
        "dump" => dump(&p),
        "get" => {
            let (a, b) = p.get(c.us());
            format!("{} {}", a, b)
        }
        "start" => format!("{}", p.start(c.us())),
        "end" => format!("{}", p.end(c.us())),
        "interval" => show_set(&p.interval(c.us())),
        "pick" => format!("{}", p.pick(c.us())),
        "valid_class_id" => b(p.valid_class_id(read_cid(&mut c))).to_string(),
        "pick_in_class" => format!("{}", p.pick_in_class(read_cid(&mut c))),
        _ => panic!("bad query"),
    }
}
