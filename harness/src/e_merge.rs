//! C12: merge_partitions / merge_partition_list.
//! A partition is written `n a1 b1 ... an bn` and built with CharPartition::new + push, which is
//! only valid for valid, sorted, disjoint intervals (push has debug assertions only).
//! Observations go through the public API: len, get(i), pick_complement, empty_complement,
//! class_of_char.
use crate::util::*;
use aws_smt_strings::character_sets::{merge_partition_list, merge_partitions, CharPartition};

fn part(c: &mut Cur) -> CharPartition {
    let n = c.us();
    let mut p = CharPartition::new();
    for _ in 0..n {
        let a = c.u();
        let e = c.u();
        p.push(a, e);
    }
    p
}

fn dump(p: &CharPartition) -> String {
    let mut s = format!("L {}", p.len());
    for i in 0..p.len() {
        let (a, e) = p.get(i);
        s.push_str(&format!(" {} {}", a, e));
    }
    s.push_str(&format!(" W {} E {}", p.pick_complement(), b(p.empty_complement())));
    s
}

fn same(p: &CharPartition, x: u32, y: u32) -> bool {
    p.class_of_char(x) == p.class_of_char(y)
}

pub fn run(t: &[&str]) -> String {
    let mut c = Cur::new(t);
    let op = c.next();
    match op {
        "merge" => {
            let p1 = part(&mut c);
            let p2 = part(&mut c);
            dump(&merge_partitions(&p1, &p2))
        }
        "mergelist" => {
            let k = c.us();
            let l: Vec<CharPartition> = (0..k).map(|_| part(&mut c)).collect();
            dump(&merge_partition_list(l.iter()))
        }
        "literal" => {
            // the three same-class verdicts of the literal reading of the property (finding D9)
            let p1 = part(&mut c);
            let p2 = part(&mut c);
            let x = c.u();
            let y = c.u();
            let m = merge_partitions(&p1, &p2);
            format!("{} {} {}", b(same(&p1, x, y)), b(same(&p2, x, y)), b(same(&m, x, y)))
        }
        _ => panic!("bad op"),
    }
}
