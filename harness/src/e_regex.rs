//! Regex histories on one ReManager: constructors, derivatives, BFS users, observations.
//! A case is a list of statements separated by `;`.  Each statement prints one result; statements
//! that yield a term push it on the value list (referred to later as an index).
use crate::autdump::*;
use crate::util::*;
use aws_smt_strings::character_sets::{CharSet, ClassId};
use aws_smt_strings::errors::Error;
use aws_smt_strings::loop_ranges::LoopRange;
use aws_smt_strings::regular_expressions::{leaves, sub_terms, ReManager, RegLan, RE};
use aws_smt_strings::smt_strings::SmtString;
use std::panic::{catch_unwind, AssertUnwindSafe};

fn err_name(e: &Error) -> String {
    format!("{:?}", e)
}
fn cid(t: &str) -> ClassId {
    if t == "c" {
        ClassId::Complement
    } else {
        ClassId::Interval(us(t))
    }
}
fn cid_show(c: ClassId) -> String {
    match c {
        ClassId::Complement => "c".to_string(),
        ClassId::Interval(i) => format!("{}", i),
    }
}
fn word_show(w: &[u32]) -> String {
    let mut s = format!("{}", w.len());
    for c in w {
        s.push_str(&format!(" {}", c));
    }
    s
}
fn all_words(alpha: &[u32], k: usize) -> Vec<Vec<u32>> {
    // all words of length <= k, by length then lexicographic in alphabet order
    let mut res: Vec<Vec<u32>> = vec![vec![]];
    let mut last: Vec<Vec<u32>> = vec![vec![]];
    for _ in 0..k {
        let mut next = Vec::new();
        for w in &last {
            for &c in alpha {
                let mut x = w.clone();
                x.push(c);
                next.push(x);
            }
        }
        res.extend(next.iter().cloned());
        last = next;
    }
    res
}

/// ids yielded by an iterator of terms, in order: `<count> <id>,<id>,...`
fn ids_show(it: impl Iterator<Item = RegLan>) -> String {
    let ids: Vec<String> = it.map(|r| r.verif_id().to_string()).collect();
    format!("{} {}", ids.len(), ids.join(","))
}
/// RE::is_empty, num_deriv_classes, valid_class_id on the listed class ids
fn reinfo(a: RegLan, c: &mut Cur) -> String {
    let k = c.us();
    let mut v = String::new();
    for _ in 0..k {
        v.push_str(b(a.valid_class_id(cid(c.next()))));
    }
    format!("empty={} n={} valid={}", b(a.is_empty()), a.num_deriv_classes(), v)
}

struct St {
    m: ReManager,
    v: Vec<RegLan>,
}

fn term(st: &St, c: &mut Cur) -> RegLan {
    st.v[c.us()]
}
fn terms(st: &St, c: &mut Cur) -> Vec<RegLan> {
    let n = c.us();
    (0..n).map(|_| term(st, c)).collect()
}
fn push(st: &mut St, r: RegLan) -> String {
    st.v.push(r);
    r.verif_dump()
}

fn stmt(st: &mut St, t: &[&str]) -> String {
    let mut c = Cur::new(t);
    let op = c.next();
    match op {
        // ---- constructors
        "none" => {
            let r = st.m.empty();
            push(st, r)
        }
        "eps" => {
            let r = st.m.epsilon();
            push(st, r)
        }
        "all" => {
            let r = st.m.full();
            push(st, r)
        }
        "allchar" => {
            let r = st.m.all_chars();
            push(st, r)
        }
        "splus" => {
            let r = st.m.sigma_plus();
            push(st, r)
        }
        "char" => {
            let r = st.m.char(c.u());
            push(st, r)
        }
        "range" => {
            let a = c.u();
            let b = c.u();
            let r = st.m.range(a, b);
            push(st, r)
        }
        "charset" => {
            let a = c.u();
            let b = c.u();
            let r = st.m.char_set(CharSet::range(a, b));
            push(st, r)
        }
        "smtrange" => {
            let w1 = c.word();
            let w2 = c.word();
            let r = st.m.smt_range(&SmtString::from(&w1[..]), &SmtString::from(&w2[..]));
            push(st, r)
        }
        "str" => {
            let w = c.word();
            let r = st.m.str(&SmtString::from(&w[..]));
            push(st, r)
        }
        "concat" => {
            let a = term(st, &mut c);
            let b = term(st, &mut c);
            let r = st.m.concat(a, b);
            push(st, r)
        }
        "concatl" => {
            let l = terms(st, &mut c);
            let r = st.m.concat_list(l);
            push(st, r)
        }
        "union" => {
            let a = term(st, &mut c);
            let b = term(st, &mut c);
            let r = st.m.union(a, b);
            push(st, r)
        }
        "unionl" => {
            let l = terms(st, &mut c);
            let r = st.m.union_list(l);
            push(st, r)
        }
        "inter" => {
            let a = term(st, &mut c);
            let b = term(st, &mut c);
            let r = st.m.inter(a, b);
            push(st, r)
        }
        "interl" => {
            let l = terms(st, &mut c);
            let r = st.m.inter_list(l);
            push(st, r)
        }
        "comp" => {
            let a = term(st, &mut c);
            let r = st.m.complement(a);
            push(st, r)
        }
        "diff" => {
            let a = term(st, &mut c);
            let b = term(st, &mut c);
            let r = st.m.diff(a, b);
            push(st, r)
        }
        "diffl" => {
            let a = term(st, &mut c);
            let l = terms(st, &mut c);
            let r = st.m.diff_list(a, l);
            push(st, r)
        }
        "star" => {
            let a = term(st, &mut c);
            let r = st.m.star(a);
            push(st, r)
        }
        "plus" => {
            let a = term(st, &mut c);
            let r = st.m.plus(a);
            push(st, r)
        }
        "opt" => {
            let a = term(st, &mut c);
            let r = st.m.opt(a);
            push(st, r)
        }
        "pow" => {
            let a = term(st, &mut c);
            let k = c.u();
            let r = st.m.exp(a, k);
            push(st, r)
        }
        "loop" => {
            let a = term(st, &mut c);
            let i = c.u();
            let j = c.u();
            let r = st.m.smt_loop(a, i, j);
            push(st, r)
        }
        "loopinf" => {
            let a = term(st, &mut c);
            let i = c.u();
            let r = st.m.mk_loop(a, LoopRange::infinite(i));
            push(st, r)
        }
        // ---- derivatives (push the result)
        "deriv" => {
            let a = term(st, &mut c);
            let x = c.u();
            let r = st.m.char_derivative(a, x);
            push(st, r)
        }
        "sderiv" => {
            let a = term(st, &mut c);
            let w = c.word();
            let r = st.m.str_derivative(a, &SmtString::from(&w[..]));
            push(st, r)
        }
        "classder" => {
            let a = term(st, &mut c);
            let k = cid(c.next());
            match st.m.class_derivative(a, k) {
                Ok(r) => push(st, r),
                Err(e) => {
                    st.v.push(a);
                    format!("ERR {}", err_name(&e))
                }
            }
        }
        "setder" => {
            let a = term(st, &mut c);
            let x = c.u();
            let y = c.u();
            match st.m.set_derivative(a, &CharSet::range(x, y)) {
                Ok(r) => push(st, r),
                Err(e) => {
                    st.v.push(a);
                    format!("ERR {}", err_name(&e))
                }
            }
        }
        // ---- observations
        "dump" => term(st, &mut c).verif_dump(),
        "subterms" => {
            let a = term(st, &mut c);
            format!("{} @ {}", ids_show(sub_terms(a)), a.verif_dump())
        }
        "leaves" => {
            let a = term(st, &mut c);
            format!("{} @ {}", ids_show(leaves(a)), a.verif_dump())
        }
        "reinfo" => {
            let a = term(st, &mut c);
            reinfo(a, &mut c)
        }
        "nullable" => b(term(st, &mut c).nullable).to_string(),
        "mem" => {
            let a = term(st, &mut c);
            let w = c.word();
            b(st.m.str_in_re(&SmtString::from(&w[..]), a)).to_string()
        }
        "memall" => {
            // all words of length <= k over the given alphabet: one bit each
            let a = term(st, &mut c);
            let k = c.us();
            let alpha = c.word();
            let mut s = String::new();
            for w in all_words(&alpha, k) {
                s.push_str(b(st.m.str_in_re(&SmtString::from(&w[..]), a)));
            }
            s
        }
        "classes" => {
            let a = term(st, &mut c);
            let ids: Vec<String> = a.class_ids().map(cid_show).collect();
            let rs: Vec<String> = a.char_ranges().map(cs_show).collect();
            format!(
                "ids={} ranges={} n={} ec={}",
                ids.join(","),
                rs.join(","),
                a.num_deriv_classes(),
                b(a.empty_complement())
            )
        }
        "iter" => {
            let a = term(st, &mut c);
            let ids: Vec<String> = st.m.iter_derivatives(a).map(|r| r.verif_id().to_string()).collect();
            let first = !ids.is_empty() && ids[0] == a.verif_id().to_string();
            format!("{} {} first={}", ids.len(), ids.join(","), b(first))
        }
        "iterdump" => {
            let a = term(st, &mut c);
            let ds: Vec<String> = st.m.iter_derivatives(a).map(|r| r.verif_dump()).collect();
            format!("{} {}", ds.len(), ds.join(" "))
        }
        "empty" => {
            let a = term(st, &mut c);
            b(st.m.is_empty_re(a)).to_string()
        }
        "getstr" => {
            let a = term(st, &mut c);
            match st.m.get_string(a) {
                None => "N".to_string(),
                Some(s) => format!("S {} {}", word_show(s.as_ref()), b(s.is_good())),
            }
        }
        "startc" => {
            let a = term(st, &mut c);
            let x = c.u();
            b(st.m.start_char(a, x)).to_string()
        }
        "startcl" => {
            let a = term(st, &mut c);
            let k = cid(c.next());
            match st.m.start_class(a, k) {
                Ok(x) => b(x).to_string(),
                Err(e) => format!("ERR {}", err_name(&e)),
            }
        }
        "incl" => {
            let a = term(st, &mut c);
            let d = term(st, &mut c);
            b(a.included_in(d)).to_string()
        }
        "eq" => {
            let a = term(st, &mut c);
            let d = term(st, &mut c);
            format!("{} {}", b(a == d), b(std::ptr::eq(a, d)))
        }
        "same" | "differ" => {
            let a = term(st, &mut c);
            let d = term(st, &mut c);
            format!("{} {}", b(a == d), b(std::ptr::eq(a, d)))
        }
        "closure" => {
            // every yielded term's derivative w.r.t. every listed character and every class
            // boundary is itself yielded
            let a = term(st, &mut c);
            let chars = c.word();
            let l: Vec<RegLan> = {
                let mut v: Vec<RegLan> = Vec::new();
                let ids: Vec<usize> = st.m.iter_derivatives(a).map(|r| r.verif_id()).collect();
                // re-walk to obtain the terms themselves (all cache hits)
                let mut it = st.m.iter_derivatives(a);
                while let Some(r) = it.next() {
                    let r: &RE = r;
                    // SAFETY-free: terms are &'static in the crate (RegLan = &'static RE)
                    v.push(unsafe { std::mem::transmute::<&RE, RegLan>(r) });
                }
                assert_eq!(ids.len(), v.len());
                v
            };
            let ids: std::collections::HashSet<usize> = l.iter().map(|r| r.verif_id()).collect();
            let mut res = "T".to_string();
            'outer: for r in &l {
                let mut cs: Vec<u32> = chars.clone();
                for s in r.char_ranges() {
                    let x = s.pick();
                    cs.push(x);
                    cs.push(x + (s.size() - 1));
                }
                for x in cs {
                    let d = st.m.char_derivative(r, x);
                    if !ids.contains(&d.verif_id()) {
                        res = format!("F {} {}", r.verif_id(), x);
                        break 'outer;
                    }
                }
            }
            res
        }
        "nextall" => {
            let a = term(st, &mut c);
            let chars = c.word();
            let aut = st.m.compile(a);
            let mut out = Vec::new();
            for s in aut.states() {
                for &x in &chars {
                    out.push(aut.next(s, x).id().to_string());
                }
            }
            out.join(",")
        }
        "ctorstr" => {
            // C17: build an SmtString through a public constructor from arbitrary integers / code
            // points, then use it with the rest of the crate (regex construction, membership, Display)
            let kind = c.next();
            let xs = c.word();
            let s: SmtString = match kind {
                "str" => {
                    let t: String = xs.iter().filter_map(|&x| char::from_u32(x)).collect();
                    SmtString::from(t.as_str())
                }
                "string" => {
                    let t: String = xs.iter().filter_map(|&x| char::from_u32(x)).collect();
                    SmtString::from(t)
                }
                "char" => SmtString::from(char::from_u32(xs[0]).unwrap()),
                "u32" => SmtString::from(xs[0]),
                "slice" => SmtString::from(&xs[..]),
                "vec" => SmtString::from(xs.clone()),
                "parse" => {
                    let t: String = xs.iter().filter_map(|&x| char::from_u32(x)).collect();
                    aws_smt_strings::smt_strings::parse_smt_literal(&t)
                }
                _ => panic!("bad kind"),
            };
            let good = s.is_good();
            let r = st.m.str(&s);
            let mem = st.m.str_in_re(&s, r);
            let printed = format!("{}", s);
            let ascii = printed.chars().all(|ch| (ch as u32) >= 32 && (ch as u32) < 127);
            st.v.push(r);
            format!("word={} good={} re={} mem={} ascii={}", word_show(s.as_ref()).replace(' ', ","), b(good), r.verif_dump(), b(mem), b(ascii))
        }
        "compile" => {
            let a = term(st, &mut c);
            let aut = st.m.compile(a);
            dump_aut(&aut)
        }
        "trycompile" => {
            let a = term(st, &mut c);
            let n = c.us();
            match st.m.try_compile(a, n) {
                None => "N".to_string(),
                Some(aut) => format!("S {}", aut.num_states()),
            }
        }
        "accepts" => {
            // compile, then run the automaton on all words <= k over alpha (also next totality)
            let a = term(st, &mut c);
            let k = c.us();
            let alpha = c.word();
            let aut = st.m.compile(a);
            let mut s = String::new();
            for w in all_words(&alpha, k) {
                s.push_str(b(aut.accepts(&SmtString::from(&w[..]))));
            }
            s
        }
        "minimize" => {
            let a = term(st, &mut c);
            let mut aut = st.m.compile(a);
            aut.minimize();
            dump_aut(&aut)
        }
        _ => panic!("bad stmt {}", op),
    }
}

// ---- the SMT-LIB-named wrappers over the thread-local manager (fresh thread = fresh manager)
fn wstmt(v: &mut Vec<RegLan>, t: &[&str]) -> String {
    use aws_smt_strings::smt_regular_expressions as w;
    let mut c = Cur::new(t);
    let op = c.next();
    let mut push = |v: &mut Vec<RegLan>, r: RegLan| {
        v.push(r);
        r.verif_dump()
    };
    match op {
        "none" => push(v, w::re_none()),
        "all" => push(v, w::re_all()),
        "allchar" => push(v, w::re_allchar()),
        "smtrange" => {
            let w1 = c.word();
            let w2 = c.word();
            push(v, w::re_range(&SmtString::from(&w1[..]), &SmtString::from(&w2[..])))
        }
        "str" => {
            let x = c.word();
            push(v, w::str_to_re(&SmtString::from(&x[..])))
        }
        "concat" => {
            let a = v[c.us()];
            let d = v[c.us()];
            push(v, w::re_concat(a, d))
        }
        "concatl" => {
            let n = c.us();
            let l: Vec<RegLan> = (0..n).map(|_| v[c.us()]).collect();
            push(v, w::re_concat_list(l))
        }
        "union" => {
            let a = v[c.us()];
            let d = v[c.us()];
            push(v, w::re_union(a, d))
        }
        "unionl" => {
            let n = c.us();
            let l: Vec<RegLan> = (0..n).map(|_| v[c.us()]).collect();
            push(v, w::re_union_list(l))
        }
        "inter" => {
            let a = v[c.us()];
            let d = v[c.us()];
            push(v, w::re_inter(a, d))
        }
        "interl" => {
            let n = c.us();
            let l: Vec<RegLan> = (0..n).map(|_| v[c.us()]).collect();
            push(v, w::re_inter_list(l))
        }
        "comp" => {
            let a = v[c.us()];
            push(v, w::re_comp(a))
        }
        "diff" => {
            let a = v[c.us()];
            let d = v[c.us()];
            push(v, w::re_diff(a, d))
        }
        "diffl" => {
            let a = v[c.us()];
            let n = c.us();
            let l: Vec<RegLan> = (0..n).map(|_| v[c.us()]).collect();
            push(v, w::re_diff_list(a, l))
        }
        "star" => {
            let a = v[c.us()];
            push(v, w::re_star(a))
        }
        "plus" => {
            let a = v[c.us()];
            push(v, w::re_plus(a))
        }
        "opt" => {
            let a = v[c.us()];
            push(v, w::re_opt(a))
        }
        "pow" => {
            let a = v[c.us()];
            let k = c.u();
            push(v, w::re_power(a, k))
        }
        "loop" => {
            let a = v[c.us()];
            let i = c.u();
            let j = c.u();
            push(v, w::re_loop(a, i, j))
        }
        "dump" => v[c.us()].verif_dump(),
        "subterms" => {
            let a = v[c.us()];
            format!("{} @ {}", ids_show(sub_terms(a)), a.verif_dump())
        }
        "leaves" => {
            let a = v[c.us()];
            format!("{} @ {}", ids_show(leaves(a)), a.verif_dump())
        }
        "reinfo" => {
            let a = v[c.us()];
            reinfo(a, &mut c)
        }
        "nullable" => b(v[c.us()].nullable).to_string(),
        "mem" => {
            let a = v[c.us()];
            let x = c.word();
            b(w::str_in_re(&SmtString::from(&x[..]), a)).to_string()
        }
        "memall" => {
            let a = v[c.us()];
            let k = c.us();
            let alpha = c.word();
            let mut s = String::new();
            for x in all_words(&alpha, k) {
                s.push_str(b(w::str_in_re(&SmtString::from(&x[..]), a)));
            }
            s
        }
        "same" | "differ" | "eq" => {
            let a = v[c.us()];
            let d = v[c.us()];
            format!("{} {}", b(a == d), b(std::ptr::eq(a, d)))
        }
        "replre" => {
            let a = v[c.us()];
            let s1 = c.word();
            let s2 = c.word();
            let r = w::str_replace_re(&SmtString::from(&s1[..]), a, &SmtString::from(&s2[..]));
            format!("{} {}", word_show(r.as_ref()), b(r.is_good()))
        }
        "replreall" => {
            let a = v[c.us()];
            let s1 = c.word();
            let s2 = c.word();
            let r = w::str_replace_re_all(&SmtString::from(&s1[..]), a, &SmtString::from(&s2[..]));
            format!("{} {}", word_show(r.as_ref()), b(r.is_good()))
        }
        _ => panic!("bad wrapper stmt {}", op),
    }
}

fn run_wrapped(t: Vec<String>) -> String {
    let h = std::thread::spawn(move || {
        let toks: Vec<&str> = t.iter().map(|s| s.as_str()).collect();
        let mut v: Vec<RegLan> = Vec::new();
        let mut out = Vec::new();
        for s in toks.split(|x| *x == ";") {
            if s.is_empty() {
                continue;
            }
            let r = catch_unwind(AssertUnwindSafe(|| wstmt(&mut v, s)));
            match r {
                Ok(x) => out.push(x),
                Err(_) => {
                    out.push("PANIC".to_string());
                    break;
                }
            }
        }
        out.join(" ; ")
    });
    h.join().unwrap_or_else(|_| "PANIC".to_string())
}

pub fn run(t: &[&str]) -> String {
    if !t.is_empty() && t[0] == "W" {
        return run_wrapped(t[1..].iter().map(|s| s.to_string()).collect());
    }
    let mut st = St {
        m: ReManager::new(),
        v: Vec::new(),
    };
    let mut out = Vec::new();
    for s in t.split(|x| *x == ";") {
        if s.is_empty() {
            continue;
        }
        // a panicking statement ends the case (the manager may be left inconsistent)
        let r = catch_unwind(AssertUnwindSafe(|| stmt(&mut st, s)));
        match r {
            Ok(x) => out.push(x),
            Err(_) => {
                out.push("PANIC".to_string());
                break;
            }
        }
    }
    out.join(" ; ")
}
