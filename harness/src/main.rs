//! Correspondence harness: runs the real crate (/repo working tree) on a case file.
//! usage: harness <engine> <cases-file>      one result line per case line, flushed at once.
use std::io::{BufRead, Write};
use std::panic::{catch_unwind, AssertUnwindSafe};

mod autdump;
mod e_automata;
mod e_charset;
mod e_display;
mod e_literal;
mod e_looprange;
mod e_merge;
mod e_partition;
mod e_regex;
mod e_strconv;
mod e_strsearch;
mod util;

fn main() {
    let args: Vec<String> = std::env::args().collect();
    if args.len() < 3 {
        eprintln!("usage: harness <engine> <cases>");
        std::process::exit(2);
    }
    std::panic::set_hook(Box::new(|_| {}));
    let engine = args[1].as_str();
    let f = std::fs::File::open(&args[2]).expect("cases file");
    let out = std::io::stdout();
    let mut out = out.lock();
    for line in std::io::BufReader::new(f).lines() {
        let line = line.unwrap();
        let toks: Vec<&str> = line.split_whitespace().collect();
        let r = catch_unwind(AssertUnwindSafe(|| match engine {
            "charset" => e_charset::run(&toks),
            "regex" => e_regex::run(&toks),
            "merge" => e_merge::run(&toks),
            "literal" => e_literal::run(&toks),
            "partition" => e_partition::run(&toks),
            "automata" => e_automata::run(&toks),
            "looprange" => e_looprange::run(&toks),
            "strconv" => e_strconv::run(&toks),
            "strsearch" => e_strsearch::run(&toks),
            // informational engine (Display implementations): used by bin/displaycheck only, by no property
            "display" => e_display::run(&toks),
            _ => panic!("unknown engine"),
        }));
        let s = match r {
            Ok(s) => s,
            Err(_) => "PANIC".to_string(),
        };
        writeln!(out, "{}", s).unwrap();
        out.flush().unwrap();
    }
}
