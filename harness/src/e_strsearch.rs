//! C06: SMT-LIB string search / substring / replace functions of smt_strings.rs.
//! Words are length-prefixed and built with SmtString::from(&[u32]) (the generator only emits
//! characters <= MAX_CHAR, so the constructor does not alter them); i32 arguments are decimal.
//! Results: words as `len c1 c2 ...`, bools T/F, ints in decimal.
use crate::util::*;
use aws_smt_strings::smt_strings::*;

fn w(c: &mut Cur) -> SmtString {
    let v = c.word();
    SmtString::from(&v[..])
}
fn show(s: &SmtString) -> String {
    let mut out = format!("{}", s.len());
    for x in s.iter() {
        out.push(' ');
        out.push_str(&x.to_string());
    }
    out
}

pub fn run(t: &[&str]) -> String {
    let mut c = Cur::new(t);
    let op = c.next();
    match op {
        "concat" => {
            let a = w(&mut c);
            let b = w(&mut c);
            show(&str_concat(&a, &b))
        }
        "len" => format!("{}", str_len(&w(&mut c))),
        "at" => {
            let s = w(&mut c);
            let i = c.i();
            show(&str_at(&s, i))
        }
        "substr" => {
            let s = w(&mut c);
            let i = c.i();
            let n = c.i();
            show(&str_substr(&s, i, n))
        }
        "prefixof" => {
            let a = w(&mut c);
            let x = w(&mut c);
            b(str_prefixof(&a, &x)).to_string()
        }
        "suffixof" => {
            let a = w(&mut c);
            let x = w(&mut c);
            b(str_suffixof(&a, &x)).to_string()
        }
        "contains" => {
            let a = w(&mut c);
            let x = w(&mut c);
            b(str_contains(&a, &x)).to_string()
        }
        "indexof" => {
            let s = w(&mut c);
            let p = w(&mut c);
            let i = c.i();
            format!("{}", str_indexof(&s, &p, i))
        }
        "replace" => {
            let s = w(&mut c);
            let p = w(&mut c);
            let r = w(&mut c);
            show(&str_replace(&s, &p, &r))
        }
        "replace_all" => {
            let s = w(&mut c);
            let p = w(&mut c);
            let r = w(&mut c);
            show(&str_replace_all(&s, &p, &r))
        }
        _ => panic!("bad op"),
    }
}
