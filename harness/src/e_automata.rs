//! AutomatonBuilder histories + observations on the built automaton.
//! case:  new K ; add K a b K2 ; def K K2 ; fin K ; ... ; build|buildu ; <observations>
use crate::autdump::*;
use crate::util::*;
use aws_smt_strings::automata::{Automaton, AutomatonBuilder};
use aws_smt_strings::character_sets::{CharSet, ClassId};
use aws_smt_strings::smt_strings::SmtString;
use std::panic::{catch_unwind, AssertUnwindSafe};

/// State names given to the builder: equality is exact but the hash is deliberately coarse
/// (legal in Rust: equal values hash equally), so that a builder that identifies states by their
/// hash instead of by Eq is exposed.
#[derive(Clone, Debug, PartialEq, Eq)]
struct Key(u32);
impl std::hash::Hash for Key {
    fn hash<H: std::hash::Hasher>(&self, state: &mut H) {
        (self.0 % 3).hash(state)
    }
}

fn all_words(alpha: &[u32], k: usize) -> Vec<Vec<u32>> {
    let mut res: Vec<Vec<u32>> = vec![vec![]];
    let mut last: Vec<Vec<u32>> = vec![vec![]];
    for _ in 0..k {
        let mut next = Vec::new();
        for w in &last {
            for &c in alpha {
                let mut x = w.clone();
                x.push(c);
                next.push(x);
            }
        }
        res.extend(next.iter().cloned());
        last = next;
    }
    res
}

fn observe(a: &mut Automaton, t: &[&str]) -> String {
    let mut c = Cur::new(t);
    let op = c.next();
    match op {
        "dump" => dump_aut(a),
        "table" => table_str(a),
        "alphabet" => a
            .pick_alphabet()
            .iter()
            .map(|x| x.to_string())
            .collect::<Vec<_>>()
            .join(","),
        "nextall" => {
            let chars = c.word();
            let mut out = Vec::new();
            for s in a.states() {
                for &x in &chars {
                    out.push(a.next(s, x).id().to_string());
                }
            }
            out.join(",")
        }
        "csnext" => {
            let s = c.us();
            let x = c.u();
            let y = c.u();
            match a.char_set_next(a.state(s), &CharSet::range(x, y)) {
                Ok(t) => t.id().to_string(),
                Err(e) => format!("ERR {:?}", e),
            }
        }
        "stateinfo" => {
            // every accessor of Automaton / State; probes = characters for class_of_char / char_maps_to_default
            let probes = c.word();
            let cid_show = |cid: ClassId| match cid {
                ClassId::Complement => "c".to_string(),
                ClassId::Interval(i) => i.to_string(),
            };
            let mut parts = Vec::new();
            let fin: Vec<String> = a.final_states().map(|s| s.id().to_string()).collect();
            parts.push(format!(
                "i={} n={} nf={} F={}",
                a.initial_state().id(),
                a.num_states(),
                a.num_final_states(),
                fin.join(",")
            ));
            for (k, s) in a.states().enumerate() {
                let st = a.state(k);
                let ns = s.num_successors();
                let d = match s.default_successor() {
                    Some(d) => d.to_string(),
                    None => "-".to_string(),
                };
                let dd = match a.default_successor(s) {
                    Some(t) => t.id().to_string(),
                    None => "-".to_string(),
                };
                let cls: Vec<String> = s.char_classes().map(cid_show).collect();
                let nx: Vec<String> = s.char_classes().map(|cid| a.class_next(s, cid).id().to_string()).collect();
                let picks: Vec<String> = s.char_picks().map(|x| x.to_string()).collect();
                let rg: Vec<String> = s.char_ranges().map(cs_show).collect();
                let pr: Vec<String> = probes
                    .iter()
                    .map(|&x| format!("{}{}", cid_show(s.class_of_char(x)), b(s.char_maps_to_default(x))))
                    .collect();
                parts.push(format!(
                    "s{}:k={}:ns={}:hd={}:d={}:D={}:v={}{}{}:cls={}:nx={}:picks={}:rg={}:p={}",
                    s.id(),
                    st.id(),
                    ns,
                    b(s.has_default_successor()),
                    d,
                    dd,
                    b(s.valid_class_id(ClassId::Complement)),
                    b(s.valid_class_id(ClassId::Interval(0))),
                    b(s.valid_class_id(ClassId::Interval(ns))),
                    cls.join(","),
                    nx.join(","),
                    picks.join(","),
                    rg.join(","),
                    pr.join(",")
                ));
            }
            parts.join(" ")
        }
        "edges" => {
            let mut out = Vec::new();
            for s in a.states() {
                let es: Vec<String> = a
                    .edges(s)
                    .map(|(cid, t)| {
                        format!(
                            "{}>{}",
                            match cid {
                                ClassId::Complement => "c".to_string(),
                                ClassId::Interval(i) => i.to_string(),
                            },
                            t.id()
                        )
                    })
                    .collect();
                out.push(format!("s{}:{}", s.id(), es.join(",")));
            }
            out.join(" ")
        }
        "finals" => {
            let f: Vec<String> = a.final_states().map(|s| s.id().to_string()).collect();
            format!("{} n={} nf={}", f.join(","), a.num_states(), a.num_final_states())
        }
        "acceptsall" => {
            let k = c.us();
            let alpha = c.word();
            let mut s = String::new();
            for w in all_words(&alpha, k) {
                s.push_str(b(a.accepts(&SmtString::from(&w[..]))));
            }
            s
        }
        "prune" => {
            a.remove_unreachable_states();
            dump_aut(a)
        }
        "minimize" => {
            a.minimize();
            dump_aut(a)
        }
        _ => panic!("bad observation {}", op),
    }
}

pub fn run(t: &[&str]) -> String {
    let mut out: Vec<String> = Vec::new();
    let mut builder: Option<AutomatonBuilder<Key>> = None;
    let mut aut: Option<Automaton> = None;
    for s in t.split(|x| *x == ";") {
        if s.is_empty() {
            continue;
        }
        let r = catch_unwind(AssertUnwindSafe(|| -> Option<String> {
            let mut c = Cur::new(s);
            let op = c.next();
            match op {
                "new" => {
                    builder = Some(AutomatonBuilder::new(&Key(c.u())));
                    None
                }
                "add" => {
                    let k = Key(c.u());
                    let a = c.u();
                    let bb = c.u();
                    let k2 = Key(c.u());
                    builder.as_mut().unwrap().add_transition(&k, &CharSet::range(a, bb), &k2);
                    None
                }
                "def" => {
                    let k = Key(c.u());
                    let k2 = Key(c.u());
                    builder.as_mut().unwrap().set_default_successor(&k, &k2);
                    None
                }
                "fin" => {
                    let k = Key(c.u());
                    builder.as_mut().unwrap().mark_final(&k);
                    None
                }
                "build" => match builder.as_mut().unwrap().build() {
                    Ok(a) => {
                        let d = dump_aut(&a);
                        aut = Some(a);
                        Some(format!("OK {}", d))
                    }
                    Err(e) => Some(format!("ERR {:?}", e)),
                },
                "buildu" => {
                    let a = builder.as_mut().unwrap().build_unchecked();
                    let d = dump_aut(&a);
                    aut = Some(a);
                    Some(format!("OK {}", d))
                }
                _ => match aut.as_mut() {
                    Some(a) => Some(observe(a, s)),
                    None => Some("NOAUT".to_string()),
                },
            }
        }));
        match r {
            Ok(Some(x)) => out.push(x),
            Ok(None) => {}
            Err(_) => {
                out.push("PANIC".to_string());
                break;
            }
        }
    }
    out.join(" ; ")
}
