//! Display implementations of LoopRange, CharSet, ClassId, CoverResult, CharPartition, State and
//! Automaton.  Informational: no property mentions them and no property's check uses this engine
//! (bin/displaycheck runs it and lists disagreements with the model of coq/Display.v).
//! The result is the printed text as a length-prefixed list of code points.
//!
//! case = looprange lo (hi|inf) | charset a b | classid (c|i) | cover (covered i|disjoint|overlaps)
//!      | partition n {a b}*          (sorted disjoint valid intervals, built with new + push)
//!      | automaton <builder statements separated by ;>     (build_unchecked, then Display)
//!      | states <builder statements>                       (Display of every State)
use crate::util::*;
use aws_smt_strings::automata::AutomatonBuilder;
use aws_smt_strings::character_sets::{CharPartition, CharSet, ClassId, CoverResult};
use aws_smt_strings::loop_ranges::LoopRange;

fn show(s: &str) -> String {
    let cs: Vec<u32> = s.chars().map(|c| c as u32).collect();
    let mut out = format!("{}", cs.len());
    for x in cs {
        out.push(' ');
        out.push_str(&x.to_string());
    }
    out
}

fn builder(t: &[&str]) -> AutomatonBuilder<u32> {
    let mut b: Option<AutomatonBuilder<u32>> = None;
    for s in t.split(|x| *x == ";") {
        if s.is_empty() {
            continue;
        }
        let mut c = Cur::new(s);
        match c.next() {
            "new" => b = Some(AutomatonBuilder::new(&c.u())),
            "add" => {
                let k = c.u();
                let x = c.u();
                let y = c.u();
                let k2 = c.u();
                b.as_mut().unwrap().add_transition(&k, &CharSet::range(x, y), &k2);
            }
            "def" => {
                let k = c.u();
                let k2 = c.u();
                b.as_mut().unwrap().set_default_successor(&k, &k2);
            }
            "fin" => {
                let k = c.u();
                b.as_mut().unwrap().mark_final(&k);
            }
            op => panic!("bad builder statement {}", op),
        }
    }
    b.unwrap()
}

pub fn run(t: &[&str]) -> String {
    let mut c = Cur::new(t);
    match c.next() {
        "looprange" => {
            let a = c.u();
            let h = c.next();
            let r = if h == "inf" {
                LoopRange::infinite(a)
            } else {
                LoopRange::finite(a, u(h))
            };
            show(&format!("{}", r))
        }
        "charset" => {
            let a = c.u();
            let b = c.u();
            show(&format!("{}", CharSet::range(a, b)))
        }
        "classid" => {
            let x = c.next();
            let cid = if x == "c" {
                ClassId::Complement
            } else {
                ClassId::Interval(us(x))
            };
            show(&format!("{}", cid))
        }
        "cover" => {
            let r = match c.next() {
                "covered" => CoverResult::CoveredBy(c.us()),
                "disjoint" => CoverResult::DisjointFromAll,
                "overlaps" => CoverResult::Overlaps,
                _ => panic!("bad cover"),
            };
            show(&format!("{}", r))
        }
        "partition" => {
            let n = c.us();
            let mut p = CharPartition::new();
            for _ in 0..n {
                let a = c.u();
                let b = c.u();
                p.push(a, b);
            }
            show(&format!("{}", p))
        }
        "automaton" => {
            let a = builder(&t[1..]).build_unchecked();
            show(&format!("{}", a))
        }
        "states" => {
            let a = builder(&t[1..]).build_unchecked();
            let v: Vec<String> = a.states().map(|s| format!("{}", s)).collect();
            show(&v.join(" "))
        }
        op => panic!("bad op {}", op),
    }
}
