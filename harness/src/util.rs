#![allow(dead_code)]
pub fn b(x: bool) -> &'static str {
    if x {
        "T"
    } else {
        "F"
    }
}
pub fn u(t: &str) -> u32 {
    t.parse::<u32>().expect("u32 token")
}
pub fn i(t: &str) -> i32 {
    t.parse::<i32>().expect("i32 token")
}
pub fn us(t: &str) -> usize {
    t.parse::<usize>().expect("usize token")
}
/// cursor over tokens
pub struct Cur<'a> {
    pub t: &'a [&'a str],
    pub p: usize,
}
impl<'a> Cur<'a> {
    pub fn new(t: &'a [&'a str]) -> Self {
        Cur { t, p: 0 }
    }
    pub fn next(&mut self) -> &'a str {
        let x = self.t[self.p];
        self.p += 1;
        x
    }
    pub fn u(&mut self) -> u32 {
        u(self.next())
    }
    pub fn i(&mut self) -> i32 {
        i(self.next())
    }
    pub fn us(&mut self) -> usize {
        us(self.next())
    }
    pub fn done(&self) -> bool {
        self.p >= self.t.len()
    }
    /// length-prefixed word
    pub fn word(&mut self) -> Vec<u32> {
        let n = self.us();
        (0..n).map(|_| self.u()).collect()
    }
}
