//! C20: CharSet operations.  CharSet::range has only a debug assertion; we only pass valid sets.
use crate::util::*;
use aws_smt_strings::character_sets::CharSet;
use std::cmp::Ordering;

fn cs(c: &mut Cur) -> CharSet {
    let a = c.u();
    let b = c.u();
    CharSet::range(a, b)
}
fn show(s: &CharSet) -> String {
    // start = pick(); end = start + size - 1 ; both are public API
    let a = s.pick();
    format!("{} {}", a, a + (s.size() - 1))
}
fn opt(o: Option<CharSet>) -> String {
    match o {
        None => "N".to_string(),
        Some(s) => format!("S {}", show(&s)),
    }
}

pub fn run(t: &[&str]) -> String {
    let mut c = Cur::new(t);
    let op = c.next();
    match op {
        "contains" => {
            let s = cs(&mut c);
            b(s.contains(c.u())).to_string()
        }
        "covers" => {
            let s = cs(&mut c);
            let o = cs(&mut c);
            b(s.covers(&o)).to_string()
        }
        "before" => {
            let s = cs(&mut c);
            b(s.is_before(c.u())).to_string()
        }
        "after" => {
            let s = cs(&mut c);
            b(s.is_after(c.u())).to_string()
        }
        "size" => format!("{}", cs(&mut c).size()),
        "singleton" => b(cs(&mut c).is_singleton()).to_string(),
        "alphabet" => b(cs(&mut c).is_alphabet()).to_string(),
        "pick" => format!("{}", cs(&mut c).pick()),
        "mk" => {
            // constructors: singleton x / all_chars
            let k = c.next();
            match k {
                "single" => show(&CharSet::singleton(c.u())),
                _ => show(&CharSet::all_chars()),
            }
        }
        "inter" => {
            let s = cs(&mut c);
            let o = cs(&mut c);
            opt(s.inter(&o))
        }
        "union" => {
            let s = cs(&mut c);
            let o = cs(&mut c);
            opt(s.union(&o))
        }
        "interlist" => {
            let n = c.us();
            let v: Vec<CharSet> = (0..n).map(|_| cs(&mut c)).collect();
            opt(CharSet::inter_list(&v))
        }
        "pcmp" => {
            let s = cs(&mut c);
            let o = cs(&mut c);
            let eq = s == o;
            let r = match s.partial_cmp(&o) {
                Some(Ordering::Equal) => "EQ",
                Some(Ordering::Less) => "LT",
                Some(Ordering::Greater) => "GT",
                None => "NONE",
            };
            // the comparison operators (PartialOrd's provided methods, unless overridden) and != as well
            format!("{} {} {}{}{}{}{}", r, b(eq), b(s < o), b(s <= o), b(s > o), b(s >= o), b(s != o))
        }
        _ => panic!("bad op"),
    }
}
