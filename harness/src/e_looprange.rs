//! C15: LoopRange operations (every public method of loop_ranges::LoopRange).
//! A range token pair is `lo hi` with hi a number or `inf`.  LoopRange::finite has only a debug
//! assertion lo <= hi; the generator only emits valid ranges.  Results are read through the
//! derived Debug form `LoopRange(lo, Some(hi))` / `LoopRange(lo, None)` and printed as `lo hi` /
//! `lo inf`.
use crate::util::*;
use aws_smt_strings::loop_ranges::LoopRange;

fn rg(c: &mut Cur) -> LoopRange {
    let a = c.u();
    let h = c.next();
    if h == "inf" {
        LoopRange::infinite(a)
    } else {
        LoopRange::finite(a, u(h))
    }
}

fn show(r: &LoopRange) -> String {
    let d = format!("{:?}", r);
    let inner = d
        .strip_prefix("LoopRange(")
        .and_then(|x| x.strip_suffix(')'))
        .expect("debug form");
    let mut it = inner.splitn(2, ", ");
    let lo = it.next().expect("debug form");
    let hi = it.next().expect("debug form");
    let hi = if hi == "None" {
        "inf"
    } else {
        hi.strip_prefix("Some(")
            .and_then(|x| x.strip_suffix(')'))
            .expect("debug form")
    };
    // the printed bounds must be plain decimal numbers
    lo.parse::<u32>().expect("debug lo");
    if hi != "inf" {
        hi.parse::<u32>().expect("debug hi");
    }
    format!("{} {}", lo, hi)
}

pub fn run(t: &[&str]) -> String {
    let mut c = Cur::new(t);
    let op = c.next();
    match op {
        // constructors
        "finite" => {
            let i = c.u();
            let j = c.u();
            show(&LoopRange::finite(i, j))
        }
        "infinite" => show(&LoopRange::infinite(c.u())),
        "opt" => show(&LoopRange::opt()),
        "star" => show(&LoopRange::star()),
        "plus" => show(&LoopRange::plus()),
        "point" => show(&LoopRange::point(c.u())),
        // is_finite is_infinite is_point is_zero is_one is_all start
        "preds" => {
            let r = rg(&mut c);
            format!(
                "{} {} {} {} {} {} {}",
                b(r.is_finite()),
                b(r.is_infinite()),
                b(r.is_point()),
                b(r.is_zero()),
                b(r.is_one()),
                b(r.is_all()),
                r.start()
            )
        }
        "contains" => {
            let r = rg(&mut c);
            b(r.contains(c.u())).to_string()
        }
        "includes" => {
            let r = rg(&mut c);
            let o = rg(&mut c);
            b(r.includes(&o)).to_string()
        }
        "eq" => {
            let r = rg(&mut c);
            let o = rg(&mut c);
            b(r == o).to_string()
        }
        "add" => {
            let r = rg(&mut c);
            let s = rg(&mut c);
            show(&r.add(&s))
        }
        "addpt" => {
            let r = rg(&mut c);
            show(&r.add_point(c.u()))
        }
        "scale" => {
            let r = rg(&mut c);
            show(&r.scale(c.u()))
        }
        "mul" => {
            let r = rg(&mut c);
            let s = rg(&mut c);
            show(&r.mul(&s))
        }
        "rmie" => {
            let r = rg(&mut c);
            let s = rg(&mut c);
            b(r.right_mul_is_exact(&s)).to_string()
        }
        // the crate-private non-panicking variants used by the regex constructors (through the hook)
        "cadd" => {
            let r = rg(&mut c);
            let s = rg(&mut c);
            match r.verif_checked_add(&s) {
                Some(x) => format!("S {}", show(&x)),
                None => "N".to_string(),
            }
        }
        "cmul" => {
            let r = rg(&mut c);
            let s = rg(&mut c);
            match r.verif_checked_mul(&s) {
                Some(x) => format!("S {}", show(&x)),
                None => "N".to_string(),
            }
        }
        "crmie" => {
            let r = rg(&mut c);
            let s = rg(&mut c);
            match r.verif_checked_right_mul_is_exact(&s) {
                Some(x) => format!("S {}", b(x)),
                None => "N".to_string(),
            }
        }
        "shift" => show(&rg(&mut c).shift()),
        _ => panic!("bad op"),
    }
}
