//! C09: lexicographic orders and int/code conversions.
//! Words are built with SmtString::from(&[u32]) (code points above MAX_CHAR become U+FFFD, as the
//! crate documents); results are printed as T/F, decimal i32, or a length-prefixed word.
//! A panic (documented for str_to_int when the value does not fit in i32) is caught by main.rs.
use crate::util::*;
use aws_smt_strings::smt_strings::*;

fn word(c: &mut Cur) -> SmtString {
    let v = c.word();
    SmtString::from(&v[..])
}
fn show(s: &SmtString) -> String {
    let mut r = format!("{}", s.len());
    for x in s.iter() {
        r.push_str(&format!(" {}", x));
    }
    r
}

pub fn run(t: &[&str]) -> String {
    let mut c = Cur::new(t);
    let op = c.next();
    match op {
        "lt" => {
            let v = word(&mut c);
            let w = word(&mut c);
            b(str_lt(&v, &w)).to_string()
        }
        "le" => {
            let v = word(&mut c);
            let w = word(&mut c);
            b(str_le(&v, &w)).to_string()
        }
        "is_digit" => b(str_is_digit(&word(&mut c))).to_string(),
        "to_code" => format!("{}", str_to_code(&word(&mut c))),
        "from_code" => show(&str_from_code(c.i())),
        "to_int" => format!("{}", str_to_int(&word(&mut c))),
        "from_int" => show(&str_from_int(c.i())),
        _ => panic!("bad op"),
    }
}
