//! canonical dump of an Automaton through its public API
use aws_smt_strings::automata::Automaton;
use aws_smt_strings::character_sets::{CharSet, ClassId};

pub fn cs_show(s: &CharSet) -> String {
    let a = s.pick();
    format!("{}-{}", a, a + (s.size() - 1))
}

pub fn dump_aut(a: &Automaton) -> String {
    let mut parts = Vec::new();
    for s in a.states() {
        let mut trs = Vec::new();
        for (i, r) in s.char_ranges().enumerate() {
            let t = a.class_next(s, ClassId::Interval(i));
            trs.push(format!("{}>{}", cs_show(r), t.id()));
        }
        let d = match s.default_successor() {
            Some(d) => format!("{}", d),
            None => "-".to_string(),
        };
        parts.push(format!(
            "s{}:{}:[{}]:d={}",
            s.id(),
            if s.is_final() { "F" } else { "N" },
            trs.join(","),
            d
        ));
    }
    format!(
        "n={} f={} i={} | {}",
        a.num_states(),
        a.num_final_states(),
        a.initial_state().id(),
        parts.join(" ")
    )
}

/// alphabet + every cell of the compiled successor table
pub fn table_str(a: &Automaton) -> String {
    let al = a.pick_alphabet();
    let t = a.compile_successors();
    let n = a.num_states();
    let mut cells = Vec::new();
    for s in 0..n {
        for i in 0..al.len() {
            cells.push(format!("{}", t.eval(s as u32, i as u32)));
        }
    }
    format!(
        "A={} T={}",
        al.iter().map(|c| c.to_string()).collect::<Vec<_>>().join(","),
        cells.join(",")
    )
}
