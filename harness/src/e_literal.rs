//! C08 (and the constructors of C17): string literals.
//! Texts and words are length-prefixed lists of code points; a text is turned into a Rust String
//! (the generator never emits surrogates or values above 0x10FFFF).
use crate::util::*;
use aws_smt_strings::smt_strings::*;
use std::convert::TryInto;

fn show(w: &[u32]) -> String {
    let mut s = format!("{}", w.len());
    for x in w {
        s.push(' ');
        s.push_str(&x.to_string());
    }
    s
}
fn text(c: &mut Cur) -> String {
    c.word()
        .into_iter()
        .map(|x| char::from_u32(x).expect("unicode scalar value"))
        .collect()
}
fn codes(s: &str) -> Vec<u32> {
    s.chars().map(|c| c as u32).collect()
}
fn word_of(s: &SmtString) -> Vec<u32> {
    s.iter().copied().collect()
}
fn flag(s: &SmtString) -> String {
    format!("{} {}", show(&word_of(s)), b(s.is_good()))
}
/// strip the outer quotes and undo the doubling of double quotes (left to right)
fn unquote(p: &str) -> String {
    let cs: Vec<char> = p.chars().collect();
    let body: &[char] = if cs.is_empty() { &cs } else { &cs[1..cs.len().max(2) - 1] };
    let mut out = String::new();
    let mut i = 0;
    while i < body.len() {
        if body[i] == '"' && i + 1 < body.len() && body[i + 1] == '"' {
            out.push('"');
            i += 2;
        } else {
            out.push(body[i]);
            i += 1;
        }
    }
    out
}
fn undouble(p: &str) -> String {
    unquote(&format!("\"{}\"", p))
}

pub fn run(t: &[&str]) -> String {
    let mut c = Cur::new(t);
    let op = c.next();
    match op {
        "parse" => {
            let s = text(&mut c);
            show(&word_of(&parse_smt_literal(&s)))
        }
        "display" => {
            let w = c.word();
            let s = SmtString::from(w.as_slice());
            show(&codes(&format!("{}", s)))
        }
        "roundtrip" => {
            let w = c.word();
            let s = SmtString::from(w.as_slice());
            let printed = format!("{}", s);
            show(&word_of(&parse_smt_literal(&unquote(&printed))))
        }
        "char_to_smt" => show(&codes(&char_to_smt(c.u()))),
        "smt_char_as_string" => show(&codes(&smt_char_as_string(c.u()))),
        "from_str" => {
            let s = text(&mut c);
            flag(&SmtString::from(s.as_str()))
        }
        "from_string" => {
            let s = text(&mut c);
            flag(&SmtString::from(s))
        }
        "from_char" => {
            let x = char::from_u32(c.u()).expect("unicode scalar value");
            flag(&SmtString::from(x))
        }
        "from_u32" => flag(&SmtString::from(c.u())),
        "from_slice" => {
            let w = c.word();
            flag(&SmtString::from(w.as_slice()))
        }
        "from_vec" => {
            let w = c.word();
            flag(&SmtString::from(w))
        }
        "from_array" => {
            // impl<const N: usize> From<&[u32; N]>
            let w = c.word();
            let s = match w.len() {
                0 => {
                    let a: [u32; 0] = [];
                    SmtString::from(&a)
                }
                1 => {
                    let a: [u32; 1] = w.clone().try_into().unwrap();
                    SmtString::from(&a)
                }
                2 => {
                    let a: [u32; 2] = w.clone().try_into().unwrap();
                    SmtString::from(&a)
                }
                3 => {
                    let a: [u32; 3] = w.clone().try_into().unwrap();
                    SmtString::from(&a)
                }
                4 => {
                    let a: [u32; 4] = w.clone().try_into().unwrap();
                    SmtString::from(&a)
                }
                7 => {
                    let a: [u32; 7] = w.clone().try_into().unwrap();
                    SmtString::from(&a)
                }
                _ => panic!("array size"),
            };
            flag(&s)
        }
        "accessors" => {
            // len, is_empty, is_good, is_unicode, char(i) for every i, iter, to_unicode_string
            let w = c.word();
            let s = SmtString::from(w.as_slice());
            let chars: Vec<u32> = (0..s.len()).map(|i| s.char(i)).collect();
            let it: Vec<u32> = s.iter().copied().collect();
            format!(
                "len={} empty={} good={} uni={} chars={} iter={} ustr={}",
                s.len(),
                b(s.is_empty()),
                b(s.is_good()),
                b(s.is_unicode()),
                show(&chars),
                show(&it),
                show(&codes(&s.to_unicode_string()))
            )
        }
        "charat" => {
            let w = c.word();
            let i = c.us();
            let s = SmtString::from(w.as_slice());
            s.char(i).to_string()
        }
        "good_char" => b(good_char(c.u())).to_string(),
        "good_string" => {
            let w = c.word();
            b(good_string(&w)).to_string()
        }
        "undouble" => {
            // harness self-test of the helper used by roundtrip
            let s = text(&mut c);
            show(&codes(&undouble(&s)))
        }
        _ => panic!("bad op"),
    }
}
