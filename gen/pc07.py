"""C07 -- hash-consing: identical constructions give the identical term, after any history."""
from regexgen import *
ENGINE = "regex"
TIMEOUT = 900
ASSUMPTIONS = ["sub_terms / leaves are determined by the term (C07c): the ids yielded must equal the model's, in order", "oracle: a re-issued construction must return the very same term (== and pointer identity); complement is an involution without fixed points; the language of a construction is judged by the reference matcher whatever history preceded it"]

CTOR = ("char", "range", "str", "concat", "union", "inter", "comp", "diff", "star", "plus", "opt", "pow", "loop", "loopinf", "concatl", "unionl", "interl", "smtrange", "diffl", "allchar", "all", "eps", "none")


def subterm_obs(rng, case, t):
    """sub_terms / leaves (ids in order) and RE::is_empty / num_deriv_classes / valid_class_id"""
    case.obs("subterms %d" % t)
    if rng.random() < 0.7:
        case.obs("leaves %d" % t)
    if rng.random() < 0.6:
        cids = ["c"] + [str(rng.choice([0, 1, 2, 3, 5, 9])) for _ in range(rng.randint(1, 3))]
        case.obs("reinfo %d %d %s" % (t, len(cids), " ".join(cids)))


def one_case(rng, tier, wrapped=False):
    al = Alphabet(rng)
    case = Case(wrapped)
    n_steps = rng.choice([5, 8, 12, 20]) if tier == "quick" else rng.choice([8, 15, 25, 40])
    pool = []
    issued = []          # (statement text, index) of constructor statements (to re-issue)
    for _ in range(n_steps):
        r = rng.random()
        before = len(case.stmts)
        if r < 0.55 or not pool:
            t = gen_term(rng, case, al, rng.choice([1, 2, 3]), pool)
            pool.append(t)
            # remember each constructor statement just emitted together with its index
        elif r < 0.70 and not wrapped:
            t = rng.choice(pool)
            c = rng.choice(al.probe_chars())
            pool.append(case.push("deriv %d %d" % (t, c)))
        elif r < 0.78 and not wrapped:
            case.obs("iter %d" % rng.choice(pool))
        elif r < 0.84 and not wrapped:
            case.obs("empty %d" % rng.choice(pool))
        elif r < 0.88 and not wrapped:
            case.obs("compile %d" % rng.choice(pool))
        elif r < 0.92:
            t = rng.choice(pool)
            c1 = case.push("comp %d" % t); c2 = case.push("comp %d" % c1)
            case.obs("same %d %d" % (t, c2)); case.obs("differ %d %d" % (t, c1))
        elif r < 0.96:
            subterm_obs(rng, case, rng.choice(pool))
        else:
            case.obs("mem %d %s" % (rng.choice(pool), word([al.rand_char(rng) for _ in range(rng.choice([0, 1, 2, 3]))])))
    # hash-consing seen through the sub-term iterators: terms in which the same sub-term occurs several
    # times (on both sides of a concatenation, under a loop and outside it, in two operands of a union)
    # must yield it once
    for _ in range(rng.choice([0, 1, 1, 2])):
        t = rng.choice(pool); u = rng.choice(pool)
        k = rng.randrange(4)
        if k == 0:
            x = case.push("concat %d %d" % (t, t))
        elif k == 1:
            a = case.push("concat %d %d" % (t, u)); b = case.push("concat %d %d" % (u, t))
            x = case.push("union %d %d" % (a, b))
        elif k == 2:
            a = case.push("star %d" % t); b = case.push("concat %d %d" % (a, t))
            x = case.push("inter %d %d" % (b, u))
        else:
            a = case.push("comp %d" % t); b = case.push("concat %d %d" % (a, u))
            x = case.push("union %d %d" % (b, t))
        pool.append(x)
        subterm_obs(rng, case, x)
    # binary set operations in both operand orders on the same pair (a memo keyed on an unordered pair
    # must not confuse a \\ b with b \\ a), directly and through the wrappers
    if len(pool) >= 2 and rng.random() < 0.5:
        t, u = rng.sample(pool, 2)
        d1 = case.push("diff %d %d" % (t, u)); d2 = case.push("diff %d %d" % (u, t))
        d3 = case.push("diff %d %d" % (t, u)); d4 = case.push("diff %d %d" % (u, t))
        case.obs("same %d %d" % (d1, d3)); case.obs("same %d %d" % (d2, d4))
        for d in (d1, d2):
            case.obs("memall %d %d %s" % (d, 3, word(al.letters[:3])))
        pool += [d1, d2]
    # re-issue constructions after the rest of the history
    idx = 0
    ctor_stmts = []
    for s in case.stmts:
        op = s.split()[0]
        yields = op in CTOR or op in ("deriv", "sderiv", "classder", "setder")
        if yields:
            if op in CTOR:
                ctor_stmts.append((s, idx))
            idx += 1
    rng.shuffle(ctor_stmts)
    for s, i in ctor_stmts[:6]:
        j = case.push(s)
        case.obs("same %d %d" % (i, j))
    # language of the last pool term (history-free)
    t = pool[-1]
    case.obs("memall %d %d %s" % (t, 3, word(al.letters[:3])))
    return case.line()


def generate(rng, tier):
    n = 2500 if tier == "quick" else 25000
    cases = []
    nw = 0
    for _ in range(n):
        w = rng.random() < 0.2
        c = one_case(rng, tier, w)
        if w and any(x in c for x in ("loopinf", " eps", "W eps", "char ", "range ")) and not all(("smtrange" in p or "range" not in p) and "char " not in p.replace("allchar", "") for p in c.split(" ; ")):
            c = c[2:]
            w = False
        elif w and (" eps" in c or c.startswith("W eps") or "loopinf" in c):
            c = c[2:]; w = False
        nw += w
        cases.append(c)
    # long histories: thousands of stored terms before a construction is re-issued (a table that is
    # trimmed, rehashed or re-created after many insertions must still find every earlier term)
    for nlong in ([3000] if tier == "quick" else [3000, 34000]):
        st = ["char 98"] + ["pow 0 %d" % k for k in range(2, nlong + 2)]
        st += ["char 98", "same 0 %d" % (nlong + 1), "pow 0 5", "same 4 %d" % (nlong + 2), "str 2 98 98", "pow 0 2", "same %d %d" % (nlong + 3, nlong + 4)]
        cases.append(" ; ".join(st))
    info = {"rule": "random histories of 5-40 statements on one manager (constructors with operands allocated in varied id order, interleaved derivatives, iter_derivatives, is_empty_re, compile that allocate ids and fill the cache), complement involution / no fixed point, sub_terms / leaves / is_empty / num_deriv_classes / valid_class_id on pool terms and on terms built to contain one sub-term several times (each sub-term must be yielded once, in breadth-first order), then up to 6 earlier constructor statements re-issued verbatim and compared by == and pointer identity with the original; final membership bits against the denotation; a share of cases goes through the SMT-LIB wrappers on a fresh thread-local manager",
            "distribution": {"cases": n, "via_wrappers": nw}}
    return cases, info


def nontrivial(case):
    return case.count("same") >= 2


def shrink(exe, case, impl, model, msg):
    import vlib
    return vlib.shrink_history(exe, ENGINE, case, "regex")


def search(rng, diff_cases, tier):
    out = []
    for c in diff_cases[:20]:
        out += intensify(c, rng)
    return out
