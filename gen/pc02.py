"""C02 -- compile / try_compile yield a total DFA accepting exactly the regex language."""
from regexgen import *
ENGINE = "regex"
TIMEOUT = 900
PARTIAL = []
ASSUMPTIONS = ["oracle: the automaton's acceptance of all words <= k over the critical alphabet is compared with the reference matcher on the program; totality: next on every state x probe character must not panic"]


def one_case(rng, tier):
    al = Alphabet(rng, boundary=True)
    case = Case()
    r = rng.random()
    if r < 0.8:
        t = gen_term(rng, case, al, rng.choice([2, 3, 4]), [])
    else:
        t = degenerate_term(rng, case, al)
    k = 3 if tier == "quick" else 4
    case.obs("compile %d" % t)
    case.obs("accepts %d %d %s" % (t, k, word(al.letters[:3] + [c for c in al.probe_chars() if c not in al.letters][:1])))
    case.obs("nextall %d %s" % (t, word(al.probe_chars()[:8] + [0, MAXC])))
    if rng.random() < 0.3:
        case.obs("trycompile %d 1000" % t)
    return case.line()


def generate(rng, tier):
    n = 4000 if tier == "quick" else 40000
    cases = [one_case(rng, tier) for _ in range(n)]
    info = {"rule": "random / degenerate terms (nullable-left concatenations, complements, intersections, nested loops); compiled automaton compared state by state with the model (numbering is deterministic), acceptance of all words <= k vs the SMT-LIB denotation, next() on every state x probe character incl. 0 and MAX (totality); non-trivial = at least one operator",
            "distribution": {"cases": n}}
    return cases, info


def nontrivial(case):
    return any(op in case for op in ("concat", "union", "inter", "comp", "diff", "star", "plus", "opt", "pow", "loop"))


def shrink(exe, case, impl, model, msg):
    import vlib
    return vlib.shrink_history(exe, ENGINE, case, "regex")


def search(rng, diff_cases, tier):
    out = []
    for c in diff_cases[:20]:
        out += intensify(c, rng)
    return out
