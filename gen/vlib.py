"""Shared machinery of the checks: proof side, builds, sharded runs, verdicts, evidence."""
import fcntl, json, os, random, re, subprocess, sys, time, hashlib

ROOT = os.path.dirname(os.path.dirname(os.path.abspath(__file__)))
COQ = os.path.join(ROOT, "coq")
BUILD = os.path.join(ROOT, "build")
REPO = os.environ.get("VERIF_REPO", "/repo")      # a scratch copy for mutation sweeps; checks use /repo
REPO_TAG = "" if REPO == "/repo" else "-" + hashlib.md5(REPO.encode()).hexdigest()[:8]
GUARD = "aws_smt_strings_verif"
NPROC = min(16, os.cpu_count() or 4)

ENV = dict(os.environ)
ENV.update({"CARGO_NET_OFFLINE": "true", "RUST_BACKTRACE": "0",
            "CARGO_TARGET_DIR": os.path.join(BUILD, "target" + REPO_TAG)})

ALLOWED_AXIOMS = set()   # no axiom is used; see DESIGN.md section 3


def sh(cmd, cwd=None, timeout=None, env=None, inp=None):
    p = subprocess.run(cmd, cwd=cwd, timeout=timeout, env=env or ENV, input=inp,
                       stdout=subprocess.PIPE, stderr=subprocess.STDOUT, text=True,
                       shell=isinstance(cmd, str))
    out = "\n".join(l for l in p.stdout.splitlines() if "conda.cli.condarc" not in l)
    return p.returncode, out


class Lock:
    def __init__(self, name):
        os.makedirs(BUILD, exist_ok=True)
        self.path = os.path.join(BUILD, "." + name + ".lock")
    def __enter__(self):
        self.f = open(self.path, "w")
        fcntl.flock(self.f, fcntl.LOCK_EX)
    def __exit__(self, *a):
        fcntl.flock(self.f, fcntl.LOCK_UN)
        self.f.close()


# ------------------------------------------------------------------ Coq side
def coq_makefile():
    mk = os.path.join(COQ, "Makefile")
    cp = os.path.join(COQ, "_CoqProject")
    if not os.path.exists(mk) or os.path.getmtime(mk) < os.path.getmtime(cp):
        rc, out = sh("coq_makefile -f _CoqProject -o Makefile", cwd=COQ)
        if rc != 0:
            raise RuntimeError("coq_makefile failed: " + out)


def coq_make(targets, timeout=3000):
    """full .vo build of the given targets (never -vos)"""
    with Lock("coq"):
        coq_makefile()
        rc, out = sh(["make", "-j%d" % NPROC] + targets, cwd=COQ, timeout=timeout)
    return rc, out


def strip_comments(src):
    out, depth, i = [], 0, 0
    while i < len(src):
        if src.startswith("(*", i):
            depth += 1; i += 2
        elif src.startswith("*)", i) and depth > 0:
            depth -= 1; i += 2
        else:
            if depth == 0:
                out.append(src[i])
            i += 1
    return "".join(out)


def dep_cone(vfile):
    """local .v files the given file transitively requires (by Require lines)"""
    seen, todo = [], [vfile]
    while todo:
        f = todo.pop()
        if f in seen:
            continue
        seen.append(f)
        src = strip_comments(open(os.path.join(COQ, f)).read())
        for m in re.finditer(r"Require\s+(?:Import\s+|Export\s+)?([^.]*(?:\.[A-Za-z_][^.\s]*)*)\.", src):
            for name in m.group(1).split():
                name = name.replace("SV.", "")
                cand = name.replace(".", "/") + ".v"
                if os.path.exists(os.path.join(COQ, cand)):
                    todo.append(cand)
    return seen

FORBIDDEN = re.compile(r"\b(Admitted|admit|Axiom|Axioms|Parameter|Parameters|Conjecture|Conjectures|"
                       r"Hypothesis|Hypotheses|Variable|Variables|Abort|bypass_check|native_compute)\b|"
                       r"Unset\s+Guard|Unset\s+Positivity|Unset\s+Universe|type-in-type|Admit\s+Obligations")


def scan_forbidden(files):
    bad = []
    for f in files:
        src = strip_comments(open(os.path.join(COQ, f)).read())
        # Variable/Hypothesis are fine inside a Section; we simply do not use them at all
        for m in FORBIDDEN.finditer(src):
            line = src.count("\n", 0, m.start()) + 1
            bad.append("%s:%d: %s" % (f, line, m.group(0)))
    return bad


def proof_side(pid, thorough=False):
    """all property files of pid: Properties/Cxx.v and the additional Properties/Cxx<letter>.v"""
    import glob
    files = sorted(os.path.basename(f) for f in glob.glob(os.path.join(COQ, "Properties", pid + "*.v"))
                   if re.fullmatch(pid + r"[a-z]?\.v", os.path.basename(f)))
    if not files:
        files = [pid + ".v"]
    # only files listed in _CoqProject count (a file still being written by hand is ignored)
    listed = open(os.path.join(COQ, "_CoqProject")).read().split()
    files = [f for f in files if "Properties/" + f in listed] or [pid + ".v"]
    agg = None
    for f in files:
        r = proof_side_file(pid, f[:-2], thorough)
        if agg is None:
            agg = r
        else:
            for k in ("obligations", "discharged", "wall_s"):
                agg[k] = agg.get(k, 0) + r.get(k, 0)
            for k in ("failures", "theorems", "axioms"):
                agg[k] = agg[k] + r[k]
            agg["files"] = sorted(set(agg["files"] + r["files"]))
    return agg


def _cone_hash(vfile):
    h = hashlib.sha256()
    for f in sorted(dep_cone(vfile)):
        h.update(f.encode()); h.update(open(os.path.join(COQ, f), "rb").read())
    h.update(open(os.path.join(COQ, "_CoqProject"), "rb").read())
    return h.hexdigest()


def proof_side_file(pid, stem, thorough=False):
    """cached by the content of the dependency cone (the Coq side does not depend on /repo): a cache hit
    requires the .vo to be present and every file of the cone to be byte-identical"""
    vfile = "Properties/%s.v" % stem
    cache = os.path.join(BUILD, "proof", stem + (".thorough" if thorough else "") + ".cache.json")
    try:
        if os.path.exists(os.path.join(COQ, vfile)) and os.path.exists(os.path.join(COQ, vfile + "o")):
            key = _cone_hash(vfile)
            if os.path.exists(cache):
                c = json.load(open(cache))
                if c.get("key") == key and not c["result"]["failures"]:
                    r = c["result"]; r["cached"] = True
                    return r
    except Exception:
        key = None
    r = proof_side_file_uncached(pid, stem, thorough)
    try:
        if not r["failures"]:
            os.makedirs(os.path.dirname(cache), exist_ok=True)
            json.dump({"key": _cone_hash(vfile), "result": r}, open(cache, "w"))
    except Exception:
        pass
    return r


def proof_side_file_uncached(pid, stem, thorough=False):
    """returns dict(obligations, discharged, failures[list of str], theorems[list], files[list], wall_s)"""
    t0 = time.time()
    vfile = "Properties/%s.v" % stem
    res = {"obligations": 0, "discharged": 0, "failures": [], "theorems": [], "files": [], "axioms": []}
    if not os.path.exists(os.path.join(COQ, vfile)):
        res["failures"].append("no property file " + vfile)
        return res
    src = strip_comments(open(os.path.join(COQ, vfile)).read())
    thms = re.findall(r"\bTheorem\s+([A-Za-z0-9_']+)", src)
    res["theorems"] = thms
    res["obligations"] = len(thms)
    # property files hold statements only: every proof is `exact <lemma>`
    for m in re.finditer(r"\bTheorem\s+([A-Za-z0-9_']+).*?\bProof\.(.*?)\b(Qed|Defined|Admitted)\.", src, re.S):
        body = m.group(2).strip()
        if not re.fullmatch(r"exact\s+[^.;]+(\.[A-Za-z_][A-Za-z0-9_']*)*\s*\.", body) or m.group(3) != "Qed":
            res["failures"].append("theorem %s: proof is not a single `exact`" % m.group(1))
    rc, out = coq_make([vfile[:-2] + ".vo"])
    if rc != 0:
        res["failures"].append("coq build of %so failed:\n%s" % (vfile, out[-3000:]))
        res["wall_s"] = time.time() - t0
        return res
    cone = dep_cone(vfile)
    res["files"] = cone
    bad = scan_forbidden(cone)
    for b in bad:
        res["failures"].append("forbidden construct " + b)
    # re-check the property file itself to read the Print Assumptions output
    os.makedirs(os.path.join(BUILD, "proof"), exist_ok=True)
    rc, out = sh(["coqc", "-R", COQ, "SV", os.path.join(COQ, vfile), "-o",
                  os.path.join(BUILD, "proof", stem + ".vo")], cwd=COQ, timeout=1800)
    if rc != 0:
        res["failures"].append("coqc of %s failed:\n%s" % (vfile, out[-3000:]))
        res["wall_s"] = time.time() - t0
        return res
    # parse assumption reports: one per Print Assumptions, in order
    reports, cur = [], None
    for line in out.splitlines():
        if line.startswith("Closed under the global context"):
            reports.append([]); cur = None
        elif line.startswith("Axioms:"):
            cur = []; reports.append(cur)
        elif cur is not None:
            m = re.match(r"^([A-Za-z_][A-Za-z0-9_.']*)\s*:", line)
            if m:
                cur.append(m.group(1))
            elif line and not line.startswith(" "):
                cur = None
    n_print = len(re.findall(r"\bPrint\s+Assumptions\s+([A-Za-z0-9_']+)", src))
    printed = re.findall(r"\bPrint\s+Assumptions\s+([A-Za-z0-9_']+)", src)
    missing = [t for t in thms if t not in printed]
    for t in missing:
        res["failures"].append("theorem %s has no Print Assumptions" % t)
    if len(reports) != n_print:
        res["failures"].append("expected %d assumption reports, coqc printed %d" % (n_print, len(reports)))
    ok = 0
    for name, rep in zip(printed, reports):
        extra = [a for a in rep if a not in ALLOWED_AXIOMS]
        res["axioms"] += rep
        if extra:
            res["failures"].append("theorem %s depends on axioms outside the allow-list: %s" % (name, ", ".join(extra)))
        elif name in thms:
            ok += 1
    res["discharged"] = ok if not res["failures"] else min(ok, max(0, len(thms) - 1))
    if thorough and not res["failures"]:
        rc, out = sh(["coqchk", "-silent", "-o", "-R", COQ, "SV", "SV.Properties." + stem], cwd=COQ, timeout=3000)
        res["coqchk"] = out[-1500:]
        if rc != 0:
            res["failures"].append("coqchk failed: " + out[-2000:])
        else:
            m = re.search(r"Axioms:\s*(.*?)(?:\n\S|\Z)", out, re.S)
            ax = m.group(1).strip() if m else ""
            if ax and "<none>" not in ax:
                res["failures"].append("coqchk reports axioms: " + ax)
    res["wall_s"] = time.time() - t0
    return res


# ------------------------------------------------------------------ translated (regenerated) model
# Properties whose Rust module is inside the subset of gen/rs2v.py: the translator regenerates the
# Gallina definitions from REPO/src on every run, and the link / transported theorems of
# coq/gendep/ are re-checked against them in a scratch directory (namespace SVG).
PROP_GEN = {
    "C14": {"modules": ["CompactTableGen"], "files": ["GenLinkCompactTable.v", "GenPropsCompactTable.v", "C14g.v"],
            "main_deps": ["AutomatonProofs.vo", "GenBase.vo"], "main_cone": ["AutomatonProofs.v", "GenBase.v"]},
    "C02": {"modules": ["AutomatonGen"], "files": ["GenLinkAutomaton.v", "GenPropsAutomaton.v", "C02g.v"],
            "main_deps": ["AutomatonProofs.vo", "GenBase.vo"], "main_cone": ["AutomatonProofs.v", "GenBase.v"]},
    "C03": {"modules": ["RegexNodeGen"], "files": ["GenLinkRegexNode.v", "GenPropsRegexNode.v", "C03g.v"],
            "main_deps": ["SemProofs.vo", "MergeProofs.vo", "GenBase.vo"], "main_cone": ["SemProofs.v", "MergeProofs.v", "GenBase.v"]},
    "C04": {"modules": ["FastSetGen", "BasePartGen"], "files": ["GenLinkFastSet.v", "GenPropsFastSet.v", "GenLinkBasePart.v", "GenPropsBasePart.v", "C04g.v"],
            "main_deps": ["Minimizer.vo", "HopPart.vo", "GenBase.vo"], "main_cone": ["Minimizer.v", "HopPart.v", "GenBase.v"]},
    "C19": {"modules": ["BfsQueueGen"], "files": ["GenLinkBfsQueue.v", "GenPropsBfsQueue.v", "C19g.v"],
            "main_deps": ["GenBase.vo"], "main_cone": ["GenBase.v"]},
    "C16": {"modules": ["InclusionGen"], "files": ["GenLinkInclusion.v", "GenPropsInclusion.v", "C16g.v"],
            "main_deps": ["InclusionProofs.vo", "GenBase.vo"], "main_cone": ["InclusionProofs.v", "GenBase.v"]},
    "C13": {"modules": ["BuilderGen"], "files": ["GenLinkBuilder.v", "GenPropsBuilder.v", "C13g.v"],
            "main_deps": ["BuilderProofs.vo", "GenBase.vo"], "main_cone": ["BuilderProofs.v", "GenBase.v"]},
    "C15": {"modules": ["LoopRangeGen"], "files": ["GenLinkLoopRange.v", "GenPropsLoopRange.v", "C15g.v"],
            "main_deps": ["LoopRangeProofs.vo", "GenBase.vo"], "main_cone": ["LoopRangeProofs.v", "GenBase.v"]},
    "C06": {"modules": ["StrSearchGen"], "files": ["GenLinkStrSearch.v", "GenPropsStrSearch.v", "C06g.v"],
            "main_deps": ["StrSearchProofs.vo", "GenBase.vo"], "main_cone": ["StrSearchProofs.v", "GenBase.v"]},
    "C08": {"modules": ["LiteralGen", "StrPrintGen"], "files": ["GenLinkLiteral.v", "GenPropsLiteral.v", "GenLinkStrPrint.v", "GenPropsStrPrint.v", "C08g.v"],
            "main_deps": ["LiteralProofs.vo", "GenBase.vo"], "main_cone": ["LiteralProofs.v", "GenBase.v"]},
    "C09": {"modules": ["StrConvGen"], "files": ["GenLinkStrConv.v", "GenPropsStrConv.v", "C09g.v"],
            "main_deps": ["StrConvProofs.vo", "Literal.vo", "GenBase.vo"], "main_cone": ["StrConvProofs.v", "Literal.v", "GenBase.v"]},
    "C17": {"modules": ["StrConvGen"], "files": ["GenLinkStrConv.v", "GenPropsStrConv.v", "C17g.v"],
            "main_deps": ["StrConvProofs.vo", "Literal.vo", "GenBase.vo"], "main_cone": ["StrConvProofs.v", "Literal.v", "GenBase.v"]},
    "C11": {"modules": ["PartitionGen"], "files": ["GenLinkPartition.v", "GenPropsPartition.v", "C11g.v"],
            "main_deps": ["PartitionProofs.vo", "MergeProofs.vo", "GenBase.vo"], "main_cone": ["PartitionProofs.v", "MergeProofs.v", "GenBase.v"]},
    "C12": {"modules": ["PartitionGen"], "files": ["GenLinkPartition.v", "GenPropsPartition.v", "C12g.v"],
            "main_deps": ["PartitionProofs.vo", "MergeProofs.vo", "GenBase.vo"], "main_cone": ["PartitionProofs.v", "MergeProofs.v", "GenBase.v"]},
    "C20": {"modules": ["CharSetGen"], "files": ["GenLinkCharSet.v", "GenPropsCharSet.v", "C20g.v"],
            "main_deps": ["CharSetProofs.vo", "GenBase.vo"], "main_cone": ["CharSetProofs.v", "GenBase.v"]},
}


# The hand-written model of a property also contains the helper modules it calls (character sets,
# partitions, loop ranges, string producers).  Where such a helper has a translated tie, that tie is a
# *supporting obligation* of the property: if the regenerated helper no longer equals the model, the
# model the property's theorems speak about is no longer the code.
_REGEX_SUPPORT = ["C20", "C11", "C12", "C15"]
SUPPORT_GEN = {
    "C01": _REGEX_SUPPORT + ["C03", "C16"], "C02": _REGEX_SUPPORT + ["C03", "C13", "C19"], "C03": _REGEX_SUPPORT, "C05": _REGEX_SUPPORT + ["C03", "C19"],
    "C07": _REGEX_SUPPORT + ["C03", "C19"], "C10": _REGEX_SUPPORT + ["C03"], "C16": _REGEX_SUPPORT + ["C03"], "C18": _REGEX_SUPPORT + ["C03"],
    "C19": _REGEX_SUPPORT + ["C03", "C13", "C02"],
    "C04": ["C20", "C11", "C12", "C14", "C13", "C02"], "C13": ["C20", "C11", "C12", "C02"], "C14": ["C20", "C11", "C12", "C13", "C02", "C19"],
    "C17": ["C08", "C06", "C09"], "C11": ["C20"], "C12": ["C20", "C11"],
}


def parse_assumption_reports(out):
    reports, cur = [], None
    for line in out.splitlines():
        if line.startswith("Closed under the global context"):
            reports.append([]); cur = None
        elif line.startswith("Axioms:"):
            cur = []; reports.append(cur)
        elif cur is not None:
            m = re.match(r"^([A-Za-z_][A-Za-z0-9_.']*)\s*:", line)
            if m:
                cur.append(m.group(1))
            elif line and not line.startswith(" "):
                cur = None
    return reports


def gen_proof_side(pid, thorough=False):
    """-> None if the property has no translated module; else dict(available, reason, obligations,
    discharged, failures, theorems, files, modules, functions, source_files)"""
    cfg = PROP_GEN.get(pid)
    if cfg is None:
        return None
    if os.environ.get("VERIF_NO_GEN") == "1" and REPO_TAG:
        return None            # self-tests only (scratch repositories): measure the correspondence alone
    import shutil
    sys.path.insert(0, os.path.join(ROOT, "gen"))
    import rs2v
    t0 = time.time()
    scratch = os.path.join(BUILD, "gen" + REPO_TAG, pid)
    res = {"available": False, "reason": "", "obligations": 0, "discharged": 0, "failures": [], "theorems": [],
           "files": [], "modules": cfg["modules"], "functions": {}, "translator": "gen/rs2v.py",
           "source_files": sorted(set(f for m in cfg["modules"] for f in rs2v.MODULES[m]["files"]))}
    texts = {}
    for m in cfg["modules"]:
        try:
            text, fns = rs2v.translate_module(m, REPO)
        except rs2v.Unsupported as ex:
            res["reason"] = "translation of %s: %s" % (m, ex)
            return res
        except Exception as ex:            # a source the tokenizer / parser cannot digest at all
            res["reason"] = "translation of %s: translator error %r" % (m, ex)
            return res
        texts[m + ".v"] = text
        res["functions"].update(fns)
    res["available"] = True
    for f in cfg["files"]:
        texts[f] = open(os.path.join(COQ, "gendep", f)).read()
    h = hashlib.sha256()
    for f in sorted(texts):
        h.update(f.encode()); h.update(texts[f].encode())
    for f in cfg["main_cone"]:
        for g in sorted(dep_cone(f)):
            h.update(g.encode()); h.update(open(os.path.join(COQ, g), "rb").read())
    key = h.hexdigest()
    cache = os.path.join(BUILD, "genproof", pid + "-" + key[:24] + (".thorough" if thorough else "") + ".json")
    if os.path.exists(cache):
        try:
            c = json.load(open(cache))
            c["cached"] = True
            return c
        except Exception:
            pass
    rc, out = coq_make(cfg["main_deps"])
    if rc != 0:
        res["failures"].append("coq build of %s failed:\n%s" % (cfg["main_deps"], out[-2000:]))
        return res
    with Lock("gen-" + pid + REPO_TAG):
        shutil.rmtree(scratch, ignore_errors=True)
        os.makedirs(scratch)
        for f, t in texts.items():
            open(os.path.join(scratch, f), "w").write(t)
        order = [m + ".v" for m in cfg["modules"]] + cfg["files"]
        prop = cfg["files"][-1]
        src = strip_comments(texts[prop])
        thms = re.findall(r"\bTheorem\s+([A-Za-z0-9_']+)", src)
        res["theorems"] = thms
        res["obligations"] = len(thms)
        for m in re.finditer(r"\bTheorem\s+([A-Za-z0-9_']+).*?\bProof\.(.*?)\b(Qed|Defined|Admitted)\.", src, re.S):
            body = m.group(2).strip()
            if not re.fullmatch(r"exact\s+[^.;]+(\.[A-Za-z_][A-Za-z0-9_']*)*\s*\.", body) or m.group(3) != "Qed":
                res["failures"].append("theorem %s: proof is not a single `exact`" % m.group(1))
        out_prop = ""
        for f in order:
            try:
                rc, out = sh(["coqc", "-R", COQ, "SV", "-Q", scratch, "SVG", os.path.join(scratch, f)], cwd=scratch, timeout=600)
            except subprocess.TimeoutExpired:
                rc, out = 124, "coqc did not finish within 600 s"
            if rc != 0:
                if f in [m + ".v" for m in cfg["modules"]]:
                    # the generated module itself is not accepted by Coq: a limitation of the translator's
                    # typing (e.g. a mix of integer types it does not resolve), not a statement about the code
                    res["available"] = False
                    res["reason"] = "the translation of %s is not well typed in Coq (translator limitation): %s" % (
                        f[:-2], " ".join(out[-400:].split()))
                    res["obligations"] = res["discharged"] = 0
                    res["theorems"] = []
                    return res
                res["failures"].append("coqc of %s (against the definitions regenerated from %s) failed:\n%s"
                                       % (f, ", ".join(res["source_files"]), out[-2500:]))
                break
            if f == prop:
                out_prop = out
        res["files"] = ["gendep/" + f if f in cfg["files"] else "<generated>/" + f for f in order]
        for f in order:
            for mm in FORBIDDEN.finditer(strip_comments(texts[f])):
                res["failures"].append("forbidden construct %s: %s" % (f, mm.group(0)))
        if not res["failures"]:
            reports = parse_assumption_reports(out_prop)
            printed = re.findall(r"\bPrint\s+Assumptions\s+([A-Za-z0-9_']+)", src)
            for t in thms:
                if t not in printed:
                    res["failures"].append("theorem %s has no Print Assumptions" % t)
            if len(reports) != len(printed):
                res["failures"].append("expected %d assumption reports, coqc printed %d" % (len(printed), len(reports)))
            ok = 0
            for name, rep in zip(printed, reports):
                extra = [a for a in rep if a not in ALLOWED_AXIOMS]
                if extra:
                    res["failures"].append("theorem %s depends on axioms outside the allow-list: %s" % (name, ", ".join(extra)))
                elif name in thms:
                    ok += 1
            res["discharged"] = ok if not res["failures"] else min(ok, max(0, len(thms) - 1))
        if thorough and not res["failures"]:
            rc, out = sh(["coqchk", "-silent", "-o", "-R", COQ, "SV", "-Q", scratch, "SVG", "SVG." + prop[:-2]],
                         cwd=scratch, timeout=3000)
            if rc != 0:
                res["failures"].append("coqchk failed: " + out[-2000:])
            else:
                m = re.search(r"Axioms:\s*(.*?)(?:\n\S|\Z)", out, re.S)
                ax = m.group(1).strip() if m else ""
                if ax and "<none>" not in ax:
                    res["failures"].append("coqchk reports axioms: " + ax)
    res["wall_s"] = round(time.time() - t0, 1)
    if not res["failures"]:
        os.makedirs(os.path.dirname(cache), exist_ok=True)
        json.dump(res, open(cache, "w"))
    return res


# ------------------------------------------------------------------ builds
def build_driver():
    with Lock("coq"):
        coq_makefile()
        rc, out = sh(["make", "-j%d" % NPROC, "Extract.vo"], cwd=COQ, timeout=3000)
        if rc != 0:
            return False, "extraction failed:\n" + out[-3000:]
        drv = os.path.join(BUILD, "driver")
        srcs = [os.path.join(COQ, "extracted", "model.ml")] + \
               [os.path.join(ROOT, "ocaml", f) for f in os.listdir(os.path.join(ROOT, "ocaml")) if f.endswith(".ml")]
        if not os.path.exists(drv) or any(os.path.getmtime(s) > os.path.getmtime(drv) for s in srcs):
            rc, out = sh([os.path.join(ROOT, "ocaml", "build.sh")], timeout=1800)
            if rc != 0:
                return False, "driver build failed:\n" + out[-3000:]
    return True, ""


def build_harness(profile="debug"):
    """rebuilds the harness against /repo's current working tree, hooks enabled"""
    env = dict(ENV)
    env["RUSTFLAGS"] = "--cfg " + GUARD
    cmd = ["cargo", "build", "--offline", "--quiet"] + (["--release"] if profile == "release" else [])
    hdir = os.path.join(ROOT, "harness")
    if REPO_TAG:
        # private copy of the harness whose path dependency points at the scratch repository
        import shutil
        hdir = os.path.join(BUILD, "harness" + REPO_TAG)
        os.makedirs(os.path.join(hdir, "src"), exist_ok=True)
        for f in os.listdir(os.path.join(ROOT, "harness", "src")):
            shutil.copy(os.path.join(ROOT, "harness", "src", f), os.path.join(hdir, "src", f))
        os.makedirs(os.path.join(hdir, ".cargo"), exist_ok=True)
        shutil.copy(os.path.join(ROOT, "harness", ".cargo", "config.toml"), os.path.join(hdir, ".cargo", "config.toml"))
        toml = open(os.path.join(ROOT, "harness", "Cargo.toml")).read().replace('path = "/repo"', 'path = "%s"' % REPO)
        open(os.path.join(hdir, "Cargo.toml"), "w").write(toml)
    with Lock("cargo" + REPO_TAG):
        rc, out = sh(cmd, cwd=hdir, env=env, timeout=1800)
    exe = os.path.join(BUILD, "target" + REPO_TAG, profile, "smtverif-harness")
    if rc != 0 or not os.path.exists(exe):
        return None, out[-4000:]
    return exe, ""


# ------------------------------------------------------------------ running cases
def _run_shard(args):
    exe, engine, cases, workdir, idx, timeout = args
    cf = os.path.join(workdir, "cases.%d.txt" % idx)
    rf = os.path.join(workdir, "impl.%d.txt" % idx)
    with open(cf, "w") as f:
        f.write("\n".join(cases) + "\n")
    impl = []
    start = 0
    n_timeouts = 0
    # the harness flushes one line per case; a hang or abort is pinned to the next case.  A crate that
    # hangs on many cases must not stall the verdict: after the first timeout the budget per restart is
    # one minute, after three timeouts the remaining cases of the shard are not run (reported TIMEOUT)
    while start < len(cases):
        if n_timeouts >= 3:
            impl += ["TIMEOUT"] * (len(cases) - start)
            break
        sub = os.path.join(workdir, "cases.%d.%d.txt" % (idx, start))
        with open(sub, "w") as f:
            f.write("\n".join(cases[start:]) + "\n")
        try:
            p = subprocess.run([exe, engine, sub], stdout=subprocess.PIPE, stderr=subprocess.DEVNULL,
                               timeout=(timeout if n_timeouts == 0 else min(timeout, 60)), env=ENV, text=True)
            lines = p.stdout.splitlines()
            crashed = p.returncode != 0
            tag = "ABORT"
        except subprocess.TimeoutExpired as e:
            lines = (e.stdout or b"").decode() if isinstance(e.stdout, bytes) else (e.stdout or "")
            lines = lines.splitlines()
            crashed = True
            tag = "TIMEOUT"
            n_timeouts += 1
        os.unlink(sub)
        got = lines[:len(cases) - start]
        impl += got
        start += len(got)
        if start < len(cases):
            if not crashed and len(got) == 0:
                impl.append("MISSING"); start += 1
            else:
                impl.append(tag); start += 1
    with open(rf, "w") as f:
        f.write("\n".join(impl) + "\n")
    p = subprocess.run([os.path.join(BUILD, "driver"), engine, cf, rf], stdout=subprocess.PIPE,
                       stderr=subprocess.PIPE, text=True, env=ENV)
    ver = p.stdout.splitlines()
    res = []
    for i, c in enumerate(cases):
        if i < len(ver):
            parts = ver[i].split("\t")
            while len(parts) < 3:
                parts.append("")
            res.append((c, impl[i], parts[0], parts[1], parts[2]))
        else:
            res.append((c, impl[i], "BAD", "DRIVER-FAILED", (p.stderr or "")[-300:]))
    return res


def run_cases(exe, engine, cases, tag, timeout=600):
    """returns list of (case, impl, status, model, msg) in order"""
    from concurrent.futures import ThreadPoolExecutor
    workdir = os.path.join(BUILD, "run" + REPO_TAG, tag)
    os.makedirs(workdir, exist_ok=True)
    n = len(cases)
    if n == 0:
        return []
    nshards = max(1, min(NPROC, n // 50 + 1))
    size = (n + nshards - 1) // nshards
    shards = [cases[i:i + size] for i in range(0, n, size)]
    with ThreadPoolExecutor(max_workers=NPROC) as ex:
        outs = list(ex.map(_run_shard, [(exe, engine, s, workdir, i, timeout) for i, s in enumerate(shards)]))
    return [r for o in outs for r in o]


# ------------------------------------------------------------------ known findings
def load_known():
    p = os.path.join(ROOT, "known_findings.json")
    if not os.path.exists(p):
        return []
    return json.load(open(p)).get("findings", [])


def match_known(pid, engine, case, impl):
    """a known finding is identified by the specific failing case (and what the code answers)"""
    for k in load_known():
        if k.get("status") != "known" or k.get("property") != pid:
            continue
        m = k.get("match", {})
        if m.get("engine") not in (None, engine):
            continue
        if "case" in m and m["case"] != case:
            continue
        if "case_regex" in m and not re.fullmatch(m["case_regex"], case):
            continue
        if "impl" in m and m["impl"] != impl:
            continue
        return k
    return None


# ------------------------------------------------------------------ evidence / verdict
def write_evidence(pid, tier, seed, coverage, assumptions, wall, violations):
    if REPO_TAG:            # runs against a scratch repository never touch the evidence
        return
    os.makedirs(os.path.join(ROOT, "evidence"), exist_ok=True)
    ev = {"property_id": pid, "tier": tier, "seed": seed, "level": "proof", "coverage": coverage,
          "assumptions": assumptions, "wall_s": round(wall, 2), "violations": violations}
    with open(os.path.join(ROOT, "evidence", pid + ".json"), "w") as f:
        json.dump(ev, f, indent=1)
        f.write("\n")


def write_replay(pid, seed, n, obj):
    d = os.path.join(ROOT, "replays") if not REPO_TAG else os.path.join(BUILD, "replays" + REPO_TAG)
    os.makedirs(d, exist_ok=True)
    p = os.path.join(d, "%s-%s-%d.json" % (pid, seed, n))
    with open(p, "w") as f:
        json.dump(obj, f, indent=1)
        f.write("\n")
    return p


TRUSTED_BASE = [
    "Coq 8.16.1 kernel (coqc; coqchk in the thorough tier); vm_compute only for finite sweeps; no native_compute",
    "no axioms: every property theorem prints 'Closed under the global context'",
    "hand-written Gallina model of the Rust code (coq/*.v), tied to /repo by the correspondence check of this run",
    "extraction with ExtrOcamlBasic only (bool, option, unit, list, prod, sumbool to OCaml natives); no Extract Constant of our own",
    "OCaml driver (ocaml/*.ml), Rust harness (harness/), Python generators (gen/), rustc/cargo, ocamlfind ocamlopt",
]


# ------------------------------------------------------------------ shrinking of `;`-separated histories
REGEX_YIELD = ("none", "eps", "all", "allchar", "splus", "char", "range", "charset", "smtrange", "str", "concat",
               "concatl", "union", "unionl", "inter", "interl", "comp", "diff", "diffl", "star", "plus", "opt",
               "pow", "loop", "loopinf", "deriv", "sderiv", "classder", "setder")


def shrink_history(exe, engine, case, kind, budget=80):
    """greedy statement-level shrinking; keeps the case BAD.  kind: "regex" (statements that yield a value
    are replaced by `none` so that indices stay valid) or "automata" (statements can simply be dropped)."""
    prefix = ""
    body = case
    if case.startswith("W "):
        prefix, body = "W ", case[2:]
    stmts = body.split(" ; ")

    def run(st):
        c = prefix + " ; ".join(st)
        r = run_cases(exe, engine, [c], "shrink")
        return r[0]

    best = run(stmts)
    if best[2] != "BAD":
        return case, best[1], best[3], best[4]
    tries = 0
    # 1. cut everything after the failing statement (message says "statement k")
    m = re.search(r"statement (\d+)", best[4] or "")
    if m and int(m.group(1)) + 1 < len(stmts):
        cand = stmts[:int(m.group(1)) + 1]
        r = run(cand); tries += 1
        if r[2] == "BAD":
            stmts, best = cand, r
    # 2. drop / neutralise statements from the back
    i = len(stmts) - 2
    while i >= 0 and tries < budget:
        op = stmts[i].split()[0] if stmts[i].split() else ""
        if kind == "regex" and op in REGEX_YIELD:
            cand = stmts[:i] + ["none"] + stmts[i + 1:] if stmts[i] != "none" else None
        elif kind == "automata" and op in ("new", "build", "buildu"):
            cand = None
        else:
            cand = stmts[:i] + stmts[i + 1:]
        if cand is not None:
            r = run(cand); tries += 1
            if r[2] == "BAD":
                stmts, best = cand, r
        i -= 1
    return prefix + " ; ".join(stmts), best[1], best[3], best[4]


# ------------------------------------------------------------------ baseline of the crate's sources
FILE_PROPS = {
    "character_sets.rs": ["C20", "C11", "C12", "C03", "C13", "C14", "C02", "C01", "C19", "C05"],
    "loop_ranges.rs": ["C15", "C01", "C03", "C19"],
    "smt_strings.rs": ["C06", "C09", "C08", "C17"],
    "matcher.rs": ["C06", "C10"],
    "regular_expressions.rs": ["C01", "C03", "C16", "C07", "C05", "C18", "C19", "C02", "C10", "C17"],
    "smt_regular_expressions.rs": ["C10", "C07", "C01", "C17"],
    "store.rs": ["C07", "C01"],
    "bfs_queues.rs": ["C19", "C02", "C14", "C05", "C07"],
    "labeled_queues.rs": ["C05"],
    "automata.rs": ["C13", "C14", "C04", "C02"],
    "compact_tables.rs": ["C14", "C04"],
    "minimizer.rs": ["C04"],
    "partitions.rs": ["C04"],
    "fast_sets.rs": ["C04"],
    "errors.rs": [], "lib.rs": [],
}
PROP_FILES = {}
for _f, _ps in FILE_PROPS.items():
    for _p in _ps:
        PROP_FILES.setdefault(_p, []).append(_f)


def repo_hashes():
    d = os.path.join(REPO, "src")
    out = {}
    for f in sorted(os.listdir(d)):
        if f.endswith(".rs"):
            out[f] = hashlib.sha256(open(os.path.join(d, f), "rb").read()).hexdigest()
    return out


def changed_repo_files():
    """source files whose content differs from gen/baseline_hashes.json (written by bin/mkbaseline)"""
    p = os.path.join(ROOT, "gen", "baseline_hashes.json")
    if not os.path.exists(p):
        return set()
    base = json.load(open(p)).get("files", {})
    cur = repo_hashes()
    return set(f for f in set(base) | set(cur) if base.get(f) != cur.get(f))
