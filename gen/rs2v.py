#!/usr/bin/env python3
"""rs2v.py -- translator from a subset of Rust to Gallina (the *regenerated* part of the model).

    python3 gen/rs2v.py [--repo /repo] [--out coq/Gen] [module ...]

For every module of MODULES the listed functions of /repo/src/<file> are parsed (own tokenizer and
recursive-descent parser, no external tools) and emitted as Gallina definitions over the conventions
of Base.v: u32 / usize values are N, a computation that can panic has type `option T` (None = panic).
Arithmetic is *checked* (`a + b` on u32 is `add32 a b`: None when the result does not fit; `a - b` is
`sub32`: None on underflow) - i.e. the debug-build reading; the link theorems (coq/GenLink*.v) show
that on valid inputs no operator of the translated code overflows, so the release build computes the
same values.  `debug_assert!` is skipped (not behaviour in release builds; DESIGN.md section 3).

A function is emitted as a *pure* definition (type T) when nothing in its body can panic, otherwise
as a definition of type `option T`.  Rust `Option<T>` values are Coq `option T`; `e?` returns
`Some None` from the enclosing function (no panic, value None).

The translator raises Unsupported on anything outside the subset; the caller then declares the
translated tie of that module unavailable (the hand-written model + correspondence remain)."""
import json, os, re, sys

ROOT = os.path.dirname(os.path.dirname(os.path.abspath(__file__)))


class Unsupported(Exception):
    pass


# ------------------------------------------------------------------------------------ tokenizer
PUNCT = ["<<=", ">>=", "...", "..=", "::", "->", "=>", "==", "!=", "<=", ">=", "&&", "||", "+=", "-=", "*=", "/=",
         "%=", "^=", "&=", "|=", "<<", ">>", ".."]


def tokenize(src):
    toks = []
    i, n, line = 0, len(src), 1
    while i < n:
        c = src[i]
        if c == "\n":
            line += 1; i += 1; continue
        if c.isspace():
            i += 1; continue
        if src.startswith("//", i):
            j = src.find("\n", i)
            i = n if j < 0 else j
            continue
        if src.startswith("/*", i):
            depth, j = 1, i + 2
            while j < n and depth:
                if src.startswith("/*", j):
                    depth += 1; j += 2
                elif src.startswith("*/", j):
                    depth -= 1; j += 2
                else:
                    if src[j] == "\n":
                        line += 1
                    j += 1
            i = j
            continue
        if c.isalpha() or c == "_":
            j = i
            while j < n and (src[j].isalnum() or src[j] == "_"):
                j += 1
            w = src[i:j]
            if w in ("r", "b", "br") and j < n and src[j] in "\"#":      # raw / byte strings
                k = j
                hashes = 0
                while k < n and src[k] == "#":
                    hashes += 1; k += 1
                if k < n and src[k] == '"':
                    endm = '"' + "#" * hashes
                    e = src.find(endm, k + 1)
                    if "r" not in w:
                        e = k + 1
                        while src[e] != '"':
                            e += 2 if src[e] == "\\" else 1
                    line += src.count("\n", i, e)
                    toks.append(("str", src[i:e + len(endm)], line)); i = e + len(endm); continue
            toks.append(("id", w, line)); i = j; continue
        if c.isdigit():
            j = i
            if src.startswith("0x", i) or src.startswith("0b", i) or src.startswith("0o", i):
                j = i + 2
            while j < n and (src[j].isalnum() or src[j] == "_"):
                j += 1
            toks.append(("int", src[i:j], line)); i = j; continue
        if c == '"':
            j = i + 1
            while src[j] != '"':
                if src[j] == "\n":
                    line += 1
                j += 2 if src[j] == "\\" else 1
            toks.append(("str", src[i:j + 1], line)); i = j + 1; continue
        if c == "'":
            # char literal or lifetime
            m = re.match(r"'(\\u\{[0-9a-fA-F]+\}|\\x[0-9a-fA-F]{2}|\\.|[^\\'])'", src[i:])
            if m:
                toks.append(("char", m.group(0), line)); i += len(m.group(0)); continue
            j = i + 1
            while j < n and (src[j].isalnum() or src[j] == "_"):
                j += 1
            toks.append(("life", src[i:j], line)); i = j; continue
        for p in PUNCT:
            if src.startswith(p, i):
                toks.append(("punct", p, line)); i += len(p); break
        else:
            toks.append(("punct", c, line)); i += 1
    toks.append(("eof", "", line))
    return toks


def parse_int(text):
    t = text.replace("_", "")
    m = re.match(r"^(0x[0-9a-fA-F]+|0b[01]+|0o[0-7]+|[0-9]+)(u8|u16|u32|u64|usize|i8|i16|i32|i64|isize)?$", t)
    if not m:
        raise Unsupported("integer literal " + text)
    return int(m.group(1), 0), m.group(2)


def char_value(text):
    body = text[1:-1]
    if body.startswith("\\u{"):
        return int(body[3:-1], 16)
    if body.startswith("\\x"):
        return int(body[2:], 16)
    if body.startswith("\\"):
        return {"n": 10, "r": 13, "t": 9, "\\": 92, "0": 0, "'": 39, '"': 34}[body[1]]
    return ord(body)


# ------------------------------------------------------------------------------------ parser
class Parser:
    def __init__(self, toks, pos=0):
        self.t = toks
        self.p = pos

    def peek(self, k=0):
        return self.t[min(self.p + k, len(self.t) - 1)]

    def at(self, text, k=0):
        tk = self.peek(k)
        return tk[0] in ("punct", "id") and tk[1] == text

    def next(self):
        tk = self.t[self.p]
        self.p += 1
        return tk

    def expect(self, text):
        tk = self.next()
        if tk[1] != text or tk[0] not in ("punct", "id"):
            raise Unsupported("line %d: expected `%s`, found `%s`" % (tk[2], text, tk[1]))
        return tk

    def accept(self, text):
        if self.at(text):
            self.p += 1
            return True
        return False

    def ident(self):
        tk = self.next()
        if tk[0] != "id":
            raise Unsupported("line %d: identifier expected, found `%s`" % (tk[2], tk[1]))
        return tk[1]

    # ---- types
    def ty(self):
        if self.accept("&"):
            if self.peek()[0] == "life":
                self.next()
            self.accept("mut")
            return self.ty()            # references are transparent (Copy values / read-only borrows)
        if self.accept("("):
            items = []
            while not self.at(")"):
                items.append(self.ty())
                if not self.accept(","):
                    break
            self.expect(")")
            if not items:
                return ("ty", "unit", [])
            return ("tup", items)
        if self.accept("["):
            inner = self.ty()
            if self.accept(";"):
                self.expr()
            self.expect("]")
            return ("ty", "slice", [inner])
        if self.at("impl") or self.at("dyn"):
            raise Unsupported("impl/dyn type")
        name = self.ident()
        while self.accept("::"):
            name = self.ident()
        args = []
        if self.accept("<"):
            while not self.at(">"):
                if self.peek()[0] == "life":
                    self.next()
                else:
                    args.append(self.ty())
                if not self.accept(","):
                    break
            self.expect(">")
        return ("ty", name, args)

    # ---- patterns
    def pattern(self):
        alts = [self.pattern1()]
        while self.accept("|"):
            alts.append(self.pattern1())
        return alts[0] if len(alts) == 1 else ("por", alts)

    def pattern1(self):
        tk = self.peek()
        if self.accept("&"):
            self.accept("mut")
            return self.pattern1()
        if self.accept("_"):
            return ("pwild",)
        if self.accept("("):
            items = []
            while not self.at(")"):
                items.append(self.pattern())
                if not self.accept(","):
                    break
            self.expect(")")
            return items[0] if len(items) == 1 else ("ptuple", items)
        if tk[0] == "int":
            self.next()
            v = ("plit", parse_int(tk[1])[0])
            if self.at("..=") or self.at(".."):
                raise Unsupported("range pattern")
            return v
        if tk[0] == "char":
            self.next()
            return ("plit", char_value(tk[1]))
        if self.at("true") or self.at("false"):
            return ("pbool", self.next()[1] == "true")
        if tk[0] == "id":
            if tk[1] in ("ref", "mut"):
                self.next()
                self.accept("mut")
                return ("pbind", self.ident())
            path = [self.ident()]
            while self.accept("::"):
                path.append(self.ident())
            if self.accept("("):
                items = []
                while not self.at(")"):
                    items.append(self.pattern())
                    if not self.accept(","):
                        break
                self.expect(")")
                return ("pts", path, items)
            if self.at("{"):
                self.next()
                fields, rest = [], False
                while not self.at("}"):
                    if self.accept(".."):
                        rest = True
                        break
                    f = self.ident()
                    if self.accept(":"):
                        fields.append((f, self.pattern()))
                    else:
                        fields.append((f, ("pbind", f)))
                    if not self.accept(","):
                        break
                self.expect("}")
                return ("pstruct", path, fields, rest)
            if len(path) == 1 and (path[0][0].islower() or path[0][0] == "_"):
                if self.accept("@"):
                    raise Unsupported("@ pattern")
                return ("pbind", path[0])
            return ("ppath", path)
        raise Unsupported("line %d: pattern `%s`" % (tk[2], tk[1]))

    # ---- expressions
    BINPREC = [("||",), ("&&",), ("==", "!=", "<", ">", "<=", ">="), ("|",), ("^",), ("&",), ("<<", ">>"),
               ("+", "-"), ("*", "/", "%")]

    def expr(self, nostruct=False):
        return self.assign(nostruct)

    def assign(self, nostruct):
        lhs = self.range_expr(nostruct)
        tk = self.peek()
        if tk[0] == "punct" and tk[1] in ("=", "+=", "-=", "*=", "/=", "%=", "|=", "&=", "^=", "<<=", ">>="):
            self.next()
            rhs = self.assign(nostruct)
            return ("assign", tk[1], lhs, rhs)
        return lhs

    def range_expr(self, nostruct):
        if self.at("..") or self.at("..="):
            incl = self.next()[1] == "..="
            hi = None
            if not (self.at(")") or self.at("]") or self.at("{") or self.at(";") or self.at(",")):
                hi = self.binary(0, nostruct)
            return ("range", None, hi, incl)
        lo = self.binary(0, nostruct)
        if self.at("..") or self.at("..="):
            incl = self.next()[1] == "..="
            hi = None
            if not (self.at(")") or self.at("]") or self.at("{") or self.at(";") or self.at(",")):
                hi = self.binary(0, nostruct)
            return ("range", lo, hi, incl)
        return lo

    def binary(self, level, nostruct):
        if level == len(self.BINPREC):
            return self.cast(nostruct)
        lhs = self.binary(level + 1, nostruct)
        while True:
            tk = self.peek()
            if tk[0] == "punct" and tk[1] in self.BINPREC[level]:
                # `|` and `&` directly followed by `=`/`|`... are tokenized separately; closures are not supported
                self.next()
                rhs = self.binary(level + 1, nostruct)
                lhs = ("binary", tk[1], lhs, rhs)
                if level == 2:
                    pass
            else:
                return lhs

    def cast(self, nostruct):
        e = self.unary(nostruct)
        while self.accept("as"):
            e = ("cast", e, self.ty())
        return e

    def unary(self, nostruct):
        if self.accept("!"):
            return ("unary", "!", self.unary(nostruct))
        if self.accept("-"):
            return ("unary", "-", self.unary(nostruct))
        if self.accept("*"):
            return self.unary(nostruct)                   # dereference: transparent
        if self.accept("&"):
            self.accept("mut")
            return self.unary(nostruct)                   # borrow: transparent
        if self.accept("&&"):
            self.accept("mut")
            return self.unary(nostruct)
        return self.postfix(nostruct)

    def args(self):
        self.expect("(")
        out = []
        while not self.at(")"):
            out.append(self.expr())
            if not self.accept(","):
                break
        self.expect(")")
        return out

    def postfix(self, nostruct):
        e = self.primary(nostruct)
        while True:
            if self.at("?"):
                self.next()
                e = ("try", e)
            elif self.at("."):
                tk = self.peek(1)
                if tk[0] == "int":
                    self.next(); self.next()
                    e = ("field", e, tk[1])
                elif tk[0] == "id":
                    self.next(); self.next()
                    if self.at("::"):
                        raise Unsupported("turbofish")
                    if self.at("("):
                        e = ("mcall", e, tk[1], self.args())
                    else:
                        e = ("field", e, tk[1])
                else:
                    raise Unsupported("line %d: after `.`" % tk[2])
            elif self.at("("):
                e = ("call", e, self.args())
            elif self.at("["):
                self.next()
                idx = self.expr()
                self.expect("]")
                e = ("index", e, idx)
            else:
                return e

    def block(self):
        self.expect("{")
        stmts, tail = [], None
        while not self.at("}"):
            if self.accept(";"):
                continue
            if self.at("let"):
                self.next()
                pat = self.pattern()
                ty = None
                if self.accept(":"):
                    ty = self.ty()
                init = None
                if self.accept("="):
                    init = self.expr()
                if self.at("else"):
                    raise Unsupported("let-else")
                self.expect(";")
                stmts.append(("let", pat, ty, init))
                continue
            if self.at("fn") or self.at("use") or self.at("struct") or self.at("const") or self.at("#"):
                raise Unsupported("line %d: nested item" % self.peek()[2])
            e = self.expr()
            if self.accept(";"):
                stmts.append(("expr", e))
            elif self.at("}"):
                tail = e
            elif e[0] in ("if", "iflet", "match", "while", "for", "loop", "block"):
                stmts.append(("expr", e))
            else:
                raise Unsupported("line %d: `;` expected, found `%s`" % (self.peek()[2], self.peek()[1]))
        self.expect("}")
        return ("block", stmts, tail)

    def primary(self, nostruct):
        tk = self.peek()
        if tk[0] == "int":
            self.next()
            v, suf = parse_int(tk[1])
            return ("int", v, suf)
        if tk[0] == "char":
            self.next()
            return ("charlit", char_value(tk[1]))
        if tk[0] == "str":
            self.next()
            return ("strlit", tk[1])
        if self.at("("):
            self.next()
            items = []
            trailing = False
            while not self.at(")"):
                items.append(self.expr())
                trailing = False
                if not self.accept(","):
                    break
                trailing = True
            self.expect(")")
            if len(items) == 1 and not trailing:
                return items[0]
            return ("tuple", items)
        if self.at("{"):
            return self.block()
        if self.at("if"):
            self.next()
            if self.accept("let"):
                pat = self.pattern()
                self.expect("=")
                scrut = self.expr(nostruct=True)
                then = self.block()
                els = None
                if self.accept("else"):
                    els = self.primary(False) if self.at("if") else self.block()
                return ("iflet", pat, scrut, then, els)
            cond = self.expr(nostruct=True)
            then = self.block()
            els = None
            if self.accept("else"):
                els = self.primary(False) if self.at("if") else self.block()
            return ("if", cond, then, els)
        if self.at("match"):
            self.next()
            scrut = self.expr(nostruct=True)
            self.expect("{")
            arms = []
            while not self.at("}"):
                pat = self.pattern()
                guard = None
                if self.accept("if"):
                    guard = self.expr(nostruct=True)
                self.expect("=>")
                body = self.expr()
                arms.append((pat, guard, body))
                if not self.accept(","):
                    if body[0] not in ("block", "if", "match", "iflet") :
                        break
            self.expect("}")
            return ("match", scrut, arms)
        if self.at("while"):
            self.next()
            if self.at("let"):
                raise Unsupported("while let")
            cond = self.expr(nostruct=True)
            return ("while", cond, self.block())
        if self.at("loop"):
            self.next()
            return ("loop", self.block())
        if self.at("for"):
            self.next()
            pat = self.pattern()
            self.expect("in")
            it = self.expr(nostruct=True)
            return ("for", pat, it, self.block())
        if self.at("return"):
            self.next()
            if self.at(";") or self.at("}") or self.at(","):
                return ("return", None)
            return ("return", self.expr())
        if self.at("break"):
            self.next()
            if not (self.at(";") or self.at("}") or self.at(",")):
                raise Unsupported("break with value / label")
            return ("break",)
        if self.at("continue"):
            self.next()
            return ("continue",)
        if self.at("true") or self.at("false"):
            return ("bool", self.next()[1] == "true")
        if self.at("|") or self.at("||") or self.at("move"):
            raise Unsupported("line %d: closure" % tk[2])
        if tk[0] == "id":
            path = [self.ident()]
            while self.at("::"):
                self.next()
                if self.at("<"):
                    raise Unsupported("turbofish")
                path.append(self.ident())
            if self.at("!"):
                self.next()
                return self.macro(path[-1])
            if self.at("{") and not nostruct and path[-1][0].isupper():
                self.next()
                fields = []
                while not self.at("}"):
                    if self.at(".."):
                        raise Unsupported("struct update syntax")
                    f = self.ident()
                    if self.accept(":"):
                        fields.append((f, self.expr()))
                    else:
                        fields.append((f, ("path", [f])))
                    if not self.accept(","):
                        break
                self.expect("}")
                return ("struct", path, fields)
            return ("path", path)
        raise Unsupported("line %d: unexpected `%s`" % (tk[2], tk[1]))

    def macro(self, name):
        open_tk = self.next()
        close = {"(": ")", "[": "]", "{": "}"}[open_tk[1]]
        if name == "matches":
            e = self.expr()
            self.expect(",")
            pat = self.pattern()
            guard = None
            if self.accept("if"):
                guard = self.expr()
            self.accept(",")
            self.expect(close)
            return ("matches", e, pat, guard)
        if name in ("debug_assert", "debug_assert_eq", "debug_assert_ne"):
            self.skip_to(close)
            return ("skip",)
        if name == "assert":
            e = self.expr()
            if self.accept(","):
                self.skip_to(close)
            else:
                self.expect(close)
            return ("assert", e)
        if name in ("panic", "unreachable", "unimplemented", "todo"):
            self.skip_to(close)
            return ("panic",)
        if name == "vec":
            items = []
            while not self.at(close):
                items.append(self.expr())
                if self.at(";"):
                    raise Unsupported("vec![x; n]")
                if not self.accept(","):
                    break
            self.expect(close)
            return ("veclit", items)
        raise Unsupported("macro %s!" % name)

    def skip_to(self, close):
        depth = 1
        while depth:
            tk = self.next()
            if tk[0] == "eof":
                raise Unsupported("unbalanced macro")
            if tk[0] == "punct" and tk[1] in "([{":
                depth += 1
            elif tk[0] == "punct" and tk[1] in ")]}":
                depth -= 1


# ------------------------------------------------------------------------------------ item scanner
def skip_balanced(toks, i, open_="{", close="}"):
    """toks[i] is the opening token; returns the index just after the matching closing token"""
    depth = 0
    while True:
        tk = toks[i]
        if tk[0] == "eof":
            raise Unsupported("unbalanced braces")
        if tk[0] == "punct" and tk[1] == open_:
            depth += 1
        elif tk[0] == "punct" and tk[1] == close:
            depth -= 1
            if depth == 0:
                return i + 1
        i += 1


def skip_generics(toks, i):
    """toks[i] == '<'"""
    depth = 0
    while True:
        tk = toks[i]
        if tk[1] == "<" and tk[0] == "punct":
            depth += 1
        elif tk[1] == ">" and tk[0] == "punct":
            depth -= 1
            if depth == 0:
                return i + 1
        elif tk[1] == ">>" and tk[0] == "punct":
            depth -= 2
            if depth <= 0:
                return i + 1
        elif tk[0] == "eof":
            raise Unsupported("unbalanced <>")
        i += 1


class Source:
    """items of one Rust file: structs, enums, consts, functions (by impl type / trait)"""

    def __init__(self, path):
        self.path = path
        self.toks = tokenize(open(path).read())
        self.structs = {}      # name -> [(field, type)]  (tuple structs: fields "0", "1", ..)
        self.derives = {}      # name -> set of derived traits
        self.enums = {}        # name -> [(variant, [types])]
        self.consts = {}       # name -> (type, expr)
        self.fns = {}          # (impl_type, trait, name) -> dict(params, ret, body_pos, line)
        self.scan(0, len(self.toks) - 1, None, None, True)

    def scan(self, i, end, impl_ty, trait, top):
        t = self.toks
        pending_derive = set()
        in_test = False
        while i < end:
            tk = t[i]
            if tk[0] == "punct" and tk[1] == "#":
                j = i + 1
                if t[j][1] == "!":
                    j += 1
                k = skip_balanced(t, j, "[", "]")
                text = " ".join(x[1] for x in t[j:k])
                m = re.search(r"derive \( (.*?) \)", text)
                if m:
                    pending_derive |= set(x.strip() for x in m.group(1).split(",") if x.strip())
                if "cfg ( test )" in text:
                    in_test = True
                i = k
                continue
            if tk[0] == "id" and tk[1] in ("pub", "crate", "unsafe", "async", "default"):
                i += 1
                if t[i][1] == "(":
                    i = skip_balanced(t, i, "(", ")")
                continue
            if tk[0] == "id" and tk[1] == "mod":
                # skip test modules / nested modules
                j = i + 2
                if t[j][1] == "{":
                    i = skip_balanced(t, j)
                else:
                    i = j + 1
                in_test = False
                continue
            if tk[0] == "id" and tk[1] == "struct":
                name = t[i + 1][1]
                j = i + 2
                if t[j][1] == "<":
                    j = skip_generics(t, j)
                fields = []
                if t[j][1] == "(":
                    p = Parser(t, j + 1)
                    n = 0
                    while not p.at(")"):
                        while p.at("pub"):
                            p.next()
                            if p.at("("):
                                p.p = skip_balanced(t, p.p, "(", ")")
                        try:
                            fields.append((str(n), p.ty()))
                        except Unsupported:
                            fields = None
                            break
                        n += 1
                        if not p.accept(","):
                            break
                    i = skip_balanced(t, j, "(", ")")
                elif t[j][1] == "{":
                    p = Parser(t, j + 1)
                    while not p.at("}"):
                        try:
                            while p.at("pub"):
                                p.next()
                                if p.at("("):
                                    p.p = skip_balanced(t, p.p, "(", ")")
                            if p.at("#"):
                                p.next()
                                p.p = skip_balanced(t, p.p, "[", "]")
                                continue
                            f = p.ident()
                            p.expect(":")
                            fields.append((f, p.ty()))
                        except Unsupported:
                            fields = None
                            break
                        if not p.accept(","):
                            break
                    i = skip_balanced(t, j)
                else:
                    i = j + 1
                if fields is not None:
                    self.structs[name] = fields
                self.derives[name] = pending_derive
                pending_derive = set()
                continue
            if tk[0] == "id" and tk[1] == "enum":
                name = t[i + 1][1]
                j = i + 2
                if t[j][1] == "<":
                    j = skip_generics(t, j)
                p = Parser(t, j + 1)
                variants = []
                try:
                    while not p.at("}"):
                        if p.at("#"):
                            p.next()
                            p.p = skip_balanced(t, p.p, "[", "]")
                            continue
                        v = p.ident()
                        tys = []
                        if p.accept("("):
                            while not p.at(")"):
                                tys.append(p.ty())
                                if not p.accept(","):
                                    break
                            p.expect(")")
                        elif p.at("{"):
                            raise Unsupported("struct variant")
                        variants.append((v, tys))
                        if not p.accept(","):
                            break
                    self.enums[name] = variants
                except Unsupported:
                    pass
                self.derives[name] = pending_derive
                pending_derive = set()
                i = skip_balanced(t, j)
                continue
            if tk[0] == "id" and tk[1] in ("const", "static") and t[i + 1][0] == "id" and t[i + 2][1] == ":":
                name = t[i + 1][1]
                p = Parser(t, i + 3)
                try:
                    ty = p.ty()
                    p.expect("=")
                    e = p.expr()
                    self.consts[name] = (ty, e)
                    i = p.p
                except Unsupported:
                    i += 1
                continue
            if tk[0] == "id" and tk[1] == "impl":
                j = i + 1
                if t[j][1] == "<":
                    j = skip_generics(t, j)
                # impl [Trait for] Type {
                names = []
                while t[j][1] != "{":
                    if t[j][0] == "id" and t[j][1] not in ("for", "where"):
                        names.append(t[j][1])
                    if t[j][1] == "for":
                        names.append("for")
                    if t[j][1] == "<":
                        j = skip_generics(t, j)
                        continue
                    j += 1
                if "for" in names:
                    k = names.index("for")
                    tr, ty = names[k - 1], names[k + 1]
                else:
                    tr, ty = None, names[0]
                endb = skip_balanced(t, j)
                if not in_test:
                    self.scan(j + 1, endb - 1, ty, tr, False)
                in_test = False
                i = endb
                continue
            if tk[0] == "id" and tk[1] == "fn":
                name = t[i + 1][1]
                j = i + 2
                generic = False
                if t[j][1] == "<":
                    generic = True
                    j = skip_generics(t, j)
                # parameters
                pend = skip_balanced(t, j, "(", ")")
                k = pend
                while t[k][1] not in ("{", ";"):
                    k += 1
                body_end = skip_balanced(t, k) if t[k][1] == "{" else k + 1
                if not in_test and t[k][1] == "{":
                    self.fns[(impl_ty, trait, name)] = {"sig": (j, pend, k), "body": k, "line": tk[2],
                                                        "generic": generic, "impl": impl_ty, "trait": trait, "name": name}
                in_test = False
                pending_derive = set()
                i = body_end
                continue
            if tk[0] == "id" and tk[1] in ("use", "type", "extern"):
                while t[i][1] != ";" and t[i][1] != "{":
                    i += 1
                if t[i][1] == "{" and tk[1] != "use":
                    i = skip_balanced(t, i)
                else:
                    while t[i][1] != ";":
                        i += 1
                    i += 1
                continue
            if tk[0] == "id" and tk[1] == "trait":
                j = i
                while t[j][1] != "{":
                    j += 1
                i = skip_balanced(t, j)
                continue
            i += 1

    def parse_fn(self, key):
        info = self.fns[key]
        (j, pend, k) = info["sig"]
        p = Parser(self.toks, j)
        p.expect("(")
        params = []
        while not p.at(")"):
            if p.at("&"):
                p.next()
                if p.peek()[0] == "life":
                    p.next()
                p.accept("mut")
            p.accept("mut")
            if p.at("self"):
                p.next()
                params.append(("self", ("ty", "Self", [])))
            else:
                pat = p.pattern()
                if pat[0] != "pbind":
                    raise Unsupported("pattern parameter")
                p.expect(":")
                params.append((pat[1], p.ty()))
            if not p.accept(","):
                break
        p.expect(")")
        ret = ("ty", "unit", [])
        if p.accept("->"):
            ret = p.ty()
        if p.at("where"):
            raise Unsupported("where clause")
        if p.p != k:
            raise Unsupported("signature of %s" % info["name"])
        body = p.block()
        return params, ret, body


# ------------------------------------------------------------------------------------ translation
INT_TYPES = {"u32": ("N", "u32"), "usize": ("N", "usize"), "u64": ("N", "u64"), "u8": ("N", "u8")}
COQ_KEYWORDS = set("end in at as fun match with let fix if then else return forall exists Type Set Prop where using".split())


def T(name, *args):
    return ("ty", name, list(args))


class Ctx:
    """one module being translated"""

    def __init__(self, name, sources, cfg):
        self.name = name
        self.sources = sources            # list of Source; the first is the primary one
        self.cfg = cfg
        self.fn_info = {}                 # (impl, name) -> dict(coq, params, ret, pure)
        self.out = []
        self.tmp = 0
        self.default_int = cfg.get("default_int", "u32")

    # -- lookups
    def struct(self, name):
        for s in self.sources:
            if name in s.structs:
                return s.structs[name]
        return None

    def enum(self, name):
        for s in self.sources:
            if name in s.enums:
                return s.enums[name]
        return None

    def const(self, name):
        for s in self.sources:
            if name in s.consts:
                return s.consts[name]
        return None

    def fresh(self, base="t"):
        self.tmp += 1
        return "%s%d_" % (base, self.tmp)

    # -- types
    def coq_ty(self, ty):
        if ty[0] == "tup":
            return "(" + " * ".join(self.coq_ty(x) for x in ty[1]) + ")%type"
        name, args = ty[1], ty[2]
        if name in INT_TYPES:
            return "N"
        if name == "bool":
            return "bool"
        if name == "unit":
            return "unit"
        if name == "Option":
            return "(option %s)" % self.coq_ty(args[0])
        if name in ("slice", "Vec"):
            return "(list %s)" % self.coq_ty(args[0])
        if name == "Ordering":
            return "comparison"
        if self.struct(name) is not None or self.enum(name) is not None:
            return name
        raise Unsupported("type " + name)

    def resolve_self(self, ty, impl):
        if ty[0] == "tup":
            return ("tup", [self.resolve_self(x, impl) for x in ty[1]])
        if ty[1] == "Self":
            return T(impl)
        return ("ty", ty[1], [self.resolve_self(x, impl) for x in ty[2]])


def is_int(ty):
    return ty is not None and ty[0] == "ty" and ty[1] in INT_TYPES


def var(name):
    return "v_" + name


class FnTranslator:
    def __init__(self, ctx, impl, fname, params, ret, body):
        self.c = ctx
        self.impl = impl
        self.fname = fname
        self.params = [(n, ctx.resolve_self(t, impl)) for n, t in params]
        self.ret = ctx.resolve_self(ret, impl)
        self.body = body
        self.can_panic = False

    # ---------------------------------------------------------------- typing (best effort)
    def ty_of(self, e, env):
        k = e[0]
        if k == "rawterm":
            return e[2]
        if k == "int":
            return T(e[2]) if e[2] else None
        if k == "charlit":
            return T("char")
        if k == "bool":
            return T("bool")
        if k == "path":
            p = e[1]
            if len(p) == 1:
                if p[0] in env:
                    return env[p[0]]
                c = self.c.const(p[0])
                if c:
                    return c[0]
                if p[0] == "None":
                    return None
            if len(p) == 2 and self.c.enum(p[0]) is not None:
                return T(p[0])
            if p == ["Ordering", "Less"] or p == ["Ordering", "Equal"] or p == ["Ordering", "Greater"]:
                return T("Ordering")
            return None
        if k == "field":
            t = self.ty_of(e[1], env)
            if t and t[0] == "ty":
                st = self.c.struct(t[1])
                if st:
                    for f, ft in st:
                        if f == e[2]:
                            return ft
            if t and t[0] == "tup" and e[2].isdigit():
                return t[1][int(e[2])]
            return None
        if k == "binary":
            if e[1] in ("==", "!=", "<", ">", "<=", ">=", "&&", "||"):
                return T("bool")
            return self.ty_of(e[2], env) or self.ty_of(e[3], env)
        if k == "unary":
            return T("bool") if e[1] == "!" and (self.ty_of(e[2], env) or T("bool"))[1] == "bool" else self.ty_of(e[2], env)
        if k == "cast":
            return e[2]
        if k in ("matches",):
            return T("bool")
        if k == "call":
            f = e[1]
            if f[0] == "path":
                p = f[1]
                if p == ["Some"]:
                    a = self.ty_of(e[2][0], env)
                    return T("Option", a) if a else None
                if p[-1] in ("max", "min") and len(e[2]) == 2:
                    return self.ty_of(e[2][0], env) or self.ty_of(e[2][1], env)
                info = self.lookup_fn(p)
                if info:
                    return info["ret"]
                if len(p) == 1 and self.c.struct(p[0]) is not None:
                    return T(p[0])
                if len(p) == 2 and self.c.enum(p[0]) is not None:
                    return T(p[0])
            return None
        if k == "mcall":
            rt = self.ty_of(e[1], env)
            m = e[2]
            if rt and rt[0] == "ty":
                info = self.c.fn_info.get((rt[1], m))
                if info:
                    return info["ret"]
                if is_int(rt):
                    if m in ("checked_add", "checked_sub", "checked_mul"):
                        return T("Option", rt)
                    if m in ("saturating_sub", "saturating_add", "wrapping_add", "wrapping_sub", "min", "max", "pow"):
                        return rt
                if rt[1] == "Option":
                    if m in ("unwrap", "expect", "unwrap_or"):
                        return rt[2][0]
                    if m in ("is_some", "is_none"):
                        return T("bool")
                if rt[1] in ("slice", "Vec"):
                    if m == "len":
                        return T("usize")
                    if m == "is_empty":
                        return T("bool")
            return None
        if k == "if":
            return self.ty_of(e[2], env) or (self.ty_of(e[3], env) if e[3] else None)
        if k == "block":
            env2 = dict(env)
            for s in e[1]:
                if s[0] == "let" and s[1][0] == "pbind":
                    t = s[2] or (self.ty_of(s[3], env2) if s[3] else None)
                    if t:
                        env2[s[1][1]] = self.c.resolve_self(t, self.impl)
            return self.ty_of(e[2], env2) if e[2] else T("unit")
        if k == "struct":
            return T(e[1][-1] if e[1][-1] != "Self" else self.impl)
        if k == "tuple":
            ts = [self.ty_of(x, env) for x in e[1]]
            return ("tup", ts) if all(ts) else None
        if k == "index":
            t = self.ty_of(e[1], env)
            if t and t[0] == "ty" and t[1] in ("slice", "Vec"):
                return t[2][0]
            return None
        if k == "try":
            t = self.ty_of(e[1], env)
            return t[2][0] if t and t[1] == "Option" else None
        if k == "match":
            for (_p, _g, b) in e[2]:
                t = self.ty_of(b, env)
                if t:
                    return t
        return None

    def lookup_fn(self, path):
        p = list(path)
        if p[0] == "Self":
            p[0] = self.impl
        if len(p) == 1:
            return self.c.fn_info.get((None, p[0]))
        if len(p) == 2:
            return self.c.fn_info.get((p[0], p[1]))
        return None

    # ---------------------------------------------------------------- literals
    def int_lit(self, v, ty):
        return "%d" % v

    # ---------------------------------------------------------------- patterns
    def pat(self, p, ty, env):
        """-> Coq pattern string; binds variables into env"""
        k = p[0]
        if k == "pwild":
            return "_"
        if k == "pbind":
            if ty is not None:
                env[p[1]] = ty
            elif p[1] in env:
                del env[p[1]]
            return var(p[1])
        if k == "plit":
            return "%d" % p[1]
        if k == "pbool":
            return "true" if p[1] else "false"
        if k == "ptuple":
            ts = ty[1] if ty and ty[0] == "tup" else [None] * len(p[1])
            return "(" + ", ".join(self.pat(x, t, env) for x, t in zip(p[1], ts)) + ")"
        if k == "por":
            return "(" + " | ".join(self.pat(x, ty, env) for x in p[1]) + ")"
        if k == "ppath":
            path = p[1]
            if path == ["None"]:
                return "None"
            if path[0] == "Ordering":
                return {"Less": "Lt", "Equal": "Eq", "Greater": "Gt"}[path[1]]
            if len(path) == 2 and self.c.enum(path[0] if path[0] != "Self" else self.impl) is not None:
                return "%s_%s" % (path[0] if path[0] != "Self" else self.impl, path[1])
            c = self.c.const(path[-1])
            if c and c[1][0] == "int":
                return "%d" % c[1][1]
            raise Unsupported("path pattern " + "::".join(path))
        if k == "pts":
            path = p[1]
            if path == ["Some"]:
                inner = ty[2][0] if ty and ty[0] == "ty" and ty[1] == "Option" else None
                return "(Some %s)" % self.pat(p[2][0], inner, env)
            name = path[0] if path[0] != "Self" else self.impl
            if len(path) == 1 and self.c.struct(name) is not None:
                fields = self.c.struct(name)
                if len(fields) != len(p[2]):
                    raise Unsupported("tuple struct pattern arity")
                return "(%s_mk %s)" % (name, " ".join(self.pat(x, ft, env) for x, (_f, ft) in zip(p[2], fields)))
            if len(path) == 2 and self.c.enum(name) is not None:
                for v, tys in self.c.enum(name):
                    if v == path[1]:
                        return "(%s_%s %s)" % (name, v, " ".join(self.pat(x, t, env) for x, t in zip(p[2], tys)))
            raise Unsupported("pattern " + "::".join(path))
        if k == "pstruct":
            name = p[1][-1] if p[1][-1] != "Self" else self.impl
            fields = self.c.struct(name)
            if fields is None:
                raise Unsupported("struct pattern " + name)
            given = dict(p[2])
            return "(%s_mk %s)" % (name, " ".join(self.pat(given[f], ft, env) if f in given else "_" for f, ft in fields))
        raise Unsupported("pattern kind " + k)

    # ---------------------------------------------------------------- pure expressions
    def arith_suffix(self, ty):
        t = ty[1] if is_int(ty) else self.c.default_int
        return INT_TYPES[t][1]

    def pure(self, e, env):
        """Gallina term for e if e cannot panic and has no control effect, else None"""
        k = e[0]
        if k == "rawterm":
            return e[1]
        if k == "int":
            return "%d" % e[1]
        if k == "charlit":
            return "%d" % e[1]
        if k == "bool":
            return "true" if e[1] else "false"
        if k == "path":
            p = e[1]
            if len(p) == 1:
                if p[0] in env or p[0] == "self":
                    return var(p[0])
                if p[0] == "None":
                    return "None"
                if self.c.const(p[0]):
                    return p[0]
                info = self.lookup_fn(p)
                raise Unsupported("unknown name " + p[0])
            if p[0] == "Ordering":
                return {"Less": "Lt", "Equal": "Eq", "Greater": "Gt"}[p[1]]
            if p[0] in ("u32", "usize", "i32") and p[1] == "MAX":
                return {"u32": "U32MAX", "usize": "USZMAX"}[p[0]]
            name = p[0] if p[0] != "Self" else self.impl
            if len(p) == 2 and self.c.enum(name) is not None:
                return "%s_%s" % (name, p[1])
            raise Unsupported("path " + "::".join(p))
        if k == "field":
            r = self.pure(e[1], env)
            if r is None:
                return None
            t = self.ty_of(e[1], env)
            if t is None:
                raise Unsupported("field access on a value of unknown type (.%s)" % e[2])
            if t[0] == "tup":
                n = len(t[1])
                if n != 2:
                    raise Unsupported("tuple projection of arity %d" % n)
                return "(%s %s)" % ("fst" if e[2] == "0" else "snd", r)
            return "(%s_%s %s)" % (t[1], fld(e[2]), r)
        if k == "unary":
            a = self.pure(e[2], env)
            if a is None:
                return None
            if e[1] == "!":
                return "(negb %s)" % a
            return None
        if k == "binary":
            op = e[1]
            if op in ("&&", "||"):
                a = self.pure(e[2], env)
                b = self.pure(e[3], env)
                if a is None or b is None:
                    return None
                return "(%s %s %s)" % (a, op, b)
            if op in ("==", "!=", "<", ">", "<=", ">="):
                a = self.pure(e[2], env)
                b = self.pure(e[3], env)
                if a is None or b is None:
                    return None
                ta = self.ty_of(e[2], env) or self.ty_of(e[3], env)
                return self.compare(op, a, b, ta)
            return None                 # arithmetic can overflow
        if k == "matches":
            a = self.pure(e[1], env)
            if a is None or e[3] is not None:
                return None
            env2 = dict(env)
            return "match %s with %s => true | _ => false end" % (a, self.pat(e[2], self.ty_of(e[1], env), env2))
        if k == "call":
            f = e[1]
            if f[0] != "path":
                raise Unsupported("call of a computed function")
            p = f[1]
            args = [self.pure(a, env) for a in e[2]]
            if any(a is None for a in args):
                return None
            if p == ["Some"]:
                return "(Some %s)" % args[0]
            if p[-1] in ("max", "min") and len(p) <= 2 and len(args) == 2 and self.lookup_fn(p) is None:
                return "(N.%s %s %s)" % (p[-1], args[0], args[1])
            info = self.lookup_fn(p)
            if info:
                if not info["pure"]:
                    return None
                return "(%s%s)" % (info["coq"], "".join(" " + a for a in args))
            name = p[0] if p[0] != "Self" else self.impl
            if len(p) == 1 and self.c.struct(name) is not None:
                return "(%s_mk%s)" % (name, "".join(" " + a for a in args))
            if len(p) == 2 and self.c.enum(name) is not None:
                return "(%s_%s%s)" % (name, p[1], "".join(" " + a for a in args))
            raise Unsupported("call of %s (not in the translated set)" % "::".join(p))
        if k == "mcall":
            r = self.pure(e[1], env)
            args = [self.pure(a, env) for a in e[3]]
            if r is None or any(a is None for a in args):
                return None
            rt = self.ty_of(e[1], env)
            m = e[2]
            if rt and rt[0] == "ty":
                info = self.c.fn_info.get((rt[1], m))
                if info:
                    if not info["pure"]:
                        return None
                    return "(%s %s%s)" % (info["coq"], r, "".join(" " + a for a in args))
                if is_int(rt):
                    sfx = INT_TYPES[rt[1]][1]
                    if m == "checked_add":
                        return "(%s_add %s %s)" % (sfx, r, args[0])
                    if m == "checked_mul":
                        return "(%s_mul %s %s)" % (sfx, r, args[0])
                    if m == "checked_sub":
                        return "(%s_sub %s %s)" % (sfx, r, args[0])
                    if m == "saturating_sub":
                        return "(N.sub %s %s)" % (r, args[0])
                    if m in ("min", "max"):
                        return "(N.%s %s %s)" % (m, r, args[0])
                if rt[1] == "Option":
                    if m == "is_some":
                        return "match %s with Some _ => true | None => false end" % r
                    if m == "is_none":
                        return "match %s with Some _ => false | None => true end" % r
                    if m == "unwrap_or":
                        return "match %s with Some x_ => x_ | None => %s end" % (r, args[0])
                    if m in ("unwrap", "expect"):
                        return None
                if rt[1] in ("slice", "Vec"):
                    if m == "len":
                        return "(N.of_nat (length %s))" % r
                    if m == "is_empty":
                        return "match %s with [] => true | _ => false end" % r
            if rt is None:
                raise Unsupported("method .%s on a value of unknown type" % m)
            raise Unsupported("method %s.%s" % (rt[1] if rt[0] == "ty" else "tuple", m))
        if k == "struct":
            name = e[1][-1] if e[1][-1] != "Self" else self.impl
            fields = self.c.struct(name)
            if fields is None:
                raise Unsupported("struct literal " + name)
            given = dict(e[2])
            args = []
            for f, _ft in fields:
                if f not in given:
                    raise Unsupported("missing field " + f)
                a = self.pure(given[f], env)
                if a is None:
                    return None
                args.append(a)
            return "(%s_mk%s)" % (name, "".join(" " + a for a in args))
        if k == "tuple":
            args = [self.pure(a, env) for a in e[1]]
            if any(a is None for a in args):
                return None
            return "(" + ", ".join(args) + ")"
        if k == "cast":
            a = self.pure(e[1], env)
            if a is None:
                return None
            src = self.ty_of(e[1], env)
            dst = e[2]
            if is_int(dst) and (src is None or is_int(src) or src[1] == "char"):
                s = (src[1] if src else self.c.default_int)
                width = {"u8": 8, "u32": 32, "usize": 64, "u64": 64, "char": 32}
                if width[s] <= width[dst[1]]:
                    return a
                return "(N.modulo %s %d)" % (a, 2 ** width[dst[1]])
            raise Unsupported("cast")
        if k == "if":
            c = self.pure(e[1], env)
            if c is None or e[3] is None:
                return None
            a = self.pure(e[2], env)
            b = self.pure(e[3], env)
            if a is None or b is None:
                return None
            return "(if %s then %s else %s)" % (c, a, b)
        if k == "block":
            if not e[1] and e[2] is not None:
                return self.pure(e[2], env)
            return None
        return None

    def compare(self, op, a, b, ty):
        if ty is None or is_int(ty) or (ty[0] == "ty" and ty[1] == "char"):
            m = {"==": "(%s =? %s)", "!=": "(negb (%s =? %s))", "<": "(%s <? %s)", "<=": "(%s <=? %s)"}
            if op == ">":
                return "(%s <? %s)" % (b, a)
            if op == ">=":
                return "(%s <=? %s)" % (b, a)
            return m[op] % (a, b)
        if ty[0] == "ty" and ty[1] == "bool" and op in ("==", "!="):
            r = "(Bool.eqb %s %s)" % (a, b)
            return r if op == "==" else "(negb %s)" % r
        if ty[0] == "ty" and (self.c.struct(ty[1]) is not None or self.c.enum(ty[1]) is not None) and op in ("==", "!="):
            r = "(%s_eqb %s %s)" % (ty[1], a, b)
            return r if op == "==" else "(negb %s)" % r
        raise Unsupported("comparison %s at type %s" % (op, ty))

    # ---------------------------------------------------------------- monadic translation (CPS)
    # tr(e, env, k): Gallina term of type `option RET`; k(term) builds the rest of the function from
    # the pure value of e.  RETURN(v) = "Some v".
    def tr(self, e, env, k):
        p = self.pure(e, env)
        if p is not None:
            return k(p)
        self.can_panic_possible = True
        kind = e[0]
        if kind == "binary":
            op = e[1]
            if op in ("&&", "||"):
                # short circuit: the right operand is evaluated only if needed
                def after_a(a):
                    t = self.c.fresh()
                    rhs = self.tr(e[3], env, RETURN)
                    if has_exit(e[3]):
                        raise Unsupported("early exit in the right operand of %s" % op)
                    if op == "&&":
                        return "do %s <- (if %s then %s else Some false);\n%s" % (t, a, rhs, k(t))
                    return "do %s <- (if %s then Some true else %s);\n%s" % (t, a, rhs, k(t))
                return self.tr(e[2], env, after_a)
            ta = self.ty_of(e[2], env) or self.ty_of(e[3], env)
            if op in ("==", "!=", "<", ">", "<=", ">="):
                return self.tr(e[2], env, lambda a: self.tr(e[3], env, lambda b: k(self.compare(op, a, b, ta))))
            if op in ("+", "-", "*"):
                sfx = self.arith_suffix(ta)
                fn = sfx + "_" + {"+": "add", "-": "sub", "*": "mul"}[op]

                def fin(a, b):
                    t = self.c.fresh()
                    return "do %s <- %s %s %s;\n%s" % (t, fn, a, b, k(t))
                return self.tr(e[2], env, lambda a: self.tr(e[3], env, lambda b: fin(a, b)))
            raise Unsupported("operator " + op)
        if kind == "unary":
            if e[1] == "!":
                return self.tr(e[2], env, lambda a: k("(negb %s)" % a))
            raise Unsupported("unary " + e[1])
        if kind == "field":
            return self.tr(e[1], env, lambda r: k(self.pure(("field", ("rawterm", r, self.ty_of(e[1], env)), e[2]), env)))
        if kind == "rawterm":
            return k(e[1])
        if kind == "try":
            def after(v):
                t = self.c.fresh()
                return "match %s with\n| None => Some None\n| Some %s =>\n%s\nend" % (v, t, k(t))
            return self.tr(e[1], env, after)
        if kind == "return":
            if e[1] is None:
                return "Some tt"
            return self.tr(e[1], env, RETURN)
        if kind == "panic":
            return "None"
        if kind == "call":
            f = e[1]
            if f[0] != "path":
                raise Unsupported("call of a computed function")
            p = f[1]

            def with_args(args):
                if p == ["Some"]:
                    return k("(Some %s)" % args[0])
                info = self.lookup_fn(p)
                if info:
                    call = "%s%s" % (info["coq"], "".join(" " + a for a in args))
                    if info["pure"]:
                        return k("(%s)" % call)
                    t = self.c.fresh()
                    return "do %s <- %s;\n%s" % (t, call, k(t))
                return k(self.pure(("call", f, [("rawterm", a, None) for a in args]), env))
            return self.tr_list(e[2], env, with_args)
        if kind == "mcall":
            rt = self.ty_of(e[1], env)
            m = e[2]

            def with_all(vals):
                r, args = vals[0], vals[1:]
                if rt and rt[0] == "ty":
                    info = self.c.fn_info.get((rt[1], m))
                    if info and not info["pure"]:
                        t = self.c.fresh()
                        return "do %s <- %s %s%s;\n%s" % (t, info["coq"], r, "".join(" " + a for a in args), k(t))
                    if rt[1] == "Option" and m in ("unwrap", "expect"):
                        t = self.c.fresh()
                        return "do %s <- %s;\n%s" % (t, r, k(t))
                res = self.pure(("mcall", ("rawterm", r, rt), m, [("rawterm", a, None) for a in args]), env)
                if res is None:
                    raise Unsupported("method ." + m)
                return k(res)
            arg_es = list(e[3])
            if rt and rt[0] == "ty" and rt[1] == "Option" and m == "expect":
                arg_es = []
            return self.tr_list([e[1]] + arg_es, env, with_all)
        if kind == "struct":
            name = e[1][-1] if e[1][-1] != "Self" else self.impl
            fields = self.c.struct(name)
            if fields is None:
                raise Unsupported("struct literal " + name)
            given = dict(e[2])
            return self.tr_list([given[f] for f, _ in fields], env,
                                lambda args: k("(%s_mk%s)" % (name, "".join(" " + a for a in args))))
        if kind == "tuple":
            return self.tr_list(e[1], env, lambda args: k("(" + ", ".join(args) + ")"))
        if kind == "cast":
            return self.tr(e[1], env, lambda a: k(self.pure(("cast", ("rawterm", a, self.ty_of(e[1], env)), e[2]), env)))
        if kind == "matches":
            return self.tr(e[1], env, lambda a: k(self.pure(("matches", ("rawterm", a, self.ty_of(e[1], env)), e[2], e[3]), env)))
        if kind == "assert":
            return self.tr(e[1], env, lambda c: "if %s then\n%s\nelse None" % (c, k("tt")))
        if kind == "skip":
            return k("tt")
        if kind == "if":
            els = e[3] if e[3] is not None else ("block", [], None)

            def after_c(c):
                if has_exit(e[2]) or has_exit(els):
                    return "if %s then\n%s\nelse\n%s" % (c, self.tr(e[2], env, k), self.tr(els, env, k))
                a = self.tr(e[2], env, RETURN)
                b = self.tr(els, env, RETURN)
                if k is RETURN:
                    return "if %s then\n%s\nelse\n%s" % (c, a, b)
                t = self.c.fresh()
                return "do %s <- (if %s then\n%s\nelse\n%s);\n%s" % (t, c, a, b, k(t))
            return self.tr(e[1], env, after_c)
        if kind == "match":
            if any(g is not None for (_p, g, _b) in e[2]):
                raise Unsupported("match guard")
            st = self.ty_of(e[1], env)
            exits = any(has_exit(b) for (_p, _g, b) in e[2])

            def after_s(s):
                arms = []
                for (p, _g, b) in e[2]:
                    env2 = dict(env)
                    ps = self.pat(p, st, env2)
                    if exits or k is RETURN:
                        arms.append("| %s =>\n%s" % (ps, self.tr(b, env2, k)))
                    else:
                        arms.append("| %s =>\n%s" % (ps, self.tr(b, env2, RETURN)))
                m = "match %s with\n%s\nend" % (s, "\n".join(arms))
                if exits or k is RETURN:
                    return m
                t = self.c.fresh()
                return "do %s <- (%s);\n%s" % (t, m, k(t))
            return self.tr(e[1], env, after_s)
        if kind == "block":
            return self.tr_block(e[1], e[2], env, k)
        if kind == "index":
            raise Unsupported("indexing")
        if kind in ("while", "for", "loop", "break", "continue", "assign", "iflet", "veclit", "range", "strlit"):
            raise Unsupported(kind)
        raise Unsupported("expression kind " + kind)

    def tr_list(self, es, env, k):
        vals = []

        def go(i):
            if i == len(es):
                return k(list(vals))

            def got(v):
                vals.append(v)
                r = go(i + 1)
                vals.pop()
                return r
            return self.tr(es[i], env, got)
        return go(0)

    def tr_block(self, stmts, tail, env, k):
        if not stmts:
            if tail is None:
                return k("tt")
            return self.tr(tail, env, k)
        s, rest = stmts[0], stmts[1:]
        if s[0] == "let":
            if s[3] is None:
                raise Unsupported("let without initialiser")
            ty = s[2] or self.ty_of(s[3], env)
            if ty is not None:
                ty = self.c.resolve_self(ty, self.impl)

            def after(v):
                env2 = dict(env)
                if s[1][0] == "pbind":
                    ps = self.pat(s[1], ty, env2)
                    return "let %s := %s in\n%s" % (ps, v, self.tr_block(rest, tail, env2, k))
                ps = self.pat(s[1], ty, env2)
                return "let '%s := %s in\n%s" % (ps, v, self.tr_block(rest, tail, env2, k))
            return self.tr(s[3], env, after)
        e = s[1]
        if e[0] == "skip":
            return self.tr_block(rest, tail, env, k)
        return self.tr(e, env, lambda _v: self.tr_block(rest, tail, env, k))

    # ---------------------------------------------------------------- whole function
    def translate(self, coq_name):
        env = {}
        binders = []
        for n, t in self.params:
            env[n] = t
            binders.append("(%s : %s)" % (var(n), self.c.coq_ty(t)))
        rty = self.c.coq_ty(self.ret)
        body_pure = None
        if not has_exit(self.body):
            body_pure = self.pure_block(self.body, env)
        args = "".join(" " + var(n) for n, _t in self.params)
        if body_pure is not None:
            wrapper = "Definition M_%s %s : option %s := Some (%s%s)." % (coq_name, " ".join(binders), rty, coq_name, args)
            return True, "Definition %s %s : %s :=\n%s.\n%s" % (coq_name, " ".join(binders), rty, indent(body_pure), wrapper)
        term = self.tr(self.body, env, RETURN)
        wrapper = "Definition M_%s %s : option %s := %s%s." % (coq_name, " ".join(binders), rty, coq_name, args)
        return False, "Definition %s %s : option %s :=\n%s.\n%s" % (coq_name, " ".join(binders), rty, indent(peephole(term)), wrapper)

    def pure_block(self, b, env):
        """pure rendering of a block made of lets and a pure tail"""
        if b[0] != "block":
            return self.pure(b, env)
        env2 = dict(env)
        lines = []
        for s in b[1]:
            if s[0] == "expr" and s[1][0] == "skip":
                continue
            if s[0] != "let" or s[3] is None or s[1][0] != "pbind":
                return None
            v = self.pure_any(s[3], env2)
            if v is None:
                return None
            ty = s[2] or self.ty_of(s[3], env2)
            if ty is not None:
                ty = self.c.resolve_self(ty, self.impl)
            lines.append("let %s := %s in" % (self.pat(s[1], ty, env2), v))
        if b[2] is None:
            return None
        t = self.pure_any(b[2], env2)
        if t is None:
            return None
        return "\n".join(lines + [t])

    def pure_any(self, e, env):
        """pure term for e, including if / match / blocks whose parts are all pure"""
        p = self.pure(e, env)
        if p is not None:
            return p
        if e[0] == "if" and e[3] is not None:
            c = self.pure_any(e[1], env)
            a = self.pure_block(e[2], env)
            b = self.pure_block(e[3], env) if e[3][0] == "block" else self.pure_any(e[3], env)
            if c is None or a is None or b is None:
                return None
            return "(if %s then\n%s\nelse\n%s)" % (c, a, b)
        if e[0] == "match":
            if any(g is not None for (_p, g, _b) in e[2]):
                return None
            s = self.pure_any(e[1], env)
            if s is None:
                return None
            st = self.ty_of(e[1], env)
            arms = []
            for (p_, _g, b) in e[2]:
                env2 = dict(env)
                ps = self.pat(p_, st, env2)
                bt = self.pure_block(b, env2) if b[0] == "block" else self.pure_any(b, env2)
                if bt is None:
                    return None
                arms.append("| %s => %s" % (ps, bt))
            return "match %s with\n%s\nend" % (s, "\n".join(arms))
        if e[0] == "block":
            r = self.pure_block(e, env)
            return "(%s)" % r if r is not None else None
        return None


def peephole(term):
    """`do t <- X; Some t` is X"""
    prev = None
    while prev != term:
        prev = term
        term = re.sub(r"do (t\d+_) <- ([^\n;]*);\nSome \1(?![0-9A-Za-z_])", r"\2", term)
    return term


def RETURN(v):
    return "Some %s" % v


def fld(name):
    return "f" + name if name.isdigit() else name


def has_exit(e):
    """does the expression contain `?` or `return` (an exit from the enclosing function)"""
    if not isinstance(e, tuple):
        return False
    if e and e[0] in ("try", "return"):
        return True
    for x in e[1:]:
        if isinstance(x, tuple) and has_exit(x):
            return True
        if isinstance(x, list):
            for y in x:
                if isinstance(y, tuple) and has_exit(y):
                    return True
                if isinstance(y, (list, tuple)):
                    for z in y:
                        if isinstance(z, tuple) and has_exit(z):
                            return True
    return False


def indent(s, n=2):
    out, depth = [], 0
    for line in s.split("\n"):
        st = line.strip()
        if st.startswith("end") or st.startswith("else"):
            depth = max(0, depth - 1)
        out.append(" " * (n + 2 * depth) + st)
        if st.startswith("match ") and not st.rstrip().endswith("end") and " end" not in st:
            depth += 1
        elif (st.endswith("then") or st == "else" or st.endswith("(if %s then" % "")):
            depth += 1
        elif "(match " in st and " end" not in st:
            depth += 1
    return "\n".join(out)


# ------------------------------------------------------------------------------------ module emission
def emit_types(ctx, names):
    out = []
    for name in names:
        st = ctx.struct(name)
        if st is not None:
            fields = " ".join("(%s_%s : %s)" % (name, fld(f), ctx.coq_ty(t)) for f, t in st)
            out.append("Record %s := %s_mk { %s }." % (name, name, "; ".join(
                "%s_%s : %s" % (name, fld(f), ctx.coq_ty(t)) for f, t in st)))
            derives = set()
            for s in ctx.sources:
                derives |= s.derives.get(name, set())
            if "PartialEq" in derives:
                conj = []
                for f, t in st:
                    a, b = "(%s_%s a)" % (name, fld(f)), "(%s_%s b)" % (name, fld(f))
                    conj.append(eqb_term(ctx, t, a, b))
                out.append("Definition %s_eqb (a b : %s) : bool :=\n  %s." % (name, name, " && ".join(conj) or "true"))
            continue
        en = ctx.enum(name)
        if en is not None:
            ctors = " ".join("| %s_%s%s" % (name, v, "".join(" (_ : %s)" % ctx.coq_ty(t) for t in tys)) for v, tys in en)
            out.append("Inductive %s := %s." % (name, ctors))
            derives = set()
            for s in ctx.sources:
                derives |= s.derives.get(name, set())
            if "PartialEq" in derives:
                arms = []
                for v, tys in en:
                    xs = ["x%d" % i for i in range(len(tys))]
                    ys = ["y%d" % i for i in range(len(tys))]
                    body = " && ".join(eqb_term(ctx, t, x, y) for t, x, y in zip(tys, xs, ys)) or "true"
                    arms.append("  | %s_%s%s, %s_%s%s => %s" % (name, v, "".join(" " + x for x in xs), name, v, "".join(" " + y for y in ys), body))
                out.append("Definition %s_eqb (a b : %s) : bool :=\n  match a, b with\n%s\n  | _, _ => false\n  end." % (name, name, "\n".join(arms)))
            continue
        raise Unsupported("type %s not found" % name)
    return out


def eqb_term(ctx, t, a, b):
    if is_int(t):
        return "(%s =? %s)" % (a, b)
    if t[0] == "ty" and t[1] == "bool":
        return "(Bool.eqb %s %s)" % (a, b)
    if t[0] == "ty" and t[1] == "Option" and is_int(t[2][0]):
        return "(match %s, %s with Some x_, Some y_ => x_ =? y_ | None, None => true | _, _ => false end)" % (a, b)
    if t[0] == "ty" and (ctx.struct(t[1]) is not None or ctx.enum(t[1]) is not None):
        return "(%s_eqb %s %s)" % (t[1], a, b)
    raise Unsupported("derived equality at type %s" % (t,))


def const_value(ctx, name):
    ty, e = ctx.const(name)
    if e[0] == "int":
        return ty, e[1]
    if e[0] == "cast" and e[1][0] == "int":
        return ty, e[1][1]
    raise Unsupported("constant %s is not an integer literal" % name)


MODULES = {
    "LoopRangeGen": {
        "files": ["loop_ranges.rs"],
        "types": ["LoopRange"],
        "consts": [],
        "functions": [(None, None, "add32"), (None, None, "mul32")] + [("LoopRange", None, f) for f in (
            "finite", "infinite", "opt", "star", "plus", "point", "is_finite", "is_infinite", "is_point", "is_zero",
            "is_one", "is_all", "start", "end", "contains", "includes", "add", "checked_add", "checked_mul",
            "checked_right_mul_is_exact", "add_point", "scale", "mul", "right_mul_is_exact", "shift")],
    },
    "CharSetGen": {
        "files": ["character_sets.rs", "smt_strings.rs"],
        "types": ["CharSet"],
        "consts": ["MAX_CHAR"],
        "functions": [("CharSet", "PartialOrd", "partial_cmp")] + [("CharSet", None, f) for f in (
            "singleton", "range", "all_chars", "contains", "covers", "is_before", "is_after", "size", "is_singleton",
            "is_alphabet", "pick", "inter", "union")],
    },
}


def translate_module(name, repo):
    cfg = MODULES[name]
    sources = [Source(os.path.join(repo, "src", f)) for f in cfg["files"]]
    ctx = Ctx(name, sources, cfg)
    out = ["(* %s.v -- GENERATED by gen/rs2v.py from %s; do not edit. *)" % (name, ", ".join("src/" + f for f in cfg["files"])),
           "Require Import Base GenBase.", "Open Scope N_scope.", ""]
    for cname in cfg["consts"]:
        ty, v = const_value(ctx, cname)
        out.append("Definition %s : %s := %d." % (cname, ctx.coq_ty(ty), v))
    out += emit_types(ctx, cfg["types"])
    out.append("")
    primary = sources[0]
    # signatures first (so that calls can be typed), in the configured order
    parsed = {}
    for key in cfg["functions"]:
        if key not in primary.fns:
            raise Unsupported("function %s not found in %s" % ("::".join(x for x in key if x), cfg["files"][0]))
        params, ret, body = primary.parse_fn(key)
        impl = key[0]
        coq = (impl + "_" if impl else "fn_") + key[2]
        parsed[key] = (params, ret, body, coq)
        ctx.fn_info[(impl, key[2])] = {"coq": coq, "ret": ctx.resolve_self(ret, impl) if impl else ret, "pure": None,
                                       "params": params}
    # purity by fixpoint: translate in dependency order (a callee must be known before its caller)
    done, pending = {}, list(cfg["functions"])
    order = []
    progress = True
    last_err = None
    while pending and progress:
        progress = False
        for key in list(pending):
            params, ret, body, coq = parsed[key]
            callees = called_fns(body, ctx, key[0])
            if any(ctx.fn_info[c]["pure"] is None and c != (key[0], key[2]) for c in callees):
                continue
            ft = FnTranslator(ctx, key[0], key[2], params, ret, body)
            pure, text = ft.translate(coq)
            ctx.fn_info[(key[0], key[2])]["pure"] = pure
            done[key] = text
            order.append(key)
            pending.remove(key)
            progress = True
    if pending:
        raise Unsupported("recursive or unresolved functions: %s" % pending)
    for key in order:
        out.append("(* %s, line %d *)" % ("::".join(x for x in (key[0], key[2]) if x), primary.fns[key]["line"]))
        out.append(done[key])
        out.append("")
    names = [ctx.fn_info[(k[0], k[2])]["coq"] for k in order]
    out.append("(* every generated definition, for `autounfold with rs2v` in the link proofs *)")
    out.append("Create HintDb rs2v.")
    out.append("#[global] Hint Unfold %s : rs2v." % " ".join(names + ["M_" + n for n in names] + list(cfg["consts"])
                                                               + [t + "_eqb" for t in cfg["types"] if has_eqb(ctx, t)]))
    out.append("")
    return "\n".join(out), {"%s" % ctx.fn_info[(k[0], k[2])]["coq"]: ("pure" if ctx.fn_info[(k[0], k[2])]["pure"] else "option") for k in order}


def has_eqb(ctx, name):
    d = set()
    for src in ctx.sources:
        d |= src.derives.get(name, set())
    return "PartialEq" in d


def called_fns(e, ctx, impl):
    res = set()

    def walk(x):
        if isinstance(x, tuple):
            if x and x[0] == "call" and x[1][0] == "path":
                p = list(x[1][1])
                if p[0] == "Self":
                    p[0] = impl
                key = (None, p[0]) if len(p) == 1 else (p[0], p[1]) if len(p) == 2 else None
                if key in ctx.fn_info:
                    res.add(key)
            if x and x[0] == "mcall":
                for (i, n) in ctx.fn_info:
                    if n == x[2] and i is not None:
                        res.add((i, n))
            for y in x:
                walk(y)
        elif isinstance(x, list):
            for y in x:
                walk(y)
    walk(e)
    return res


def main():
    a = sys.argv[1:]
    repo = "/repo"
    outdir = os.path.join(ROOT, "coq", "Gen")
    mods = []
    i = 0
    while i < len(a):
        if a[i] == "--repo":
            repo = a[i + 1]; i += 2
        elif a[i] == "--out":
            outdir = a[i + 1]; i += 2
        else:
            mods.append(a[i]); i += 1
    os.makedirs(outdir, exist_ok=True)
    status = {}
    for m in mods or sorted(MODULES):
        try:
            text, fns = translate_module(m, repo)
            path = os.path.join(outdir, m + ".v")
            old = open(path).read() if os.path.exists(path) else None
            if old != text:
                open(path, "w").write(text)
            status[m] = {"ok": True, "changed": old != text, "functions": fns}
        except Unsupported as ex:
            status[m] = {"ok": False, "reason": str(ex)}
        except (KeyError, IndexError, TypeError) as ex:
            status[m] = {"ok": False, "reason": "translator error: %r" % (ex,)}
    print(json.dumps(status, indent=1))
    return status


if __name__ == "__main__":
    main()
