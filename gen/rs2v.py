#!/usr/bin/env python3
"""rs2v.py -- translator from a subset of Rust to Gallina (the *regenerated* part of the model).

    python3 gen/rs2v.py [--repo /repo] [--out coq/Gen] [module ...]

For every module of MODULES the listed functions of /repo/src/<file> are parsed (own tokenizer and
recursive-descent parser, no external tools) and emitted as Gallina definitions over the conventions
of Base.v: u32 / usize values are N, a computation that can panic has type `option T` (None = panic).
Arithmetic is *checked* (`a + b` on u32 is `add32 a b`: None when the result does not fit; `a - b` is
`sub32`: None on underflow) - i.e. the debug-build reading; the link theorems (coq/GenLink*.v) show
that on valid inputs no operator of the translated code overflows, so the release build computes the
same values.  `debug_assert!` is skipped (not behaviour in release builds; DESIGN.md section 3).

A function is emitted as a *pure* definition (type T) when nothing in its body can panic, otherwise
as a definition of type `option T`.  Rust `Option<T>` values are Coq `option T`; `e?` returns
`Some None` from the enclosing function (no panic, value None).

The translator raises Unsupported on anything outside the subset; the caller then declares the
translated tie of that module unavailable (the hand-written model + correspondence remain)."""
import json, os, re, sys

ROOT = os.path.dirname(os.path.dirname(os.path.abspath(__file__)))


class Unsupported(Exception):
    pass


class NotYet(Exception):
    """a callee has not been translated yet: the caller is deferred"""
    pass


# ------------------------------------------------------------------------------------ tokenizer
PUNCT = ["<<=", ">>=", "...", "..=", "::", "->", "=>", "==", "!=", "<=", ">=", "&&", "||", "+=", "-=", "*=", "/=",
         "%=", "^=", "&=", "|=", "<<", ">>", ".."]


def tokenize(src):
    toks = []
    i, n, line = 0, len(src), 1
    while i < n:
        c = src[i]
        if c == "\n":
            line += 1; i += 1; continue
        if c.isspace():
            i += 1; continue
        if src.startswith("//", i):
            j = src.find("\n", i)
            i = n if j < 0 else j
            continue
        if src.startswith("/*", i):
            depth, j = 1, i + 2
            while j < n and depth:
                if src.startswith("/*", j):
                    depth += 1; j += 2
                elif src.startswith("*/", j):
                    depth -= 1; j += 2
                else:
                    if src[j] == "\n":
                        line += 1
                    j += 1
            i = j
            continue
        if c.isalpha() or c == "_":
            j = i
            while j < n and (src[j].isalnum() or src[j] == "_"):
                j += 1
            w = src[i:j]
            if w in ("r", "b", "br") and j < n and src[j] in "\"#":      # raw / byte strings
                k = j
                hashes = 0
                while k < n and src[k] == "#":
                    hashes += 1; k += 1
                if k < n and src[k] == '"':
                    endm = '"' + "#" * hashes
                    e = src.find(endm, k + 1)
                    if "r" not in w:
                        e = k + 1
                        while src[e] != '"':
                            e += 2 if src[e] == "\\" else 1
                    line += src.count("\n", i, e)
                    toks.append(("str", src[i:e + len(endm)], line)); i = e + len(endm); continue
            toks.append(("id", w, line)); i = j; continue
        if c.isdigit():
            j = i
            if src.startswith("0x", i) or src.startswith("0b", i) or src.startswith("0o", i):
                j = i + 2
            while j < n and (src[j].isalnum() or src[j] == "_"):
                j += 1
            toks.append(("int", src[i:j], line)); i = j; continue
        if c == '"':
            j = i + 1
            while src[j] != '"':
                if src[j] == "\n":
                    line += 1
                j += 2 if src[j] == "\\" else 1
            toks.append(("str", src[i:j + 1], line)); i = j + 1; continue
        if c == "'":
            # char literal or lifetime
            m = re.match(r"'(\\u\{[0-9a-fA-F]+\}|\\x[0-9a-fA-F]{2}|\\.|[^\\'])'", src[i:])
            if m:
                toks.append(("char", m.group(0), line)); i += len(m.group(0)); continue
            j = i + 1
            while j < n and (src[j].isalnum() or src[j] == "_"):
                j += 1
            toks.append(("life", src[i:j], line)); i = j; continue
        for p in PUNCT:
            if src.startswith(p, i):
                toks.append(("punct", p, line)); i += len(p); break
        else:
            toks.append(("punct", c, line)); i += 1
    toks.append(("eof", "", line))
    return toks


def parse_int(text):
    t = text.replace("_", "")
    m = re.match(r"^(0x[0-9a-fA-F]+|0b[01]+|0o[0-7]+|[0-9]+)(u8|u16|u32|u64|usize|i8|i16|i32|i64|isize)?$", t)
    if not m:
        raise Unsupported("integer literal " + text)
    return int(m.group(1), 0), m.group(2)


def char_value(text):
    body = text[1:-1]
    if body.startswith("\\u{"):
        return int(body[3:-1], 16)
    if body.startswith("\\x"):
        return int(body[2:], 16)
    if body.startswith("\\"):
        return {"n": 10, "r": 13, "t": 9, "\\": 92, "0": 0, "'": 39, '"': 34}[body[1]]
    return ord(body)


# ------------------------------------------------------------------------------------ parser
def str_value(text):
    """code points of a (non-raw) Rust string literal token"""
    if not (text.startswith('"') and text.endswith('"')):
        raise Unsupported("raw / byte string literal")
    body = text[1:-1]
    out, i = [], 0
    while i < len(body):
        c = body[i]
        if c != "\\":
            out.append(ord(c)); i += 1; continue
        d = body[i + 1]
        if d in "nrt0\\\"'":
            out.append({"n": 10, "r": 13, "t": 9, "0": 0, "\\": 92, '"': 34, "'": 39}[d]); i += 2
        elif d == "x":
            out.append(int(body[i + 2:i + 4], 16)); i += 4
        elif d == "u":
            j = body.index("}", i)
            out.append(int(body[i + 3:j].replace("_", ""), 16)); i = j + 1
        else:
            raise Unsupported("escape in string literal")
    return out


def parse_format(fmt):
    """pieces of a format string: ('lit', [code points]) | ('arg', spec) with spec in '', 'x', '02x', '04x'"""
    pieces, cur, i = [], [], 0
    while i < len(fmt):
        c = fmt[i]
        if c == ord("{") and i + 1 < len(fmt) and fmt[i + 1] == ord("{"):
            cur.append(ord("{")); i += 2; continue
        if c == ord("}") and i + 1 < len(fmt) and fmt[i + 1] == ord("}"):
            cur.append(ord("}")); i += 2; continue
        if c == ord("{"):
            j = fmt.index(ord("}"), i)
            spec = "".join(chr(x) for x in fmt[i + 1:j])
            named = re.fullmatch(r"[a-z_][a-z0-9_]*", spec) is not None      # `{x}`: the variable x, displayed
            if spec not in ("", ":x", ":02x", ":04x") and not named:
                raise Unsupported("format specification {%s}" % spec)
            if cur:
                pieces.append(("lit", cur)); cur = []
            pieces.append(("named", spec) if named else ("arg", spec.lstrip(":")))
            i = j + 1; continue
        if c == ord("}"):
            raise Unsupported("unbalanced } in a format string")
        cur.append(c); i += 1
    if cur:
        pieces.append(("lit", cur))
    return pieces


class Parser:
    def __init__(self, toks, pos=0):
        self.t = toks
        self.p = pos

    def peek(self, k=0):
        return self.t[min(self.p + k, len(self.t) - 1)]

    def at(self, text, k=0):
        tk = self.peek(k)
        return tk[0] in ("punct", "id") and tk[1] == text

    def next(self):
        tk = self.t[self.p]
        self.p += 1
        return tk

    def expect(self, text):
        tk = self.next()
        if tk[1] != text or tk[0] not in ("punct", "id"):
            raise Unsupported("line %d: expected `%s`, found `%s`" % (tk[2], text, tk[1]))
        return tk

    def accept(self, text):
        if self.at(text):
            self.p += 1
            return True
        return False

    def ident(self):
        tk = self.next()
        if tk[0] != "id":
            raise Unsupported("line %d: identifier expected, found `%s`" % (tk[2], tk[1]))
        return tk[1]

    # ---- types
    def ty(self):
        if self.accept("&"):
            if self.peek()[0] == "life":
                self.next()
            self.accept("mut")
            return self.ty()            # references are transparent (Copy values / read-only borrows)
        if self.accept("("):
            items = []
            while not self.at(")"):
                items.append(self.ty())
                if not self.accept(","):
                    break
            self.expect(")")
            if not items:
                return ("ty", "unit", [])
            return ("tup", items)
        if self.accept("["):
            inner = self.ty()
            if self.accept(";"):
                self.expr()
            self.expect("]")
            return ("ty", "slice", [inner])
        if self.at("impl") and (self.at("Iterator", 1) or self.at("IntoIterator", 1)) and self.at("<", 2) and self.at("Item", 3) and self.at("=", 4):
            # `impl Iterator<Item = T>` consumed once: the list of the items it yields
            for _ in range(5):
                self.next()
            inner = self.ty()
            self.expect(">")
            if self.at("+") and self.peek(1)[0] == "life":      # `+ '_`: a borrow bound, no meaning in the value model
                self.next()
                self.next()
            return ("ty", "slice", [inner])
        if self.at("impl") or self.at("dyn"):
            raise Unsupported("impl/dyn type")
        name = self.ident()
        while self.accept("::"):
            name = self.ident()
        args = []
        if self.accept("<"):
            while not self.at(">"):
                if self.peek()[0] == "life":
                    self.next()
                else:
                    args.append(self.ty())
                if not self.accept(","):
                    break
            self.expect(">")
        if name in ("Box", "Rc") and len(args) == 1:
            return args[0]
        if name == "Iter" and len(args) == 1:
            return ("ty", "slice", [args[0]])         # std::slice::Iter consumed once: the list of the items
        return ("ty", name, args)

    # ---- patterns
    def pattern(self):
        alts = [self.pattern1()]
        while self.accept("|"):
            alts.append(self.pattern1())
        return alts[0] if len(alts) == 1 else ("por", alts)

    def pattern1(self):
        tk = self.peek()
        if self.accept("&"):
            self.accept("mut")
            return self.pattern1()
        if self.accept("_"):
            return ("pwild",)
        if self.accept("("):
            items = []
            while not self.at(")"):
                items.append(self.pattern())
                if not self.accept(","):
                    break
            self.expect(")")
            return items[0] if len(items) == 1 else ("ptuple", items)
        if tk[0] == "int":
            self.next()
            v = ("plit", parse_int(tk[1])[0])
            if self.at("..=") or self.at(".."):
                raise Unsupported("range pattern")
            return v
        if tk[0] == "char":
            self.next()
            return ("plit", char_value(tk[1]))
        if self.at("true") or self.at("false"):
            return ("pbool", self.next()[1] == "true")
        if tk[0] == "id":
            if tk[1] in ("ref", "mut"):
                self.next()
                self.accept("mut")
                return ("pbind", self.ident())
            path = [self.ident()]
            while self.accept("::"):
                path.append(self.ident())
            if self.accept("("):
                items = []
                while not self.at(")"):
                    if self.accept(".."):
                        items.append(("prest",))
                    else:
                        items.append(self.pattern())
                    if not self.accept(","):
                        break
                self.expect(")")
                return ("pts", path, items)
            if self.at("{"):
                self.next()
                fields, rest = [], False
                while not self.at("}"):
                    if self.accept(".."):
                        rest = True
                        break
                    f = self.ident()
                    if self.accept(":"):
                        fields.append((f, self.pattern()))
                    else:
                        fields.append((f, ("pbind", f)))
                    if not self.accept(","):
                        break
                self.expect("}")
                return ("pstruct", path, fields, rest)
            if len(path) == 1 and (path[0][0].islower() or path[0][0] == "_"):
                if self.accept("@"):
                    raise Unsupported("@ pattern")
                return ("pbind", path[0])
            return ("ppath", path)
        raise Unsupported("line %d: pattern `%s`" % (tk[2], tk[1]))

    # ---- expressions
    BINPREC = [("||",), ("&&",), ("==", "!=", "<", ">", "<=", ">="), ("|",), ("^",), ("&",), ("<<", ">>"),
               ("+", "-"), ("*", "/", "%")]

    def expr(self, nostruct=False):
        return self.assign(nostruct)

    def assign(self, nostruct):
        lhs = self.range_expr(nostruct)
        tk = self.peek()
        if tk[0] == "punct" and tk[1] in ("=", "+=", "-=", "*=", "/=", "%=", "|=", "&=", "^=", "<<=", ">>="):
            self.next()
            rhs = self.assign(nostruct)
            return ("assign", tk[1], lhs, rhs)
        return lhs

    def range_expr(self, nostruct):
        if self.at("..") or self.at("..="):
            incl = self.next()[1] == "..="
            hi = None
            if not (self.at(")") or self.at("]") or self.at("{") or self.at(";") or self.at(",")):
                hi = self.binary(0, nostruct)
            return ("range", None, hi, incl)
        lo = self.binary(0, nostruct)
        if self.at("..") or self.at("..="):
            incl = self.next()[1] == "..="
            hi = None
            if not (self.at(")") or self.at("]") or self.at("{") or self.at(";") or self.at(",")):
                hi = self.binary(0, nostruct)
            return ("range", lo, hi, incl)
        return lo

    def binary(self, level, nostruct):
        if level == len(self.BINPREC):
            return self.cast(nostruct)
        lhs = self.binary(level + 1, nostruct)
        while True:
            tk = self.peek()
            if tk[0] == "punct" and tk[1] in self.BINPREC[level]:
                # `|` and `&` directly followed by `=`/`|`... are tokenized separately; closures are not supported
                self.next()
                rhs = self.binary(level + 1, nostruct)
                lhs = ("binary", tk[1], lhs, rhs)
                if level == 2:
                    pass
            else:
                return lhs

    def cast(self, nostruct):
        e = self.unary(nostruct)
        while self.accept("as"):
            e = ("cast", e, self.ty())
        return e

    def unary(self, nostruct):
        if self.accept("!"):
            return ("unary", "!", self.unary(nostruct))
        if self.accept("-"):
            return ("unary", "-", self.unary(nostruct))
        if self.accept("*"):
            return self.unary(nostruct)                   # dereference: transparent
        if self.accept("&"):
            self.accept("mut")
            return self.unary(nostruct)                   # borrow: transparent
        if self.accept("&&"):
            self.accept("mut")
            return self.unary(nostruct)
        return self.postfix(nostruct)

    def args(self):
        self.expect("(")
        out = []
        while not self.at(")"):
            out.append(self.expr())
            if not self.accept(","):
                break
        self.expect(")")
        return out

    def postfix(self, nostruct):
        e = self.primary(nostruct)
        while True:
            if self.at("?"):
                self.next()
                e = ("try", e)
            elif self.at("."):
                tk = self.peek(1)
                if tk[0] == "int":
                    self.next(); self.next()
                    e = ("field", e, tk[1])
                elif tk[0] == "id":
                    self.next(); self.next()
                    if self.at("::"):
                        raise Unsupported("turbofish")
                    if self.at("("):
                        e = ("mcall", e, tk[1], self.args())
                    else:
                        e = ("field", e, tk[1])
                else:
                    raise Unsupported("line %d: after `.`" % tk[2])
            elif self.at("("):
                e = ("call", e, self.args())
            elif self.at("["):
                self.next()
                idx = self.expr()
                self.expect("]")
                e = ("index", e, idx)
            else:
                return e

    def block(self):
        self.expect("{")
        stmts, tail = [], None
        while not self.at("}"):
            if self.accept(";"):
                continue
            if self.at("let"):
                self.next()
                pat = self.pattern()
                ty = None
                if self.accept(":"):
                    ty = self.ty()
                init = None
                if self.accept("="):
                    init = self.expr()
                if self.at("else"):
                    raise Unsupported("let-else")
                self.expect(";")
                stmts.append(("let", pat, ty, init))
                continue
            if self.at("#"):                       # attribute on a nested item / statement
                self.next()
                self.p = skip_balanced(self.t, self.p, "[", "]")
                continue
            if self.at("use"):
                self.next()
                path = [self.ident()]
                glob = False
                while self.accept("::"):
                    if self.accept("*"):
                        glob = True
                        break
                    if self.at("{"):
                        raise Unsupported("use list")
                    path.append(self.ident())
                self.expect(";")
                stmts.append(("use", path, glob))
                continue
            if self.at("fn"):
                self.next()
                name = self.ident()
                if self.at("<"):
                    raise Unsupported("generic nested fn")
                params, ret, mutself = self.fn_sig()
                body = self.block()
                stmts.append(("fn", name, params, ret, body))
                continue
            if self.at("struct") or self.at("const") or self.at("static") or self.at("enum") or self.at("impl"):
                raise Unsupported("line %d: nested item" % self.peek()[2])
            e = self.expr()
            if self.accept(";"):
                stmts.append(("expr", e))
            elif self.at("}"):
                tail = e
            elif e[0] in ("if", "iflet", "match", "while", "whilelet", "for", "loop", "block"):
                stmts.append(("expr", e))
            else:
                raise Unsupported("line %d: `;` expected, found `%s`" % (self.peek()[2], self.peek()[1]))
        self.expect("}")
        return ("block", stmts, tail)

    def fn_sig(self):
        """at `(`: parameters and return type -> (params, ret, mutself)"""
        self.expect("(")
        params, mutself = [], False
        while not self.at(")"):
            is_ref = is_mut = False
            if self.at("&"):
                self.next()
                is_ref = True
                if self.peek()[0] == "life":
                    self.next()
                is_mut = self.accept("mut")
            else:
                self.accept("mut")
            if self.at("self"):
                self.next()
                mutself = is_ref and is_mut
                params.append(("self", ("ty", "Self", [])))
            else:
                pat = self.pattern()
                if pat[0] != "pbind":
                    raise Unsupported("pattern parameter")
                self.expect(":")
                is_mutref = (self.at("&") and self.at("mut", 1)) or (self.at("&") and self.peek(1)[0] == "life" and self.at("mut", 2))
                pty = self.ty()
                if is_mutref and pty[0] == "ty" and pty[1] in ("slice", "Vec") and len(pty[2]) == 1:
                    pty = ("ty", "mutslice", pty[2])            # an in-out parameter: returned with the result
                elif is_mutref and not (pty[0] == "ty" and pty[1] == "Formatter"):
                    raise Unsupported("&mut parameter")         # (only slices / Vecs and an output Formatter)
                params.append((pat[1], pty))
            if not self.accept(","):
                break
        self.expect(")")
        ret = ("ty", "unit", [])
        if self.accept("->"):
            ret = self.ty()
        if self.at("where"):
            raise Unsupported("where clause")
        return params, ret, mutself

    def primary(self, nostruct):
        tk = self.peek()
        if tk[0] == "int":
            self.next()
            v, suf = parse_int(tk[1])
            return ("int", v, suf)
        if tk[0] == "char":
            self.next()
            return ("charlit", char_value(tk[1]))
        if tk[0] == "str":
            self.next()
            return ("strlit", tk[1])
        if self.at("("):
            self.next()
            items = []
            trailing = False
            while not self.at(")"):
                items.append(self.expr())
                trailing = False
                if not self.accept(","):
                    break
                trailing = True
            self.expect(")")
            if len(items) == 1 and not trailing:
                return items[0]
            return ("tuple", items)
        if self.at("["):
            self.next()
            items = []
            if self.at("]"):
                self.next()
                return ("veclit", items)
            first = self.expr()
            if self.accept(";"):
                n = self.expr()
                self.expect("]")
                return ("arrayrep", first, n)
            items.append(first)
            while self.accept(","):
                if self.at("]"):
                    break
                items.append(self.expr())
            self.expect("]")
            return ("veclit", items)
        if self.at("{"):
            return self.block()
        if self.at("if"):
            self.next()
            if self.accept("let"):
                pat = self.pattern()
                self.expect("=")
                scrut = self.expr(nostruct=True)
                then = self.block()
                els = None
                if self.accept("else"):
                    els = self.primary(False) if self.at("if") else self.block()
                return ("iflet", pat, scrut, then, els)
            cond = self.expr(nostruct=True)
            then = self.block()
            els = None
            if self.accept("else"):
                els = self.primary(False) if self.at("if") else self.block()
            return ("if", cond, then, els)
        if self.at("match"):
            self.next()
            scrut = self.expr(nostruct=True)
            self.expect("{")
            arms = []
            while not self.at("}"):
                pat = self.pattern()
                guard = None
                if self.accept("if"):
                    guard = self.expr(nostruct=True)
                self.expect("=>")
                body = self.expr()
                arms.append((pat, guard, body))
                if not self.accept(","):
                    if body[0] not in ("block", "if", "match", "iflet") :
                        break
            self.expect("}")
            return ("match", scrut, arms)
        if self.at("while"):
            self.next()
            if self.accept("let"):
                pat = self.pattern()
                self.expect("=")
                scrut = self.expr(nostruct=True)
                return ("whilelet", pat, scrut, self.block())
            cond = self.expr(nostruct=True)
            return ("while", cond, self.block())
        if self.at("loop"):
            self.next()
            return ("loop", self.block())
        if self.at("for"):
            self.next()
            pat = self.pattern()
            self.expect("in")
            it = self.expr(nostruct=True)
            return ("for", pat, it, self.block())
        if self.at("return"):
            self.next()
            if self.at(";") or self.at("}") or self.at(","):
                return ("return", None)
            return ("return", self.expr())
        if self.at("break"):
            self.next()
            if not (self.at(";") or self.at("}") or self.at(",")):
                raise Unsupported("break with value / label")
            return ("break",)
        if self.at("continue"):
            self.next()
            return ("continue",)
        if self.at("true") or self.at("false"):
            return ("bool", self.next()[1] == "true")
        if self.at("||") or self.at("move"):
            raise Unsupported("line %d: closure" % tk[2])
        if self.at("|"):
            self.next()
            params = []
            while not self.at("|"):
                params.append(self.pattern1())
                if self.accept(":"):
                    self.ty()
                if not self.accept(","):
                    break
            self.expect("|")
            body = self.expr()
            return ("closure", params, body)
        if tk[0] == "id":
            path = [self.ident()]
            while self.at("::"):
                self.next()
                if self.at("<"):
                    raise Unsupported("turbofish")
                path.append(self.ident())
            if self.at("!"):
                self.next()
                return self.macro(path[-1])
            if self.at("{") and not nostruct and path[-1][0].isupper():
                self.next()
                fields = []
                while not self.at("}"):
                    if self.at(".."):
                        raise Unsupported("struct update syntax")
                    f = self.ident()
                    if self.accept(":"):
                        fields.append((f, self.expr()))
                    else:
                        fields.append((f, ("path", [f])))
                    if not self.accept(","):
                        break
                self.expect("}")
                return ("struct", path, fields)
            return ("path", path)
        raise Unsupported("line %d: unexpected `%s`" % (tk[2], tk[1]))

    def macro(self, name):
        open_tk = self.next()
        close = {"(": ")", "[": "]", "{": "}"}[open_tk[1]]
        if name == "matches":
            e = self.expr()
            self.expect(",")
            pat = self.pattern()
            guard = None
            if self.accept("if"):
                guard = self.expr()
            self.accept(",")
            self.expect(close)
            return ("matches", e, pat, guard)
        if name in ("debug_assert", "debug_assert_eq", "debug_assert_ne"):
            self.skip_to(close)
            return ("skip",)
        if name == "assert":
            e = self.expr()
            if self.accept(","):
                self.skip_to(close)
            else:
                self.expect(close)
            return ("assert", e)
        if name in ("panic", "unreachable", "unimplemented", "todo"):
            self.skip_to(close)
            return ("panic",)
        if name == "write":
            target = self.expr()
            self.expect(",")
            tk = self.next()
            if tk[0] != "str":
                raise Unsupported("write! without a literal format string")
            args = []
            while self.accept(","):
                if self.at(close):
                    break
                args.append(self.expr())
            self.expect(close)
            return ("write", target, str_value(tk[1]), args)
        if name == "writeln":                                   # write! with a newline appended to the format string
            target = self.expr()
            if self.at(close):
                self.expect(close)
                return ("write", target, [10], [])
            self.expect(",")
            tk = self.next()
            if tk[0] != "str":
                raise Unsupported("writeln! without a literal format string")
            args = []
            while self.accept(","):
                if self.at(close):
                    break
                args.append(self.expr())
            self.expect(close)
            return ("write", target, str_value(tk[1]) + [10], args)
        if name == "format":
            tk = self.next()
            if tk[0] != "str":
                raise Unsupported("format! without a literal format string")
            args = []
            while self.accept(","):
                if self.at(close):
                    break
                args.append(self.expr())
            self.expect(close)
            return ("format", str_value(tk[1]), args)
        if name == "vec":
            items = []
            while not self.at(close):
                items.append(self.expr())
                if self.at(";") and len(items) == 1:
                    self.next()
                    n = self.expr()
                    self.expect(close)
                    return ("arrayrep", items[0], n)
                if not self.accept(","):
                    break
            self.expect(close)
            return ("veclit", items)
        raise Unsupported("macro %s!" % name)

    def skip_to(self, close):
        depth = 1
        while depth:
            tk = self.next()
            if tk[0] == "eof":
                raise Unsupported("unbalanced macro")
            if tk[0] == "punct" and tk[1] in "([{":
                depth += 1
            elif tk[0] == "punct" and tk[1] in ")]}":
                depth -= 1


# ------------------------------------------------------------------------------------ item scanner
def skip_balanced(toks, i, open_="{", close="}"):
    """toks[i] is the opening token; returns the index just after the matching closing token"""
    depth = 0
    while True:
        tk = toks[i]
        if tk[0] == "eof":
            raise Unsupported("unbalanced braces")
        if tk[0] == "punct" and tk[1] == open_:
            depth += 1
        elif tk[0] == "punct" and tk[1] == close:
            depth -= 1
            if depth == 0:
                return i + 1
        i += 1


def skip_generics(toks, i):
    """toks[i] == '<'"""
    depth = 0
    while True:
        tk = toks[i]
        if tk[1] == "<" and tk[0] == "punct":
            depth += 1
        elif tk[1] == ">" and tk[0] == "punct":
            depth -= 1
            if depth == 0:
                return i + 1
        elif tk[1] == ">>" and tk[0] == "punct":
            depth -= 2
            if depth <= 0:
                return i + 1
        elif tk[0] == "eof":
            raise Unsupported("unbalanced <>")
        i += 1


class Source:
    """items of one Rust file: structs, enums, consts, functions (by impl type / trait)"""

    def __init__(self, path):
        self.path = path
        self.toks = tokenize(open(path).read())
        self.structs = {}      # name -> [(field, type)]  (tuple structs: fields "0", "1", ..)
        self.derives = {}      # name -> set of derived traits
        self.enums = {}        # name -> [(variant, [types])]
        self.consts = {}       # name -> (type, expr)
        self.fns = {}          # (impl_type, trait, name) -> dict(params, ret, body_pos, line)
        self.assoc = {}        # (impl_type, assoc type name) -> type
        self.aliases = {}      # top-level `type X = T;`
        self.scan(0, len(self.toks) - 1, None, None, True)

    def scan(self, i, end, impl_ty, trait, top):
        t = self.toks
        pending_derive = set()
        in_test = False
        while i < end:
            tk = t[i]
            if tk[0] == "punct" and tk[1] == "#":
                j = i + 1
                if t[j][1] == "!":
                    j += 1
                k = skip_balanced(t, j, "[", "]")
                text = " ".join(x[1] for x in t[j:k])
                m = re.search(r"derive \( (.*?) \)", text)
                if m:
                    pending_derive |= set(x.strip() for x in m.group(1).split(",") if x.strip())
                if "cfg ( test )" in text:
                    in_test = True
                i = k
                continue
            if tk[0] == "id" and tk[1] in ("pub", "crate", "unsafe", "async", "default"):
                i += 1
                if t[i][1] == "(":
                    i = skip_balanced(t, i, "(", ")")
                continue
            if tk[0] == "id" and tk[1] == "mod":
                # skip test modules / nested modules
                j = i + 2
                if t[j][1] == "{":
                    i = skip_balanced(t, j)
                else:
                    i = j + 1
                in_test = False
                continue
            if tk[0] == "id" and tk[1] == "struct":
                name = t[i + 1][1]
                j = i + 2
                if t[j][1] == "<":
                    j = skip_generics(t, j)
                fields = []
                if t[j][1] == "(":
                    p = Parser(t, j + 1)
                    n = 0
                    while not p.at(")"):
                        while p.at("pub"):
                            p.next()
                            if p.at("("):
                                p.p = skip_balanced(t, p.p, "(", ")")
                        try:
                            fields.append((str(n), p.ty()))
                        except Unsupported:
                            fields = None
                            break
                        n += 1
                        if not p.accept(","):
                            break
                    i = skip_balanced(t, j, "(", ")")
                elif t[j][1] == "{":
                    p = Parser(t, j + 1)
                    while not p.at("}"):
                        try:
                            while p.at("pub"):
                                p.next()
                                if p.at("("):
                                    p.p = skip_balanced(t, p.p, "(", ")")
                            if p.at("#"):
                                p.next()
                                p.p = skip_balanced(t, p.p, "[", "]")
                                continue
                            f = p.ident()
                            p.expect(":")
                            fields.append((f, p.ty()))
                        except Unsupported:
                            fields = None
                            break
                        if not p.accept(","):
                            break
                    i = skip_balanced(t, j)
                else:
                    i = j + 1
                if fields is not None:
                    self.structs[name] = fields
                self.derives[name] = pending_derive
                pending_derive = set()
                continue
            if tk[0] == "id" and tk[1] == "enum":
                name = t[i + 1][1]
                j = i + 2
                if t[j][1] == "<":
                    j = skip_generics(t, j)
                p = Parser(t, j + 1)
                variants = []
                try:
                    while not p.at("}"):
                        if p.at("#"):
                            p.next()
                            p.p = skip_balanced(t, p.p, "[", "]")
                            continue
                        v = p.ident()
                        tys = []
                        if p.accept("("):
                            while not p.at(")"):
                                tys.append(p.ty())
                                if not p.accept(","):
                                    break
                            p.expect(")")
                        elif p.at("{"):
                            raise Unsupported("struct variant")
                        variants.append((v, tys))
                        if not p.accept(","):
                            break
                    self.enums[name] = variants
                except Unsupported:
                    pass
                self.derives[name] = pending_derive
                pending_derive = set()
                i = skip_balanced(t, j)
                continue
            if tk[0] == "id" and tk[1] in ("const", "static") and t[i + 1][0] == "id" and t[i + 2][1] == ":":
                name = t[i + 1][1]
                p = Parser(t, i + 3)
                try:
                    ty = p.ty()
                    p.expect("=")
                    e = p.expr()
                    self.consts[name] = (ty, e)
                    i = p.p
                except Unsupported:
                    i += 1
                continue
            if tk[0] == "id" and tk[1] == "impl":
                j = i + 1
                if t[j][1] == "<":
                    j = skip_generics(t, j)
                # impl [Trait for] Type {
                names = []
                while t[j][1] != "{":
                    if t[j][0] == "id" and t[j][1] not in ("for", "where"):
                        names.append(t[j][1])
                    if t[j][1] == "for":
                        names.append("for")
                    if t[j][1] == "<":
                        j2 = skip_generics(t, j)
                        if names and names[-1] != "for" and "for" not in names:
                            names[-1] = names[-1] + "".join(x[1] for x in t[j:j2] if x[0] != "life")
                        j = j2
                        continue
                    j += 1
                if "for" in names:
                    k = names.index("for")
                    tr, ty = names[k - 1], names[k + 1]
                else:
                    tr, ty = None, re.sub(r"<.*$", "", names[0])      # impl<T> Type<T>: the methods of Type
                endb = skip_balanced(t, j)
                if not in_test:
                    self.scan(j + 1, endb - 1, ty, tr, False)
                in_test = False
                i = endb
                continue
            if tk[0] == "id" and tk[1] == "fn":
                name = t[i + 1][1]
                j = i + 2
                generic = False
                if t[j][1] == "<":
                    generic = True
                    j = skip_generics(t, j)
                # parameters
                pend = skip_balanced(t, j, "(", ")")
                k = pend
                while t[k][1] not in ("{", ";"):
                    k += 1
                body_end = skip_balanced(t, k) if t[k][1] == "{" else k + 1
                if not in_test and t[k][1] == "{":
                    self.fns[(impl_ty, trait, name)] = {"sig": (j, pend, k), "body": k, "line": tk[2],
                                                        "generic": generic, "impl": impl_ty, "trait": trait, "name": name}
                in_test = False
                pending_derive = set()
                i = body_end
                continue
            if tk[0] == "id" and tk[1] == "type" and impl_ty is not None and t[i + 1][0] == "id" and t[i + 2][1] == "=":
                p_ = Parser(t, i + 3)
                try:
                    self.assoc[(impl_ty, t[i + 1][1])] = p_.ty()
                except Unsupported:
                    pass
            if tk[0] == "id" and tk[1] == "type" and impl_ty is None and t[i + 1][0] == "id" and t[i + 2][1] == "=":
                p_ = Parser(t, i + 3)
                try:
                    self.aliases[t[i + 1][1]] = p_.ty()
                except Unsupported:
                    pass
            if tk[0] == "id" and tk[1] in ("use", "type", "extern"):
                while t[i][1] != ";" and t[i][1] != "{":
                    i += 1
                if t[i][1] == "{" and tk[1] != "use":
                    i = skip_balanced(t, i)
                else:
                    while t[i][1] != ";":
                        i += 1
                    i += 1
                continue
            if tk[0] == "id" and tk[1] == "trait":
                j = i
                while t[j][1] != "{":
                    j += 1
                i = skip_balanced(t, j)
                continue
            i += 1

    def parse_fn(self, key):
        info = self.fns[key]
        (j, pend, k) = info["sig"]
        p = Parser(self.toks, j)
        params, ret, mutself = p.fn_sig()
        if p.p != k:
            raise Unsupported("signature of %s" % info["name"])
        body = p.block()
        return params, ret, body, mutself


# ------------------------------------------------------------------------------------ translation
# Rust type -> (Coq carrier, operator prefix).  u32 is N with checked operators; usize is nat (the
# model's convention for lengths and indices: 64-bit overflow of an index is not modelled, subtraction
# is checked).
INT_TYPES = {"u32": ("N", "u32"), "usize": ("nat", "usize"), "u64": ("N", "u64"), "u8": ("N", "u8"), "char": ("N", "u32"),
             "i32": ("Z", "i32")}
# i32 is Z; only constants and their cast to usize are supported so far


def T(name, *args):
    return ("ty", name, list(args))


UNIT = T("unit")


def is_int(ty):
    return ty is not None and ty[0] == "ty" and ty[1] in INT_TYPES


def is_nat(ty):
    return ty is not None and ty[0] == "ty" and ty[1] == "usize"


def is_z(ty):
    return ty is not None and ty[0] == "ty" and ty[1] == "i32"


def is_list(ty):
    return ty is not None and ty[0] == "ty" and ty[1] in ("slice", "Vec", "mutslice")


def is_outparam_ty(t):
    return t is not None and t[0] == "ty" and t[1] in ("Formatter", "mutslice")


def outparam_ret_ty(t):
    return T("String") if t[1] == "Formatter" else T("Vec", t[2][0])


def is_deque(ty):
    return ty is not None and ty[0] == "ty" and ty[1] == "VecDeque" and len(ty[2]) == 1 and is_int(ty[2][0])


def is_intset(ty):
    return ty is not None and ty[0] == "ty" and ty[1] == "HashSet" and len(ty[2]) == 1 and is_int(ty[2][0])


def is_str(ty):
    return ty is not None and ty[0] == "ty" and ty[1] in ("str", "String")


def var(name):
    return "v_" + name


def fld(name):
    return "f" + name if name.isdigit() else name


def tuple_proj(term, i, n):
    """component i of a left-nested Coq tuple of arity n"""
    if n == 1:
        return term
    if i == n - 1:
        return "(snd %s)" % term
    return tuple_proj("(fst %s)" % term, i, n - 1)


class Ctx:
    """one module being translated"""

    def __init__(self, name, sources, cfg):
        self.name = name
        self.sources = sources            # list of Source; the first is the primary one
        self.cfg = cfg
        self.fn_info = {}                 # (impl, name) -> dict(coq, params, ret, pure, fuel, mutself)
        self.tmp = 0
        self.default_int = cfg.get("default_int", "u32")
        self.aux_names = []

    def norm(self, ty):
        """resolve top-level type aliases"""
        if ty is None:
            return None
        if ty[0] == "tup":
            return ("tup", [self.norm(x) for x in ty[1]])
        if ty[1] in self.cfg.get("tparams", {}) and not ty[2]:
            return self.cfg["tparams"][ty[1]]            # the instance of a generic type that the module translates
        for sr in self.sources:
            if ty[1] in sr.aliases and not ty[2]:
                return self.norm(sr.aliases[ty[1]])
        return ("ty", ty[1], [self.norm(x) for x in ty[2]])

    def struct(self, name):
        for s in self.sources:
            if name in s.structs:
                if not any(sr.aliases for sr in self.sources) and not self.cfg.get("tparams"):
                    return s.structs[name]
                return [(f, self.norm(t)) for f, t in s.structs[name]]
        return None

    def enum(self, name):
        for s in self.sources:
            if name in s.enums:
                if not any(sr.aliases for sr in self.sources) and not self.cfg.get("tparams"):
                    return s.enums[name]
                return [(v, [self.norm(t) for t in tys]) for v, tys in s.enums[name]]
        return None

    def const(self, name):
        for s in self.sources:
            if name in s.consts:
                return s.consts[name]
        return None

    def derives(self, name):
        for s in self.sources:                 # the source that defines the type (as struct() / enum() resolve it)
            if name in s.structs or name in s.enums:
                return s.derives.get(name, set())
        return set()

    def fresh(self, base="t"):
        self.tmp += 1
        return "%s%d_" % (base, self.tmp)

    def coq_ty(self, ty):
        if ty[0] == "tup":
            return "(" + " * ".join(self.coq_ty(x) for x in ty[1]) + ")%type"
        name, args = ty[1], ty[2]
        if name in INT_TYPES:
            return INT_TYPES[name][0]
        if name == "bool":
            return "bool"
        if name == "unit":
            return "unit"
        if name == "Option":
            return "(option %s)" % self.coq_ty(args[0])
        if name == "Result" and len(args) == 2:
            return "(result %s %s)" % (self.coq_ty(args[0]), self.coq_ty(args[1]))
        if name in ("slice", "Vec", "mutslice"):
            return "(list %s)" % self.coq_ty(args[0])
        if name in ("str", "String", "Formatter"):
            return "(list N)"             # a Formatter is the text written so far
        if name == "Result" and not args:
            return "(result unit unit)"  # fmt::Result
        if name == "Ordering":
            return "comparison"
        if name in ("HashSet", "VecDeque") and len(args) == 1 and is_int(args[0]):
            # a set of integers that is never iterated: a duplicate-free list; a double-ended queue: a list
            return "(list %s)" % self.coq_ty(args[0])
        if name in ("HashMap", "HashSet", "VecDeque", "BTreeMap", "BTreeSet"):
            return "unit"        # opaque: a function that touches a value of this type is outside the subset
        if self.struct(name) is not None or self.enum(name) is not None:
            return name
        for sr in self.sources:
            if name in sr.aliases and not args:
                return self.coq_ty(sr.aliases[name])
        raise Unsupported("type " + name)

    def resolve_self(self, ty, impl):
        if ty is None:
            return None
        if ty[0] == "tup":
            return ("tup", [self.resolve_self(x, impl) for x in ty[1]])
        if ty[1] == "Self":
            return T(impl)
        if ty[1] in self.cfg.get("tparams", {}) and not ty[2]:
            return self.cfg["tparams"][ty[1]]
        for sr in self.sources:
            if ty[1] in sr.aliases and not ty[2]:
                return self.resolve_self(sr.aliases[ty[1]], impl)
        for sr in self.sources:
            if (impl, ty[1]) in sr.assoc and not ty[2]:
                return self.resolve_self(sr.assoc[(impl, ty[1])], impl)
        return ("ty", ty[1], [self.resolve_self(x, impl) for x in ty[2]])


def same_type(a, b):
    if a is None or b is None:
        return False
    if a[0] != b[0]:
        return False
    if a[0] == "tup":
        return len(a[1]) == len(b[1]) and all(same_type(x, y) for x, y in zip(a[1], b[1]))
    na = "slice" if a[1] in ("slice", "Vec") and b[1] in ("slice",) else a[1]
    if a[1] != b[1] and not ({a[1], b[1]} <= {"str", "String"}) and not ({a[1], b[1]} <= {"slice", "Vec", "mutslice"}):
        return False
    return len(a[2]) == len(b[2]) and all(same_type(x, y) for x, y in zip(a[2], b[2]))


def walk(e, f):
    """apply f to every tuple node of an AST"""
    if isinstance(e, tuple):
        f(e)
        for x in e:
            walk(x, f)
    elif isinstance(e, list):
        for x in e:
            walk(x, f)


def has_kind(e, kinds):
    found = []

    def f(x):
        if x and isinstance(x[0], str) and x[0] in kinds:
            found.append(x)
    walk(e, f)
    return bool(found)


def has_exit(e):
    """`?` / `return` (exit from the function), or break / continue / assignment (an effect on the
    enclosing loop or on a variable): the continuation must then be threaded through the branches"""
    if has_kind(e, ("try", "return", "break", "continue", "assign", "write")):
        return True
    found = []

    def f(x):
        if x[0] == "mcall" and x[2] in MUTATING_METHODS and id(x) not in NONMUT_NODES:
            found.append(x)
    walk(e, f)
    return bool(found)


def assigned_vars(e):
    """root variables assigned (or mutated through a method) anywhere in e"""
    out = []

    def root(pl):
        while pl[0] in ("field", "index"):
            pl = pl[1]
        return pl[1][0] if pl[0] == "path" and len(pl[1]) == 1 else None

    def f(x):
        if x[0] == "assign":
            r = root(x[2])
            if r and r not in out:
                out.append(r)
        if x[0] == "write" and isinstance(x[1], tuple):
            r = root(x[1])
            if r and r not in out:
                out.append(r)
        if x[0] == "mcall" and x[2] in MUTATING_METHODS and id(x) not in NONMUT_NODES:
            r = root(x[1])
            if r and r not in out:
                out.append(r)
    walk(e, f)
    return out


def used_vars(e):
    out = []

    def f(x):
        if x[0] == "path" and len(x[1]) == 1 and x[1][0] not in out:
            out.append(x[1][0])
    walk(e, f)
    return out


def let_bound(e):
    out = set()

    def pv(p):
        if p[0] == "pbind":
            out.add(p[1])
        for x in p[1:]:
            if isinstance(x, tuple):
                pv(x)
            elif isinstance(x, list):
                for y in x:
                    if isinstance(y, tuple) and y and isinstance(y[0], str):
                        pv(y)
                    elif isinstance(y, tuple) and len(y) == 2 and isinstance(y[1], tuple):
                        pv(y[1])

    def f(x):
        if x[0] == "let":
            pv(x[1])
        if x[0] == "for":
            pv(x[1])
        if x[0] == "match":
            for (p_, _g, _b) in x[2]:
                pv(p_)
    walk(e, f)
    return out


# method-call nodes (by identity) whose name is that of a &mut self method of the module but whose receiver
# type is known to have a translated method of that name taking &self (e.g. Automaton::next vs Iterator::next)
NONMUT_NODES = set()
BASE_MUTATING = ("push", "extend_from_slice", "resize", "truncate", "sort_by_key", "retain", "sort_unstable", "sort",
                 "push_back", "pop_front")
MUTATING_METHODS = set(BASE_MUTATING)          # plus the &mut self methods of the translated set (added per module)


class FnTranslator:
    def __init__(self, ctx, impl, coq_name, params, ret, body, mutself=False, local_fns=None):
        self.c = ctx
        self.impl = impl
        self.coq_name = coq_name
        self.params = [(n, ctx.resolve_self(t, impl)) for n, t in params]
        self.ret = ctx.resolve_self(ret, impl)
        self.body = body
        self.mutself = mutself
        self.local_fns = local_fns or {}
        self.globs = []                # enums opened by `use E::*`
        self.uses_fuel = False
        self.aux = []                  # loop fixpoints, emitted before the function
        self.nloops = 0
        self.locals = {}
        self.ret_k = lambda v: "Some %s" % self.finish(v)
        self.full_ret = self.ret if not mutself else (T(impl) if self.ret == UNIT else ("tup", [T(impl), self.ret]))
        # a `&mut Formatter` parameter is an output buffer: the text is returned with the result
        self.outparams = [n for n, t in self.params if is_outparam_ty(t)]
        self.outparam = self.outparams[0] if self.outparams else None
        if self.outparams:
            if mutself:
                raise Unsupported("&mut self together with a &mut parameter")
            self.full_ret = ("tup", [outparam_ret_ty(t) for n, t in self.params if is_outparam_ty(t)] + [self.ret])

    def finish(self, v):
        if self.outparams:
            return "(%s, %s)" % (", ".join(var(n) for n in self.outparams), v)
        if not self.mutself:
            return v
        return var("self") if self.ret == UNIT else "(%s, %s)" % (var("self"), v)

    # ---------------------------------------------------------------- local type inference
    def infer_locals(self, env):
        """types of `let x = <literal>` locals from their uses (comparison with / assignment of typed
        expressions, index position)"""
        known = dict(env)
        changed = True
        body = self.body

        def visit(x):
            nonlocal changed
            k = x[0]

            def setv(pathe, ty):
                nonlocal changed
                if pathe[0] == "path" and len(pathe[1]) == 1 and ty is not None and pathe[1][0] not in known:
                    known[pathe[1][0]] = self.c.resolve_self(ty, self.impl)
                    changed = True
            if k == "let" and x[1][0] == "pbind" and x[3] is not None:
                t = x[2] or self.ty_of(x[3], known)
                if t is not None and x[1][1] not in known:
                    known[x[1][1]] = self.c.resolve_self(t, self.impl)
                    changed = True
            if k == "let" and x[1][0] == "ptuple" and x[3] is not None:
                t = x[2] or self.ty_of(x[3], known)
                if t is not None and t[0] == "tup":
                    for p_, pt in zip(x[1][1], t[1]):
                        if p_[0] == "pbind" and p_[1] not in known and pt is not None:
                            known[p_[1]] = pt
                            changed = True
            if k == "for":
                it_t = self.ty_of(x[2], known)
                if is_list(it_t):
                    et = it_t[2][0]
                    if x[1][0] == "pbind" and x[1][1] not in known:
                        known[x[1][1]] = et
                        changed = True
                    if x[1][0] == "ptuple" and et[0] == "tup":
                        for p_, pt in zip(x[1][1], et[1]):
                            if p_[0] == "pbind" and p_[1] not in known and pt is not None:
                                known[p_[1]] = pt
                                changed = True
            if k == "binary":
                ta, tb = self.ty_of(x[2], known), self.ty_of(x[3], known)
                if x[1] not in ("&&", "||", "<<", ">>"):
                    setv(x[2], tb)
                    setv(x[3], ta)
            if k == "assign":
                ta, tb = self.ty_of(x[2], known), self.ty_of(x[3], known)
                setv(x[2], tb)
                setv(x[3], ta)
            if k == "index" and len(x) == 3 and x[2][0] != "range":      # (a struct literal's field may be named index)
                setv(x[2], T("usize"))
            if k == "assign" and x[2][0] == "index" and x[2][2][0] != "range":
                tb = self.ty_of(x[3], known)
                if tb is not None:
                    setv(x[2][1], T("Vec", tb))
            if k == "struct":
                sname = x[1][-1] if x[1][-1] != "Self" else self.impl
                st_ = self.c.struct(sname)
                if st_:
                    ftys = dict(st_)
                    for (fname_, fe) in x[2]:
                        if fname_ in ftys:
                            setv(fe, ftys[fname_])
                            if fe[0] == "mcall" and fe[2] == "into" and not fe[3] and is_list(ftys[fname_]):
                                setv(fe[1], T("Vec", ftys[fname_][2][0]))       # field: v.into() with a slice-typed field
            if k == "call" and x[1][0] == "path":
                info = self.lookup_fn(x[1][1])
                if info:
                    for a_, (_n, pt) in zip(x[2], [q for q in info["params"] if q[0] != "self"]):
                        setv(a_, pt)
            if k == "mcall" and x[2] == "extend_from_slice" and x[3]:
                at = self.ty_of(x[3][0], known)
                if is_list(at):
                    setv(x[1], T("Vec", at[2][0]))
            if k == "mcall" and x[2] == "push" and x[3]:
                at = self.ty_of(x[3][0], known)
                if at is not None and self.ty_of(x[1], known) is None:
                    setv(x[1], T("Vec", at))
            if k == "mcall":
                rt = self.ty_of(x[1], known)
                if rt and rt[0] == "ty":
                    info = self.c.fn_info.get((rt[1], x[2]))
                    if info:
                        for a_, (_n, pt) in zip(x[3], [q for q in info["params"] if q[0] != "self"]):
                            setv(a_, pt)
        while changed:
            changed = False
            walk(body, visit)
            if body[0] == "block" and body[2] is not None and body[2][0] == "path" and len(body[2][1]) == 1 \
                    and body[2][1][0] not in known and self.ret is not None and self.ret != UNIT:
                known[body[2][1][0]] = self.ret          # the tail expression has the return type
                changed = True
            if body[0] == "block" and body[2] is not None and body[2][0] == "mcall" and body[2][2] == "into" \
                    and body[2][1][0] == "path" and len(body[2][1][1]) == 1 and body[2][1][1][0] not in known and is_list(self.ret):
                known[body[2][1][1][0]] = T("Vec", self.ret[2][0])       # v.into() as the result: a Vec of the returned slice
                changed = True

        # an integer literal local that nothing constrains has Rust's fallback type i32
        def fallback(x):
            if x[0] == "let" and x[1][0] == "pbind" and x[2] is None and x[3] is not None and x[3][0] == "int" \
                    and not x[3][2] and x[1][1] not in known:
                known[x[1][1]] = T("i32")
        walk(body, fallback)
        return known

    # ---------------------------------------------------------------- typing (best effort)
    def variant_enum(self, name):
        """enum (among the glob-imported ones) that has a variant `name`"""
        for en in self.globs:
            for v, tys in self.c.enum(en) or []:
                if v == name:
                    return en, tys
        return None

    def enum_variant(self, path):
        """(enum, variant, types) for a path that names an enum variant"""
        p = list(path)
        if p[0] == "Self":
            p[0] = self.impl
        if len(p) == 2 and self.c.enum(p[0]) is not None:
            for v, tys in self.c.enum(p[0]):
                if v == p[1]:
                    return p[0], v, tys
        if len(p) == 1:
            r = self.variant_enum(p[0])
            if r:
                return r[0], p[0], r[1]
        return None

    def ty_of(self, e, env):
        k = e[0]
        if k == "rawterm":
            return e[2]
        if k == "int":
            return T(e[2]) if e[2] else None
        if k == "charlit":
            return T("char")
        if k in ("strlit", "format"):
            return T("String")
        if k == "range" and e[1] is not None and e[2] is not None:
            tl, th = self.ty_of(e[1], env), self.ty_of(e[2], env)
            t0 = tl or th
            if (t0 is None or is_nat(t0)) and (tl is None or th is None or same_type(tl, th)):
                return T("slice", T("usize"))          # lo..hi over usize, iterated: the list lo, lo+1, .., hi-1
            if t0 is not None and t0[0] == "ty" and t0[1] == "u32" and (tl is None or th is None or same_type(tl, th)):
                return T("slice", T("u32"))            # the same over u32 (values of N)
            return None
        if k == "write":
            return T("Result", UNIT, UNIT)
        if k == "bool":
            return T("bool")
        if k == "path":
            p = e[1]
            if len(p) == 1:
                if p[0] in env:
                    return env[p[0]]
                if p[0] in self.locals:
                    return self.locals[p[0]]
                c = self.c.const(p[0])
                if c:
                    return c[0]
            ev = self.enum_variant(p)
            if ev and not ev[2]:
                return T(ev[0])
            if p[0] == "Ordering":
                return T("Ordering")
            return None
        if k == "field":
            t = self.ty_of(e[1], env)
            if t and t[0] == "ty":
                st = self.c.struct(t[1])
                if st:
                    for f, ft in st:
                        if f == e[2]:
                            return ft
            if t and t[0] == "tup" and e[2].isdigit() and int(e[2]) < len(t[1]):
                return t[1][int(e[2])]
            return None
        if k == "binary":
            if e[1] in ("==", "!=", "<", ">", "<=", ">=", "&&", "||"):
                return T("bool")
            return self.ty_of(e[2], env) or self.ty_of(e[3], env)
        if k == "unary":
            if e[1] == "-" and e[2][0] == "int" and not e[2][2]:
                return T("i32")
            return self.ty_of(e[2], env)
        if k == "cast":
            return e[2]
        if k == "matches":
            return T("bool")
        if k == "call":
            f = e[1]
            if f[0] == "path":
                p = f[1]
                if p == ["Some"]:
                    a = self.ty_of(e[2][0], env)
                    return T("Option", a) if a else None
                if len(p) == 2 and p[1] == "from" and len(e[2]) == 1:
                    return T(p[0] if p[0] != "Self" else self.impl)
                if p[-2:] == ["mem", "take"] and len(e[2]) == 1:
                    return self.ty_of(e[2][0], env)
                if len(p) == 2 and p[0] in ("Rc", "Box") and p[1] == "new" and len(e[2]) == 1:
                    return self.ty_of(e[2][0], env)
                if p == ["char", "from_u32"] and len(e[2]) == 1:
                    return T("Option", T("char"))
                info = self.lookup_fn(p)
                if info:
                    return info["full_ret"]
                if p[-1] in ("max", "min") and len(e[2]) == 2:
                    return self.ty_of(e[2][0], env) or self.ty_of(e[2][1], env)
                if len(p) == 2 and p[1] in ("default", "new") and self.c.struct(p[0] if p[0] != "Self" else self.impl) is not None and info is None:
                    return T(p[0] if p[0] != "Self" else self.impl)
                if len(p) == 1 and self.c.struct(p[0]) is not None:
                    return T(p[0])
                ev = self.enum_variant(p)
                if ev:
                    return T(ev[0])
            return None
        if k == "mcall":
            rt = self.ty_of(e[1], env)
            m = e[2]
            if rt and rt[0] == "ty":
                info = self.c.fn_info.get((rt[1], m))
                if info:
                    return info["ret"]
                if is_int(rt):
                    if m in ("checked_add", "checked_sub", "checked_mul"):
                        return T("Option", rt)
                    if m in ("saturating_sub", "saturating_add", "wrapping_add", "wrapping_sub", "min", "max", "pow"):
                        return rt
                    if m == "cmp" and len(e[3]) == 1:
                        return T("Ordering")
                if rt[1] == "Option":
                    if m == "and_then" and e[3] and e[3][0][0] == "closure":
                        env2 = dict(env)
                        try:
                            self.pat(e[3][0][1][0], rt[2][0], env2)
                        except Unsupported:
                            return None
                        return self.ty_of(e[3][0][2], env2)
                    if m in ("unwrap", "expect", "unwrap_or"):
                        return rt[2][0]
                    if m in ("is_some", "is_none"):
                        return T("bool")
                if rt[1] == "Result" and m in ("unwrap", "expect"):
                    return rt[2][0]
                if is_str(rt) and m == "chars":
                    return T("slice", T("char"))
                if (is_str(rt) or rt[1] == "char") and m in ("to_string", "to_owned") and not e[3]:
                    return T("String")
                if is_z(rt) and m == "to_string" and not e[3]:
                    return T("String")
                if is_str(rt) and m == "as_str" and not e[3]:
                    return T("str")
                if is_deque(rt):
                    if m == "pop_front":
                        return T("Option", rt[2][0])
                    if m == "is_empty":
                        return T("bool")
                    if m == "len":
                        return T("usize")
                if is_intset(rt):
                    if m in ("insert", "contains"):
                        return T("bool")
                    if m == "len":
                        return T("usize")
                if rt[1] == "char" and m == "to_digit":
                    return T("Option", T("u32"))
                if rt[1] == "char" and m == "is_ascii_hexdigit":
                    return T("bool")
                if is_list(rt):
                    if m == "len":
                        return T("usize")
                    if m == "is_empty":
                        return T("bool")
                    if m in ("iter", "to_vec", "clone", "collect", "into_boxed_slice", "as_ref", "as_slice", "as_mut_slice"):
                        return rt
                    if m in ("max", "min") and not e[3]:
                        return T("Option", rt[2][0])
                    if m in ("all", "any"):
                        return T("bool")
                    if m == "map" and e[3] and e[3][0][0] == "closure":
                        env2 = dict(env)
                        try:
                            self.pat(e[3][0][1][0], rt[2][0], env2)
                        except Unsupported:
                            return None
                        bt = self.ty_of(e[3][0][2], env2)
                        return T("Vec", bt) if bt else None
                    if m in ("last", "first"):
                        return T("Option", rt[2][0])
                    if m == "fold" and len(e[3]) == 2:
                        return self.ty_of(e[3][0], env)
                    if m == "enumerate" and not e[3]:
                        return T("slice", ("tup", [T("usize"), rt[2][0]]))
                    if m == "rev" and not e[3]:
                        return rt
                    if m == "skip" and len(e[3]) == 1:
                        return rt
                    if m == "get" and e[3] and e[3][0][0] == "range":
                        return T("Option", T("slice", rt[2][0]))
                if m == "clone":
                    return rt
            return None
        if k == "if":
            return self.ty_of(e[2], env) or (self.ty_of(e[3], env) if e[3] else None)
        if k == "iflet":
            return self.ty_of(e[3], env) or (self.ty_of(e[4], env) if e[4] else None)
        if k == "block":
            env2 = dict(env)
            for s in e[1]:
                if s[0] == "let" and s[1][0] == "pbind":
                    t = s[2] or (self.ty_of(s[3], env2) if s[3] else None)
                    if t:
                        env2[s[1][1]] = self.c.resolve_self(t, self.impl)
            return self.ty_of(e[2], env2) if e[2] else UNIT
        if k == "struct":
            return T(e[1][-1] if e[1][-1] != "Self" else self.impl)
        if k == "tuple":
            ts = [self.ty_of(x, env) for x in e[1]]
            return ("tup", ts) if all(ts) else None
        if k == "index":
            t = self.ty_of(e[1], env)
            if is_list(t):
                return T("slice", t[2][0]) if e[2][0] == "range" else t[2][0]
            return None
        if k == "try":
            t = self.ty_of(e[1], env)
            return t[2][0] if t and t[0] == "ty" and t[1] in ("Option", "Result") else None
        if k == "match":
            for (_p, _g, b) in e[2]:
                t = self.ty_of(b, env)
                if t:
                    return t
        if k == "veclit":
            for x in e[1]:
                t = self.ty_of(x, env)
                if t:
                    return T("Vec", t)
        if k == "arrayrep":
            t = self.ty_of(e[1], env)
            return T("slice", t) if t else None
        return None

    def lookup_from(self, target, argty):
        """impl From<argty> for target"""
        if argty is None:
            return None
        for (impl, name), info in self.c.fn_info.items():
            if impl == target and name.startswith("from<") and info["params"] and same_type(info["params"][0][1], argty):
                return info
        return None

    def lookup_fn(self, path):
        p = list(path)
        if len(p) == 1 and p[0] in self.local_fns:
            return self.local_fns[p[0]]
        if p[0] == "Self":
            p[0] = self.impl
        if len(p) == 1:
            return self.c.fn_info.get((None, p[0]))
        if len(p) == 2:
            return self.c.fn_info.get((p[0], p[1]))
        return None

    # ---------------------------------------------------------------- patterns
    def pat(self, p, ty, env):
        """-> Coq pattern string; binds variables into env"""
        k = p[0]
        if k == "pwild":
            return "_"
        if k == "pbind":
            ev = self.variant_enum(p[1]) if p[1][0].isupper() else None
            if ev and not ev[1]:
                return "%s_%s" % (ev[0], p[1])
            env[p[1]] = ty if ty is not None else self.locals.get(p[1])
            return var(p[1])
        if k == "plit":
            return "%d%s" % (p[1], "%nat" if is_nat(ty) else ("%Z" if is_z(ty) else ""))
        if k == "pbool":
            return "true" if p[1] else "false"
        if k == "ptuple":
            ts = ty[1] if ty and ty[0] == "tup" else [None] * len(p[1])
            return "(" + ", ".join(self.pat(x, t, env) for x, t in zip(p[1], ts)) + ")"
        if k == "por":
            return "(" + " | ".join(self.pat(x, ty, env) for x in p[1]) + ")"
        if k == "ppath":
            path = p[1]
            if path == ["None"]:
                return "None"
            if path[0] == "Ordering":
                return {"Less": "Lt", "Equal": "Eq", "Greater": "Gt"}[path[1]]
            ev = self.enum_variant(path)
            if ev:
                return "%s_%s" % (ev[0], ev[1])
            c = self.c.const(path[-1])
            if c and c[1][0] == "int":
                return "%d" % c[1][1]
            raise Unsupported("path pattern " + "::".join(path))
        if k == "pts":
            path = p[1]
            if path == ["Some"]:
                inner = ty[2][0] if ty and ty[0] == "ty" and ty[1] == "Option" else None
                return "(Some %s)" % self.pat(p[2][0], inner, env)
            if path in (["Ok"], ["Err"]):
                inner = ty[2][0 if path == ["Ok"] else 1] if ty and ty[0] == "ty" and ty[1] == "Result" else None
                return "(%s %s)" % (path[0], self.pat(p[2][0], inner, env))
            name = path[0] if path[0] != "Self" else self.impl
            if len(path) == 1 and self.c.struct(name) is not None:
                fields = self.c.struct(name)
                if len(fields) != len(p[2]):
                    raise Unsupported("tuple struct pattern arity")
                return "(%s_mk %s)" % (name, " ".join(self.pat(x, ft, env) for x, (_f, ft) in zip(p[2], fields)))
            ev = self.enum_variant(path)
            if ev:
                items = list(p[2])
                if any(x[0] == "prest" for x in items):
                    i_ = [x[0] for x in items].index("prest")
                    items = items[:i_] + [("pwild",)] * (len(ev[2]) - len(items) + 1) + items[i_ + 1:]
                return "(%s_%s %s)" % (ev[0], ev[1], " ".join(self.pat(x, t, env) for x, t in zip(items, ev[2])))
            raise Unsupported("pattern " + "::".join(path))
        if k == "pstruct":
            name = p[1][-1] if p[1][-1] != "Self" else self.impl
            fields = self.c.struct(name)
            if fields is None:
                raise Unsupported("struct pattern " + name)
            given = dict(p[2])
            return "(%s_mk %s)" % (name, " ".join(self.pat(given[f], ft, env) if f in given else "_" for f, ft in fields))
        raise Unsupported("pattern kind " + k)

    # ---------------------------------------------------------------- pure expressions
    def arith_prefix(self, ty):
        t = ty[1] if is_int(ty) else self.c.default_int
        return INT_TYPES[t][1]

    def lit(self, v, want):
        if is_nat(want):
            return "%d%%nat" % v
        if is_z(want):
            return "%d%%Z" % v if v >= 0 else "(%d)%%Z" % v
        return "%d" % v

    def pure(self, e, env, want=None):
        """Gallina term for e if e cannot panic and has no control effect, else None"""
        k = e[0]
        if k == "rawterm":
            return e[1]
        if k == "int":
            return self.lit(e[1], T(e[2]) if e[2] else want)
        if k == "charlit":
            return "%d" % e[1]
        if k == "strlit":
            return "[" + "; ".join("%d" % c for c in str_value(e[1])) + "]"
        if k == "range" and e[1] is not None and e[2] is not None and self.ty_of(e, env) is not None:
            if self.ty_of(e, env)[2][0][1] == "u32":
                lo = self.pure(e[1], env, T("u32"))
                hi = self.pure(e[2], env, T("u32"))
                if lo is None or hi is None:
                    return None
                return "(map N.of_nat (seq (N.to_nat %s) (%sN.to_nat %s - N.to_nat %s)))" % (lo, "1 + " if e[3] else "", hi, lo)
            lo = self.pure(e[1], env, T("usize"))
            hi = self.pure(e[2], env, T("usize"))
            if lo is None or hi is None:
                return None
            return "(seq %s (%s%s - %s))" % (lo, "1 + " if e[3] else "", hi, lo)
        if k == "format":
            parts, args = [], list(e[2])
            for kind_, v in parse_format(e[1]):
                if kind_ == "lit":
                    parts.append("[" + "; ".join("%d" % c for c in v) + "]")
                    continue
                if kind_ == "named":
                    a, v = ("path", [v]), ""
                elif not args:
                    raise Unsupported("format!: more placeholders than arguments")
                else:
                    a = args.pop(0)
                at = self.ty_of(a, env)
                av = self.pure(a, env)
                if av is None:
                    return None
                if v == "":
                    if at is not None and at[0] == "ty" and at[1] == "char":
                        parts.append("[%s]" % av)
                    elif is_str(at):
                        parts.append(av)
                    elif at is not None and at[0] == "ty" and at[1] == "u32":
                        parts.append("(i32_to_string (Z.of_N %s))" % av)       # decimal digits (no sign: the value is >= 0)
                    else:
                        raise Unsupported("format!: {} at type %s" % (at,))
                else:
                    if at is None or at[0] != "ty" or at[1] not in ("u32", "char"):
                        raise Unsupported("format!: {:%s} at type %s" % (v, at))
                    parts.append("(fmt_hex %d %s)" % ({"x": 0, "02x": 2, "04x": 4}[v], av))
            if args:
                raise Unsupported("format!: unused arguments")
            return "(" + " ++ ".join(parts or ["[]"]) + ")"
        if k == "bool":
            return "true" if e[1] else "false"
        if k == "path":
            p = e[1]
            if len(p) == 1:
                if p[0] in env or p[0] == "self":
                    return var(p[0])
                if p[0] == "None":
                    return "None"
                if self.c.const(p[0]):
                    return p[0]
                ev = self.enum_variant(p)
                if ev and not ev[2]:
                    return "%s_%s" % (ev[0], ev[1])
                raise Unsupported("unknown name " + p[0])
            if p[0] == "Ordering":
                return {"Less": "Lt", "Equal": "Eq", "Greater": "Gt"}[p[1]]
            if p[0] in ("u32",) and p[1] == "MAX":
                return "U32MAX"
            if p == ["i32", "MAX"]:
                return "2147483647%Z"
            if p == ["char", "REPLACEMENT_CHARACTER"]:
                return "65533"
            ev = self.enum_variant(p)
            if ev and not ev[2]:
                return "%s_%s" % (ev[0], ev[1])
            raise Unsupported("path " + "::".join(p))
        if k == "field":
            r = self.pure(e[1], env)
            if r is None:
                return None
            t = self.ty_of(e[1], env)
            if t is None:
                raise Unsupported("field access on a value of unknown type (.%s)" % e[2])
            if t[0] == "tup":
                return tuple_proj(r, int(e[2]), len(t[1]))
            return "(%s_%s %s)" % (t[1], fld(e[2]), r)
        if k == "unary":
            a = self.pure(e[2], env)
            if a is None:
                return None
            if e[1] == "!":
                return "(negb %s)" % a
            if e[1] == "-" and e[2][0] == "int":
                return "(-%d)%%Z" % e[2][1]
            return None
        if k == "binary":
            op = e[1]
            if op in ("&&", "||"):
                a = self.pure(e[2], env)
                b = self.pure(e[3], env)
                if a is None or b is None:
                    return None
                return "(%s %s %s)" % (a, op, b)
            ta = self.ty_of(e[2], env) or self.ty_of(e[3], env) or (want if op not in ("==", "!=", "<", ">", "<=", ">=") else None)
            if op in ("==", "!=", "<", ">", "<=", ">="):
                a = self.pure(e[2], env, ta)
                b = self.pure(e[3], env, ta)
                if a is None or b is None:
                    return None
                return self.compare(op, a, b, ta)
            if is_nat(ta) and op in ("+", "*"):
                a = self.pure(e[2], env, ta)
                b = self.pure(e[3], env, ta)
                if a is None or b is None:
                    return None
                return "(%s %s %s)%%nat" % (a, op, b)
            if op in ("|", "&") and (ta is None or (is_int(ta) and not is_nat(ta))):
                a = self.pure(e[2], env, ta)
                b = self.pure(e[3], env, ta)
                if a is None or b is None:
                    return None
                return "(N.%s %s %s)" % ("lor" if op == "|" else "land", a, b)
            if op == "<<" and e[3][0] == "int" and e[3][1] < 32 and (self.ty_of(e[2], env) or T(self.c.default_int))[1] in ("u32", "char"):
                a = self.pure(e[2], env, T("u32"))
                if a is None:
                    return None
                return "(u32_shl %s %d)" % (a, e[3][1])
            if is_nat(ta) and op == "/" and e[3][0] == "int" and e[3][1] != 0:
                a = self.pure(e[2], env, ta)
                if a is None:
                    return None
                return "(Nat.div %s %d)" % (a, e[3][1])
            return None                 # u32 arithmetic can overflow; any subtraction can underflow
        if k == "matches":
            a = self.pure(e[1], env)
            if a is None or e[3] is not None:
                return None
            env2 = dict(env)
            return "match %s with %s => true | _ => false end" % (a, self.pat(e[2], self.ty_of(e[1], env), env2))
        if k == "call":
            f = e[1]
            if f[0] != "path":
                raise Unsupported("call of a computed function")
            p = f[1]
            if p[-2:] == ["mem", "take"]:
                return None
            info = self.lookup_fn(p)
            if info is None and len(p) == 2 and p[1] == "from" and len(e[2]) == 1:
                return None
            ptys = [pt for (n_, pt) in info["params"] if n_ != "self"] if info else []
            ev = self.enum_variant(p) if not info else None
            if ev:
                ptys = ev[2]
            if p == ["Some"] and want is not None and want[0] == "ty" and want[1] == "Option":
                ptys = [want[2][0]]
            name = p[0] if p[0] != "Self" else self.impl
            if not info and len(p) == 1 and self.c.struct(name) is not None:
                ptys = [ft for _f, ft in self.c.struct(name)]
            args = [self.pure(a, env, ptys[i] if i < len(ptys) else None) for i, a in enumerate(e[2])]
            if any(a is None for a in args):
                return None
            if p == ["Some"]:
                return "(Some %s)" % args[0]
            if p in (["Ok"], ["Err"]):
                return "(%s %s)" % (p[0], args[0])
            if info:
                return None          # translated functions are always called through their monadic view M_f
            if p[-1] in ("max", "min") and len(p) <= 2 and len(args) == 2:
                t = self.ty_of(e[2][0], env) or self.ty_of(e[2][1], env)
                return "(%s.%s %s %s)" % ("Nat" if is_nat(t) else "N", p[-1], args[0], args[1])
            if len(p) == 2 and p[1] == "default" and not args and "Default" in self.c.derives(name):
                return "%s_default" % name
            if len(p) == 2 and p[0] in ("Rc", "Box") and p[1] == "new" and len(args) == 1:
                return args[0]
            if p == ["char", "from_u32"] and len(args) == 1:
                return "(char_from_u32 %s)" % args[0]
            if len(p) == 2 and p == ["Vec", "new"]:
                return "[]"
            if len(p) == 2 and p == ["Vec", "with_capacity"] and len(args) == 1:
                return "[]"
            if len(p) == 2 and p[0] in ("VecDeque", "HashSet") and p[1] == "new" and not args:
                return "[]"
            if len(p) == 2 and p[0] in ("VecDeque", "HashSet") and p[1] == "with_capacity" and len(args) == 1:
                return "[]"
            if len(p) == 1 and self.c.struct(name) is not None:
                return "(%s_mk%s)" % (name, "".join(" " + a for a in args))
            if ev:
                return "(%s_%s%s)" % (ev[0], ev[1], "".join(" " + a for a in args))
            raise Unsupported("call of %s (not in the translated set)" % "::".join(p))
        if k == "mcall":
            m = e[2]
            rt = self.ty_of(e[1], env)
            if m in MUTATING_METHODS or m == "into":
                return None
            if m in ("iter", "clone", "to_vec", "copied", "cloned", "into_boxed_slice", "as_ref", "as_slice", "as_mut_slice") and not e[3] \
                    and not (rt and rt[0] == "ty" and (rt[1], m) in self.c.fn_info):
                return self.pure(e[1], env)
            if m in ("max", "min") and not e[3] and is_list(rt) and is_int(rt[2][0]) and not is_nat(rt[2][0]):
                r0 = self.pure(e[1], env)
                return None if r0 is None else "(list_%s_opt %s)" % (m, r0)
            if m == "chars" and is_str(rt):
                return self.pure(e[1], env)
            if m in ("to_string", "to_owned", "as_str") and not e[3] and is_str(rt):
                return self.pure(e[1], env)
            if m == "to_string" and not e[3] and is_z(rt):
                r0 = self.pure(e[1], env)
                return None if r0 is None else "(i32_to_string %s)" % r0
            if m == "to_string" and not e[3] and rt is not None and rt[0] == "ty" and rt[1] == "char":
                r0 = self.pure(e[1], env)
                return None if r0 is None else "[%s]" % r0
            if (is_deque(rt) or is_intset(rt)) and m in ("is_empty", "len") and not e[3]:
                r0 = self.pure(e[1], env)
                if r0 is None:
                    return None
                return "(length %s)" % r0 if m == "len" else "match %s with [] => true | _ :: _ => false end" % r0
            if is_intset(rt) and m == "contains" and len(e[3]) == 1:
                r0 = self.pure(e[1], env)
                a0 = self.pure(e[3][0], env, rt[2][0])
                if r0 is None or a0 is None:
                    return None
                return "(existsb (%s %s) %s)" % ("Nat.eqb" if is_nat(rt[2][0]) else "N.eqb", a0, r0)
            if (is_deque(rt) and m in ("push_back", "pop_front")) or (is_intset(rt) and m == "insert"):
                return None
            if m == "enumerate" and not e[3] and is_list(rt):
                r0 = self.pure(e[1], env)
                return None if r0 is None else "(enumerate %s)" % r0
            if m == "rev" and not e[3] and is_list(rt):
                r0 = self.pure(e[1], env)
                return None if r0 is None else "(rev %s)" % r0
            if m == "skip" and len(e[3]) == 1 and is_list(rt):
                r0 = self.pure(e[1], env)
                n0 = self.pure(e[3][0], env, T("usize"))
                return None if r0 is None or n0 is None else "(skipn %s %s)" % (n0, r0)
            if e[3] and e[3][0][0] == "closure" and len(e[3]) == 1 and len(e[3][0][1]) == 1:
                cl = e[3][0]
                r0 = self.pure(e[1], env)
                if r0 is None:
                    return None
                env2 = dict(env)
                if is_list(rt) and m in ("all", "any", "map"):
                    ps = self.pat(cl[1][0], rt[2][0], env2)
                    body = self.pure_any(cl[2], env2, rt[2][0] if m == "map" else None)
                    if body is None:
                        return None
                    fn = {"all": "forallb", "any": "existsb", "map": "map"}[m]
                    return "(%s (fun %s%s => %s) %s)" % (fn, "'" if cl[1][0][0] == "ptuple" else "", ps, body, r0)
                if rt is not None and rt[0] == "ty" and rt[1] == "Option" and m in ("and_then", "map"):
                    ps = self.pat(cl[1][0], rt[2][0], env2)
                    body = self.pure_any(cl[2], env2)
                    if body is None:
                        return None
                    if m == "map":
                        body = "Some %s" % body
                    return "match %s with Some %s => %s | None => None end" % (r0, ps, body)
                raise Unsupported("closure argument of .%s" % m)
            if m == "collect" and not e[3]:
                return self.pure(e[1], env)
            if m == "get" and is_list(rt) and len(e[3]) == 1 and e[3][0][0] == "range" and not e[3][0][3] \
                    and e[3][0][1] is not None and e[3][0][2] is not None:
                r0 = self.pure(e[1], env)
                lo = self.pure(e[3][0][1], env, T("usize"))
                hi = self.pure(e[3][0][2], env, T("usize"))
                if r0 is None or lo is None or hi is None:
                    return None
                return "(slice_range %s %s %s)" % (r0, lo, hi)
            if rt is not None and rt[0] == "ty" and rt[1] == "char" and m == "to_digit" and len(e[3]) == 1 and e[3][0] == ("int", 16, None):
                r0 = self.pure(e[1], env)
                return None if r0 is None else "(char_to_digit16 %s)" % r0
            if rt is not None and rt[0] == "ty" and rt[1] == "char" and m == "is_ascii_hexdigit":
                r0 = self.pure(e[1], env)
                return None if r0 is None else "(char_is_hexdigit %s)" % r0
            r = self.pure(e[1], env)
            if r is None:
                return None
            info = self.c.fn_info.get((rt[1], m)) if rt and rt[0] == "ty" else None
            ptys = [pt for (n_, pt) in info["params"] if n_ != "self"] if info else ([rt] if is_int(rt) else [])
            args = [self.pure(a, env, ptys[i] if i < len(ptys) else None) for i, a in enumerate(e[3])]
            if any(a is None for a in args):
                return None
            if rt and rt[0] == "ty":
                if info:
                    return None      # translated functions are always called through their monadic view M_f
                if is_int(rt):
                    pre = INT_TYPES[rt[1]][1]
                    if m in ("checked_add", "checked_mul", "checked_sub"):
                        return "(%s_%s %s %s)" % (pre, m[8:], r, args[0])
                    if is_z(rt):
                        raise Unsupported("method i32.%s" % m)
                    if m == "saturating_sub":
                        return "(%s.sub %s %s)" % ("Nat" if is_nat(rt) else "N", r, args[0])
                    if m in ("min", "max"):
                        return "(%s.%s %s %s)" % ("Nat" if is_nat(rt) else "N", m, r, args[0])
                    if m == "cmp":
                        return "(%s.compare %s %s)" % ("Nat" if is_nat(rt) else "N", r, args[0])
                if rt[1] == "Option":
                    if m == "is_some":
                        return "match %s with Some _ => true | None => false end" % r
                    if m == "is_none":
                        return "match %s with Some _ => false | None => true end" % r
                    if m == "unwrap_or":
                        return "match %s with Some x_ => x_ | None => %s end" % (r, args[0])
                    if m in ("unwrap", "expect"):
                        return None
                if rt[1] == "Result" and m in ("unwrap", "expect"):
                    return None
                if is_list(rt):
                    if m == "len":
                        return "(length %s)" % r
                    if m == "is_empty":
                        return "match %s with [] => true | _ :: _ => false end" % r
                    if m == "last":
                        return "(last_opt %s)" % r
                    if m == "first":
                        return "(hd_error %s)" % r
            if rt is None:
                raise Unsupported("method .%s on a value of unknown type" % m)
            raise Unsupported("method %s.%s" % (rt[1] if rt[0] == "ty" else "tuple", m))
        if k == "struct":
            name = e[1][-1] if e[1][-1] != "Self" else self.impl
            fields = self.c.struct(name)
            if fields is None:
                raise Unsupported("struct literal " + name)
            given = dict(e[2])
            args = []
            for f, ft in fields:
                if f not in given:
                    raise Unsupported("missing field " + f)
                a = self.pure(given[f], env, ft)
                if a is None:
                    return None
                args.append(a)
            return "(%s_mk%s)" % (name, "".join(" " + a for a in args))
        if k == "tuple":
            wts = want[1] if want and want[0] == "tup" else [None] * len(e[1])
            args = [self.pure(a, env, wt) for a, wt in zip(e[1], wts)]
            if any(a is None for a in args):
                return None
            if not args:
                return "tt"
            return "(" + ", ".join(args) + ")"
        if k == "veclit":
            wt = want[2][0] if is_list(want) else None
            args = [self.pure(a, env, wt) for a in e[1]]
            if any(a is None for a in args):
                return None
            return "[" + "; ".join(args) + "]"
        if k == "arrayrep":
            wt = want[2][0] if is_list(want) else None
            a = self.pure(e[1], env, wt)
            n = self.pure(e[2], env, T("usize"))
            if a is None or n is None:
                return None
            return "(repeat %s %s)" % (a, n)
        if k == "cast":
            a = self.pure(e[1], env)
            if a is None:
                return None
            src = self.ty_of(e[1], env)
            dst = e[2]
            if is_z(dst) and src is not None and src[0] == "ty" and src[1] in ("u32", "char"):
                return "(u32_as_i32 %s)" % a
            if is_z(src) and dst[0] == "ty" and dst[1] == "u32":
                return "(i32_as_u32 %s)" % a
            if src is not None and src[0] == "ty" and src[1] == "i32" and is_nat(dst):
                if e[1][0] == "path" and self.c.const(e[1][1][-1]):
                    return "(Z.to_nat %s)" % a          # a non-negative constant
                return "(i32_as_usize %s)" % a          # sign extension to 64 bits
            if is_nat(src) and is_z(dst):
                return "(usize_as_i32 %s)" % a          # truncation to 32 bits
            if is_int(dst) and (src is None or is_int(src)):
                s_ = (src[1] if src else self.c.default_int)
                width = {"u8": 8, "u32": 32, "usize": 64, "u64": 64, "char": 32}
                conv = a
                if is_nat(T(s_)) and not is_nat(dst):
                    conv = "(N.of_nat %s)" % a
                if not is_nat(T(s_)) and is_nat(dst):
                    return "(N.to_nat %s)" % a
                if width[s_] <= width[dst[1]]:
                    return conv
                return "(N.modulo %s %d)" % (conv, 2 ** width[dst[1]])
            raise Unsupported("cast")
        if k == "if":
            c = self.pure(e[1], env)
            if c is None or e[3] is None:
                return None
            a = self.pure(e[2], env, want)
            b = self.pure(e[3], env, want)
            if a is None or b is None:
                return None
            return "(if %s then %s else %s)" % (c, a, b)
        if k == "block":
            if not e[1] and e[2] is not None:
                return self.pure(e[2], env, want)
            return None
        return None

    def compare(self, op, a, b, ty):
        if is_nat(ty):
            m = {"==": "(Nat.eqb %s %s)", "!=": "(negb (Nat.eqb %s %s))", "<": "(Nat.ltb %s %s)", "<=": "(Nat.leb %s %s)"}
            if op == ">":
                return "(Nat.ltb %s %s)" % (b, a)
            if op == ">=":
                return "(Nat.leb %s %s)" % (b, a)
            return m[op] % (a, b)
        if is_z(ty):
            m = {"==": "(Z.eqb %s %s)", "!=": "(negb (Z.eqb %s %s))", "<": "(Z.ltb %s %s)", "<=": "(Z.leb %s %s)"}
            if op == ">":
                return "(Z.ltb %s %s)" % (b, a)
            if op == ">=":
                return "(Z.leb %s %s)" % (b, a)
            return m[op] % (a, b)
        if ty is None or is_int(ty):
            m = {"==": "(%s =? %s)", "!=": "(negb (%s =? %s))", "<": "(%s <? %s)", "<=": "(%s <=? %s)"}
            if op == ">":
                return "(%s <? %s)" % (b, a)
            if op == ">=":
                return "(%s <=? %s)" % (b, a)
            return m[op] % (a, b)
        if ty[0] == "ty" and ty[1] == "bool" and op in ("==", "!="):
            r = "(Bool.eqb %s %s)" % (a, b)
            return r if op == "==" else "(negb %s)" % r
        if ty[0] == "ty" and (self.c.struct(ty[1]) is not None or self.c.enum(ty[1]) is not None) and op in ("==", "!=") \
                and "PartialEq" not in self.c.derives(ty[1]) and (ty[1], "eq") in self.c.fn_info:
            # a hand-written impl PartialEq that is translated in this module
            info = self.c.fn_info[(ty[1], "eq")]
            if info["pure"] is None:
                raise NotYet(info["coq"])
            if not info["pure"]:
                raise Unsupported("== on %s through an impl PartialEq that can panic" % ty[1])
            r = "(%s %s %s)" % (info["coq"], a, b)
            return r if op == "==" else "(negb %s)" % r
        if ty[0] == "ty" and (self.c.struct(ty[1]) is not None or self.c.enum(ty[1]) is not None) and op in ("<", "<=", ">", ">=") \
                and (ty[1], "cmp") in self.c.fn_info:
            # a hand-written impl Ord that is translated in this module (PartialOrd forwards to it)
            info = self.c.fn_info[(ty[1], "cmp")]
            if info["pure"] is None:
                raise NotYet(info["coq"])
            if not info["pure"]:
                raise Unsupported("%s on %s through an impl Ord that can panic" % (op, ty[1]))
            yes = {"<": "Lt => true | _ => false", "<=": "Gt => false | _ => true", ">": "Gt => true | _ => false", ">=": "Lt => false | _ => true"}[op]
            return "(match %s %s %s with %s end)" % (info["coq"], a, b, yes)
        if ty[0] == "ty" and (self.c.struct(ty[1]) is not None or self.c.enum(ty[1]) is not None) and op in ("==", "!="):
            if "PartialEq" not in self.c.derives(ty[1]):
                raise Unsupported("== on %s without derived PartialEq" % ty[1])
            r = "(%s_eqb %s %s)" % (ty[1], a, b)
            return r if op == "==" else "(negb %s)" % r
        raise Unsupported("comparison %s at type %s" % (op, ty))

    # ---------------------------------------------------------------- places (assignment targets)
    def place_update(self, place, newval, env):
        """-> (root variable, term for the new value of the root) for `place = newval`"""
        if place[0] == "path" and len(place[1]) == 1:
            if place[1][0] not in env and place[1][0] != "self":
                raise Unsupported("assignment to unknown variable " + place[1][0])
            return place[1][0], newval
        if place[0] == "field":
            base = place[1]
            bt = self.ty_of(base, env)
            bterm = self.pure(base, env)
            if bt is None or bterm is None:
                raise Unsupported("assignment through a computed place")
            if bt[0] == "tup":
                n = len(bt[1])
                comps = [newval if i == int(place[2]) else tuple_proj(bterm, i, n) for i in range(n)]
                return self.place_update(base, "(" + ", ".join(comps) + ")", env)
            st = self.c.struct(bt[1])
            if st is None:
                raise Unsupported("field assignment on " + bt[1])
            comps = [newval if f == place[2] else "(%s_%s %s)" % (bt[1], fld(f), bterm) for f, _ft in st]
            return self.place_update(base, "(%s_mk %s)" % (bt[1], " ".join(comps)), env)
        raise Unsupported("assignment target")

    # ---------------------------------------------------------------- monadic translation (CPS)
    # tr(e, env, k): Gallina term of type `option <result of the function / loop>`; k(term) builds the rest
    # from the pure value of e.
    def tr(self, e, env, k, want=None):
        p = self.pure(e, env, want)
        if p is not None:
            return k(p)
        kind = e[0]
        if kind == "binary":
            op = e[1]
            if op in ("&&", "||"):
                def after_a(a):
                    t = self.c.fresh()
                    if has_exit(e[3]) or self.has_inout_call(e[3]):
                        raise Unsupported("effect in the right operand of %s" % op)
                    rhs = self.tr(e[3], env, RETURN)
                    if op == "&&":
                        return "do %s <- (if %s then %s else Some false);\n%s" % (t, a, rhs, k(t))
                    return "do %s <- (if %s then Some true else %s);\n%s" % (t, a, rhs, k(t))
                return self.tr(e[2], env, after_a)
            ta = self.ty_of(e[2], env) or self.ty_of(e[3], env) or (want if op in ("+", "-", "*", "/") else None)
            if op in ("==", "!=", "<", ">", "<=", ">="):
                return self.tr(e[2], env, lambda a: self.tr(e[3], env, lambda b: k(self.compare(op, a, b, ta)), ta), ta)
            if op in ("+", "-", "*", "/"):
                fn = self.arith_prefix(ta) + "_" + {"+": "add", "-": "sub", "*": "mul", "/": "div"}[op]

                def fin(a, b):
                    t = self.c.fresh()
                    return "do %s <- %s %s %s;\n%s" % (t, fn, a, b, k(t))
                return self.tr(e[2], env, lambda a: self.tr(e[3], env, lambda b: fin(a, b), ta), ta)
            raise Unsupported("operator " + op)
        if kind == "unary":
            if e[1] == "!":
                return self.tr(e[2], env, lambda a: k("(negb %s)" % a))
            raise Unsupported("unary " + e[1])
        if kind == "field":
            bt = self.ty_of(e[1], env)
            return self.tr(e[1], env, lambda r: k(self.pure(("field", ("rawterm", r, bt), e[2]), env)))
        if kind == "try":
            def after(v):
                t = self.c.fresh()
                vt = self.ty_of(e[1], env)
                if vt and vt[0] == "ty" and vt[1] == "Result":
                    return "match %s with\n| Err e_ => %s\n| Ok %s =>\n%s\nend" % (v, self.ret_k("(Err e_)"), t, k(t))
                return "match %s with\n| None => %s\n| Some %s =>\n%s\nend" % (v, self.ret_k("None"), t, k(t))
            return self.tr(e[1], env, after)
        if kind == "return":
            if e[1] is None:
                return self.ret_k("tt")
            return self.tr(e[1], env, self.ret_k, self.ret)
        if kind == "panic":
            return "None"
        if kind == "break":
            if self.break_k is None:
                raise Unsupported("break outside a loop")
            return self.break_k()
        if kind == "continue":
            if self.continue_k is None:
                raise Unsupported("continue outside a loop")
            return self.continue_k()
        if kind == "assign":
            op, lhs, rhs = e[1], e[2], e[3]
            lt = self.ty_of(lhs, env)
            if op != "=":
                rhs = ("binary", op[:-1], lhs, rhs)
            if lhs[0] == "index":
                # a[i] = v on an array / Vec place: None (panic) when i is out of bounds
                base = lhs[1]

                def after_iv(i_, v):
                    bterm = self.pure(base, env)
                    if bterm is None:
                        raise Unsupported("element assignment through a computed place")
                    t = self.c.fresh()
                    root, term = self.place_update(base, t, env)
                    return "do %s <- list_upd %s %s %s;\nlet %s := %s in\n%s" % (t, bterm, i_, v, var(root), term, k("tt"))
                return self.tr(lhs[2], env, lambda i_: self.tr(rhs, env, lambda v: after_iv(i_, v), lt), T("usize"))

            if lhs[0] == "field" and lhs[1][0] == "index" and lhs[1][2][0] != "range":
                # a[i].f = v: read the element (None when i is out of bounds), update its field, write it back
                base, fld = lhs[1][1], lhs[2]
                et = self.ty_of(lhs[1], env)
                if et is None:
                    raise Unsupported("field assignment on an element of unknown type")

                def after_ifv(i_, v):
                    bterm = self.pure(base, env)
                    if bterm is None:
                        raise Unsupported("element assignment through a computed place")
                    tmp = "elem%s" % self.c.fresh().strip("_")
                    env2 = dict(env); env2[tmp] = et
                    _r, eterm = self.place_update(("field", ("path", [tmp]), fld), v, env2)
                    t = self.c.fresh()
                    root, term = self.place_update(base, t, env)
                    return "do %s <- nth_error %s %s;\ndo %s <- list_upd %s %s %s;\nlet %s := %s in\n%s" \
                        % (var(tmp), bterm, i_, t, bterm, i_, eterm, var(root), term, k("tt"))
                return self.tr(lhs[1][2], env, lambda i_: self.tr(rhs, env, lambda v: after_ifv(i_, v), lt), T("usize"))

            def after(v):
                root, term = self.place_update(lhs, v, env)
                return "let %s := %s in\n%s" % (var(root), term, k("tt"))
            return self.tr(rhs, env, after, lt)
        if kind == "call":
            f = e[1]
            if f[0] != "path":
                raise Unsupported("call of a computed function")
            p = f[1]
            if p[-2:] == ["mem", "take"] and len(e[2]) == 1:
                place = e[2][0]
                pt = self.ty_of(place, env)
                cur = self.pure(place, env)
                if pt is None or cur is None:
                    raise Unsupported("mem::take of a computed place")
                t = self.c.fresh()
                root, term = self.place_update(place, default_term(self.c, pt), env)
                return "let %s := %s in\nlet %s := %s in\n%s" % (t, cur, var(root), term, k(t))
            info = self.lookup_fn(p)
            if info is None and len(p) == 2 and p[1] == "from" and len(e[2]) == 1:
                info = self.lookup_from(p[0] if p[0] != "Self" else self.impl, self.ty_of(e[2][0], env))
                if info is None:
                    raise Unsupported("%s::from at argument type %s" % (p[0], self.ty_of(e[2][0], env)))
            ptys = [pt for (n_, pt) in info["params"] if n_ != "self"] if info else []
            ev = self.enum_variant(p) if not info else None
            if ev:
                ptys = ev[2]

            if info and info["pure"] is None:
                raise NotYet(info["coq"])

            def with_args(args):
                if info:
                    call = "M_%s%s%s" % (info["coq"], " fuel" if info["fuel"] else "", "".join(" " + a for a in args))
                    if info["fuel"]:
                        self.uses_fuel = True
                    t = self.c.fresh()
                    outs = [i for i, (n_, pt) in enumerate([q for q in info["params"] if q[0] != "self"]) if is_outparam_ty(pt)]
                    if outs:
                        # in-out arguments: the callee returns their new values with its result
                        names = [self.c.fresh("o") for _ in outs]
                        res = self.c.fresh()
                        code = "do %s <- %s;\nlet '(%s, %s) := %s in\n" % (t, call, ", ".join(names), res, t)
                        for i_, nm in zip(outs, names):
                            place = e[2][i_]
                            while place[0] == "unary" and place[1] in ("&", "&mut", "*"):
                                place = place[2]
                            root, term = self.place_update(place, nm, env)
                            code += "let %s := %s in\n" % (var(root), term)
                        return code + k(res)
                    return "do %s <- %s;\n%s" % (t, call, k(t))
                return k(self.pure(("call", f, [("rawterm", a, None) for a in args]), env, want))
            return self.tr_list(e[2], env, with_args, ptys)
        if kind == "mcall":
            rt = self.ty_of(e[1], env)
            m = e[2]
            info = self.c.fn_info.get((rt[1], m)) if rt and rt[0] == "ty" else None
            if info and info["pure"] is None:
                raise NotYet(info["coq"])
            if info and info["mutself"]:
                return self.tr_mutcall(e, env, k, info)
            if m == "into" and not e[3]:
                target = want if want is not None else self.ret
                if is_list(rt) and is_list(target) and same_type(rt[2][0], target[2][0]):
                    return self.tr(e[1], env, k)             # Vec<T> -> Box<[T]>: the same list
                finfo = self.lookup_from(target[1], rt) if target is not None and target[0] == "ty" else None
                if finfo is None:
                    raise Unsupported(".into() from %s to %s" % (rt, target))
                if finfo["pure"] is None:
                    raise NotYet(finfo["coq"])

                def with_recv(r):
                    t = self.c.fresh()
                    return "do %s <- M_%s %s;\n%s" % (t, finfo["coq"], r, k(t))
                return self.tr(e[1], env, with_recv)
            if is_list(rt) and m == "fold" and len(e[3]) == 2 and e[3][1][0] == "closure" and len(e[3][1][1]) == 2:
                # it.fold(init, |acc, x| body): left fold; the body may panic (monadic)
                cl = e[3][1]
                if has_exit(cl[2]):
                    raise Unsupported("early exit inside a closure")
                acc_t = self.ty_of(e[3][0], env) or want

                def with_recv_fold(r0):
                    def with_init(i0):
                        env2 = dict(env)
                        pa = self.pat(cl[1][0], acc_t, env2)
                        px = self.pat(cl[1][1], rt[2][0], env2)
                        body = self.tr(cl[2], env2, RETURN, acc_t)
                        t = self.c.fresh()
                        return "do %s <- fold_m (fun %s %s =>\n%s) %s %s;\n%s" % (t, pa, px, body, r0, i0, k(t))
                    return self.tr(e[3][0], env, with_init, want)
                return self.tr(e[1], env, with_recv_fold)
            if is_list(rt) and m in ("sort_by_key", "retain") and len(e[3]) == 1 and e[3][0][0] == "closure" and len(e[3][0][1]) == 1:
                # v.sort_by_key(|x| key) is a stable sort; v.retain(|x| keep) keeps the order of the kept elements
                cl = e[3][0]
                recv = self.pure(e[1], env)
                if recv is None:
                    raise Unsupported("%s on a computed place" % m)
                env2 = dict(env)
                ps = self.pat(cl[1][0], rt[2][0], env2)
                body = self.pure_any(cl[2], env2)
                if body is None:
                    raise Unsupported("closure of .%s is not a pure expression" % m)
                fun = "(fun %s%s => %s)" % ("'" if cl[1][0][0] == "ptuple" else "", ps, body)
                if m == "sort_by_key":
                    kt = self.ty_of(cl[2], env2)
                    if not is_int(kt) or is_z(kt):
                        raise Unsupported("sort_by_key with a key that is not an unsigned integer")
                    newv = "(sort_by_key_%s %s %s)" % ("nat" if is_nat(kt) else "N", fun, recv)
                else:
                    newv = "(filter %s %s)" % (fun, recv)
                root, term = self.place_update(e[1], newv, env)
                return "let %s := %s in\n%s" % (var(root), term, k("tt"))
            if is_list(rt) and m in ("sort_unstable", "sort") and not e[3] and is_int(rt[2][0]) and not is_z(rt[2][0]):
                recv = self.pure(e[1], env)
                if recv is None:
                    raise Unsupported("%s on a computed place" % m)
                newv = "(sort_by_key_%s (fun x_ => x_) %s)" % ("nat" if is_nat(rt[2][0]) else "N", recv)
                root, term = self.place_update(e[1], newv, env)
                return "let %s := %s in\n%s" % (var(root), term, k("tt"))
            if e[3] and e[3][0][0] == "closure" and len(e[3]) == 1 and len(e[3][0][1]) == 1:
                # iterator / option adaptor whose closure body is monadic (it calls translated functions)
                cl = e[3][0]
                if has_exit(cl[2]):
                    raise Unsupported("early exit inside a closure")

                def with_recv_cl(r0):
                    env2 = dict(env)
                    t = self.c.fresh()
                    if is_list(rt) and m in ("all", "any", "map"):
                        ps = self.pat(cl[1][0], rt[2][0], env2)
                        body = self.tr(cl[2], env2, RETURN, rt[2][0] if m == "map" else None)
                        fn = {"all": "all_m", "any": "any_m", "map": "map_m"}[m]
                        return "do %s <- %s (fun %s%s =>\n%s) %s;\n%s" % (t, fn, "'" if cl[1][0][0] == "ptuple" else "", ps, body, r0, k(t))
                    if rt is not None and rt[0] == "ty" and rt[1] == "Option" and m in ("and_then", "map"):
                        ps = self.pat(cl[1][0], rt[2][0], env2)
                        body = self.tr(cl[2], env2, RETURN if m == "and_then" else (lambda v: "Some (Some %s)" % v))
                        return "do %s <- (match %s with\n| Some %s =>\n%s\n| None => Some None\nend);\n%s" % (t, r0, ps, body, k(t))
                    raise Unsupported("closure argument of .%s" % m)
                return self.tr(e[1], env, with_recv_cl)
            if is_deque(rt) and m == "push_back" and len(e[3]) == 1:
                def after_pb(v):
                    recv = self.pure(e[1], env)
                    if recv is None:
                        raise Unsupported("push_back on a computed place")
                    root, term = self.place_update(e[1], "(%s ++ [%s])" % (recv, v), env)
                    return "let %s := %s in\n%s" % (var(root), term, k("tt"))
                return self.tr(e[3][0], env, after_pb, rt[2][0])
            if is_deque(rt) and m == "pop_front" and not e[3]:
                recv = self.pure(e[1], env)
                if recv is None:
                    raise Unsupported("pop_front on a computed place")
                q, o = self.c.fresh("q"), self.c.fresh("o")
                root, term = self.place_update(e[1], q, env)
                return "let '(%s, %s) := deque_pop_front %s in\nlet %s := %s in\n%s" % (q, o, recv, var(root), term, k(o))
            if is_intset(rt) and m == "insert" and len(e[3]) == 1:
                def after_ins(v):
                    recv = self.pure(e[1], env)
                    if recv is None:
                        raise Unsupported("insert on a computed place")
                    q, o = self.c.fresh("q"), self.c.fresh("o")
                    root, term = self.place_update(e[1], q, env)
                    return "let '(%s, %s) := set_insert %s %s %s in\nlet %s := %s in\n%s" % (
                        q, o, "Nat.eqb" if is_nat(rt[2][0]) else "N.eqb", recv, v, var(root), term, k(o))
                return self.tr(e[3][0], env, after_ins, rt[2][0])
            if is_list(rt) and m in ("resize", "truncate"):
                def after_rs(vals):
                    recv = self.pure(e[1], env)
                    if recv is None:
                        raise Unsupported("%s on a computed place" % m)
                    newv = "(vec_resize %s %s %s)" % (recv, vals[0], vals[1]) if m == "resize" else "(firstn %s %s)" % (vals[0], recv)
                    root, term = self.place_update(e[1], newv, env)
                    return "let %s := %s in\n%s" % (var(root), term, k("tt"))
                return self.tr_list(e[3], env, after_rs, [T("usize"), rt[2][0]])
            if is_list(rt) and m == "extend_from_slice":
                def after_ext(v):
                    recv = self.pure(e[1], env)
                    if recv is None:
                        raise Unsupported("extend_from_slice on a computed place")
                    root, term = self.place_update(e[1], "(%s ++ %s)" % (recv, v), env)
                    return "let %s := %s in\n%s" % (var(root), term, k("tt"))
                return self.tr(e[3][0], env, after_ext, rt)
            if is_list(rt) and m == "push":
                def after_push(v):
                    recv = self.pure(e[1], env)
                    if recv is None:
                        raise Unsupported("push on a computed place")
                    root, term = self.place_update(e[1], "(%s ++ [%s])" % (recv, v), env)
                    return "let %s := %s in\n%s" % (var(root), term, k("tt"))
                return self.tr(e[3][0], env, after_push, rt[2][0])
            ptys = [pt for (n_, pt) in info["params"] if n_ != "self"] if info else ([rt] if is_int(rt) else [])

            def with_all(vals):
                r, args = vals[0], vals[1:]
                if info:
                    if info["fuel"]:
                        self.uses_fuel = True
                    t = self.c.fresh()
                    call = "M_%s%s %s%s" % (info["coq"], " fuel" if info["fuel"] else "", r, "".join(" " + a for a in args))
                    outs = [i for i, (n_, pt) in enumerate([q for q in info["params"] if q[0] != "self"]) if is_outparam_ty(pt)]
                    if outs:
                        # in-out arguments of a method (as for a call by path): their new values come back with the result
                        names = [self.c.fresh("o") for _ in outs]
                        res = self.c.fresh()
                        code = "do %s <- %s;\nlet '(%s, %s) := %s in\n" % (t, call, ", ".join(names), res, t)
                        for i_, nm in zip(outs, names):
                            place = e[3][i_]
                            while place[0] == "unary" and place[1] in ("&", "&mut", "*"):
                                place = place[2]
                            root, term = self.place_update(place, nm, env)
                            code += "let %s := %s in\n" % (var(root), term)
                        return code + k(res)
                    return "do %s <- %s;\n%s" % (t, call, k(t))
                if rt and rt[0] == "ty" and rt[1] == "Option" and m in ("unwrap", "expect"):
                    t = self.c.fresh()
                    return "do %s <- %s;\n%s" % (t, r, k(t))
                if rt and rt[0] == "ty" and rt[1] == "Result" and m in ("unwrap", "expect"):
                    t = self.c.fresh()
                    return "do %s <- (match %s with Ok x_ => Some x_ | Err _ => None end);\n%s" % (t, r, k(t))
                res = self.pure(("mcall", ("rawterm", r, rt), m, [("rawterm", a, None) for a in args]), env)
                if res is None:
                    raise Unsupported("method ." + m)
                return k(res)
            arg_es = list(e[3])
            if rt and rt[0] == "ty" and rt[1] in ("Option", "Result") and m == "expect":
                arg_es = []
            return self.tr_list([e[1]] + arg_es, env, with_all, [None] + ptys)
        if kind == "struct":
            name = e[1][-1] if e[1][-1] != "Self" else self.impl
            fields = self.c.struct(name)
            if fields is None:
                raise Unsupported("struct literal " + name)
            given = dict(e[2])
            return self.tr_list([given[f] for f, _ in fields], env,
                                lambda args: k("(%s_mk%s)" % (name, "".join(" " + a for a in args))), [ft for _f, ft in fields])
        if kind == "tuple":
            wts = want[1] if want and want[0] == "tup" else None
            return self.tr_list(e[1], env, lambda args: k("(" + ", ".join(args) + ")"), wts)
        if kind == "veclit":
            wt = want[2][0] if is_list(want) else None
            return self.tr_list(e[1], env, lambda args: k("[" + "; ".join(args) + "]"), [wt] * len(e[1]))
        if kind == "write":
            atys = [self.ty_of(a, env) for a in e[3]]

            def with_wargs(vals):
                text = self.pure(("format", e[2], [("rawterm", v, t) for v, t in zip(vals, atys)]), env)
                cur = self.pure(e[1], env)
                if text is None or cur is None or self.ty_of(e[1], env) is None or self.ty_of(e[1], env)[1] != "Formatter":
                    raise Unsupported("write! to something that is not a Formatter")
                root, term = self.place_update(e[1], "(%s ++ %s)" % (cur, text), env)
                return "let %s := %s in\n%s" % (var(root), term, k("(Ok tt)"))
            return self.tr_list(e[3], env, with_wargs, atys)
        if kind == "format":
            atys = [self.ty_of(a, env) for a in e[2]]
            return self.tr_list(e[2], env, lambda vals: k(self.pure(("format", e[1], [("rawterm", v, t) for v, t in zip(vals, atys)]), env)), atys)
        if kind == "arrayrep":
            wt = want[2][0] if is_list(want) else None
            return self.tr(e[1], env, lambda a: self.tr(e[2], env, lambda n: k("(repeat %s %s)" % (a, n)), T("usize")), wt)
        if kind == "cast":
            st = self.ty_of(e[1], env)
            return self.tr(e[1], env, lambda a: k(self.pure(("cast", ("rawterm", a, st), e[2]), env)))
        if kind == "matches":
            st = self.ty_of(e[1], env)
            return self.tr(e[1], env, lambda a: k(self.pure(("matches", ("rawterm", a, st), e[2], e[3]), env)))
        if kind == "assert":
            return self.tr(e[1], env, lambda c: "if %s then\n%s\nelse None" % (c, k("tt")))
        if kind == "skip":
            return k("tt")
        if kind == "index":
            rt = self.ty_of(e[1], env)
            if not is_list(rt):
                raise Unsupported("indexing a value that is not a slice / Vec")
            if e[2][0] == "range":
                lo, hi = e[2][1], e[2][2]
                if e[2][3]:
                    raise Unsupported("inclusive slice range")
                if hi is not None:
                    lo = lo if lo is not None else ("int", 0, None)

                    def sl2(r, a, b):
                        t = self.c.fresh()
                        return "do %s <- slice_range %s %s %s;\n%s" % (t, r, a, b, k(t))
                    return self.tr(e[1], env, lambda r: self.tr(lo, env, lambda a: self.tr(hi, env, lambda b: sl2(r, a, b), T("usize")), T("usize")))
                if lo is None:
                    return self.tr(e[1], env, k)            # a[..]: the whole slice

                def sl(r, a):
                    return "if Nat.leb %s (length %s) then\n%s\nelse None" % (a, r, k("(skipn %s %s)" % (a, r)))
                return self.tr(e[1], env, lambda r: self.tr(lo, env, lambda a: sl(r, a), T("usize")))

            def ix(r, a):
                t = self.c.fresh()
                return "do %s <- nth_error %s %s;\n%s" % (t, r, a, k(t))
            return self.tr(e[1], env, lambda r: self.tr(e[2], env, lambda a: ix(r, a), T("usize")))
        if kind == "if" and e[1][0] == "binary" and e[1][1] == "&&" and self.has_inout_call(e[1][3]):
            # the right operand updates an in-out argument: if a && b {T} else {E}  ==  if a { if b {T} else {E} } else {E}
            els0 = e[3] if e[3] is not None else ("block", [], None)
            return self.tr(("if", e[1][2], ("block", [], ("if", e[1][3], e[2], els0)), els0), env, k, want)
        if kind == "if":
            els = e[3] if e[3] is not None else ("block", [], None)

            def after_c(c):
                if has_exit(e[2]) or has_exit(els) or k is RETURN or k is self.ret_k:
                    return "if %s then\n%s\nelse\n%s" % (c, self.tr(e[2], env, k, want), self.tr(els, env, k, want))
                a = self.tr(e[2], env, RETURN, want)
                b = self.tr(els, env, RETURN, want)
                t = self.c.fresh()
                return "do %s <- (if %s then\n%s\nelse\n%s);\n%s" % (t, c, a, b, k(t))
            return self.tr(e[1], env, after_c)
        if kind == "match":
            if any(g is not None for (_p, g, _b) in e[2]):
                raise Unsupported("match guard")
            st = self.ty_of(e[1], env)
            exits = any(has_exit(b) for (_p, _g, b) in e[2]) or k is RETURN or k is self.ret_k

            def after_s(s):
                arms = []
                for (p_, _g, b) in e[2]:
                    env2 = dict(env)
                    ps = self.pat(p_, st, env2)
                    arms.append("| %s =>\n%s" % (ps, self.tr(b, env2, k if exits else RETURN, want)))
                m = "match %s with\n%s\nend" % (s, "\n".join(arms))
                if exits:
                    return m
                t = self.c.fresh()
                return "do %s <- (%s);\n%s" % (t, m, k(t))
            return self.tr(e[1], env, after_s)
        if kind == "block":
            return self.tr_block(e[1], e[2], env, k, want)
        if kind == "while":
            return self.tr_while(e[1], e[2], env, k)
        if kind == "loop":
            return self.tr_while(("bool", True), e[1], env, k)
        if kind == "whilelet":
            return self.tr_while(None, e[3], env, k, whilelet=(e[1], e[2]))
        if kind == "for":
            return self.tr_for(e[1], e[2], e[3], env, k)
        if kind == "iflet":
            # if let P = e { A } else { B }  ==  match e { P => A, _ => B }
            els = e[4] if e[4] is not None else ("block", [], None)
            return self.tr(("match", e[2], [(e[1], None, e[3]), (("pwild",), None, els)]), env, k, want)
        if kind == "range" and e[1] is not None and e[2] is not None and self.ty_of(e, env) is not None:
            if self.ty_of(e, env)[2][0][1] == "u32":
                return self.tr(e[1], env, lambda lo: self.tr(e[2], env, lambda hi: k(
                    "(map N.of_nat (seq (N.to_nat %s) (%sN.to_nat %s - N.to_nat %s)))" % (lo, "1 + " if e[3] else "", hi, lo)),
                    T("u32")), T("u32"))
            return self.tr(e[1], env, lambda lo: self.tr(e[2], env, lambda hi: k(
                "(seq %s (%s%s - %s))" % (lo, "1 + " if e[3] else "", hi, lo)), T("usize")), T("usize"))
        if kind in ("range", "strlit"):
            raise Unsupported(kind)
        raise Unsupported("expression kind " + kind)

    break_k = None
    continue_k = None

    def has_inout_call(self, e):
        """does e call a translated function with an in-out (&mut slice / Formatter) parameter?"""
        found = []

        def f(x):
            if x[0] == "call" and x[1][0] == "path":
                info = self.lookup_fn(x[1][1])
                if info and any(is_outparam_ty(pt) for (_n, pt) in info["params"]):
                    found.append(x)
        walk(e, f)
        return bool(found)

    def inout_call_roots(self, e):
        """root variables handed to an in-out (&mut slice / Vec) parameter of a translated function anywhere in e"""
        out = []

        def f(x):
            if x[0] == "call" and x[1][0] == "path":
                info = self.lookup_fn(x[1][1])
                if info:
                    ps = [q for q in info["params"] if q[0] != "self"]
                    for i_, (_n, pt) in enumerate(ps):
                        if is_outparam_ty(pt) and i_ < len(x[2]):
                            place = x[2][i_]
                            while place[0] == "unary" and place[1] in ("&", "&mut", "*"):
                                place = place[2]
                            while place[0] in ("field", "index"):
                                place = place[1]
                            if place[0] == "path" and len(place[1]) == 1 and place[1][0] not in out:
                                out.append(place[1][0])
        walk(e, f)
        return out

    def tr_mutcall(self, e, env, k, info):
        """recv.method(args) where method takes &mut self: recv is rebound to the new value"""
        recv = e[1]
        ptys = [pt for (n_, pt) in info["params"] if n_ != "self"]

        if recv[0] == "index" and recv[2][0] != "range":
            # v[i].method(args) with &mut self: read the element (panics when i is out of bounds), call, write back
            base = recv[1]

            def with_ix(i_):
                def with_args_ix(args):
                    bterm = self.pure(base, env)
                    if bterm is None:
                        raise Unsupported("&mut method on an element of a computed place")
                    el = self.c.fresh("e")
                    call = "M_%s%s %s%s" % (info["coq"], " fuel" if info["fuel"] else "", el, "".join(" " + a for a in args))
                    if info["fuel"]:
                        self.uses_fuel = True
                    t = self.c.fresh()
                    if info["ret"] == UNIT:
                        newv, res = t, "tt"
                        bind = "do %s <- nth_error %s %s;\ndo %s <- %s;\n" % (el, bterm, i_, t, call)
                    else:
                        t2 = self.c.fresh()
                        pr = self.c.fresh("p")
                        newv, res = t, t2
                        bind = "do %s <- nth_error %s %s;\ndo %s <- %s;\nlet '(%s, %s) := %s in\n" % (el, bterm, i_, pr, call, t, t2, pr)
                    b2 = self.c.fresh("b")
                    root, term = self.place_update(base, b2, env)
                    return "%sdo %s <- list_upd %s %s %s;\nlet %s := %s in\n%s" % (bind, b2, bterm, i_, newv, var(root), term, k(res))
                return self.tr_list(e[3], env, with_args_ix, ptys)
            return self.tr(recv[2], env, with_ix, T("usize"))

        def with_args(args):
            r = self.pure(recv, env)
            if r is None:
                raise Unsupported("&mut method on a computed place")
            call = "M_%s%s %s%s" % (info["coq"], " fuel" if info["fuel"] else "", r, "".join(" " + a for a in args))
            if info["fuel"]:
                self.uses_fuel = True
            t = self.c.fresh()
            if info["ret"] == UNIT:
                newv, res = t, "tt"
                bind = "do %s <- %s;\n" % (t, call)
            else:
                t2 = self.c.fresh()
                pr = self.c.fresh("p")
                newv, res = t, t2
                bind = "do %s <- %s;\nlet '(%s, %s) := %s in\n" % (pr, call, t, t2, pr)
            root, term = self.place_update(recv, newv, env)
            return "%slet %s := %s in\n%s" % (bind, var(root), term, k(res))
        return self.tr_list(e[3], env, with_args, ptys)

    def tr_list(self, es, env, k, wants=None):
        vals = []

        def go(i):
            if i == len(es):
                return k(list(vals))

            def got(v):
                vals.append(v)
                r = go(i + 1)
                vals.pop()
                return r
            return self.tr(es[i], env, got, wants[i] if wants and i < len(wants) else None)
        return go(0)

    def tr_block(self, stmts, tail, env, k, want=None):
        if not stmts:
            if tail is None:
                return k("tt")
            return self.tr(tail, env, k, want)
        s, rest = stmts[0], stmts[1:]
        if s[0] == "use":
            if s[2]:
                self.globs.append(s[1][-1])
            return self.tr_block(rest, tail, env, k, want)
        if s[0] == "fn":
            return self.tr_block(rest, tail, env, k, want)          # nested fns are translated as separate definitions
        if s[0] == "let":
            if s[3] is None:
                raise Unsupported("let without initialiser")
            ty = s[2] or self.ty_of(s[3], env)
            if ty is None and s[1][0] == "pbind":
                ty = self.locals.get(s[1][1])
            if ty is not None:
                ty = self.c.resolve_self(ty, self.impl)

            def after(v):
                env2 = dict(env)
                ps = self.pat(s[1], ty, env2)
                if s[1][0] == "pbind":
                    return "let %s := %s in\n%s" % (ps, v, self.tr_block(rest, tail, env2, k, want))
                return "let '%s := %s in\n%s" % (ps, v, self.tr_block(rest, tail, env2, k, want))
            return self.tr(s[3], env, after, ty)
        e = s[1]
        if e[0] == "skip":
            return self.tr_block(rest, tail, env, k, want)
        return self.tr(e, env, lambda _v: self.tr_block(rest, tail, env, k, want))

    # ---------------------------------------------------------------- loops
    def loop_frame(self, parts, env, extra_bound=()):
        """(mutated vars, free vars) of a loop made of the AST parts"""
        bound_inside = set()
        for p_ in parts:
            bound_inside |= let_bound(p_)
        mut = [v for p_ in parts for v in assigned_vars(p_)] + [v for p_ in parts if p_ is not None for v in self.inout_call_roots(p_)]
        mut = [v for i, v in enumerate(mut) if v not in mut[:i] and (v in env or v == "self")]
        used = [v for p_ in parts for v in used_vars(p_)]
        free = []
        for v in used:
            if v in mut or v in free or v in extra_bound:
                continue
            if v in env or v == "self":
                free.append(v)
        # a `return` / `?` inside the loop of a &mut self method hands back the current self
        if self.mutself and "self" not in mut and "self" not in free and any(has_kind(p_, ("return", "try")) for p_ in parts if p_ is not None):
            free.append("self")
        for o_ in getattr(self, "outparams", []):
            if o_ not in mut and o_ not in free and o_ in env and any(has_kind(p_, ("return", "try")) for p_ in parts if p_ is not None):
                free.append(o_)
        # canonical order: the order of declaration in the enclosing function (not the order of use)
        decl = ["self"] + [n for n in env if n != "self"]
        mut.sort(key=lambda v: decl.index(v) if v in decl else len(decl))
        free.sort(key=lambda v: decl.index(v) if v in decl else len(decl))
        return mut, free

    def tuple_of(self, names):
        if not names:
            return "tt"
        return "(" + ", ".join(var(n) for n in names) + ")" if len(names) > 1 else var(names[0])

    def tuple_ty(self, names, env):
        if not names:
            return "unit"
        return "(" + " * ".join(self.c.coq_ty(self.var_ty(n, env)) for n in names) + ")%type" if len(names) > 1 else self.c.coq_ty(self.var_ty(names[0], env))

    def var_ty(self, n, env):
        if n in env and env[n] is not None:
            return env[n]
        if n == "self":
            return T(self.impl)
        raise Unsupported("type of the loop variable %s is unknown" % n)

    def after_loop(self, call, mut, k):
        r = self.c.fresh("r")
        x = self.c.fresh("x")
        pat_ = self.tuple_of(mut) if mut else "_"
        return ("do %s <- %s;\nmatch %s with\n| LoopReturn %s => Some %s\n| LoopDone %s =>\n%s\nend"
                % (r, call, r, x, x if self.in_loop_result else x, pat_, k("tt")))

    in_loop_result = False

    def tr_while(self, cond, body, env, k, whilelet=None):
        bound = set()
        if whilelet is not None:
            def pv(p_):
                if p_[0] == "pbind":
                    bound.add(p_[1])
                for x in p_[1:]:
                    if isinstance(x, list):
                        for y in x:
                            if isinstance(y, tuple):
                                pv(y)
            pv(whilelet[0])
        mut, free = self.loop_frame([cond if whilelet is None else whilelet[1], body], env, extra_bound=bound)
        self.nloops += 1
        name = "%s_loop%d" % (self.coq_name, self.nloops)
        self.uses_fuel = True
        binders = "".join(" (%s : %s)" % (var(n), self.c.coq_ty(self.var_ty(n, env))) for n in free + mut)
        mt = self.tuple_ty(mut, env)
        rett = "(loopres %s %s)" % (self.c.coq_ty(self.full_ret), mt)
        call_again = "%s fuel%s" % (name, "".join(" " + var(n) for n in free + mut))
        saved = (self.ret_k, self.break_k, self.continue_k)
        outer_ret = self.ret_k
        self.ret_k = lambda v: "Some (LoopReturn %s)" % self.finish(v)
        self.break_k = lambda: "Some (LoopDone %s)" % self.tuple_of(mut)
        self.continue_k = lambda: call_again
        if whilelet is None:
            body_code = self.tr(cond, env, lambda c: "if %s then\n%s\nelse Some (LoopDone %s)" % (
                c, self.tr(body, env, lambda _v: call_again), self.tuple_of(mut)))
        else:
            wpat, wscrut = whilelet
            st = self.ty_of(wscrut, env)

            def after_scrut(v):
                env2 = dict(env)
                ps = self.pat(wpat, st, env2)
                return "match %s with\n| %s =>\n%s\n| _ => Some (LoopDone %s)\nend" % (
                    v, ps, self.tr(body, env2, lambda _v: call_again), self.tuple_of(mut))
            body_code = self.tr(wscrut, env, after_scrut)
        self.ret_k, self.break_k, self.continue_k = saved
        self.aux.append("Fixpoint %s (fuel : nat)%s {struct fuel} : option %s :=\n  match fuel with\n  | O => None\n  | S fuel =>\n%s\n  end."
                        % (name, binders, rett, indent(peephole(body_code), 4)))
        self.c.aux_names.append(name)
        r = self.c.fresh("r")
        x = self.c.fresh("x")
        return ("do %s <- %s fuel%s;\nmatch %s with\n| LoopReturn %s => %s\n| LoopDone %s =>\n%s\nend"
                % (r, name, "".join(" " + var(n) for n in free + mut), r, x, self.propagate(x), self.tuple_of(mut) if mut else "_", k("tt")))

    def propagate(self, x):
        """a `return` inside a loop leaves the function: x is already the finished result"""
        if self.ret_k_is_loop():
            return "Some (LoopReturn %s)" % x
        return "Some %s" % x

    def ret_k_is_loop(self):
        return self.break_k is not None

    def tr_for_mut(self, pat_, place, enum, body, env, k, reverse=False):
        """for s in X.iter_mut() / for (i, s) in X.iter_mut().enumerate(): the elements are updated in place.
        The loop runs over the old elements; the updated ones are collected in an accumulator that replaces X
        after the loop (and, on an early return from a &mut self method, X = updated ++ current :: untouched)."""
        pt = self.ty_of(place, env)
        if not is_list(pt):
            raise Unsupported("iter_mut over something that is not a slice / Vec")
        elt = pt[2][0]
        if has_kind(body, ("break",)):
            raise Unsupported("break inside an iter_mut loop")
        if enum:
            if pat_[0] != "ptuple" or len(pat_[1]) != 2 or pat_[1][1][0] != "pbind" or pat_[1][0][0] not in ("pbind", "pwild"):
                raise Unsupported("pattern of an iter_mut().enumerate() loop")
            ps, pi = pat_[1][1], pat_[1][0]
        else:
            if pat_[0] != "pbind":
                raise Unsupported("pattern of an iter_mut() loop")
            ps, pi = pat_, None
        sname = ps[1]
        self.nloops += 1
        name = "%s_loop%d" % (self.coq_name, self.nloops)
        acc = "acc%d_" % self.nloops
        env_l = dict(env)
        env_l[acc] = T("Vec", elt)
        env_b = dict(env_l)
        env_b[sname] = elt
        bound = {sname}
        if pi is not None and pi[0] == "pbind":
            env_b[pi[1]] = T("usize")
            bound.add(pi[1])
        mut, free = self.loop_frame([body], env_l, extra_bound=bound)
        mut = [acc] + [m for m in mut if m != acc]
        free = [f for f in free if f != acc]
        root0 = place
        while root0[0] in ("field", "index"):
            root0 = root0[1]
        restore_self = (self.mutself and root0[0] == "path" and root0[1] == ["self"]) or \
            (root0[0] == "path" and len(root0[1]) == 1 and root0[1][0] in self.outparams)
        binders = "".join(" (%s : %s)" % (var(n), self.c.coq_ty(self.var_ty(n, env_l))) for n in free + mut)
        mt = self.tuple_ty(mut, env_l)
        rett = "(loopres %s %s)" % (self.c.coq_ty(self.full_ret), mt)
        FUELARG = "@@FUEL%d@@" % self.nloops
        call_again = "%s%s l_%s" % (name, FUELARG, "".join(" " + var(n) for n in free + mut))
        next_iter = "let %s := (%s ++ [%s]) in\n%s" % (var(acc), var(acc), var(sname), call_again)
        saved = (self.ret_k, self.break_k, self.continue_k)

        def ret_in_loop(v):
            if restore_self:
                rest = "(map snd l_)" if enum else "l_"
                whole = "(%s ++ %s :: %s)" % (var(acc), var(sname), rest)
                root, term = self.place_update(place, "(rev %s)" % whole if reverse else whole, env_b)
                return "let %s := %s in\nSome (LoopReturn %s)" % (var(root), term, self.finish(v))
            return "Some (LoopReturn %s)" % self.finish(v)
        self.ret_k = ret_in_loop
        self.break_k = lambda: "Some (LoopDone %s)" % self.tuple_of(mut)      # (no break: checked above)
        self.continue_k = lambda: next_iter
        fuel_before = self.uses_fuel
        self.uses_fuel = False
        naux = len(self.aux)
        body_code = self.tr(body, env_b, lambda _v: next_iter)
        body_fuel = self.uses_fuel
        self.uses_fuel = fuel_before or body_fuel
        fuel_arg = " fuel" if body_fuel else ""
        body_code = body_code.replace(FUELARG, fuel_arg)
        self.aux[naux:] = [a_.replace(FUELARG, fuel_arg) for a_ in self.aux[naux:]]
        self.ret_k, self.break_k, self.continue_k = saved
        if enum:
            ipat = var(pi[1]) if pi[0] == "pbind" else "_"
            bindpat = "let '(%s, %s) := x_ in" % (ipat, var(sname))
            lty = "(nat * %s)%%type" % self.c.coq_ty(elt)
        else:
            bindpat = "let %s := x_ in" % var(sname)
            lty = self.c.coq_ty(elt)
        self.aux.append("Fixpoint %s%s (l_ : list %s)%s {struct l_} : option %s :=\n  match l_ with\n  | [] => Some (LoopDone %s)\n  | x_ :: l_ =>\n    %s\n%s\n  end."
                        % (name, " (fuel : nat)" if body_fuel else "", lty, binders, rett, self.tuple_of(mut), bindpat, indent(peephole(body_code), 4)))
        self.c.aux_names.append(name)
        lst = self.pure(place, env)
        if lst is None:
            raise Unsupported("iter_mut over a computed place")
        if enum:
            lst = "(enumerate %s)" % lst
        if reverse:
            if enum:
                raise Unsupported("iter_mut().enumerate().rev()")
            lst = "(rev %s)" % lst              # the updated elements are collected in reverse order
        r = self.c.fresh("r")
        x = self.c.fresh("x")
        root, term = self.place_update(place, "(rev %s)" % var(acc) if reverse else var(acc), env_l)
        return ("let %s := [] in\ndo %s <- %s%s %s%s;\nmatch %s with\n| LoopReturn %s => %s\n| LoopDone %s =>\nlet %s := %s in\n%s\nend"
                % (var(acc), r, name, fuel_arg, lst, "".join(" " + var(n) for n in free + mut), r, x, self.propagate(x),
                   self.tuple_of(mut), var(root), term, k("tt")))

    def tr_for(self, pat_, it, body, env, k):
        if it[0] == "mcall" and it[2] == "enumerate" and not it[3] and it[1][0] == "mcall" and it[1][2] == "iter_mut":
            return self.tr_for_mut(pat_, it[1][1], True, body, env, k)
        if it[0] == "mcall" and it[2] == "iter_mut" and not it[3]:
            return self.tr_for_mut(pat_, it[1], False, body, env, k)
        if it[0] == "mcall" and it[2] == "rev" and not it[3] and it[1][0] == "mcall" and it[1][2] == "iter_mut" and not it[1][3]:
            return self.tr_for_mut(pat_, it[1][1], False, body, env, k, reverse=True)
        it_t0 = self.ty_of(it, env)
        if it[0] == "path" and it_t0 is not None and it_t0[0] == "ty" and it_t0[1] == "mutslice":
            return self.tr_for_mut(pat_, it, False, body, env, k)
        # iterable: a slice / Vec (possibly through .iter(), & or a [lo..] slice)
        itt = self.ty_of(it, env)
        if not is_list(itt):
            raise Unsupported("for loop over something that is not a slice / Vec")
        elt = itt[2][0]
        env_b = dict(env)
        bound = set()

        def pv(p_):
            if p_[0] == "pbind":
                bound.add(p_[1])
            if p_[0] == "ptuple":
                for q in p_[1]:
                    pv(q)
        pv(pat_)
        mut, free = self.loop_frame([body], env, extra_bound=bound)
        self.nloops += 1
        name = "%s_loop%d" % (self.coq_name, self.nloops)
        binders = "".join(" (%s : %s)" % (var(n), self.c.coq_ty(self.var_ty(n, env))) for n in free + mut)
        mt = self.tuple_ty(mut, env)
        rett = "(loopres %s %s)" % (self.c.coq_ty(self.full_ret), mt)
        # a body that calls a fuelled function receives the fuel of the enclosing function (not decremented:
        # the recursion is on the list); FUELARG is resolved once the body is translated
        FUELARG = "@@FUEL%d@@" % self.nloops
        call_again = "%s%s l_%s" % (name, FUELARG, "".join(" " + var(n) for n in free + mut))
        saved = (self.ret_k, self.break_k, self.continue_k)
        self.ret_k = lambda v: "Some (LoopReturn %s)" % self.finish(v)
        self.break_k = lambda: "Some (LoopDone %s)" % self.tuple_of(mut)
        self.continue_k = lambda: call_again
        ps = self.pat(pat_, elt, env_b)
        fuel_before = self.uses_fuel
        self.uses_fuel = False
        naux = len(self.aux)
        body_code = self.tr(body, env_b, lambda _v: call_again)
        body_fuel = self.uses_fuel
        self.uses_fuel = fuel_before or body_fuel
        fuel_arg = " fuel" if body_fuel else ""
        body_code = body_code.replace(FUELARG, fuel_arg)
        self.aux[naux:] = [a_.replace(FUELARG, fuel_arg) for a_ in self.aux[naux:]]
        self.ret_k, self.break_k, self.continue_k = saved
        bindpat = "let %s := x_ in" % ps if pat_[0] == "pbind" else "let '%s := x_ in" % ps
        self.aux.append("Fixpoint %s%s (l_ : list %s)%s {struct l_} : option %s :=\n  match l_ with\n  | [] => Some (LoopDone %s)\n  | x_ :: l_ =>\n    %s\n%s\n  end."
                        % (name, " (fuel : nat)" if body_fuel else "", self.c.coq_ty(elt), binders, rett, self.tuple_of(mut), bindpat, indent(peephole(body_code), 4)))
        self.c.aux_names.append(name)

        def after_it(l):
            r = self.c.fresh("r")
            x = self.c.fresh("x")
            return ("do %s <- %s%s %s%s;\nmatch %s with\n| LoopReturn %s => %s\n| LoopDone %s =>\n%s\nend"
                    % (r, name, fuel_arg, l, "".join(" " + var(n) for n in free + mut), r, x, self.propagate(x),
                       self.tuple_of(mut) if mut else "_", k("tt")))
        return self.tr(it, env, after_it)

    # ---------------------------------------------------------------- whole function
    def translate(self):
        env = {}
        binders = []
        for n, t in self.params:
            env[n] = t
            binders.append("(%s : %s)" % (var(n), self.c.coq_ty(t)))
        # `use E::*` statements anywhere in the body open E's variants
        def uses(x):
            if x[0] == "use" and x[2]:
                self.globs.append(x[1][-1])
        walk(self.body, uses)
        self.locals = self.infer_locals(env)

        def mark_nonmut(x):
            if x[0] == "mcall" and x[2] in MUTATING_METHODS:
                rt = self.ty_of(x[1], dict(self.locals, self=T(self.impl) if self.impl else None))
                if rt and rt[0] == "ty":
                    info = self.c.fn_info.get((rt[1], x[2]))
                    if info is not None and not info["mutself"]:
                        NONMUT_NODES.add(id(x))
        walk(self.body, mark_nonmut)
        rty = self.c.coq_ty(self.full_ret)
        args = "".join(" " + var(n) for n, _t in self.params)
        body_pure = None
        if not has_exit(self.body) and not has_kind(self.body, ("while", "whilelet", "for", "loop")) and not self.mutself \
                and self.outparam is None:
            body_pure = self.pure_block(self.body, env, self.ret)
        name = self.coq_name
        if body_pure is not None:
            wrapper = "Definition M_%s %s : option %s := Some (%s%s)." % (name, " ".join(binders), rty, name, args)
            return True, False, "Definition %s %s : %s :=\n%s.\n%s" % (name, " ".join(binders), rty, indent(body_pure), wrapper)
        term = self.tr(self.body, env, self.ret_k, self.ret)
        if getattr(self, "selfrec", False):
            self.uses_fuel = True
            term = peephole(term)
            rec_ty = " -> ".join([self.c.coq_ty(t_) for _n, t_ in self.params] + ["option %s" % rty])
            for i_, a_ in enumerate(self.aux):
                if "M_%s fuel" % name not in a_:
                    continue
                m_ = re.match(r"Fixpoint (\S+) \(fuel : nat\)", a_)
                if not m_:
                    raise Unsupported("recursive call inside a loop of unexpected shape")
                an = m_.group(1)
                a_ = a_.replace("%s fuel" % an, "%s rec_ fuel" % an).replace("M_%s fuel" % name, "rec_")
                a_ = a_.replace("Fixpoint %s (fuel : nat)" % an, "Fixpoint %s (rec_ : %s) (fuel : nat)" % (an, rec_ty), 1)
                self.aux[i_] = a_
                term = term.replace("%s fuel" % an, "%s (%s fuel) fuel" % (an, name))
            term = "match fuel with\n| O => None\n| S fuel =>\n%s\nend" % indent(term.replace("M_%s fuel" % name, "%s fuel" % name))
            wrapper = "Definition M_%s (fuel : nat) %s : option %s := %s fuel%s." % (name, " ".join(binders), rty, name, args)
            text = "\n".join(self.aux + ["Fixpoint %s (fuel : nat) %s {struct fuel} : option %s :=\n%s.\n%s" % (name, " ".join(binders), rty, indent(term), wrapper)])
            return False, True, text
        fuel = self.uses_fuel
        fb = "(fuel : nat) " if fuel else ""
        fa = " fuel" if fuel else ""
        # a mutating / early-exit body that still cannot fail is not detected as pure; callers bind it monadically
        wrapper = "Definition M_%s %s%s : option %s := %s%s%s." % (name, fb, " ".join(binders), rty, name, fa, args)
        text = "\n".join(self.aux + ["Definition %s %s%s : option %s :=\n%s.\n%s" % (name, fb, " ".join(binders), rty, indent(peephole(term)), wrapper)])
        return False, fuel, text

    def pure_block(self, b, env, want=None):
        """pure rendering of a block made of lets and a pure tail"""
        if b[0] != "block":
            return self.pure(b, env, want)
        env2 = dict(env)
        lines = []
        for s in b[1]:
            if s[0] == "expr" and s[1][0] == "skip":
                continue
            if s[0] in ("use", "fn"):
                continue
            if s[0] != "let" or s[3] is None:
                return None
            ty = s[2] or self.ty_of(s[3], env2)
            if ty is None and s[1][0] == "pbind":
                ty = self.locals.get(s[1][1])
            if ty is not None:
                ty = self.c.resolve_self(ty, self.impl)
            v = self.pure_any(s[3], env2, ty)
            if v is None:
                return None
            ps = self.pat(s[1], ty, env2)
            lines.append(("let %s := %s in" if s[1][0] == "pbind" else "let '%s := %s in") % (ps, v))
        if b[2] is None:
            return None
        t = self.pure_any(b[2], env2, want)
        if t is None:
            return None
        return "\n".join(lines + [t])

    def pure_any(self, e, env, want=None):
        """pure term for e, including if / match / blocks whose parts are all pure"""
        p = self.pure(e, env, want)
        if p is not None:
            return p
        if e[0] == "if" and e[3] is not None:
            c = self.pure_any(e[1], env)
            a = self.pure_block(e[2], env, want)
            b = self.pure_block(e[3], env, want) if e[3][0] == "block" else self.pure_any(e[3], env, want)
            if c is None or a is None or b is None:
                return None
            return "(if %s then\n%s\nelse\n%s)" % (c, a, b)
        if e[0] == "match":
            if any(g is not None for (_p, g, _b) in e[2]):
                return None
            s = self.pure_any(e[1], env)
            if s is None:
                return None
            st = self.ty_of(e[1], env)
            arms = []
            for (p_, _g, b) in e[2]:
                env2 = dict(env)
                ps = self.pat(p_, st, env2)
                bt = self.pure_block(b, env2, want) if b[0] == "block" else self.pure_any(b, env2, want)
                if bt is None:
                    return None
                arms.append("| %s => %s" % (ps, bt))
            return "match %s with\n%s\nend" % (s, "\n".join(arms))
        if e[0] == "block":
            r = self.pure_block(e, env, want)
            return "(%s)" % r if r is not None else None
        return None


def peephole(term):
    """`do t <- X; Some t` is X"""
    prev = None
    while prev != term:
        prev = term
        term = re.sub(r"do (t\d+_) <- ([^\n;]*);\nSome \1(?![0-9A-Za-z_])", r"\2", term)
    return term


def RETURN(v):
    return "Some %s" % v


def indent(s, n=2):
    out, depth = [], 0
    for line in s.split("\n"):
        st = line.strip()
        if st.startswith("end") or st.startswith("else"):
            depth = max(0, depth - 1)
        out.append(" " * (n + 2 * depth) + st)
        if st.startswith("match ") and " end" not in st:
            depth += 1
        elif st.endswith("then") or st == "else":
            depth += 1
        elif "(match " in st and " end" not in st:
            depth += 1
    return "\n".join(out)


# ------------------------------------------------------------------------------------ module emission
def default_term(ctx, t):
    if is_z(t):
        return "0%Z"
    if is_nat(t):
        return "0%nat"
    if is_int(t):
        return "0"
    if t[0] == "ty" and t[1] == "bool":
        return "false"
    if t[0] == "ty" and t[1] == "Option":
        return "None"
    if is_list(t):
        return "[]"
    if t[0] == "ty" and ctx.struct(t[1]) is not None and "Default" in ctx.derives(t[1]):
        return "%s_default" % t[1]
    raise Unsupported("Default at type %s" % (t,))


def emit_mutual(ctx, group):
    """mutually recursive structs / enums (e.g. a term type and its node type): one Inductive ... with ...;
    a struct is a one-constructor inductive whose projections are defined by hand.  No derived equality."""
    decls, projs = [], []
    for name in group:
        st = ctx.struct(name)
        if st is not None:
            decls.append("%s := %s_mk %s" % (name, name, " ".join("(_ : %s)" % ctx.coq_ty(t) for _f, t in st)))
            n = len(st)
            for i, (f, t) in enumerate(st):
                pat = " ".join("x_" if j == i else "_" for j in range(n))
                projs.append("Definition %s_%s (r_ : %s) : %s := match r_ with %s_mk %s => x_ end."
                             % (name, fld(f), name, ctx.coq_ty(t), name, pat))
            continue
        en = ctx.enum(name)
        if en is None:
            raise Unsupported("type %s not found" % name)
        decls.append("%s := %s" % (name, " ".join("| %s_%s%s" % (name, v, "".join(" (_ : %s)" % ctx.coq_ty(t) for t in tys)) for v, tys in en)))
    return ["Inductive " + "\nwith ".join(decls) + "."] + projs


def emit_types(ctx, names):
    out = []
    done_mutual = set()
    for name in names:
        grp = next((g for g in ctx.cfg.get("mutual", []) if name in g), None)
        if grp is not None:
            if name not in done_mutual:
                out += emit_mutual(ctx, grp)
                done_mutual |= set(grp)
            continue
        st = ctx.struct(name)
        if st is not None:
            out.append("Record %s := %s_mk { %s }." % (name, name, "; ".join(
                "%s_%s : %s" % (name, fld(f), ctx.coq_ty(t)) for f, t in st)))
            derives = ctx.derives(name)
            if "PartialEq" in derives:
                conj = []
                for f, t in st:
                    a, b = "(%s_%s a)" % (name, fld(f)), "(%s_%s b)" % (name, fld(f))
                    conj.append(eqb_term(ctx, t, a, b))
                out.append("Definition %s_eqb (a b : %s) : bool :=\n  %s." % (name, name, " && ".join(conj) or "true"))
            if "Default" in derives:
                out.append("Definition %s_default : %s := %s_mk %s." % (name, name, name, " ".join(default_term(ctx, t) for _f, t in st)))
            continue
        en = ctx.enum(name)
        if en is not None:
            ctors = " ".join("| %s_%s%s" % (name, v, "".join(" (_ : %s)" % ctx.coq_ty(t) for t in tys)) for v, tys in en)
            out.append("Inductive %s := %s." % (name, ctors))
            if "PartialEq" in ctx.derives(name):
                arms = []
                for v, tys in en:
                    xs = ["x%d" % i for i in range(len(tys))]
                    ys = ["y%d" % i for i in range(len(tys))]
                    body = " && ".join(eqb_term(ctx, t, x, y) for t, x, y in zip(tys, xs, ys)) or "true"
                    arms.append("  | %s_%s%s, %s_%s%s => %s" % (name, v, "".join(" " + x for x in xs), name, v, "".join(" " + y for y in ys), body))
                out.append("Definition %s_eqb (a b : %s) : bool :=\n  match a, b with\n%s\n  | _, _ => false\n  end." % (name, name, "\n".join(arms)))
            continue
        raise Unsupported("type %s not found" % name)
    return out


def eqb_term(ctx, t, a, b):
    if is_z(t):
        return "(Z.eqb %s %s)" % (a, b)
    if is_nat(t):
        return "(Nat.eqb %s %s)" % (a, b)
    if is_int(t):
        return "(%s =? %s)" % (a, b)
    if t[0] == "ty" and t[1] == "bool":
        return "(Bool.eqb %s %s)" % (a, b)
    if t[0] == "ty" and t[1] == "Option" and is_int(t[2][0]) and not is_nat(t[2][0]):
        return "(match %s, %s with Some x_, Some y_ => x_ =? y_ | None, None => true | _, _ => false end)" % (a, b)
    if is_list(t) and is_int(t[2][0]):
        return "(list_eqb %s %s %s)" % ("Nat.eqb" if is_nat(t[2][0]) else "N.eqb", a, b)
    if is_list(t) and t[2][0][0] == "ty" and ctx.struct(t[2][0][1]) is not None:
        return "(list_eqb %s_eqb %s %s)" % (t[2][0][1], a, b)
    if t[0] == "ty" and (ctx.struct(t[1]) is not None or ctx.enum(t[1]) is not None):
        return "(%s_eqb %s %s)" % (t[1], a, b)
    raise Unsupported("derived equality at type %s" % (t,))


def const_value(ctx, name):
    ty, e = ctx.const(name)
    if e[0] == "int":
        return ty, e[1]
    if e[0] == "cast" and e[1][0] == "int":
        return ty, e[1][1]
    if e[0] == "path" and e[1] == ["i32", "MAX"]:
        return ty, 2147483647
    raise Unsupported("constant %s is not an integer literal" % name)


LOOPRANGE_FNS = ["finite", "infinite", "opt", "star", "plus", "point", "is_finite", "is_infinite", "is_point", "is_zero",
                 "is_one", "is_all", "start", "end", "contains", "includes", "add", "checked_add", "checked_mul",
                 "checked_right_mul_is_exact", "add_point", "scale", "mul", "right_mul_is_exact", "shift"]
CHARSET_FNS = ["singleton", "range", "all_chars", "contains", "covers", "is_before", "is_after", "size", "is_singleton",
               "is_alphabet", "pick", "inter", "inter_list", "union"]
PARTITION_FNS = ["len", "is_empty", "new", "from_set", "push", "get", "interval", "start", "end", "pick", "empty_complement",
                 "pick_complement", "valid_class_id", "num_classes", "pick_in_class", "class_of_char", "interval_cover",
                 "class_of_set", "good_char_set"]

MODULES = {
    "LoopRangeGen": {
        "files": ["loop_ranges.rs"],
        "types": ["LoopRange"],
        "consts": [],
        "functions": [(None, None, "add32"), (None, None, "mul32")] + [("LoopRange", None, f) for f in LOOPRANGE_FNS] + [("LoopRange", "Display", "fmt")],
    },
    "CharSetGen": {
        "files": ["character_sets.rs", "smt_strings.rs"],
        "types": ["CharSet"],
        "consts": ["MAX_CHAR"],
        "functions": [("CharSet", "PartialOrd", "partial_cmp")] + [("CharSet", None, f) for f in CHARSET_FNS],
    },
    "LiteralGen": {
        "files": ["smt_strings.rs"],
        "types": ["SmtString", "State", "ParsingAutomaton"],
        "consts": ["MAX_CHAR", "REPLACEMENT_CHAR", "MAX_LENGTH"],
        "functions": [("SmtString", None, "make"), (None, None, "new_automaton")]
                     + [("ParsingAutomaton", None, f) for f in ("push", "pending", "consume", "flush_pending", "close_escape_seq",
                                                                "add_hex", "accept")]
                     + [(None, None, "parse_smt_literal")],
    },
    "StrConvGen": {
        "files": ["smt_strings.rs"],
        "types": ["SmtString"],
        "consts": ["MAX_CHAR", "REPLACEMENT_CHAR", "MAX_LENGTH", "EMPTY"],
        "functions": [("SmtString", None, "make"), ("SmtString", None, "len"), ("SmtString", None, "is_empty"),
                      ("SmtString", "From<&[u32]>", "from"), ("SmtString", "From<Vec<u32>>", "from"),
                      ("SmtString", "From<u32>", "from"), ("SmtString", "From<char>", "from"), ("SmtString", "From<&str>", "from"),
                      (None, None, "char_is_digit"), (None, None, "vector_lt"), (None, None, "vector_le"),
                      (None, None, "str_lt"), (None, None, "str_le"), (None, None, "str_is_digit"),
                      (None, None, "str_to_code"), (None, None, "str_from_code"), (None, None, "str_to_int"),
                      (None, None, "good_char"), (None, None, "good_string"), ("SmtString", None, "is_good"),
                      ("SmtString", None, "char"),
                      (None, None, "all_unicode"), (None, None, "map_to_unicode"),
                      ("SmtString", None, "is_unicode"), ("SmtString", None, "to_unicode_string"),
                      ("SmtString", "From<String>", "from"), (None, None, "str_from_int")],
    },
    "StrSearchGen": {
        "files": ["smt_strings.rs", "matcher.rs"],
        "types": ["SmtString", "SearchResult"],
        "consts": ["MAX_CHAR", "REPLACEMENT_CHAR", "MAX_LENGTH", "EMPTY"],
        "functions": [("SmtString", None, "make"), ("SmtString", None, "make_from_slice"), ("SmtString", None, "len"),
                      ("SmtString", None, "is_empty"), ("SmtString", "From<u32>", "from"),
                      (None, None, "naive_search"), (None, None, "vector_prefix"), (None, None, "vector_suffix"),
                      (None, None, "vector_concat"), (None, None, "find_sub_vector"),
                      (None, None, "str_concat"), (None, None, "str_len"), (None, None, "str_at"), (None, None, "str_substr"),
                      (None, None, "str_prefixof"), (None, None, "str_suffixof"), (None, None, "str_contains"),
                      (None, None, "str_indexof"), (None, None, "str_replace"), (None, None, "str_replace_all")],
    },
    "CompactTableGen": {
        "files": ["compact_tables.rs"],
        "types": ["CompactTable", "CompactTableBuilder"],
        "consts": [],
        "functions": [("CompactTable", None, f) for f in ("eval", "size", "num_states", "alphabet_size")]
                     + [("CompactTableBuilder", None, f) for f in ("new", "set_default", "resize", "base_conflicts",
                                                                  "store_successors", "set_successors", "build")],
    },
    "BuilderGen": {
        "files": ["automata.rs", "character_sets.rs", "smt_strings.rs", "errors.rs"],
        "types": ["CharSet", "ClassId", "Error", "CharPartition", "StateInConstruction", "State", "Automaton", "AutomatonBuilder"],
        "consts": ["MAX_CHAR"],
        "functions": [("CharSet", None, "pick"), ("CharSet", None, "contains"), ("CharSet", None, "is_before"),
                      ("CharPartition", None, "len"), ("CharPartition", None, "get"), ("CharPartition", None, "start"),
                      ("CharPartition", None, "end"), ("CharPartition", None, "class_of_char"),
                      ("CharPartition", None, "try_from_iter")]
                     + [("StateInConstruction", None, f) for f in ("new", "set_default_successor", "add_transition",
                        "choose_default_successor", "remove_transitions_to_default", "cleanup", "make_partition",
                        "make_successor")]
                     + [("CharPartition", None, "empty_complement"), ("AutomatonBuilder", None, "build"),
                        ("AutomatonBuilder", None, "build_unchecked")],
    },
    "AutomatonGen": {
        "files": ["automata.rs", "character_sets.rs", "smt_strings.rs", "errors.rs"],
        "types": ["CharSet", "CoverResult", "ClassId", "Error", "CharPartition", "SmtString", "State", "Automaton", "StateMapping",
                  "EdgeIterator", "FinalStateIterator"],
        "consts": ["MAX_CHAR"],
        "functions": [("CharSet", None, "contains"), ("CharSet", None, "is_before")]
                     + [("CharPartition", None, f) for f in ("len", "empty_complement", "valid_class_id", "class_of_char")]
                     + [("SmtString", None, "iter")]
                     + [("State", None, f) for f in ("id", "is_final", "num_successors", "has_default_successor", "default_successor",
                                                     "valid_class_id", "char_maps_to_default", "class_of_char")]
                     + [("Automaton", None, f) for f in ("initial_state", "state", "num_states", "num_final_states", "default_successor",
                                                         "class_next", "next", "str_next", "accepts", "edges", "final_states")]
                     + [("StateMapping", None, f) for f in ("from_array", "num_new_states", "is_class_rep")]
                     + [("EdgeIterator", "Iterator", "next"), ("FinalStateIterator", "Iterator", "next")]
                     # appended later (the generated names of the functions above must not shift)
                     + [("CharPartition", None, f) for f in ("new", "push", "get", "start", "end", "interval_cover", "class_of_set")]
                     + [(None, None, "merge_partitions"), (None, None, "merge_partition_list")]
                     + [("Automaton", None, f) for f in ("char_set_next", "states", "combined_char_partition")],
    },
    "RegexNodeGen": {
        "files": ["regular_expressions.rs", "character_sets.rs", "loop_ranges.rs", "smt_strings.rs", "errors.rs"],
        "types": ["CharSet", "CoverResult", "ClassId", "Error", "CharPartition", "LoopRange", "RE", "BaseRegLan"],
        "mutual": [["RE", "BaseRegLan"]],
        "consts": ["MAX_CHAR"],
        "functions": [("CharSet", None, f) for f in ("is_alphabet", "covers")]
                     + [("LoopRange", None, f) for f in ("start", "is_all")]
                     + [("CharSet", None, f) for f in ("contains", "is_before")]
                     + [("CharPartition", None, f) for f in ("len", "new", "from_set", "push", "get", "start", "end", "pick",
                                                             "empty_complement", "pick_complement", "valid_class_id",
                                                             "pick_in_class", "class_of_char", "interval_cover", "class_of_set")]
                     + [(None, None, "merge_partitions")]
                     + [("RE", None, f) for f in ("empty_complement", "num_deriv_classes", "valid_class_id", "is_empty",
                                                  "pick_class_rep", "class_of_char", "class_of_set")]
                     # appended: the constructor of a hash-consed term (attributes computed from the key)
                     + [("CharSet", None, "is_singleton"), ("LoopRange", None, "is_point"),
                        ("BaseRegLan", None, "is_singleton"), ("BaseRegLan", None, "is_simple_pattern"),
                        ("RE", "HashConsed", "make")]
                     + [("RE", "PartialEq", "eq"), ("RE", "Ord", "cmp"), ("RE", "PartialOrd", "partial_cmp")]
                     + [("BaseRegLan", None, f) for f in ("is_nullable", "concat_or_atomic", "is_all_chars", "is_full",
                                                          "is_range", "match_char_set", "deriv_class")]
                     + [(None, None, "contains"), ("BaseRegLan", None, "is_atomic")],
        # is_atomic / is_singleton / is_simple_pattern feed only Display and dead code: no model counterpart, not translated
    },
    "FastSetGen": {
        "files": ["fast_sets.rs"],
        "types": ["FastSet", "FastSetIterator"],
        "consts": [],
        "functions": [("FastSet", None, f) for f in ("new", "card", "contains", "insert", "remove", "reset", "iter")]
                     + [("FastSetIterator", "Iterator", "next"), ("FastSet", "Display", "fmt")],
    },
    "BfsQueueGen": {
        "files": ["bfs_queues.rs"],
        "types": ["BfsQueue"],
        "tparams": {"T": ("ty", "usize", [])},        # the instance BfsQueue<usize> (Automaton::remove_unreachable_states)
        "consts": [],
        "functions": [("BfsQueue", None, f) for f in ("new", "with_capacity", "push", "push_all", "is_empty", "len", "pop")],
    },
    "StrPrintGen": {
        "files": ["smt_strings.rs"],
        "types": ["SmtString"],
        "consts": ["MAX_CHAR"],
        "functions": [(None, None, "smt_char_as_string"), (None, None, "char_to_smt"), ("SmtString", "Display", "fmt")],
    },
    "InclusionGen": {
        "files": ["regular_expressions.rs", "character_sets.rs", "loop_ranges.rs", "smt_strings.rs", "matcher.rs"],
        "types": ["CharSet", "CharPartition", "LoopRange", "RE", "BaseRegLan", "SearchResult", "BasePattern"],
        "mutual": [["RE", "BaseRegLan"]],
        "consts": ["MAX_CHAR"],
        "functions": [("CharSet", None, f) for f in ("is_alphabet", "covers")]
                     + [("LoopRange", None, "is_all")]
                     + [("BaseRegLan", None, f) for f in ("is_range", "match_char_set", "is_all_chars", "is_full")]
                     + [("BasePattern", None, "len"), ("BasePattern", None, "make")]
                     + [(None, None, f) for f in ("base_patterns", "rigid_match_at", "next_rigid_match", "prev_rigid_match",
                                                  "char_sets_of_pattern", "rigid_prefix_match", "rigid_suffix_match", "flexible_match")]
                     + [("BasePattern", None, "set_match"), (None, None, "shift_pattern_start"), (None, None, "find_rigid_matches"),
                        (None, None, "set_flexible_regions"), (None, None, "match_flexible_patterns"),
                        (None, None, "find_rigid_matches_rev"), (None, None, "flatten_concat"), (None, None, "decompose_concat"), (None, None, "flatten_inter"), (None, None, "flatten_union")],
        # concat_inclusion itself translates too (re-slicing, &&-chains of in-out calls); it is left out until its link
        # (which needs the tiling / ordering invariants of InclusionProofs.v on the generated side) is written
    },
    "BasePartGen": {
        "files": ["partitions.rs"],
        "types": ["BlockHeader", "BasePartition", "Partition"],
        "consts": [],
        "functions": [("BasePartition", None, f) for f in ("new", "num_blocks", "index", "size", "block_size", "smaller_block",
                                                            "pick_element", "slice", "add_block", "split_block", "block_elements")]
                     + [("Partition", None, f) for f in ("new", "num_blocks", "index", "size", "block_size", "smaller_block",
                                                         "pick_element", "block_id", "block_elements")]
                     + [("BasePartition", "Display", "fmt"), ("Partition", "Display", "fmt")],
    },
    "PartitionGen": {
        "files": ["character_sets.rs", "smt_strings.rs", "errors.rs"],
        "types": ["CharSet", "CoverResult", "ClassId", "Error", "CharPartition", "ClassIdIterator", "PickIterator"],
        "consts": ["MAX_CHAR"],
        "functions": [("CharSet", None, f) for f in ("contains", "is_before")]
                     + [("CharPartition", None, f) for f in PARTITION_FNS]
                     + [("CharPartition", None, "class_ids"), ("CharPartition", None, "picks"),
                        ("ClassIdIterator", "Iterator", "next"), ("PickIterator", "Iterator", "next")]
                     + [(None, None, "merge_partitions"), (None, None, "merge_partition_list")]
                     + [("CharPartition", None, "try_from_iter"), ("CharPartition", None, "try_from_list")],
    },
}


def translate_one(ctx, key, params, ret, body, coq, mutself):
    texts = []
    local_fns = {}
    for (_k, nname, nparams, nret, nbody) in extract_nested(body):
        ncoq = "%s_%s" % (coq, nname)
        nt = FnTranslator(ctx, key[0], ncoq, nparams, nret, nbody, False, dict(local_fns))    # earlier siblings are visible
        npure, nfuel, ntext = nt.translate()
        local_fns[nname] = {"coq": ncoq, "ret": nt.ret, "full_ret": nt.ret, "pure": npure, "fuel": nfuel,
                            "params": nt.params, "mutself": False}
        ctx.aux_names.append(ncoq)
        ctx.aux_names.append("M_" + ncoq)
        texts.append(ntext)
    ft = FnTranslator(ctx, key[0], coq, params, ret, body, mutself, local_fns)
    me = next(((i, n) for (i, n), inf in ctx.fn_info.items() if inf["coq"] == coq and i == key[0]), None)
    if me is not None and key[1] is None and calls_itself(body, key[0], key[2]):     # (T::from inside an impl From<..> is another impl)
        # a self-recursive function: a Fixpoint on fuel, None when it runs out; a loop around the recursive call
        # takes the function at the smaller fuel as a parameter
        ctx.fn_info[me]["pure"], ctx.fn_info[me]["fuel"] = False, True
        ft.selfrec = True
    return texts, local_fns, ft.translate()


def calls_itself(body, impl, fname):
    """does the body call the function it belongs to (by path, or as a method of `self` itself)?"""
    found = []

    def f(x):
        if x[0] == "call" and x[1][0] == "path":
            p = list(x[1][1])
            if (impl is None and p == [fname]) or (impl is not None and len(p) == 2 and p[0] in ("Self", impl) and p[1] == fname):
                found.append(x)
        if x[0] == "mcall" and impl is not None and x[2] == fname and x[1][0] == "path" and list(x[1][1]) == ["self"]:
            found.append(x)
    walk(body, f)
    return bool(found)


def extract_nested(body):
    """nested `fn` items of a function body"""
    out = []

    def f(x):
        if x[0] == "fn":
            out.append(x)
    walk(body, f)
    return out


def translate_module(name, repo):
    cfg = MODULES[name]
    MUTATING_METHODS.clear()              # per module: the &mut self methods of another module must not leak in
    MUTATING_METHODS.update(BASE_MUTATING)
    NONMUT_NODES.clear()
    sources = [Source(os.path.join(repo, "src", f)) for f in cfg["files"]]
    ctx = Ctx(name, sources, cfg)
    out = ["(* %s.v -- GENERATED by gen/rs2v.py from %s; do not edit. *)" % (name, ", ".join("src/" + f for f in cfg["files"])),
           "Require Import Base GenBase.", "Open Scope N_scope.", ""]
    late_consts = []
    for cname in cfg["consts"]:
        try:
            ty, v = const_value(ctx, cname)
            out.append("Definition %s : %s := %d%s." % (cname, ctx.coq_ty(ty), v, "%Z" if ctx.coq_ty(ty) == "Z" else ""))
        except Unsupported:
            late_consts.append(cname)
    out += emit_types(ctx, cfg["types"])
    for cname in late_consts:          # constants of a struct type: a pure expression
        ty, e = ctx.const(cname)
        ft = FnTranslator(ctx, None, "const_" + cname, [], ty, ("block", [], e))
        v = ft.pure(e, {}, ty)
        if v is None:
            raise Unsupported("constant %s is not a pure expression" % cname)
        out.append("Definition %s : %s := %s." % (cname, ctx.coq_ty(ty), v))
    out.append("")
    primary = sources[0]
    parsed = {}
    keyname = {}
    src_of = {}
    for key in cfg["functions"]:
        owner = next((sr for sr in sources if key in sr.fns), None)
        if owner is None:
            raise Unsupported("function %s not found in %s" % ("::".join(x for x in key if x), ", ".join(cfg["files"])))
        src_of[key] = owner
        params, ret, body, mutself = owner.parse_fn(key)
        impl = key[0]
        coq = (impl + "_" if impl else "fn_") + key[2]
        fname = key[2]
        if key[1] and key[1].startswith("From<") and key[2] == "from":
            tag = key[1][5:-1].replace("&", "").replace("[", "slice_").replace("]", "").replace("<", "_").replace(">", "")
            tag = re.sub(r"[^A-Za-z0-9_]", "", tag) or "x"
            coq = "%s_from_%s" % (impl, tag)
            fname = "from<%s>" % key[1][5:-1]
        if impl and ctx.struct(impl) is not None and any(f == key[2] for f, _t in ctx.struct(impl)):
            coq += "_fn"                 # a method named like a field: the projection keeps the plain name
        parsed[key] = (params, ret, body, coq, mutself)
        rret = ctx.resolve_self(ret, impl) if impl else ret
        rparams = [(n, ctx.resolve_self(t, impl)) for n, t in params]
        full = rret if not mutself else (T(impl) if rret == UNIT else ("tup", [T(impl), rret]))
        if any(is_outparam_ty(t) for _n, t in rparams):
            full = ("tup", [outparam_ret_ty(t) for _n, t in rparams if is_outparam_ty(t)] + [rret])
        ctx.fn_info[(impl, fname)] = {"coq": coq, "ret": rret, "full_ret": full, "pure": None, "fuel": False,
                                      "params": rparams, "mutself": mutself}
        keyname[key] = fname
        if mutself:
            MUTATING_METHODS.add(key[2])
    done, pending = {}, list(cfg["functions"])
    order = []
    progress = True
    while pending and progress:
        progress = False
        for key in list(pending):
            params, ret, body, coq, mutself = parsed[key]
            texts = []
            saved_aux = list(ctx.aux_names)
            try:
                texts, local_fns, (pure, fuel, text) = translate_one(ctx, key, params, ret, body, coq, mutself)
            except NotYet:
                ctx.aux_names[:] = saved_aux
                continue
            info = ctx.fn_info[(key[0], keyname[key])]
            info["pure"], info["fuel"] = pure, fuel
            done[key] = "\n".join(texts + [text])
            order.append(key)
            pending.remove(key)
            progress = True
            continue
            texts = []
            local_fns = {}
            for (_k, nname, nparams, nret, nbody) in extract_nested(body):
                ncoq = "%s_%s" % (coq, nname)
                nt = FnTranslator(ctx, key[0], ncoq, nparams, nret, nbody, False, {})
                npure, nfuel, ntext = nt.translate()
                local_fns[nname] = {"coq": ncoq, "ret": nt.ret, "full_ret": nt.ret, "pure": npure, "fuel": nfuel,
                                    "params": nt.params, "mutself": False}
                ctx.aux_names.append(ncoq)
                ctx.aux_names.append("M_" + ncoq)
                texts.append(ntext)
            ft = FnTranslator(ctx, key[0], coq, params, ret, body, mutself, local_fns)
            pure, fuel, text = ft.translate()
            info = ctx.fn_info[(key[0], keyname[key])]
            info["pure"], info["fuel"] = pure, fuel
            done[key] = "\n".join(texts + [text])
            order.append(key)
            pending.remove(key)
            progress = True
    if pending:
        raise Unsupported("recursive or unresolved functions: %s" % pending)
    for key in order:
        out.append("(* %s, %s line %d *)" % ("::".join(x for x in (key[0], key[2]) if x), os.path.basename(src_of[key].path), src_of[key].fns[key]["line"]))
        out.append(done[key])
        out.append("")
    names = [ctx.fn_info[(k[0], keyname[k])]["coq"] for k in order]
    out.append("(* every generated definition, for `autounfold with rs2v` in the link proofs *)")
    out.append("Create HintDb rs2v.")
    unf = names + ["M_" + n for n in names] + list(cfg["consts"]) + [t + "_eqb" for t in cfg["types"] if "PartialEq" in ctx.derives(t) and not any(t in g for g in cfg.get("mutual", []))] \
        + [t + "_default" for t in cfg["types"] if ctx.struct(t) is not None and "Default" in ctx.derives(t)] \
        + [n for n in ctx.aux_names if not re.search(r"_loop\d+$", n)]
    out.append("#[global] Hint Unfold %s : rs2v." % " ".join(unf))
    out.append("")
    fninfo = {}
    for k in order:
        i = ctx.fn_info[(k[0], keyname[k])]
        fninfo[i["coq"]] = ("pure" if i["pure"] else "option") + ("+fuel" if i["fuel"] else "")
    return "\n".join(out), fninfo


def called_fns(e, ctx, impl):
    res = set()

    def f(x):
        if x[0] == "call" and x[1][0] == "path":
            p = list(x[1][1])
            if p[0] == "Self":
                p[0] = impl
            key = (None, p[0]) if len(p) == 1 else (p[0], p[1]) if len(p) == 2 else None
            if key in ctx.fn_info:
                res.add(key)
        if x[0] == "call" and x[1][0] == "path" and len(x[1][1]) == 2 and x[1][1][1] == "from":
            for (i, n) in ctx.fn_info:
                if n.startswith("from<"):
                    res.add((i, n))
        if x[0] == "mcall":
            for (i, n) in ctx.fn_info:
                if (n == x[2] or (x[2] == "into" and n.startswith("from<"))) and i is not None:
                    res.add((i, n))
    walk(e, f)
    return res


def main():
    a = sys.argv[1:]
    repo = "/repo"
    outdir = None
    mods = []
    i = 0
    while i < len(a):
        if a[i] == "--repo":
            repo = a[i + 1]; i += 2
        elif a[i] == "--out":
            outdir = a[i + 1]; i += 2
        else:
            mods.append(a[i]); i += 1
    if outdir is None:
        print("usage: rs2v.py --out <dir> [--repo /repo] [module ...]"); sys.exit(2)
    os.makedirs(outdir, exist_ok=True)
    status = {}
    for m in mods or sorted(MODULES):
        try:
            text, fns = translate_module(m, repo)
            open(os.path.join(outdir, m + ".v"), "w").write(text)
            status[m] = {"ok": True, "functions": fns}
        except Unsupported as ex:
            status[m] = {"ok": False, "reason": str(ex)}
    print(json.dumps(status, indent=1))
    return status


if __name__ == "__main__":
    main()
