"""C12 -- merge_partitions / merge_partition_list: exhaustive small universes + structured random."""
ENGINE = "merge"
MAXC = 0x2FFFF
ASSUMPTIONS = [
    "input partitions are built with CharPartition::new + push from valid, sorted, pairwise disjoint intervals "
    "(the precondition pwf of the theorems; push only has debug assertions, so ill-formed inputs are outside the property)",
    "the result is observed through len(), get(i), pick_complement(), empty_complement(), class_of_char()",
]
PARTIAL = [
    "the literal 'exactly when' of the property is refuted by design (finding D9, C12_literal_iff_refuted); "
    "proved instead: exact class characterisation for every input, refinement direction, literal iff outside KnownClass_C12",
    "'coarsest' is proved among the common refinements whose complementary class is D1/\\D2 (C12_merge_coarsest); "
    "without that side condition it is false for the same reason as D9",
]
U5 = [0, 1, 2, MAXC - 1, MAXC]
U7 = [0, 1, 2, 3, MAXC - 2, MAXC - 1, MAXC]


def enum_parts(n, start=0):
    """all interval partitions of the points start..n-1 (lists of (lo,hi) index pairs)"""
    if start >= n:
        return [[]]
    out = list(enum_parts(n, start + 1))                 # point `start` uncovered
    for hi in range(start, n):
        for rest in enum_parts(n, hi + 1):
            out.append([(start, hi)] + rest)
    return out


def fmt(p):
    return "%d%s" % (len(p), "".join(" %d %d" % iv for iv in p))


def cls(p, x):
    for i, (a, b) in enumerate(p):
        if a <= x <= b:
            return i
    return -1


def same(p, x, y):
    return cls(p, x) == cls(p, y)


def known_class(p1, p2, x, y):
    """KnownClass_C12: same class in both, not both in D1/\\D2, some z strictly between differs.
    The classes only change at interval ends, so it suffices to look at end points and neighbours."""
    if not (same(p1, x, y) and same(p2, x, y)):
        return False
    if cls(p1, x) < 0 and cls(p2, x) < 0 and cls(p1, y) < 0 and cls(p2, y) < 0:
        return False
    lo, hi = min(x, y), max(x, y)
    zs = set()
    for p in (p1, p2):
        for (a, b) in p:
            zs.update((a - 1, a, b, b + 1))
    return any(lo < z < hi and not (same(p1, x, z) and same(p2, x, z)) for z in zs)


def rand_part(rng, pool):
    """random well-formed partition whose end points come from `pool` (sorted), sometimes shifted by one
    to create adjacency / near misses"""
    p = []
    i = 0
    n = len(pool)
    density = rng.choice([0.2, 0.5, 0.8, 1.0])
    last = -1
    while i < n:
        if rng.random() > density:
            i += 1
            continue
        j = i
        while j + 1 < n and rng.random() < 0.4:
            j += 1
        a, b = pool[i], pool[j]
        r = rng.random()
        if r < 0.15 and a > 0:
            a -= 1
        elif r < 0.3 and b < MAXC:
            b += 1
        if a <= last:
            a = last + 1
        if a > b or b > MAXC:
            i = j + 1
            continue
        p.append((a, b))
        last = b
        i = j + 1
        while i < n and pool[i] <= last:
            i += 1
    return p


def rand_pool(rng):
    k = rng.randint(1, 10)
    r = rng.random()
    if r < 0.35:
        base = [rng.randint(0, 40) for _ in range(k)]
    elif r < 0.6:
        base = [rng.choice([0, 1, 2, 0x7F, 0x80, 0xFF, 0x100, 0xD7FF, 0xD800, 0xDFFF, 0xE000, 0xFFFD, 0xFFFF, 0x10000,
                            MAXC - 2, MAXC - 1, MAXC]) for _ in range(k)]
    else:
        base = [rng.randint(0, MAXC) for _ in range(k)]
    ext = []
    for v in base:
        ext.append(v)
        if rng.random() < 0.4 and v < MAXC:
            ext.append(v + 1)
    if rng.random() < 0.3:
        ext.append(0)
    if rng.random() < 0.3:
        ext.append(MAXC)
    return sorted(set(ext))


def special_parts():
    return [[], [(0, MAXC)], [(0, 0)], [(MAXC, MAXC)], [(0, MAXC - 1)], [(1, MAXC)], [(0, 0), (MAXC, MAXC)],
            [(0, 10)], [(4, 5)], [(0, 3), (4, 5), (6, 10)], [(48, 57), (97, 103)], [(53, 53), (99, 122)]]


def generate(rng, tier):
    cases = []
    uni = U5 if tier == "quick" else U7
    parts = [[(uni[a], uni[b]) for (a, b) in p] for p in enum_parts(len(uni))]
    for p in parts:
        for q in parts:
            cases.append("merge %s %s" % (fmt(p), fmt(q)))
    sp = special_parts()
    for p in sp:
        for q in sp:
            cases.append("merge %s %s" % (fmt(p), fmt(q)))
    nrand = 3000 if tier == "quick" else 60000
    shapes = {"shared_pool": 0, "prefix_sharing": 0, "nested": 0, "independent": 0}
    for _ in range(nrand):
        r = rng.random()
        pool = rand_pool(rng)
        if r < 0.5:
            p, q = rand_part(rng, pool), rand_part(rng, pool); shapes["shared_pool"] += 1
        elif r < 0.65:
            # prefix sharing: same starts, different ends (a = c, b <> d)
            p = rand_part(rng, pool); q = []
            last = -1
            for (a, b) in p:
                nb = b + rng.choice([-2, -1, 0, 1, 2, 50])
                nb = max(a, min(MAXC, nb))
                if a > last:
                    q.append((a, nb)); last = nb
            shapes["prefix_sharing"] += 1
        elif r < 0.8:
            # nested: q's intervals inside p's intervals
            p = rand_part(rng, pool); q = []
            for (a, b) in p:
                if rng.random() < 0.7:
                    x = rng.randint(a, b); y = rng.randint(x, b)
                    q.append((x, y))
            shapes["nested"] += 1
        else:
            p, q = rand_part(rng, pool), rand_part(rng, rand_pool(rng)); shapes["independent"] += 1
        if rng.random() < 0.5:
            p, q = q, p
        cases.append("merge %s %s" % (fmt(p), fmt(q)))
    nlist = 800 if tier == "quick" else 20000
    for _ in range(nlist):
        k = rng.choice([0, 1, 2, 3, 3, 4, 5, 6])
        pool = rand_pool(rng)
        l = [rng.choice(sp) if rng.random() < 0.1 else rand_part(rng, pool if rng.random() < 0.7 else rand_pool(rng))
             for _ in range(k)]
        cases.append("mergelist %d%s" % (k, "".join(" " + fmt(p) for p in l)))
        if k >= 2 and rng.random() < 0.5:      # the same list in another order (C12_merge_list_perm)
            l2 = l[:]; rng.shuffle(l2)
            cases.append("mergelist %d%s" % (k, "".join(" " + fmt(p) for p in l2)))
    # literal reading of the property, only outside KnownClass_C12 (where it is proved)
    nlit = 1500 if tier == "quick" else 30000
    made = 0
    tries = 0
    while made < nlit and tries < 20 * nlit:
        tries += 1
        pool = rand_pool(rng)
        p, q = rand_part(rng, pool), rand_part(rng, pool)
        pts = set([0, MAXC])
        for (a, b) in p + q:
            pts.update(v for v in (a - 1, a, b, b + 1) if 0 <= v <= MAXC)
        pts = sorted(pts)
        x, y = rng.choice(pts), rng.choice(pts)
        if known_class(p, q, x, y):
            continue
        cases.append("literal %s %s %d %d" % (fmt(p), fmt(q), x, y))
        made += 1
    info = {"rule": "merge of every ordered pair of the %d interval partitions of the %d-point universe %s, all pairs of %d special "
                    "partitions (empty, full, touching 0 / MAX, doc example, D9), random pairs with shared end-point pools "
                    "(nested, interleaved, adjacent, prefix-sharing a=c b<>d, independent), random lists of 0..6 partitions "
                    "(also reshuffled), and the literal same-class reading of the property on random pairs outside KnownClass_C12; "
                    "a case is non-trivial when at least two of its partitions are non-empty" % (len(parts), len(uni), uni, len(sp)),
            "exhaustive_domains": ["all %d x %d ordered pairs of interval partitions over %s" % (len(parts), len(parts), uni)],
            "distribution": dict(shapes, exhaustive_pairs=len(parts) ** 2, special_pairs=len(sp) ** 2, random_pairs=nrand,
                                 lists=nlist, literal_outside_known=made)}
    return cases, info


def _parts_of(case):
    t = case.split()
    nums = list(map(int, t[1:]))
    out = []
    i = 0
    if t[0] == "mergelist":
        k = nums[0]; i = 1
    else:
        k = 2
    for _ in range(k):
        n = nums[i]; i += 1
        out.append([(nums[i + 2 * j], nums[i + 2 * j + 1]) for j in range(n)])
        i += 2 * n
    return out


def nontrivial(case):
    return sum(1 for p in _parts_of(case) if p) >= 2


def search(rng, diff_cases, tier):
    """around a disagreement: the same partitions swapped, and every pair of sub-partitions"""
    out = []
    for c in diff_cases[:20]:
        ps = _parts_of(c)
        if len(ps) >= 2:
            out.append("merge %s %s" % (fmt(ps[1]), fmt(ps[0])))
            for k in range(len(ps[0]) + 1):
                out.append("merge %s %s" % (fmt(ps[0][:k]), fmt(ps[1])))
            for k in range(len(ps[1]) + 1):
                out.append("merge %s %s" % (fmt(ps[0]), fmt(ps[1][:k])))
    return out
