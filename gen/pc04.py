"""C04 -- minimize preserves the language and leaves no two equivalent states."""
from autogen import *
import regexgen
ENGINE = "automata"
PARTIAL = []
ASSUMPTIONS = ["oracle on the implementation's own output B for input A: dfa_equiv A B, no two Nerode-equivalent states in B, |B| = number of Nerode classes of A, well-formedness (initial, finality flags, final-state count)"]


def generate(rng, tier):
    n = 2500 if tier == "quick" else 50000
    cases = []
    for _ in range(n):
        k = rng.randint(1, 9) if tier == "quick" else rng.randint(1, 30)
        pts = sorted(rng.sample(PTS, rng.randint(2, 7)))
        r = rng.random()
        if r < 0.1:
            st = tiny_alphabet_spec(rng, k)
        elif r < 0.55:
            st = planted_equiv(rng, k, pts)
        else:
            st = complete_spec(rng, k, pts, full_cover_prob=0.2)[0]
        if rng.random() < 0.15:   # all-final / none-final
            st = [o for o in st if not o.startswith("fin")]
            if rng.random() < 0.5:
                names = sorted(set(int(o.split()[1]) for o in st if o.split()[0] in ("add", "def", "new")) | set(int(o.split()[-1]) for o in st if o.split()[0] in ("add", "def")))
                st += ["fin %d" % x for x in names]
        tail = ["buildu"]
        if rng.random() < 0.4:
            tail += ["prune"]
        tail += ["minimize", "finals"]
        if rng.random() < 0.3:
            tail += ["minimize"]          # idempotence
        if rng.random() < 0.3:
            tail += ["prune", "finals", "minimize"]   # prune after the initial state was renumbered
        cases.append(" ; ".join(st + tail))
    info = {"rule": "complete DFAs from builder histories (1-9 states quick / 1-30 thorough, random per-state partitions, defaults, unreachable parts incl. several predecessor-less states (the D10 shape), all-final / none-final, planted copies of states and cycles of equivalent sinks); minimize on the raw and on the pruned automaton, twice; non-trivial = at least 3 states",
            "distribution": {"cases": n}}
    return cases, info


def nontrivial(case):
    return case.count("def ") + case.count("add ") >= 3


def shrink(exe, case, impl, model, msg):
    import vlib
    return vlib.shrink_history(exe, ENGINE, case, "automata")


def search(rng, diff_cases, tier):
    out = []
    for c in diff_cases[:20]:
        out += intensify(c, rng)
    return out
