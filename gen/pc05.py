"""C05 -- emptiness test and witness generation are exact."""
from regexgen import *
ENGINE = "regex"
TIMEOUT = 900
ASSUMPTIONS = ["oracle: is_empty_re compared with the verified model's decision; any witness is accepted if the reference matcher accepts it and it is_good; empty answers are cross-checked against all words <= 4"]


def sem_empty(rng, case, al):
    """terms whose emptiness is only semantic"""
    k = rng.randrange(10)
    a, b = al.rand_range(rng)
    x = case.push("range %d %d" % (a, b))
    if k == 0:   # disjoint intersection under concatenation
        y = case.push("str " + word([al.rand_char(rng), al.rand_char(rng)]))
        i = case.push("inter %d %d" % (x, y))
        z = case.push("char %d" % al.rand_char(rng))
        return case.push("concat %d %d" % (z, i))
    if k == 1:   # complement of a universal language
        s = case.push("all"); c = case.push("comp %d" % x); u = case.push("union %d %d" % (x, c))
        return case.push("comp %d" % u)
    if k == 2:   # loop over an empty body (lower bound > 0)
        y = case.push("str " + word([al.rand_char(rng)] * 2)); i = case.push("inter %d %d" % (x, y))
        return case.push("loop %d %d %d" % (i, rng.choice([1, 2]), rng.choice([2, 3])))
    if k == 3:   # x & ~x hidden under concatenation
        c = case.push("comp %d" % x); s = case.push("star %d" % x); t = case.push("concat %d %d" % (s, x))
        c2 = case.push("comp %d" % t)
        return case.push("inter %d %d" % (t, c2))
    if k == 4:   # loop over empty with lower bound 0: epsilon only
        y = case.push("str " + word([al.rand_char(rng)] * 2)); i = case.push("inter %d %d" % (x, y))
        return case.push("star %d" % i)
    if k == 5:   # length mismatch
        p = case.push("pow %d 2" % x); q = case.push("pow %d 3" % x)
        return case.push("inter %d %d" % (p, q))
    if k == 6:
        s = case.push("plus %d" % x); e = case.push("eps")
        return case.push("inter %d %d" % (s, e))
    if k == 7:   # complement of a union that is universal only semantically: ~(~u + ~v), u and v disjoint
        u = case.push("str " + word([al.letters[0]])); v = case.push("str " + word([al.letters[1], al.letters[0]]))
        cu = case.push("comp %d" % u); cv = case.push("comp %d" % v)
        un = case.push("union %d %d" % (cu, cv))
        return case.push("comp %d" % un)
    if k == 8:   # ~(Sigma* . (x + eps)) : the concatenation is universal
        a = case.push("all"); o = case.push("opt %d" % x)
        c = case.push("concat %d %d" % (a, o))
        return case.push("comp %d" % c)
    # ~((x + ~x') ...) with overlapping ranges: universal by coverage, not by a complement pair
    y = case.push("range %d %d" % (max(0, a - 1), min(MAXC, b + 1)))
    cy = case.push("comp %d" % x); un = case.push("union %d %d" % (y, cy))
    return case.push("comp %d" % un)


def one_case(rng, tier):
    al = Alphabet(rng, boundary=True)
    case = Case()
    r = rng.random()
    if r < 0.06:
        # sub-terms with many derivative classes: emptiness and witnesses on the last classes
        u, probes, pts = wide_term(rng, case)
        for t_ in [u] + probes:
            case.obs("empty %d" % t_); case.obs("getstr %d" % t_)
        case.obs("mem %d %s" % (u, word([pts[-1]]))); case.obs("mem %d %s" % (probes[1], word([pts[-1]])))
        return case.line()
    if r < 0.45:
        t = sem_empty(rng, case, al)
    elif r < 0.9:
        t = gen_term(rng, case, al, rng.choice([2, 3, 4]), [])
    else:
        t = degenerate_term(rng, case, al)
    order = rng.random()
    if order < 0.5:
        case.obs("empty %d" % t); case.obs("getstr %d" % t)
    else:
        case.obs("getstr %d" % t); case.obs("empty %d" % t)
    if rng.random() < 0.4:
        case.obs("accepts %d 3 %s" % (t, word(al.letters[:3])))
    if rng.random() < 0.5:
        # several searches on one manager (the second starts from whatever the first left behind),
        # and the same search twice
        t2 = gen_term(rng, case, al, rng.choice([1, 2, 3]), [t]) if rng.random() < 0.7 else sem_empty(rng, case, al)
        case.obs("getstr %d" % t2); case.obs("getstr %d" % t); case.obs("getstr %d" % t2)
        case.obs("empty %d" % t2); case.obs("getstr %d" % t2)
    return case.line()


def generate(rng, tier):
    n = 4000 if tier == "quick" else 40000
    cases = [one_case(rng, tier) for _ in range(n)]
    info = {"rule": "terms whose emptiness is only semantic (disjoint intersections, complements of universal languages, loops over empty bodies, x & ~x under concatenation, length mismatches) mixed with random and degenerate terms; is_empty_re and get_string in both orders (manager history), witness re-checked by the reference matcher and the compiled automaton; non-trivial = at least one operator",
            "distribution": {"cases": n}}
    return cases, info


def nontrivial(case):
    return any(op in case for op in ("concat", "union", "inter", "comp", "diff", "star", "plus", "opt", "pow", "loop"))


def shrink(exe, case, impl, model, msg):
    import vlib
    return vlib.shrink_history(exe, ENGINE, case, "regex")


def search(rng, diff_cases, tier):
    out = []
    for c in diff_cases[:20]:
        out += intensify(c, rng)
    return out
