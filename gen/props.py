"""What MANIFEST.json claims (bin/mkmanifest turns this into MANIFEST.json)."""
HOOK_COMMITS = ["8be261b"]
NOTES = ("Machine-checked proof in Coq 8.16 of a hand-written executable model + per-run correspondence "
         "check of the extracted model against /repo's working tree (see DESIGN.md).")
COMMON_NOTE = ("Trusted: Coq kernel; hand-written Gallina model tied to /repo only by the per-run differential "
               "correspondence (finite); extraction via ExtrOcamlBasic; OCaml driver, Rust harness, Python generators. "
               "No axioms (all theorems closed under the global context). ")
ENGINES = [
    {"name": "coq-proof", "path": "coq/", "serves_properties": [], "kind_free_text": "Coq 8.16 development: model, specifications, theorems (Properties/Cxx.v)"},
    {"name": "correspondence", "path": "harness/ ocaml/ gen/ bin/check", "serves_properties": [], "kind_free_text": "extracted model vs real crate on generated + exhaustive small-domain cases, verified oracle for failing-input search"},
]
CLAIMED = {
 "C20": {"engine": "charset", "design_ref": "DESIGN.md section 5 / C20",
         "technique": "Coq proof (lia) of interval-algebra specs for the CharSet model + exhaustive/random model-vs-crate correspondence",
         "text": "Every CharSet operation of the model is proved, for all intervals and characters, to state the set-theoretic fact (20 theorems, no axioms); the model is compared with the crate on all intervals over 10-15 critical points (all ordered pairs) and random cases on every run. Unit tests sample a handful of intervals; the theorems cover all of them and the correspondence transports that to the code.",
         "note": COMMON_NOTE + "CharSet start/end are observed through pick()/size(). Sets are built valid (start<=end<=MAX_CHAR), as the type requires."},
}
NOT_CLAIMED = {}
for e in ENGINES:
    e["serves_properties"] = sorted(CLAIMED.keys())
