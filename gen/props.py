"""What MANIFEST.json claims (bin/mkmanifest turns this into MANIFEST.json)."""
HOOK_COMMITS = ["8be261b"]
FIX_COMMITS = {"D1": "d2df98b", "D8": "5d5605d", "D5": "c578a42"}
NOTES = ("Machine-checked proof in Coq 8.16 of a hand-written executable model + per-run correspondence "
         "check of the extracted model against /repo's working tree (see DESIGN.md).")
COMMON_NOTE = ("Trusted: Coq kernel; hand-written Gallina model tied to /repo only by the per-run differential "
               "correspondence (finite); extraction via ExtrOcamlBasic; OCaml driver, Rust harness, Python generators. "
               "No axioms (all theorems closed under the global context). ")
ENGINES = [
    {"name": "coq-proof", "path": "coq/", "serves_properties": [], "kind_free_text": "Coq 8.16 development: model, specifications, theorems (Properties/Cxx.v)"},
    {"name": "correspondence", "path": "harness/ ocaml/ gen/ bin/check", "serves_properties": [], "kind_free_text": "extracted model vs real crate on generated + exhaustive small-domain cases, verified oracle for failing-input search"},
]
CLAIMED = {
 "C20": {"engine": "charset", "design_ref": "DESIGN.md section 5 / C20",
         "technique": "Coq proof (lia) of interval-algebra specs for the CharSet model + exhaustive/random model-vs-crate correspondence",
         "text": "Every CharSet operation of the model is proved, for all intervals and characters, to state the set-theoretic fact (20 theorems, no axioms); the model is compared with the crate on all intervals over 10-15 critical points (all ordered pairs) and random cases on every run. Unit tests sample a handful of intervals; the theorems cover all of them and the correspondence transports that to the code.",
         "note": COMMON_NOTE + "CharSet start/end are observed through pick()/size(). Sets are built valid (start<=end<=MAX_CHAR), as the type requires."},
 "C09": {"engine": "strconv", "design_ref": "DESIGN.md section 5 / C09; defect D5 in section 4",
         "technique": "Coq proof (list induction, lia) that the model of str_lt/str_le/str_to_int/str_from_int/str_to_code/str_from_code/str_is_digit meets an inductive lexicographic order and Horner decimal-value specification + model-vs-crate correspondence in a debug AND a release build",
         "text": "30 theorems, no axioms, for all strings and all integers: str_lt/str_le never panic and are the strict/non-strict inductive lexicographic order (irreflexive, transitive, total, antisymmetric, le = lt or equal, lt a b = not le b a, every prefix is <=); str_to_int is the decimal value of a non-empty all-digit string when it is <= 2^31-1, the documented panic exactly when it is larger, and -1 otherwise, hence never a wrong number; str_from_int is the unique decimal numeral without leading zeros; to_int(from_int n) = n for 0 <= n <= 2^31-1, to_code(from_code x) = x for 0 <= x <= 0x2FFFF, from_code is empty outside that range, is_digit holds exactly for one character '0'..'9'. The model mirrors the code after the repair of defect D5 and has no build-profile argument; every run compares it with the crate built with overflow checks (debug) and without (release) on numerals around 2^31-1, 2^31, 2^32, 10-20 digits, leading zeros, late non-digits, all pairs of strings <= 3 over 3 code points, critical and random i32. Unit tests try three to_int inputs (none near 2^31) and about a dozen order pairs, in one profile.",
         "note": COMMON_NOTE + "i32::to_string is modelled by an own decimal printer (proved to produce the unique numeral) and tied to the crate by the correspondence check only. Strings reach the crate through SmtString::from(&[u32]). The build-profile quantifier is covered by running both profiles, not by a theorem about rustc."},
 "C15": {"engine": "looprange", "design_ref": "DESIGN.md section 5 / C15",
         "technique": "Coq proof (lia + N.mul monotonicity / div_mod lemmas, no nia) of set-level specs for the LoopRange model + exhaustive/frontier/random model-vs-crate correspondence in debug and release",
         "text": "For all valid ranges (finite and infinite) and all scalars the model's operations are proved to be the arithmetic of the denoted sets of naturals (34 theorems, no axioms): contains/includes are membership/inclusion; add is exactly the sum set; scale(k) exactly the k-fold sum set; shift the set of truncated predecessors; mul contains every product and is the least range that does; add/scale/mul return None (= Rust panic) exactly when that set/hull has no range with u32 bounds; right_mul_is_exact is true iff the union over y in s of the y-fold sums of r equals r.mul(s) (equivalently: iff that union is an interval at all), and it panics exactly when start(s)*(end(r)-start(r)) overflows u32. The extracted model is compared with the crate on every public LoopRange method over all 65 ranges with bounds <= 9 or infinite (all 4225 ordered pairs, all k <= 9), all ranges over the overflow frontier {0,1,2,2^16-1,2^16,2^16+1,2^31,2^32-1} (all ordered pairs, value vs PANIC) and 4000 random cases, in debug and release, on every run.",
         "note": COMMON_NOTE + "Ranges are built valid (lo<=hi), as LoopRange::finite debug-asserts; results are read from the derived Debug form. Display is not modelled. right_mul_is_exact can panic although the answer exists and r.mul(s) is representable (r=[0,65536], s=[65536,inf)); model and crate agree on that panic."},
}
NOT_CLAIMED = {}
for e in ENGINES:
    e["serves_properties"] = sorted(CLAIMED.keys())
