"""C15 -- LoopRange arithmetic: exhaustive small domain + u32 overflow frontier + random.
A range is written `lo hi` with hi a number or `inf`.  Every observation (a range, a bool, PANIC)
is determined uniquely by the specification (C15_extensional: two non-empty ranges with the same
members are equal), so equality with the verified model is the oracle."""
ENGINE = "looprange"
PROFILES = ["debug", "release"]
U32 = 2 ** 32 - 1
SMALL = 9
FRONTIER = [2 ** 16 - 1, 2 ** 16, 2 ** 16 + 1, 2 ** 31, 2 ** 32 - 1]
ASSUMPTIONS = [
    "LoopRange values are built with lo <= hi (the type invariant; LoopRange::finite has only a debug assertion)",
    "the bounds of a result are read from its derived Debug form `LoopRange(lo, Some(hi))` / `LoopRange(lo, None)`",
    "right_mul_is_exact panics (u32 overflow of start(s) * (end(r) - start(r))) on some inputs whose true answer "
    "exists, e.g. r=[0,65536], s=[65536,inf) where r.mul(s)=[0,inf) is representable; model and crate agree on the "
    "panic (C15_rmie_none_iff_overflow); with a finite s it never panics when mul does not "
    "(C15_rmie_total_when_product_finite)",
]
UNARY = ("preds", "shift")
BINARY = ("includes", "eq", "add", "mul", "rmie", "cadd", "cmul", "crmie")


def rs(r):
    return "%d %s" % (r[0], "inf" if r[1] is None else str(r[1]))


def ranges(points):
    pts = sorted(set(points))
    return [(a, b) for i, a in enumerate(pts) for b in pts[i:]] + [(a, None) for a in pts]


def rnum(rng):
    x = rng.random()
    if x < 0.35:
        return rng.randint(0, 12)
    if x < 0.55:
        return max(0, min(U32, rng.choice(FRONTIER) + rng.randint(-3, 3)))
    if x < 0.70:
        return rng.randint(0, 70000)
    if x < 0.80:
        return rng.choice([46340, 46341, 65535, 65536, 92681, 92682, 2 ** 31 - 1, 2 ** 31, U32 - 1, U32])
    if x < 0.90:
        return 1 << rng.randint(0, 31)
    return rng.randint(0, U32)


def rrange(rng):
    a, b = rnum(rng), rnum(rng)
    x = rng.random()
    if x < 0.3:
        return (a, None)
    if x < 0.45:
        return (a, a)
    a, b = min(a, b), max(a, b)
    if x < 0.6:
        b = min(U32, a + rng.randint(0, 4))     # narrow intervals: the gap criterion is tight here
    return (a, b)


def generate(rng, tier):
    cases = []
    # ---- 1. exhaustive small domain: all ranges with bounds <= 9 or infinite, all pairs, all k <= 9
    small = ranges(range(SMALL + 1))
    for k in range(SMALL + 2):
        cases.append("point %d" % k)
        cases.append("infinite %d" % k)
    cases += ["opt", "star", "plus"]
    for r in small:
        if r[1] is not None:
            cases.append("finite %d %d" % r)
        for op in UNARY:
            cases.append("%s %s" % (op, rs(r)))
        for i in range(SMALL + 3):
            cases.append("contains %s %d" % (rs(r), i))
        for k in range(SMALL + 1):
            cases.append("scale %s %d" % (rs(r), k))
            cases.append("addpt %s %d" % (rs(r), k))
    for r in small:
        for s in small:
            for op in BINARY:
                cases.append("%s %s %s" % (op, rs(r), rs(s)))
    n_small = len(cases)
    # ---- 2. the u32 overflow frontier: value versus PANIC
    fpts = [0, 1, 2] + FRONTIER if tier == "quick" else [0, 1, 2, 3, 46340, 46341, 2 ** 31 - 1, U32 - 1] + FRONTIER
    fr = ranges(fpts)
    ks = sorted(set(fpts + [3]))
    for k in FRONTIER:
        cases.append("point %d" % k)
        cases.append("infinite %d" % k)
    for r in fr:
        if r[1] is not None:
            cases.append("finite %d %d" % r)
        for op in UNARY:
            cases.append("%s %s" % (op, rs(r)))
        for k in ks:
            cases.append("scale %s %d" % (rs(r), k))
            cases.append("addpt %s %d" % (rs(r), k))
            cases.append("contains %s %d" % (rs(r), k))
    for r in fr:
        for s in fr:
            for op in ("add", "mul", "rmie", "includes", "cadd", "cmul", "crmie"):
                cases.append("%s %s %s" % (op, rs(r), rs(s)))
    # witnesses worth keeping first-class: a spurious rmie panic, exact and inexact loops of loops
    cases += ["rmie 0 65536 65536 inf", "mul 0 65536 65536 inf", "rmie 0 65536 65536 65537",
              "rmie 2 2 0 inf", "rmie 0 inf 2 2", "rmie 2 3 1 inf", "rmie 3 4 0 1", "rmie 0 1 3 4",
              "rmie 3 5 1 2", "rmie 3 4 1 2", "rmie 4 5 2 3", "rmie 4 5 3 4", "rmie 2 inf 0 1", "rmie 1 inf 0 1"]
    n_front = len(cases) - n_small
    # ---- 3. random
    nrand = 4000 if tier == "quick" else 200000
    for _ in range(nrand):
        x = rng.random()
        r = rrange(rng)
        if x < 0.65:
            s = rrange(rng)
            if rng.random() < 0.25:             # loops of loops around the gap criterion c*(b-a) >= a-1
                a = rng.randint(0, 40); e = rng.randint(0, 6); c = rng.randint(0, 12)
                r = (a, a + e)
                if e > 0 and rng.random() < 0.6:
                    c = max(0, (a - 1 + e - 1) // e + rng.choice([-1, 0, 0, 1]))
                s = (c, None) if rng.random() < 0.3 else (c, c + rng.randint(0, 3))
            op = rng.choice(["add", "mul", "rmie", "rmie", "includes", "eq", "cadd", "cmul", "crmie", "crmie"])
            if op == "eq" and rng.random() < 0.5:
                s = r
            cases.append("%s %s %s" % (op, rs(r), rs(s)))
        elif x < 0.80:
            cases.append("scale %s %d" % (rs(r), rnum(rng)))
        elif x < 0.88:
            cases.append("addpt %s %d" % (rs(r), rnum(rng)))
        elif x < 0.94:
            i = rnum(rng)
            if rng.random() < 0.5:              # near a bound
                bnd = r[0] if (r[1] is None or rng.random() < 0.5) else r[1]
                i = max(0, min(U32, bnd + rng.randint(-1, 1)))
            cases.append("contains %s %d" % (rs(r), i))
        else:
            cases.append("%s %s" % (rng.choice(UNARY), rs(r)))
    info = {
        "rule": "every public LoopRange method on all %d ranges with bounds <= %d or infinite (all %d ordered pairs for "
                "includes/eq/add/mul/right_mul_is_exact, all k <= %d for scale/add_point/contains), on all %d ranges over "
                "the overflow frontier points %s (all ordered pairs, value versus PANIC), and random ranges biased to "
                "small bounds, the frontier and the gap criterion of right_mul_is_exact; debug and release profiles; "
                "a case is non-trivial when it is an operation on at least one non-point range"
                % (len(small), SMALL, len(small) ** 2, SMALL, len(fr), fpts),
        "exhaustive_domains": [
            "%d ranges (lo<=hi<=%d, or [lo,inf)): %d ordered pairs x {includes,eq,add,mul,rmie}; scale/add_point k<=%d"
            % (len(small), SMALL, len(small) ** 2, SMALL),
            "%d ranges over %s: %d ordered pairs x {add,mul,rmie,includes}; scale/add_point/contains with k in %s"
            % (len(fr), fpts, len(fr) ** 2, ks)],
        "distribution": {"small_domain_cases": n_small, "frontier_cases": n_front, "random_cases": nrand},
    }
    return cases, info


def _ranges_of(case):
    t = case.split()
    out, i = [], 1
    nr = {"preds": 1, "shift": 1, "contains": 1, "scale": 1, "addpt": 1,
          "includes": 2, "eq": 2, "add": 2, "mul": 2, "rmie": 2, "cadd": 2, "cmul": 2, "crmie": 2}.get(t[0], 0)
    for _ in range(nr):
        out.append((int(t[i]), None if t[i + 1] == "inf" else int(t[i + 1])))
        i += 2
    return t[0], out, [int(x) for x in t[i:]]


def nontrivial(case):
    op, rr, _ = _ranges_of(case)
    return bool(rr) and op != "eq" and any(r[1] is None or r[0] != r[1] for r in rr)


def search(rng, diff_cases, tier):
    """neighbours of the strict disagreements: every bound and scalar moved by -1, 0, +1"""
    out = []
    for case in diff_cases[:20]:
        op, rr, xs = _ranges_of(case)
        if not rr:
            continue
        for _ in range(200):
            rr2 = []
            for (a, b) in rr:
                a2 = max(0, min(U32, a + rng.randint(-1, 1)))
                b2 = None if b is None else max(a2, min(U32, b + rng.randint(-1, 1)))
                rr2.append((a2, b2))
            xs2 = [max(0, min(U32, x + rng.randint(-1, 1))) for x in xs]
            out.append(" ".join([op] + [rs(r) for r in rr2] + [str(x) for x in xs2]))
    seen, uniq = set(), []
    for c in out:
        if c not in seen:
            seen.add(c); uniq.append(c)
    return uniq
