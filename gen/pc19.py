"""C19 -- the derivative closure is enumerated exactly; try_compile honours its bound."""
from regexgen import *
ENGINE = "regex"
TIMEOUT = 900
PARTIAL = []
ASSUMPTIONS = ["oracle: internal consistency of the implementation's own answers: e first, no duplicates, closure under char_derivative at every class boundary and probe character, try_compile Some iff count <= n"]


def one_case(rng, tier):
    al = Alphabet(rng, boundary=True)
    case = Case()
    if rng.random() < 0.06:
        # a fresh, almost empty manager and a term with far more derivatives than stored terms: the bound
        # must be compared with the number of derivatives, not with anything else the manager knows
        c = case.push("char %d" % al.rand_char(rng))
        k = rng.choice([6, 9, 15, 20, 30])
        t = case.push("pow %d %d" % (c, k)) if rng.random() < 0.6 else case.push("loop %d %d %d" % (c, k - 2, k))
        for n in sorted(set([2, 3, k - 5, k - 1, k, k + 1, k + 2, k + 3])):
            if n >= 0:
                case.obs("trycompile %d %d" % (t, n))
        case.obs("iter %d" % t)
        for n in (k - 1, k + 1, k + 2):
            case.obs("trycompile %d %d" % (t, n))
        return case.line()
    t = gen_term(rng, case, al, rng.choice([2, 3, 4]), []) if rng.random() < 0.85 else degenerate_term(rng, case, al)
    order = rng.random()
    if order < 0.3:      # try_compile before anything is cached
        case.obs("trycompile %d %d" % (t, rng.choice([0, 1, 2, 3])))
    case.obs("iter %d" % t)
    for n in sorted(set([0, 1, 2, 3, 4, 5, 6, 8, 12, 1000]) if rng.random() < 0.5 else [0, rng.choice([1, 2, 3, 4, 5, 7, 9]), 1000]):
        case.obs("trycompile %d %d" % (t, n))
    if rng.random() < 0.3:      # bounds beyond 32 bits (usize is 64 bit)
        for n in rng.sample([2 ** 32, 2 ** 32 + 1, 2 ** 32 + 2, (7 << 40) + 1, 2 ** 62 - 1, 2 ** 32 - 1, 2 ** 31], 3):
            case.obs("trycompile %d %d" % (t, n))
    case.obs("closure %d %s" % (t, word(al.probe_chars()[:6])))
    case.obs("compile %d" % t)
    return case.line()


def generate(rng, tier):
    n = 3000 if tier == "quick" else 30000
    cases = [one_case(rng, tier) for _ in range(n)]
    info = {"rule": "random and degenerate terms; iter_derivatives (ids in order), try_compile at n in {0..6,8,12,1000} (so k-1,k,k+1 are hit for small closures), closure of the yielded set under char_derivative, compile; non-trivial = at least one operator",
            "distribution": {"cases": n}}
    return cases, info


def nontrivial(case):
    return any(op in case for op in ("concat", "union", "inter", "comp", "diff", "star", "plus", "opt", "pow", "loop"))


def shrink(exe, case, impl, model, msg):
    import vlib
    return vlib.shrink_history(exe, ENGINE, case, "regex")


def search(rng, diff_cases, tier):
    out = []
    for c in diff_cases[:20]:
        out += intensify(c, rng)
    return out
