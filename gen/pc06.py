"""C06 -- str_concat/len/at/substr/prefixof/suffixof/contains/indexof/replace/replace_all vs SMT-LIB 2.6.
Exhaustive small domain over {a,b} x critical integers, plus random longer strings with planted
occurrences, overlaps, replacements containing the pattern, characters 0 and 0x2FFFF."""
import itertools

ENGINE = "strsearch"
MAXC = 0x2FFFF
I32MIN, I32MAX = -2 ** 31, 2 ** 31 - 1
A, B = 97, 98
INTS = list(range(-2, 8)) + [I32MIN, I32MAX]          # -1 is in the range already
ASSUMPTIONS = [
    "SmtStrings are built with SmtString::from(&[u32]) from characters <= MAX_CHAR (so the constructor is the identity); "
    "results are read back with len()/iter()",
    "strings longer than MAX_LENGTH = i32::MAX (where SmtString::make panics; modelled and covered by the theorems) are not exercised",
    "usize is 64 bits (i32 -> usize casts are only reached for checked non-negative values)",
    "the specification determines every result uniquely (C06_*_unique), so equality with the verified model is the oracle",
]


def W(w):
    return " ".join([str(len(w))] + [str(c) for c in w])


def words(alpha, maxlen):
    out = []
    for n in range(maxlen + 1):
        out += [list(t) for t in itertools.product(alpha, repeat=n)]
    return out


def occurs(p, s):
    return any(s[i:i + len(p)] == p for i in range(len(s) - len(p) + 1))


def parse(case):
    """-> (op, [words], [ints])"""
    t = case.split()
    op, k, ws = t[0], 1, []
    nw = {"len": 1, "at": 1, "substr": 1, "concat": 2, "prefixof": 2, "suffixof": 2, "contains": 2,
          "indexof": 2, "replace": 3, "replace_all": 3}[op]
    for _ in range(nw):
        n = int(t[k]); ws.append([int(x) for x in t[k + 1:k + 1 + n]]); k += 1 + n
    return op, ws, [int(x) for x in t[k:]]


def unparse(op, ws, ints):
    return " ".join([op] + [W(w) for w in ws] + [str(i) for i in ints])


def exhaustive(maxsub):
    S = words([A, B], maxsub)
    P = words([A, B], 3)
    R = words([A, B], 2)
    cases = []
    for s in S:
        cases.append("len " + W(s))
        for i in INTS:
            cases.append("at %s %d" % (W(s), i))
            for n in INTS:
                cases.append("substr %s %d %d" % (W(s), i, n))
        for p in P:
            cases.append("concat %s %s" % (W(s), W(p)))
            for op in ("prefixof", "suffixof", "contains"):
                cases.append("%s %s %s" % (op, W(s), W(p)))
                cases.append("%s %s %s" % (op, W(p), W(s)))
            for i in INTS:
                cases.append("indexof %s %s %d" % (W(s), W(p), i))
            for r in R:
                cases.append("replace %s %s %s" % (W(s), W(p), W(r)))
                cases.append("replace_all %s %s %s" % (W(s), W(p), W(r)))
    return cases, (len(S), len(P), len(R))


ALPHAS = [[A, B], [A, B, 99], [0, MAXC], [0, 1, MAXC - 1, MAXC], [A, 0, MAXC, 0xFFFD, 0xD800]]


def rword(rng, alpha, lo, hi):
    return [rng.choice(alpha) for _ in range(rng.randint(lo, hi))]


def rint(rng, n):
    r = rng.random()
    if r < 0.7:
        return rng.randint(-2, n + 2)
    if r < 0.8:
        return rng.choice([I32MIN, I32MIN + 1, -1, I32MAX, I32MAX - 1])
    return rng.randint(I32MIN, I32MAX)


def random_cases(rng, count):
    cases = []
    for _ in range(count):
        alpha = rng.choice(ALPHAS)
        kind = rng.random()
        if kind < 0.35:            # planted occurrences of a random pattern
            p = rword(rng, alpha, 1, 4)
            s = rword(rng, alpha, 0, 6)
            for _ in range(rng.randint(1, 4)):
                s = s + p + rword(rng, alpha, 0, 5)
        elif kind < 0.65:          # periodic subject, overlapping occurrences (aa in aaaa, aba in ababa)
            u = rword(rng, alpha, 1, 2)
            v = rword(rng, alpha, 0, 1)
            p = (u + v) * rng.randint(1, 2) + u
            s = rword(rng, alpha, 0, 2) + (u + v) * rng.randint(2, 8) + rng.choice([[], u, rword(rng, alpha, 0, 3)])
        elif kind < 0.8:           # pattern = prefix / suffix / slice of the subject, or nearly so
            s = rword(rng, alpha, 1, 30)
            i = rng.randint(0, len(s)); j = rng.randint(i, min(len(s), i + 6))
            p = s[i:j]
            if rng.random() < 0.3 and p:
                p = list(p); p[rng.randrange(len(p))] = rng.choice(alpha)
        else:                      # unrelated
            s = rword(rng, alpha, 0, 40)
            p = rword(rng, alpha, 0, 4)
        rk = rng.random()
        if rk < 0.35:              # replacement contains the pattern
            r = rword(rng, alpha, 0, 2) + p + rword(rng, alpha, 0, 2)
        elif rk < 0.5:
            r = []
        else:
            r = rword(rng, alpha, 0, 4)
        op = rng.choice(["indexof", "indexof", "replace", "replace_all", "replace_all", "contains", "prefixof",
                         "suffixof", "substr", "at", "concat", "len"])
        if op == "indexof":
            c = "indexof %s %s %d" % (W(s), W(p), rint(rng, len(s)))
        elif op in ("replace", "replace_all"):
            c = "%s %s %s %s" % (op, W(s), W(p), W(r))
        elif op == "contains":
            c = "contains %s %s" % (W(s), W(p))
        elif op in ("prefixof", "suffixof"):
            q = rng.random()
            if q < 0.4:
                k = rng.randint(0, len(s))
                p2 = s[:k] if op == "prefixof" else s[len(s) - k:]
            elif q < 0.6:
                p2 = s + rword(rng, alpha, 0, 2) if op == "prefixof" else rword(rng, alpha, 0, 2) + s
            else:
                p2 = p
            c = "%s %s %s" % (op, W(p2), W(s))
        elif op == "substr":
            c = "substr %s %d %d" % (W(s), rint(rng, len(s)), rint(rng, len(s)))
        elif op == "at":
            c = "at %s %d" % (W(s), rint(rng, len(s)))
        elif op == "concat":
            c = "concat %s %s" % (W(s), W(r))
        else:
            c = "len " + W(s)
        cases.append(c)
    return cases


def generate(rng, tier):
    maxsub = 4 if tier == "quick" else 5
    ex, (ns, np_, nr) = exhaustive(maxsub)
    nrand = 3000 if tier == "quick" else 100000
    rnd = random_cases(rng, nrand)
    cases = ex + rnd
    ops = {}
    for c in cases:
        o = c.split()[0]
        ops[o] = ops.get(o, 0) + 1
    info = {
        "rule": "exhaustive: every subject of length <= %d over {a,b} x every pattern of length <= 3 x every replacement of "
                "length <= 2, every index / length argument in -2..7 and i32::MIN, i32::MAX (all ten functions; binary predicates "
                "in both argument orders); random: subjects up to ~60 characters with planted occurrences, periodic subjects "
                "with overlapping occurrences, patterns cut out of the subject (possibly with one character changed), replacements "
                "containing the pattern or empty, alphabets including 0, 0xD800, 0xFFFD and 0x2FFFF, indices around [-2, len+2] and "
                "over the whole i32 range.  A case is non-trivial when the pattern is non-empty and occurs in the subject "
                "(search functions), the index is inside the string (at/substr) or both operands are non-empty (concat)." % maxsub,
        "exhaustive_domains": ["%d subjects x %d patterns x %d replacements over {a,b}; %d integer values %s"
                               % (ns, np_, nr, len(INTS), INTS)],
        "distribution": {"exhaustive_cases": len(ex), "random_cases": nrand, "per_op": ops},
    }
    return cases, info


def nontrivial(case):
    op, ws, ints = parse(case)
    if op == "len":
        return False
    if op == "concat":
        return bool(ws[0]) and bool(ws[1])
    if op == "at":
        return 0 <= ints[0] < len(ws[0])
    if op == "substr":
        return 0 <= ints[0] < len(ws[0]) and ints[1] > 0
    if op in ("prefixof", "suffixof"):
        return bool(ws[0]) and occurs(ws[0], ws[1])
    return bool(ws[1]) and occurs(ws[1], ws[0])


def search(rng, diff_cases, tier):
    """neighbourhood of strict disagreements: the same operation on every shortened operand and every
    nearby integer argument"""
    out = []
    for case in diff_cases[:20]:
        op, ws, ints = parse(case)
        n = max([len(w) for w in ws] + [0])
        for k in range(len(ints)):
            for v in list(range(-2, n + 3)) + [I32MIN, I32MAX]:
                out.append(unparse(op, ws, ints[:k] + [v] + ints[k + 1:]))
        for k in range(len(ws)):
            for j in range(len(ws[k])):
                out.append(unparse(op, ws[:k] + [ws[k][:j] + ws[k][j + 1:]] + ws[k + 1:], ints))
    return out


def shrink(exe, case, impl, model, msg):
    """greedy: delete single characters, rename characters to a/b, move integers towards 0, while the
    case stays a violation"""
    import vlib
    budget = [150]

    def bad(c):
        if budget[0] <= 0:
            return None
        budget[0] -= 1
        res = vlib.run_cases(exe, ENGINE, [c], "C06-shrink")
        (_, i2, st, m2, mm) = res[0]
        return (c, i2, m2, mm) if st == "BAD" else None

    best = (case, impl, model, msg)
    progress = True
    while progress and budget[0] > 0:
        progress = False
        op, ws, ints = parse(best[0])
        cands = []
        for k in range(len(ws)):
            for j in range(len(ws[k])):
                cands.append(unparse(op, ws[:k] + [ws[k][:j] + ws[k][j + 1:]] + ws[k + 1:], ints))
        for k in range(len(ints)):
            for v in (0, ints[k] // 2, ints[k] - 1 if ints[k] > 0 else ints[k] + 1):
                if abs(v) < abs(ints[k]):
                    cands.append(unparse(op, ws, ints[:k] + [v] + ints[k + 1:]))
        chars = sorted(set(c for w in ws for c in w))
        ren = dict(zip(chars, [A, B, 99, 100, 101, 102, 103, 104]))
        if len(chars) <= 8 and any(ren[c] != c for c in chars):
            cands.append(unparse(op, [[ren[c] for c in w] for w in ws], ints))
        for c in cands:
            if c == best[0]:
                continue
            r = bad(c)
            if r:
                best = r; progress = True
                break
    return best
