"""C10 -- regex replace uses the leftmost, then shortest, match."""
from regexgen import *
ENGINE = "regex"
TIMEOUT = 900
ASSUMPTIONS = ["str_replace_re(_all) exist only as SMT-LIB-named wrappers over the thread-local manager: cases run on a fresh thread",
               "oracle: reference replace_re / replace_re_all driven by the reference matcher (leftmost, then shortest; non-empty matches for replace_re_all)"]


def wterm(rng, case, al, depth):
    """terms through the wrapper API only"""
    r = rng.random()
    if depth <= 0 or r < 0.25:
        k = rng.random()
        if k < 0.5:
            return case.push("str " + word([al.rand_char(rng) for _ in range(rng.choice([0, 1, 1, 2, 3]))]))
        if k < 0.75:
            a = al.rand_char(rng); b = al.rand_char(rng)
            return case.push("smtrange 1 %d 1 %d" % (min(a, b), max(a, b)))
        if k < 0.85:
            return case.push("allchar")
        if k < 0.93:
            return case.push("all")
        return case.push("none")
    sub = lambda: wterm(rng, case, al, depth - 1)
    k = rng.random()
    if k < 0.3:
        a = sub(); b = sub(); return case.push("concat %d %d" % (a, b))
    if k < 0.45:
        a = sub(); b = sub(); return case.push("union %d %d" % (a, b))
    if k < 0.55:
        a = sub(); b = sub(); return case.push("inter %d %d" % (a, b))
    if k < 0.65:
        a = sub(); return case.push("comp %d" % a)
    if k < 0.75:
        a = sub(); return case.push("star %d" % a)
    if k < 0.82:
        a = sub(); return case.push("plus %d" % a)
    if k < 0.88:
        a = sub(); return case.push("opt %d" % a)
    if k < 0.94:
        a = sub(); return case.push("loop %d %d %d" % (a, rng.choice([0, 1, 2]), rng.choice([1, 2, 3])))
    a = sub(); b = sub(); return case.push("diff %d %d" % (a, b))


def one_case(rng, tier):
    al = Alphabet(rng)
    al.letters = al.letters[:3]
    case = Case(wrapped=True)
    if rng.random() < 0.06:
        # a loop with lower bound >= 2 and no upper bound (x x+ is merged into x{2,}) under an optional /
        # starred / bounded outer loop: flattening nested loops must not add x^1
        x = case.push("str " + word([al.letters[0]]))
        inner = case.push("plus %d" % x)
        body = case.push("concat %d %d" % (x, inner))
        if rng.random() < 0.4:
            body = case.push("concat %d %d" % (x, body))
        outer = case.push(rng.choice(["opt %d", "star %d", "loop %d 0 2", "loop %d 0 3"]) % body)
        y = case.push("str " + word([al.letters[1]]))
        t = case.push("concat %d %d" % (outer, y))
        a_, b_ = al.letters[0], al.letters[1]
        for s_ in ([a_, b_], [a_, a_, b_], [a_, b_, a_, a_, b_, 120, a_, b_], [b_], [a_, a_, a_, b_]):
            case.obs("%s %d %s %s" % (rng.choice(["replre", "replreall"]), t, word(s_), word([84])))
        return case.line()
    t = wterm(rng, case, al, rng.choice([1, 2, 3]))
    for _ in range(rng.choice([2, 3, 4])):
        s = [al.rand_char(rng) for _ in range(rng.choice([0, 1, 2, 3, 4, 5, 6]))]
        rep = [rng.choice(al.letters + [120]) for _ in range(rng.choice([0, 1, 2]))]
        case.obs("%s %d %s %s" % (rng.choice(["replre", "replreall"]), t, word(s), word(rep)))
    return case.line()


def generate(rng, tier):
    n = 4000 if tier == "quick" else 50000
    cases = [one_case(rng, tier) for _ in range(n)]
    info = {"rule": "subjects <= 6 over a 3-letter critical alphabet x wrapper-built expressions (nullable, empty, with complement, anchored by Sigma*) x replacements <= 2 (including ones that contain a match); replace_re and replace_re_all; non-trivial = expression has an operator and subject non-empty",
            "distribution": {"cases": n}}
    return cases, info


def nontrivial(case):
    return any(op in case for op in ("concat", "union", "inter", "comp", "diff", "star", "plus", "opt", "loop"))


def shrink(exe, case, impl, model, msg):
    import vlib
    return vlib.shrink_history(exe, ENGINE, case, "regex")


def search(rng, diff_cases, tier):
    out = []
    for c in diff_cases[:20]:
        out += intensify(c, rng)
    return out
