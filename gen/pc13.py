"""C13 -- AutomatonBuilder::build accepts only complete deterministic specs and keeps delta."""
from autogen import *
ENGINE = "automata"
ASSUMPTIONS = ["oracle recomputes the specified successor of every state x critical character from the call history (spec_delta) and the two acceptance clauses; overlapping labels with equal successors are rejected by the crate (NonDisjointCharSets) and tolerated by the oracle",
               "state ids are assigned in first-mention order (as the crate does)"]


def generate(rng, tier):
    n = 3000 if tier == "quick" else 60000
    cases = []
    nm = 0
    for _ in range(n):
        k = rng.randint(1, 6)
        pts = sorted(rng.sample(PTS, rng.randint(3, 8)))
        if rng.random() < 0.6:
            st, _ = complete_spec(rng, k, pts)
        else:
            st = malformed(rng, k, pts); nm += 1
        probes = sorted(set(pts + [p + 1 for p in pts if p < MAXC] + [p - 1 for p in pts if p > 0]))
        st += ["build", "nextall %d %s" % (len(probes), " ".join(map(str, probes))), "finals", "edges"]
        cases.append(" ; ".join(st))
    info = {"rule": "builder call sequences over 1-6 states: complete deterministic specs (defaults everywhere, full coverage without defaults, mixed, shuffled call order, arbitrary state names, unreachable parts) and a malformed stream (missing default with a gap, overlapping labels with different / equal successors, label overlapping a transition into the default target, default plus full coverage, incomplete state that only a majority promotion would complete); observed: Ok/Err kind, next on every state x critical character, finals, edges; non-trivial = at least 2 states and one explicit transition",
            "distribution": {"cases": n, "malformed": nm}}
    return cases, info


def nontrivial(case):
    return case.count("add ") >= 1 and (case.count("def ") + case.count("add ")) >= 2


def shrink(exe, case, impl, model, msg):
    import vlib
    return vlib.shrink_history(exe, ENGINE, case, "automata")


def search(rng, diff_cases, tier):
    out = []
    for c in diff_cases[:20]:
        out += intensify(c, rng)
    return out
