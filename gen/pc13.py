"""C13 -- AutomatonBuilder::build accepts only complete deterministic specs and keeps delta."""
from autogen import *
ENGINE = "automata"
ASSUMPTIONS = ["oracle recomputes the specified successor of every state x critical character from the call history (spec_delta) and the two acceptance clauses; overlapping labels with equal successors are rejected by the crate (NonDisjointCharSets) and tolerated by the oracle",
               "state ids are assigned in first-mention order (as the crate does)"]


def generate(rng, tier):
    n = 3000 if tier == "quick" else 60000
    cases = []
    nm = 0
    nv = 0
    for _ in range(n):
        k = rng.randint(1, 6)
        pts = sorted(rng.sample(PTS, rng.randint(3, 8)))
        r = rng.random()
        if r < 0.12:
            st = vote_spec(rng, pts); nv += 1
        elif r < 0.64:
            st, _ = complete_spec(rng, k, pts)
        else:
            st = malformed(rng, k, pts); nm += 1
        probes = sorted(set(pts + [p + 1 for p in pts if p < MAXC] + [p - 1 for p in pts if p > 0]))
        st += ["build", "nextall %d %s" % (len(probes), " ".join(map(str, probes))), "finals", "edges"]
        cases.append(" ; ".join(st))
    info = {"rule": "builder call sequences over 1-6 states: complete deterministic specs (defaults everywhere, full coverage without defaults, mixed, shuffled call order, arbitrary state names, unreachable parts) and a malformed stream (missing default with a gap, overlapping labels with different / equal successors, label overlapping a transition into the default target, default plus full coverage, incomplete state that only a majority promotion would complete) and a majority-vote stress stream (a state without default whose 4-9 labels cover the alphabet, successors drawn as all-distinct / one repeated / exactly half / half plus one / alternating multisets, so that the Boyer-Moore candidate, the count and the threshold len/2 are all exercised on both sides); observed: Ok/Err kind, next on every state x critical character, finals, edges; non-trivial = at least 2 states and one explicit transition",
            "distribution": {"cases": n, "malformed": nm, "majority_vote_stress": nv}}
    return cases, info


def vote_spec(rng, pts):
    """state 0 has no default and m labels that cover [0, MAXC]; the multiset of successors decides whether
    cleanup() promotes a default (count >= len/2) and which transitions it drops"""
    m = rng.randint(4, 9)
    nst = rng.randint(2, m + 1)
    cand = sorted(set(p for p in pts if 0 < p <= MAXC))
    extra = [p for p in (1, 2, 3, 5, 8, 13, 21, 34, 55, 89, 144, 233, 1000, 5000, 70000, 196000) if p not in cand]
    rng.shuffle(extra)
    cuts = sorted(set([0] + cand + extra))[:]
    rng.shuffle(cuts)
    cuts = sorted(set([0] + [c for c in cuts if c != 0][:m - 1]))
    m = len(cuts)
    kind = rng.choice(["distinct", "one_twice", "half", "half_plus", "alternating", "random"])
    others = list(range(1, nst)) or [0]
    if kind == "distinct":
        tg = [(i % max(1, nst - 1)) + 1 if nst > 1 else 0 for i in range(m)]
        if nst - 1 < m:
            tg = [rng.choice(others) for _ in range(m)]
            tg[:len(others)] = others
    elif kind == "one_twice":
        tg = [others[i % len(others)] for i in range(m)]
        tg[-1] = tg[0]
    elif kind == "half":
        tg = [others[0]] * (m // 2) + [others[(i % max(1, len(others) - 1)) + 1] if len(others) > 1 else others[0] for i in range(m - m // 2)]
    elif kind == "half_plus":
        tg = [others[0]] * (m // 2 + 1) + [others[(i % max(1, len(others) - 1)) + 1] if len(others) > 1 else others[0] for i in range(m - m // 2 - 1)]
    elif kind == "alternating":
        tg = [others[i % 2 % len(others)] for i in range(m)]
    else:
        tg = [rng.choice(others) for _ in range(m)]
    if rng.random() < 0.5:
        rng.shuffle(tg)
    names = [rng.randint(0, 50) * 2 + 1000 * i for i in range(nst)] if rng.random() < 0.5 else list(range(nst))
    ops = []
    for i, a in enumerate(cuts):
        b = (cuts[i + 1] - 1) if i + 1 < len(cuts) else MAXC
        ops.append("add %d %d %d %d" % (names[0], a, b, names[tg[i]]))
    for s in range(1, nst):
        ops.append("def %d %d" % (names[s], names[rng.randrange(nst)]))
        if rng.random() < 0.3:
            ops.append("fin %d" % names[s])
    if rng.random() < 0.4:
        rng.shuffle(ops)
    return ["new %d" % names[0]] + ops


def nontrivial(case):
    return case.count("add ") >= 1 and (case.count("def ") + case.count("add ")) >= 2


def shrink(exe, case, impl, model, msg):
    import vlib
    return vlib.shrink_history(exe, ENGINE, case, "automata")


def search(rng, diff_cases, tier):
    out = []
    for c in diff_cases[:20]:
        out += intensify(c, rng)
    return out
