"""C14 -- reachability pruning and the compiled successor table agree with the automaton."""
from autogen import *
ENGINE = "automata"
ASSUMPTIONS = ["oracle: verified product-exploration equivalence (dfa_equiv) between the automaton before and after pruning, reachable-state count, every table cell against next() of the implementation's own automaton"]


def generate(rng, tier):
    n = 2500 if tier == "quick" else 50000
    cases = []
    for _ in range(n):
        k = rng.randint(1, 8)
        pts = sorted(rng.sample(PTS, rng.randint(3, 8)))
        r0 = rng.random()
        st = tiny_alphabet_spec(rng, k) if r0 < 0.12 else (planted_equiv(rng, k, pts) if r0 < 0.5 else complete_spec(rng, k, pts, full_cover_prob=0.3)[0])
        probes = sorted(set(pts + [p + 1 for p in pts if p < MAXC]))
        st += ["buildu", "table", "alphabet", "edges", "finals", "prune", "table", "nextall %d %s" % (len(probes), " ".join(map(str, probes))),
               "acceptsall 3 %s" % ("3 %d %d %d" % tuple(rng.sample(pts, 3)))]
        if rng.random() < 0.35:
            # pruning an automaton whose initial state is no longer state 0 (after minimize renumbered it)
            st += ["minimize", "prune", "acceptsall 3 %s" % ("3 %d %d %d" % tuple(rng.sample(pts, 3))), "finals"]
        cases.append(" ; ".join(st))
    info = {"rule": "automata from builder histories (1-8 states + planted copies, unreachable components incl. ones with smaller ids than reachable states, dense colliding non-default rows, with / without defaults); observed: every cell of the compiled table, alphabet, edges, finals, the pruned automaton (kept set, renumbering) and its table; non-trivial = at least 3 states",
            "distribution": {"cases": n}}
    return cases, info


def nontrivial(case):
    return case.count("def ") + case.count("add ") >= 3


def shrink(exe, case, impl, model, msg):
    import vlib
    return vlib.shrink_history(exe, ENGINE, case, "automata")


def search(rng, diff_cases, tier):
    out = []
    for c in diff_cases[:20]:
        out += intensify(c, rng)
    return out
