"""C14 -- reachability pruning and the compiled successor table agree with the automaton."""
from autogen import *
ENGINE = "automata"
ASSUMPTIONS = ["oracle: verified product-exploration equivalence (dfa_equiv) between the automaton before and after pruning, reachable-state count, every table cell against next() of the implementation's own automaton"]


def count_states(stmts):
    """number of states the builder creates = number of distinct names mentioned"""
    names = set()
    for o in stmts:
        t = o.split()
        if t[0] == "new" or t[0] == "fin":
            names.add(t[1])
        elif t[0] == "add":
            names.add(t[1]); names.add(t[4])
        elif t[0] == "def":
            names.add(t[1]); names.add(t[2])
    return len(names)


def random_sets(rng, pts, k):
    """valid character sets over the critical points: singletons, ranges between two critical points
    (inside one label, straddling a boundary, inside the complement), the whole alphabet"""
    out = []
    cand = sorted(set(pts + [p + 1 for p in pts if p < MAXC] + [p - 1 for p in pts if p > 0] + [0, MAXC]))
    for _ in range(k):
        r = rng.random()
        if r < 0.3:
            a = rng.choice(cand); out.append((a, a))
        elif r < 0.9:
            a, b = sorted(rng.sample(cand, 2)); out.append((a, b))
        else:
            out.append((0, MAXC))
    return out


def csnext_queries(rng, stmts, nst):
    """char_set_next on the labels as written (Ok), on labels widened by one (Err when the neighbour
    differs), and on random sets, for random states"""
    labels = []
    for o in stmts:
        t = o.split()
        if t[0] == "add":
            labels.append((int(t[2]), int(t[3])))
    qs = []
    for _ in range(rng.randint(3, 6)):
        s = rng.randrange(nst)
        r = rng.random()
        if labels and r < 0.35:
            a, b = rng.choice(labels)
        elif labels and r < 0.6:
            a, b = rng.choice(labels)
            a, b = max(0, a - rng.choice([0, 1])), min(MAXC, b + rng.choice([0, 1]))
        else:
            a, b = random_sets(rng, PTS, 1)[0]
        qs.append("csnext %d %d %d" % (s, a, b))
    return qs


def generate(rng, tier):
    n = 2500 if tier == "quick" else 50000
    cases = []
    for _ in range(n):
        k = rng.randint(1, 8)
        pts = sorted(rng.sample(PTS, rng.randint(3, 8)))
        r0 = rng.random()
        st = tiny_alphabet_spec(rng, k) if r0 < 0.12 else (planted_equiv(rng, k, pts) if r0 < 0.5 else complete_spec(rng, k, pts, full_cover_prob=0.3)[0])
        probes = sorted(set(pts + [p + 1 for p in pts if p < MAXC]))
        nst = count_states(st)
        info_probes = sorted(set(rng.sample(probes, min(len(probes), 6)) + [0, MAXC]))
        stateinfo = "stateinfo %d %s" % (len(info_probes), " ".join(map(str, info_probes)))
        st += ["buildu", "table", "alphabet", "edges", "finals", stateinfo]
        st += csnext_queries(rng, st, nst)
        st += ["prune", "table", "nextall %d %s" % (len(probes), " ".join(map(str, probes))),
               "acceptsall 3 %s" % ("3 %d %d %d" % tuple(rng.sample(pts, 3)))]
        if rng.random() < 0.5:
            st += [stateinfo]
        # state 0 always survives pruning (it may not be the initial state after minimize, but it exists)
        st += ["csnext 0 %d %d" % cs for cs in random_sets(rng, pts, 2)]
        if rng.random() < 0.35:
            # pruning an automaton whose initial state is no longer state 0 (after minimize renumbered it)
            st += ["minimize", "prune", "acceptsall 3 %s" % ("3 %d %d %d" % tuple(rng.sample(pts, 3))), "finals", stateinfo]
        cases.append(" ; ".join(st))
    info = {"rule": "automata from builder histories (1-8 states + planted copies, unreachable components incl. ones with smaller ids than reachable states, dense colliding non-default rows, with / without defaults); observed: every cell of the compiled table, alphabet, edges, finals, every accessor of Automaton / State (stateinfo: initial_state, state, states, num_states, num_final_states, final_states, default_successor, class_next on every listed class, num_successors, has_default_successor, valid_class_id, char_classes, char_picks, char_ranges, class_of_char and char_maps_to_default on probe characters), char_set_next on labels / widened labels / random sets (Ok and AmbiguousCharSet), the pruned automaton (kept set, renumbering) and its table; non-trivial = at least 3 states",
            "distribution": {"cases": n}}
    return cases, info


def nontrivial(case):
    return case.count("def ") + case.count("add ") >= 3


def shrink(exe, case, impl, model, msg):
    import vlib
    return vlib.shrink_history(exe, ENGINE, case, "automata")


def search(rng, diff_cases, tier):
    out = []
    for c in diff_cases[:20]:
        out += intensify(c, rng)
    return out
