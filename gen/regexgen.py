"""Generator of regex histories for the "regex" engine (shared by C01-C05, C07, C10, C16, C18, C19)."""
MAXC = 0x2FFFF


class Case:
    """a list of statements; statements that yield a term get consecutive indices"""
    def __init__(self, wrapped=False):
        self.stmts = []
        self.n = 0
        self.wrapped = wrapped
        self.chars = set()

    def push(self, s):          # statement yielding a term
        self.stmts.append(s)
        self.n += 1
        return self.n - 1

    def obs(self, s):           # observation (no value)
        self.stmts.append(s)

    def line(self):
        return ("W " if self.wrapped else "") + " ; ".join(self.stmts)


def word(w):
    return "%d%s" % (len(w), "".join(" %d" % c for c in w))


class Alphabet:
    """critical characters of one case: a few letters plus boundaries"""
    def __init__(self, rng, boundary=False):
        base = rng.choice([[97, 98, 99], [97, 98, 99, 100], [48, 49, 97], [0, 1, 2], [MAXC - 2, MAXC - 1, MAXC], [97, 98, 99, 101], [97, 98, 99], [0xD7FF, 0xD800, 0xDFFF, 0xE000], [0xFFFD, 0xFFFF, 0x10000],
                           # characters that coincide when truncated to 8 or 16 bits (memo tables, packed keys)
                           [0x61, 0x161, 0x10061], [0x41, 0x141, 0x20041, 0x241],
                           # many spaced characters: sub-terms with 9 and more derivative classes
                           [97 + 2 * i for i in range(12)]])
        self.letters = list(base)
        if boundary and rng.random() < 0.5:
            self.letters = sorted(set(self.letters + [rng.choice([0, MAXC])]))

    def rand_char(self, rng):
        return rng.choice(self.letters)

    def rand_range(self, rng):
        a = rng.choice(self.letters)
        b = rng.choice(self.letters)
        if a > b:
            a, b = b, a
        r = rng.random()
        if r < 0.15:
            b = min(MAXC, b + 1)     # adjacent / overlapping with neighbours
        elif r < 0.25:
            a = max(0, a - 1)
        elif r < 0.30:
            a, b = 0, MAXC
        return a, b

    def probe_chars(self):
        s = set()
        for c in self.letters:
            for d in (c - 1, c, c + 1):
                if 0 <= d <= MAXC:
                    s.add(d)
        return sorted(s)


LOOP_BOUNDS = [0, 0, 1, 1, 2, 2, 3, 5]


def wide_term(rng, case, al=None):
    """a term with 9-14 derivative classes (union of spaced characters / disjoint ranges), probed on its
    last classes: union U, inter(U, last), diff(U, union of all but the last); returns (U, probes)"""
    n = rng.choice([9, 10, 12, 14])
    start = rng.choice([97, 0, 48, 0x100])
    pts = [start + 2 * i for i in range(n)]
    if rng.random() < 0.3:
        pts[-1] = MAXC
    atoms = []
    for c in pts:
        if rng.random() < 0.7:
            atoms.append(case.push("char %d" % c))
        else:
            atoms.append(case.push("range %d %d" % (c, c if c == MAXC else c)))
    order = list(atoms)
    if rng.random() < 0.5:
        rng.shuffle(order)
    u = case.push("unionl %d%s" % (len(order), "".join(" %d" % x for x in order)))
    last = atoms[-1]
    i1 = case.push("inter %d %d" % (u, last))
    rest = case.push("unionl %d%s" % (len(atoms) - 1, "".join(" %d" % x for x in atoms[:-1])))
    d1 = case.push("diff %d %d" % (u, rest))
    return u, [i1, d1], pts


def gen_term(rng, case, al, depth, pool=None, degenerate=0.15, allow_compl=True):
    """emit statements building a random term; returns its index"""
    pool = pool if pool is not None else []
    r = rng.random()
    if depth <= 0 or r < 0.18:
        k = rng.random()
        if pool and k < 0.25:
            return rng.choice(pool)
        if k < 0.40:
            c = al.rand_char(rng)
            return case.push("char %d" % c)
        if k < 0.70:
            a, b = al.rand_range(rng)
            return case.push("range %d %d" % (a, b))
        if k < 0.82:
            n = rng.choice([0, 1, 2, 2, 3])
            return case.push("str " + word([al.rand_char(rng) for _ in range(n)]))
        if k < 0.88:
            return case.push("allchar")
        if k < 0.92:
            return case.push("all")
        if k < 0.96:
            return case.push("eps")
        return case.push("none")
    sub = lambda: gen_term(rng, case, al, depth - 1, pool, degenerate, allow_compl)
    k = rng.random()
    if k < 0.22:
        a = sub(); b = sub()
        return case.push("concat %d %d" % (a, b))
    if k < 0.36:
        a = sub(); b = sub()
        return case.push("union %d %d" % (a, b))
    if k < 0.46:
        a = sub(); b = sub()
        return case.push("inter %d %d" % (a, b))
    if k < 0.54 and allow_compl:
        a = sub()
        return case.push("comp %d" % a)
    if k < 0.59 and allow_compl:
        a = sub(); b = sub()
        return case.push("diff %d %d" % (a, b))
    if k < 0.66:
        a = sub()
        return case.push("star %d" % a)
    if k < 0.71:
        a = sub()
        return case.push("plus %d" % a)
    if k < 0.76:
        a = sub()
        return case.push("opt %d" % a)
    if k < 0.81:
        a = sub()
        return case.push("pow %d %d" % (a, rng.choice([0, 1, 2, 3])))
    if k < 0.89:
        a = sub()
        i = rng.choice(LOOP_BOUNDS); j = rng.choice(LOOP_BOUNDS)
        if rng.random() > degenerate and i > j:
            i, j = j, i
        return case.push("loop %d %d %d" % (a, i, j))
    if k < 0.92:
        a = sub()
        return case.push("loopinf %d %d" % (a, rng.choice([0, 1, 2, 3])))
    if k < 0.95:
        l = [sub() for _ in range(rng.choice([0, 1, 3]))]
        op = rng.choice(["concatl", "unionl", "interl"])
        return case.push("%s %d%s" % (op, len(l), "".join(" %d" % x for x in l)))
    if k < 0.97:
        w1 = [al.rand_char(rng) for _ in range(rng.choice([1, 1, 1, 0, 2]))]
        w2 = [al.rand_char(rng) for _ in range(rng.choice([1, 1, 1, 0, 2]))]
        return case.push("smtrange %s %s" % (word(w1), word(w2)))
    a = sub()
    l = [sub() for _ in range(rng.choice([0, 1, 2]))]
    return case.push("diffl %d %d%s" % (a, len(l), "".join(" %d" % x for x in l)))


def degenerate_term(rng, case, al):
    """shapes that exercise the rewriting rules' corner cases"""
    k = rng.randrange(14)
    x = case.push("range %d %d" % al.rand_range(rng))
    if k == 0:
        e = case.push("none"); return case.push(rng.choice(["star %d", "opt %d", "plus %d"]) % e)
    if k == 1:
        e = case.push("none"); return case.push("loop %d %d %d" % (e, rng.choice([0, 1]), rng.choice([0, 2, 3])))
    if k == 2:
        e = case.push("eps"); return case.push("loop %d 2 5" % e)
    if k == 3:
        s = case.push("opt %d" % x); return case.push("loop %d %d %d" % (s, rng.choice([0, 2]), rng.choice([3, 5])))
    if k == 4:
        s = case.push("loop %d 2 3" % x); return case.push("loop %d %d %d" % (s, rng.choice([0, 1, 2]), rng.choice([2, 3, 5])))
    if k == 5:
        s = case.push("loop %d 2 2" % x); return case.push("loopinf %d %d" % (s, rng.choice([0, 1, 2])))
    if k == 6:
        s = case.push("loopinf %d 2" % x); return case.push("loop %d 0 %d" % (s, rng.choice([1, 2])))
    if k == 7:
        c = case.push("comp %d" % x); c2 = case.push("comp %d" % c); return case.push("inter %d %d" % (c, c2))
    if k == 8:
        c = case.push("comp %d" % x); return case.push("union %d %d" % (x, c))
    if k == 9:
        return case.push("diff %d %d" % (x, x))
    if k == 10:
        s = case.push("star %d" % x); return case.push("concat %d %d" % (x, s))
    if k == 11:
        s = case.push("loop %d 1 2" % x); t = case.push("loop %d 2 3" % x); return case.push("concat %d %d" % (s, t))
    if k == 12:
        return case.push("concat %d %d" % (x, x))
    s = case.push("star %d" % x); a = case.push("all"); return case.push("concat %d %d" % (s, a))


def overflow_term(rng, case, al):
    x = case.push("range %d %d" % al.rand_range(rng))
    big = rng.choice([65535, 65536, 65537, 2 ** 31, 2 ** 32 - 1])
    k = rng.randrange(4)
    if k == 0:
        s = case.push("pow %d %d" % (x, big)); return case.push("pow %d %d" % (s, big))
    if k == 1:
        s = case.push("loopinf %d %d" % (x, big)); return case.push("concat %d %d" % (s, s))
    if k == 2:
        s = case.push("loop %d %d %d" % (x, 1, big)); return case.push("concat %d %d" % (x, s))
    s = case.push("loop %d 2 %d" % (x, big)); return case.push("loop %d 3 %d" % (s, big))


YIELD_OPS = ("none", "eps", "all", "allchar", "splus", "char", "range", "charset", "smtrange", "str", "concat",
             "concatl", "union", "unionl", "inter", "interl", "comp", "diff", "diffl", "star", "plus", "opt",
             "pow", "loop", "loopinf", "deriv", "sderiv", "classder", "setder", "ctorstr")


def intensify(case, rng, n_variants=6):
    """failing-input search around a case on which model and implementation disagree: keep its
    term-building statements and observe every value it builds much more densely (membership of all
    words <= 4 over several critical alphabets, nullable, emptiness, witness, first characters)."""
    prefix = "W " if case.startswith("W ") else ""
    body = case[2:] if prefix else case
    stmts = [s for s in body.split(" ; ") if s.split() and s.split()[0] in YIELD_OPS]
    chars = set()
    for s in stmts:
        t = s.split()
        if t[0] in ("char", "range", "charset", "deriv", "setder"):
            for x in t[1:]:
                if x.isdigit() and int(x) <= MAXC:
                    chars.add(int(x))
        if t[0] in ("str", "smtrange", "sderiv"):
            for x in t[2:]:
                if x.isdigit() and int(x) <= MAXC:
                    chars.add(int(x))
    crit = sorted(set(list(chars) + [c + 1 for c in chars if c < MAXC] + [c - 1 for c in chars if c > 0]))[:12] or [97, 98]
    out = []
    n = len(stmts)
    # terms with huge loop bounds have derivative closures of billions of terms: only flat observations
    huge = any(t.split()[0] in ("pow", "loop", "loopinf") and any(x.isdigit() and int(x) > 64 for x in t.split()[2:])
               for t in stmts)
    for v in range(n_variants):
        alpha = rng.sample(crit, min(3, len(crit)))
        obs = []
        for i in range(n):
            obs.append("nullable %d" % i)
            if huge:
                continue
            obs.append("memall %d 4 %s" % (i, word(alpha)))
            if not prefix:
                obs.append("empty %d" % i)
                obs.append("getstr %d" % i)
                for c in alpha[:2]:
                    obs.append("startc %d %d" % (i, c))
        out.append(prefix + " ; ".join(stmts + obs))
    return out
