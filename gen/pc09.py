"""C09 -- lexicographic orders and int/code conversions, in both build profiles.

The harness is built and run twice: debug (overflow checks on) and release (overflow checks off).
One model without a profile argument is compared with both; a release-only wrong number (D5) is
reported with the profile in the replay."""
ENGINE = "strconv"
PROFILES = ["debug", "release"]
MAXC = 0x2FFFF
I32MAX = 2**31 - 1
I32MIN = -2**31
ASSUMPTIONS = [
    "strings are built with SmtString::from(&[u32]); a code point above MAX_CHAR is replaced by U+FFFD on both sides",
    "str_from_int's use of i32::to_string is modelled by an own decimal printer (proved to give the unique numeral) and tied by this check",
    "integer arguments are i32 (the harness parses them as i32)",
]

# code points around the digits and other critical points
NEAR_DIGITS = [0, 1, 47, 48, 49, 52, 56, 57, 58, 65, 97, 0x660, 0x6F0, 0xFF10, 0xFF19, 0xFFFD, 0x1D7CE, MAXC - 1, MAXC]
ORDER_ALPHA = [0, 97, MAXC]          # three code points for the exhaustive order tables
CRIT_INTS = sorted(set([I32MIN, I32MIN + 1, -MAXC - 1, -65536, -48, -10, -2, -1, 0, 1, 9, 10, 11, 47, 48, 57, 58, 99, 100,
                        101, 999, 1000, 0xD800, 0xDFFF, 0xFFFD, 0xFFFF, 0x10000, 0x10FFFF, MAXC - 1, MAXC, MAXC + 1,
                        0x30000, 0x110000, 10**9 - 1, 10**9, 10**9 + 1, 2 * 10**9, I32MAX - 1, I32MAX]
                       + [10**k for k in range(1, 10)] + [10**k - 1 for k in range(1, 10)] + [10**k + 1 for k in range(1, 10)]))


def w(cs):
    cs = list(cs)
    return " ".join([str(len(cs))] + [str(c) for c in cs])


def ws(text):
    return w(ord(ch) for ch in text)


def words_upto(alpha, n):
    out = [[]]
    layer = [[]]
    for _ in range(n):
        layer = [x + [a] for x in layer for a in alpha]
        out += layer
    return out


def numerals_of_interest():
    vals = set()
    for c in (I32MAX, 2**31, 2**32, 2**33, 2**63, 2**64, 10**9, 10**10, 10**11, 10**12, 5 * 10**9, 3 * 10**9,
              214748364, 2147483640, 2147483650, 4294967290, 4294967300, 21474836470, 99999999999, 999999999999):
        for d in range(-12, 13):
            if c + d >= 0:
                vals.add(c + d)
    # values whose wrapped image is larger than the previous accumulator (y < x does not fire)
    for k in range(2, 40):
        vals.add(k * 2**32 // 10 * 10 + 5)
        vals.add(k * 2**31 + 7)
    for v in range(0, 130):
        vals.add(v)
    return sorted(vals)


def generate(rng, tier):
    thorough = tier != "quick"
    cases = []
    dist = {}

    # ---------------------------------------------------------------- to_int
    n0 = len(cases)
    cases.append("to_int 0")
    nums = numerals_of_interest()
    for v in nums:
        s = str(v)
        cases.append("to_int " + ws(s))
        cases.append("to_int " + ws("0" + s))
        cases.append("to_int " + ws("000" + s))
        # one late non-digit: at the end, and one position before the end
        for bad in ("a", "/", ":"):
            cases.append("to_int " + ws(s + bad))
        cases.append("to_int " + ws(s[:-1] + ":" + s[-1]))
        cases.append("to_int " + ws("-" + s))
        cases.append("to_int " + ws("+" + s))
    # every single code point near the digits, alone and after / before a digit
    for c in NEAR_DIGITS + list(range(40, 70)):
        cases.append("to_int " + w([c]))
        cases.append("to_int " + w([49, c]))
        cases.append("to_int " + w([c, 49]))
    cases.append("to_int " + w([49, MAXC + 1]))          # becomes U+FFFD
    cases.append("to_int " + ws("0" * 40))
    cases.append("to_int " + ws("0" * 30 + str(I32MAX)))
    cases.append("to_int " + ws("0" * 30 + str(2**31)))
    cases.append("to_int " + ws("9" * 40))
    cases.append("to_int " + ws("9" * 40 + "x"))
    nrand = 3000 if not thorough else 120000
    for _ in range(nrand):
        r = rng.random()
        L = rng.choice([1, 2, 5, 8, 9, 10, 10, 10, 11, 12, 13, 20])
        if r < 0.45:                                   # plain digit strings, 1..20 digits
            s = [rng.randint(48, 57) for _ in range(L)]
        elif r < 0.6:                                  # around the i32 boundary
            v = rng.choice([I32MAX, 2**31, 2**32, 2**33]) + rng.randint(-10**6, 10**6)
            s = [ord(ch) for ch in "0" * rng.randint(0, 3) + str(max(0, v))]
        elif r < 0.75:                                 # multiples of 2^32 plus a small value (wrap to small)
            v = rng.randint(1, 2000) * 2**32 + rng.randint(0, I32MAX)
            s = [ord(ch) for ch in str(v)]
        else:                                          # digit string with one non-digit, biased to late
            s = [rng.randint(48, 57) for _ in range(L)]
            pos = len(s) - 1 - min(rng.randint(0, 3), len(s) - 1) if rng.random() < 0.7 else rng.randrange(len(s))
            s[pos] = rng.choice(NEAR_DIGITS[:3] + [47, 58, 65, 97, 0x660, 0xFF10, MAXC])
        cases.append("to_int " + w(s))
    dist["to_int"] = len(cases) - n0

    # ---------------------------------------------------------------- orders
    n0 = len(cases)
    W = words_upto(ORDER_ALPHA, 3)
    for a in W:
        for b_ in W:
            cases.append("lt %s %s" % (w(a), w(b_)))
            cases.append("le %s %s" % (w(a), w(b_)))
    npairs = 2500 if not thorough else 100000
    # incl. the UTF-16 surrogate range and plane boundaries: integers that are SMT characters but not Rust chars
    alpha2 = [0, 1, 48, 57, 97, 98, 0x7F, 0x80, 0xD7FF, 0xD800, 0xDBFF, 0xDC00, 0xDFFF, 0xE000, 0xFFFD, 0xFFFF, 0x10000, MAXC - 1, MAXC]
    for _ in range(npairs):
        p = [rng.choice(alpha2) for _ in range(rng.choice([0, 1, 2, 3, 5, 8, 16, 40]))]
        r = rng.random()
        if r < 0.2:
            a, b_ = p, list(p)                         # equal
        elif r < 0.45:
            a, b_ = p, p + [rng.choice(alpha2) for _ in range(rng.randint(1, 3))]   # proper prefix
        else:
            x, y = rng.choice(alpha2), rng.choice(alpha2)
            a = p + [x] + [rng.choice(alpha2) for _ in range(rng.randint(0, 3))]
            b_ = p + [y] + [rng.choice(alpha2) for _ in range(rng.randint(0, 3))]
        if rng.random() < 0.5:
            a, b_ = b_, a
        op = rng.choice(["lt", "le"])
        cases.append("%s %s %s" % (op, w(a), w(b_)))
    # code points above MAX_CHAR are replaced before comparing
    cases.append("lt %s %s" % (w([MAXC + 1]), w([0xFFFD])))
    cases.append("le %s %s" % (w([0xFFFD]), w([2**32 - 1])))
    cases.append("lt %s %s" % (w([0xFFFE]), w([0x110000])))
    dist["orders"] = len(cases) - n0

    # ---------------------------------------------------------------- is_digit / to_code
    n0 = len(cases)
    singles = sorted(set(NEAR_DIGITS + list(range(30, 75)) + [MAXC + 1, 0x10FFFF, 2**31 - 1, 2**31, 2**32 - 1]))
    for op in ("is_digit", "to_code"):
        cases.append("%s 0" % op)
        for c in singles:
            cases.append("%s %s" % (op, w([c])))
            cases.append("%s %s" % (op, w([c, c])))
            cases.append("%s %s" % (op, w([48, c])))
        cases.append("%s %s" % (op, ws("123")))
    for _ in range(300 if not thorough else 20000):
        cases.append("to_code %s" % w([rng.randint(0, MAXC)]))
    dist["is_digit_to_code"] = len(cases) - n0

    # ---------------------------------------------------------------- from_code / from_int
    n0 = len(cases)
    for x in CRIT_INTS:
        cases.append("from_code %d" % x)
        cases.append("from_int %d" % x)
    for _ in range(1500 if not thorough else 60000):
        r = rng.random()
        if r < 0.4:
            x = rng.randint(I32MIN, I32MAX)
        elif r < 0.7:
            x = rng.randint(0, 10 ** rng.randint(1, 10))
            x = min(x, I32MAX)
        else:
            x = rng.choice(CRIT_INTS) + rng.randint(-3, 3)
            x = max(I32MIN, min(I32MAX, x))
        cases.append("from_int %d" % x)
        if rng.random() < 0.5:
            y = rng.choice([rng.randint(-5, MAXC + 5), rng.randint(I32MIN, I32MAX), x])
            cases.append("from_code %d" % y)
    dist["from_code_from_int"] = len(cases) - n0

    info = {
        "rule": ("str_to_int on the decimal numerals of %d values around 2^31-1, 2^31, 2^32, 2^33, 2^63, 2^64, 10^9..10^12 "
                 "(plain, with leading zeros, with one late non-digit, with a sign) plus random digit strings of 1..20 digits, "
                 "numerals k*2^32+small, and digit strings with one non-digit; str_lt/str_le on ALL ordered pairs of the %d strings "
                 "of length <= 3 over code points %s plus random pairs with common prefixes (equal / proper prefix / first "
                 "difference); str_is_digit/str_to_code on every single code point in 30..74 and other critical points, in "
                 "strings of length 0,1,2; str_from_code/str_from_int on %d critical ints (i32::MIN, negatives, 0, powers of ten "
                 "+-1, MAX_CHAR, MAX_CHAR+1, i32::MAX) plus random i32.  Every case runs against the debug AND the release build. "
                 "A case is non-trivial unless it is a to_int/is_digit/to_code of the empty string."
                 % (len(nums), len(W), ORDER_ALPHA, len(CRIT_INTS))),
        "exhaustive_domains": [
            "%d strings of length <= 3 over %s: %d ordered pairs x {lt, le}" % (len(W), ORDER_ALPHA, len(W) ** 2),
            "all single code points 30..74 x {is_digit, to_code, to_int}",
            "%d critical i32 values x {from_code, from_int}" % len(CRIT_INTS),
        ],
        "distribution": dist,
    }
    return cases, info


def nontrivial(case):
    t = case.split()
    if t[0] in ("to_int", "is_digit", "to_code"):
        return t[1] != "0"
    return True


def search(rng, diff_cases, tier):
    """around a disagreeing case: the same operation on all prefixes / neighbours"""
    out = []
    for c in diff_cases[:20]:
        t = c.split()
        if t[0] == "to_int":
            n = int(t[1]); cs = t[2:2 + n]
            for k in range(n + 1):
                out.append("to_int " + " ".join([str(k)] + cs[:k]))
                out.append("to_int " + " ".join([str(k + 1)] + cs[:k] + ["97"]))
        elif t[0] in ("from_int", "from_code"):
            x = int(t[1])
            for d in range(-3, 4):
                if I32MIN <= x + d <= I32MAX:
                    out.append("%s %d" % (t[0], x + d))
    return out


def shrink(exe, case, impl, model, msg):
    """to_int: shortest prefix / fewest leading characters that still disagree"""
    import vlib
    t = case.split()
    if t[0] != "to_int":
        return case, impl, model, msg
    n = int(t[1]); cs = t[2:2 + n]
    best = (case, impl, model, msg)
    cands = []
    for k in range(1, n):
        cands.append("to_int " + " ".join([str(k)] + cs[:k]))
        cands.append("to_int " + " ".join([str(n - k)] + cs[k:]))
    cands.sort(key=lambda c: len(c.split()))
    res = vlib.run_cases(exe, ENGINE, cands, "C09-shrink")
    for (c, i, status, m, mm) in res:
        if status != "OK":
            best = (c, i, m, mm)
            break
    return best
