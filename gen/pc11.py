"""C11 -- CharPartition queries vs the set-theoretic meaning of the partition.

A case is a construction program followed by one query (grammar: harness/src/e_partition.rs):
    <ctor> <npush> {a b}* <query>
    ctor  = new | from_set a b | try_from_list n {a b}* | try_from_iter n {a b}*
Every generated partition is queried with class_of_char on all its critical characters and with
interval_cover / class_of_set / good_char_set on ALL sets [a,b] over its critical points (0, MAX and
every interval end point -1/+0/+1) -- this contains the shape "starts in a gap, ends inside the next
interval" of defect D2 -- plus dump (len, get, ranges, witness, empty_complement, num_classes,
class_ids, picks) and the indexed accessors in and out of range.
push is only called with its documented precondition satisfied (it is a debug assertion)."""
ENGINE = "partition"
MAXC = 0x2FFFF
ASSUMPTIONS = [
    "CharSet values are built with start <= end <= MAX_CHAR (the type invariant; only a debug assertion in the crate)",
    "push is only called under its documented precondition (start <= end <= MAX_CHAR, start > end of the last interval); "
    "interval_cover/class_of_set/good_char_set only on valid sets (debug assertions otherwise)",
    "the intervals of a partition are read through get(i) and ranges(); the witness through pick_complement()",
    "picks may be any member of their class (oracle); everything else must equal the verified model",
]


# ------------------------------------------------------------------ case construction
def fmt_sets(l):
    return "%d%s" % (len(l), "".join(" %d %d" % s for s in l))


def ctor_push(ivs):
    return "new " + fmt_sets(ivs)


def ctor_from_set(ivs):
    return "from_set %d %d " % ivs[0] + fmt_sets(ivs[1:])


def ctor_list(rng, ivs, kind="try_from_list", npush=0):
    """first len-npush intervals through try_from_*, in random order; the rest pushed"""
    k = len(ivs) - npush
    head = list(ivs[:k])
    rng.shuffle(head)
    return "%s %s %s" % (kind, fmt_sets(head), fmt_sets(ivs[k:]))


def constructions(rng, ivs):
    """several programs that must all build the partition with the intervals ivs (sorted, disjoint)"""
    out = [ctor_push(ivs)]
    if ivs:
        out.append(ctor_from_set(ivs))
    out.append(ctor_list(rng, ivs, "try_from_list"))
    out.append("try_from_iter " + fmt_sets(list(reversed(ivs))) + " 0")
    if len(ivs) >= 2:
        out.append(ctor_list(rng, ivs, rng.choice(["try_from_list", "try_from_iter"]), npush=rng.randint(1, len(ivs) - 1)))
    return out


def crit_points(ivs, extra=()):
    s = {0, MAXC}
    for (a, b) in ivs:
        for v in (a - 1, a, a + 1, b - 1, b, b + 1):
            if 0 <= v <= MAXC:
                s.add(v)
    s.update(x for x in extra if 0 <= x <= MAXC)
    return sorted(s)


def queries(rng, ivs, pts, set_fraction=1.0, with_index=True):
    """all queries for one partition over the points pts"""
    q = ["dump"]
    for x in pts:
        q.append("class_of_char %d" % x)
    q.append("class_of_char %d" % (MAXC + 1))
    for i, a in enumerate(pts):
        for b in pts[i:]:
            q.append("interval_cover %d %d" % (a, b))
            if set_fraction >= 1.0 or rng.random() < set_fraction:
                q.append("class_of_set %d %d" % (a, b))
                q.append("good_char_set %d %d" % (a, b))
    if with_index:
        n = len(ivs)
        for i in sorted({0, 1, n - 1, n, n + 1, n + 7} | set(range(min(n, 4)))):
            if i < 0:
                continue
            for op in ("get", "start", "end", "interval", "pick"):
                q.append("%s %d" % (op, i))
            q.append("valid_class_id I %d" % i)
            q.append("pick_in_class I %d" % i)
        q.append("valid_class_id C")
        q.append("pick_in_class C")
    return q


def all_partitions(points):
    """every list of pairwise disjoint intervals with end points in `points` (sorted), in order"""
    n = len(points)
    res = []

    def go(i, acc):
        if i >= n:
            res.append(list(acc))
            return
        go(i + 1, acc)                      # point i in no interval that starts here
        for j in range(i, n):               # interval [points[i], points[j]]
            acc.append((points[i], points[j]))
            go(j + 1, acc)
            acc.pop()
    go(0, [])
    return res


def random_partition(rng, kmax):
    """sorted disjoint intervals; clusters near 0, near MAX and around random bases so that adjacency,
    singletons, one-character gaps and boundary-touching intervals are frequent"""
    r = rng.random()
    k = 0 if r < 0.03 else 1 if r < 0.15 else 2 if r < 0.40 else 3 if r < 0.65 else 4 if r < 0.8 else rng.randint(5, kmax)
    bases = [0, MAXC - 12] + [rng.randint(0, MAXC - 12) for _ in range(rng.randint(0, 2))]
    def point():
        t = rng.random()
        if t < 0.75:
            return min(MAXC, rng.choice(bases) + rng.randint(0, 12))
        return rng.randint(0, MAXC)
    v = sorted(point() for _ in range(2 * k))
    ivs = []
    last = -1
    for i in range(k):
        a, b = v[2 * i], v[2 * i + 1]
        if a <= last:
            a = last + 1
        if a > b or b > MAXC:
            continue
        ivs.append((a, b))
        last = b
    mode = rng.random()
    if ivs and mode < 0.15:                 # cover everything: empty complement
        full, prev = [], 0
        for (a, b) in ivs[:-1]:
            full.append((prev, b)); prev = b + 1
        full.append((prev, MAXC))
        ivs = full
    elif ivs and mode < 0.3:                # start at 0 with adjacent intervals: witness after a chain
        a0, b0 = ivs[0]
        ivs[0] = (0, b0)
        if len(ivs) > 1 and rng.random() < 0.7:
            a1, b1 = ivs[1]
            ivs[1] = (b0 + 1, b1)
    return ivs


def overlapping_lists(rng, n):
    """try_from_list inputs that are not pairwise disjoint (must give Err) or only just disjoint"""
    out = []
    for _ in range(n):
        ivs = random_partition(rng, 6)
        if not ivs:
            ivs = [(3, 9)]
        l = list(ivs)
        (a, b) = rng.choice(l)
        t = rng.random()
        if t < 0.2:
            new = (a, b)                                  # duplicate
        elif t < 0.4:
            new = (b, min(MAXC, b + rng.randint(0, 5)))   # shares exactly the end point
        elif t < 0.55:
            new = (max(0, a - rng.randint(0, 5)), a)      # shares exactly the start point
        elif t < 0.7:
            x = rng.randint(a, b); new = (x, x)           # singleton inside
        elif t < 0.85:
            new = (max(0, a - 1), min(MAXC, b + 1))       # strictly larger
        else:
            new = (min(MAXC, b + 1), min(MAXC, b + 1 + rng.randint(0, 3)))   # adjacent: may still be disjoint
        l.append(new)
        rng.shuffle(l)
        kind = rng.choice(["try_from_list", "try_from_iter"])
        out.append("%s %s 0 dump" % (kind, fmt_sets(l)))
    return out


def all_small_lists(points, maxlen):
    ivs = [(a, b) for i, a in enumerate(points) for b in points[i:]]
    res = [[]]
    layer = [[]]
    for _ in range(maxlen):
        layer = [l + [s] for l in layer for s in ivs]
        res += layer
    return res


# ------------------------------------------------------------------ generate
def generate(rng, tier):
    quick = tier == "quick"
    cases = []
    dist = {"exhaustive_partitions": 0, "random_partitions": 0, "error_lists": 0, "exhaustive_lists": 0,
            "partition_sizes": {}}

    def add_partition(ivs, pts, set_fraction=1.0, all_ctors=True):
        cs = constructions(rng, ivs)
        main = cs[rng.randrange(len(cs))]
        for q in queries(rng, ivs, pts, set_fraction):
            cases.append(main + " " + q)
        if all_ctors:
            for c in cs:
                if c != main:
                    cases.append(c + " dump")
                    if ivs:
                        # one set query through every construction as well
                        a, b = rng.choice(pts), rng.choice(pts)
                        cases.append(c + " interval_cover %d %d" % (min(a, b), max(a, b)))
        k = str(len(ivs))
        dist["partition_sizes"][k] = dist["partition_sizes"].get(k, 0) + 1

    # 1. every partition of a small universe that touches 0 and MAX, every char, every query set
    uni = [0, 1, 2, MAXC - 1, MAXC] if quick else [0, 1, 2, 3, MAXC - 2, MAXC - 1, MAXC]
    unis = [uni, [5, 6, 7, 8]] if quick else [uni, [5, 6, 7, 8, 9, 10]]
    exh = []
    for u in unis:
        parts = all_partitions(u)
        exh.append("all %d partitions with interval end points in %s: all characters of the universe (+-1), all query sets [a,b] over it, x {interval_cover, class_of_set, good_char_set}" % (len(parts), u))
        for ivs in parts:
            pts = crit_points([(x, x) for x in u])
            add_partition(ivs, pts)
            dist["exhaustive_partitions"] += 1

    # 2. random partitions, all critical characters, all query sets over the critical points
    nrand = 24 if quick else 500
    for _ in range(nrand):
        ivs = random_partition(rng, 9 if quick else 20)
        pts = crit_points(ivs)
        add_partition(ivs, pts, 1.0 if len(ivs) <= 4 else 0.1)
        dist["random_partitions"] += 1

    # 3. try_from_list / try_from_iter on inputs that are not (or just) disjoint, any order
    ne = 400 if quick else 6000
    errs = overlapping_lists(rng, ne)
    cases += errs
    dist["error_lists"] = len(errs)
    small = all_small_lists([0, 1, 2, 3], 3)
    if not quick:
        small += all_small_lists([0, 1, 2, MAXC - 1, MAXC], 3) + all_small_lists([0, 1, 2], 4)
    for l in small:
        cases.append("try_from_list %s 0 dump" % fmt_sets(l))
    dist["exhaustive_lists"] = len(small)
    exh.append("try_from_list on every list of <= 3 intervals over {0,1,2,3}%s (success iff pairwise disjoint, result independent of order)"
               % ("" if quick else ", over {0,1,2,MAX-1,MAX}, and every list of <= 4 intervals over {0,1,2}"))

    info = {"rule": "construction programs (new+push, from_set+push, try_from_list/try_from_iter of shuffled sets, mixed) for "
                    "every partition of a small universe touching 0 and MAX_CHAR and for random clustered partitions "
                    "(adjacent, singleton, boundary-touching, empty/full); per partition: class_of_char on all critical "
                    "characters, interval_cover/class_of_set/good_char_set on all query sets over the critical points, dump, "
                    "indexed accessors in/out of range; plus non-disjoint try_from_list inputs. A case is non-trivial when "
                    "its construction mentions at least one interval.",
            "exhaustive_domains": exh,
            "distribution": dist}
    return cases, info


# ------------------------------------------------------------------ helpers for bin/check
def parse(case):
    """-> (ctor, sets, pushes, query tokens)"""
    t = case.split()
    ctor = t[0]
    i = 1
    sets = []
    if ctor == "from_set":
        sets = [(int(t[1]), int(t[2]))]
        i = 3
    elif ctor in ("try_from_list", "try_from_iter"):
        n = int(t[1])
        sets = [(int(t[2 + 2 * j]), int(t[3 + 2 * j])) for j in range(n)]
        i = 2 + 2 * n
    n = int(t[i])
    pushes = [(int(t[i + 1 + 2 * j]), int(t[i + 2 + 2 * j])) for j in range(n)]
    return ctor, sets, pushes, t[i + 1 + 2 * n:]


def unparse(ctor, sets, pushes, q):
    if ctor == "new":
        head = "new"
    elif ctor == "from_set":
        head = "from_set %d %d" % sets[0]
    else:
        head = "%s %s" % (ctor, fmt_sets(sets))
    return "%s %s %s" % (head, fmt_sets(pushes), " ".join(q))


def nontrivial(case):
    try:
        ctor, sets, pushes, q = parse(case)
    except Exception:
        return False
    return len(sets) + len(pushes) >= 1


def search(rng, diff_cases, tier):
    """around a disagreement: the same construction with every query over its critical points"""
    out = []
    for case in diff_cases[:5]:
        try:
            ctor, sets, pushes, q = parse(case)
        except Exception:
            continue
        ivs = sets + pushes
        nums = [int(x) for x in q[1:] if x.isdigit()]
        pts = crit_points(ivs, nums)
        head = unparse(ctor, sets, pushes, []).rstrip()
        out += [head + " " + qq for qq in queries(rng, ivs, pts)]
    return out


def shrink(exe, case, impl, model, msg):
    """drop intervals of the construction while the case stays a violation"""
    import vlib
    cur = (case, impl, model, msg)
    for _ in range(12):
        ctor, sets, pushes, q = parse(cur[0])
        cands = []
        if ctor == "from_set":
            cands.append(unparse("new", [], sets + pushes, q))
        for i in range(len(pushes)):
            cands.append(unparse(ctor, sets, pushes[:i] + pushes[i + 1:], q))
        if ctor in ("try_from_list", "try_from_iter"):
            for i in range(len(sets)):
                cands.append(unparse(ctor, sets[:i] + sets[i + 1:], pushes, q))
        cands = [c for c in dict.fromkeys(cands) if c != cur[0]]
        if not cands:
            break
        res = vlib.run_cases(exe, ENGINE, cands, "C11-shrink")
        nxt = None
        for (c, i, status, m, mm) in res:
            if status == "BAD" and i not in ("ABORT", "TIMEOUT", "MISSING"):
                nxt = (c, i, m, mm)
                break
        if nxt is None:
            break
        cur = nxt
    return cur
