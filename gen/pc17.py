"""C17 -- every SmtString the API hands out contains only SMT-LIB characters."""
ENGINE = "multi"
MAXC = 0x2FFFF
TIMEOUT = 900
ASSUMPTIONS = ["Rust chars exclude surrogates: texts given to From<&str>/parse_smt_literal are built from valid chars only; the integer constructors get arbitrary u32 (incl. surrogate values, which are valid SMT characters)",
               "every produced string is checked with is_good, turned into a regular expression with ReManager::str, matched against it and printed"]
PARTIAL = []

SPECIAL = [0, 1, 0x22, 0x5C, 0x7F, 0x80, 0xD7FF, 0xE000, 0xFFFD, 0xFFFF, 0x10000, MAXC - 1, MAXC, MAXC + 1, 0x30000, 0xE0000, 0x10FFFF]
SPECIAL_U32 = SPECIAL + [0xD800, 0xDFFF, 0x110000, 2 ** 31, 2 ** 32 - 1]


def w(l):
    return "%d%s" % (len(l), "".join(" %d" % x for x in l))


def generate(rng, tier):
    n = 1500 if tier == "quick" else 30000
    cases = []
    dist = {}
    def add(c, k):
        cases.append(c); dist[k] = dist.get(k, 0) + 1
    # all special values through every constructor
    for x in SPECIAL:
        add("regex|ctorstr char 1 %d" % x, "ctor")
        add("regex|ctorstr str 3 97 %d 98" % x, "ctor")
        add("literal|from_char %d" % x, "ctor")
        add("literal|from_str 2 %d 97" % x, "ctor")
    for x in SPECIAL_U32:
        add("regex|ctorstr u32 1 %d" % x, "ctor")
        add("regex|ctorstr slice 3 %d 97 %d" % (x, x), "ctor")
        add("regex|ctorstr vec 2 97 %d" % x, "ctor")
        add("literal|from_u32 %d" % x, "ctor")
        add("literal|from_slice 2 %d 98" % x, "ctor")
        add("literal|from_vec 2 %d 98" % x, "ctor")
    # accessors: array constructor (sizes 0-4 and 7), is_good / len / is_empty / char(i) / iter /
    # is_unicode / to_unicode_string on clamped slices, good_char, good_string on raw slices
    add("literal|from_array 0", "accessors")
    add("literal|accessors 0", "accessors")
    add("literal|charat 0 0", "accessors")
    for x in SPECIAL_U32:
        add("literal|from_array 1 %d" % x, "accessors")
        add("literal|from_array 3 97 %d %d" % (x, x), "accessors")
        add("literal|accessors 3 %d 97 %d" % (x, x), "accessors")
        add("literal|good_char %d" % x, "accessors")
        add("literal|good_string 2 97 %d" % x, "accessors")
        add("literal|charat 2 %d 98 %d" % (x, rng.choice([0, 1, 2, 3])), "accessors")
    for x in (0xD7FF, 0xD800, 0xD801, 0xDBFF, 0xDC00, 0xDFFE, 0xDFFF, 0xE000):
        # surrogates are SMT characters but not Rust chars: is_unicode false, replaced by U+FFFD
        add("literal|accessors 4 97 %d %d 98" % (x, MAXC), "accessors")
    for _ in range(n // 6):
        k = rng.choice([0, 1, 2, 3, 4, 7])
        l = [rng.choice(SPECIAL_U32 + [97, 98, 0xD801, 0xDBFF, 0xDC00]) for _ in range(k)]
        r = rng.random()
        if r < 0.3:
            add("literal|from_array %s" % w(l), "accessors")
        elif r < 0.7:
            add("literal|accessors %s" % w(l), "accessors")
        elif r < 0.85:
            add("literal|charat %s %d" % (w(l), rng.randint(0, k + 2)), "accessors")
        else:
            add("literal|good_string %s" % w(l), "accessors")
    esc = [92, 117, 123, 125, 48, 51, 102, 70, 34]
    # escape values around the MAX_CHAR boundary, written out
    for hexs in ("2FFFF", "2ffff", "30000", "30001", "2FFFE", "02FFFF", "3FFFF", "FFFFF", "10FFFF", "0", "D800", "FFFD"):
        t = [92, 117, 123] + [ord(ch) for ch in hexs] + [125]
        add("regex|ctorstr parse %s" % w(t), "parse")
        add("regex|ctorstr parse %s" % w([97] + t + [98]), "parse")
        add("literal|parse %s" % w(t), "parse")
    for _ in range(n):
        r = rng.random()
        if r < 0.25:
            l = [rng.choice(SPECIAL + [97, 98, 48]) for _ in range(rng.randint(0, 6))]
            add("regex|ctorstr %s %s" % (rng.choice(["str", "string"]), w(l)), "ctor")
        elif r < 0.45:
            l = [rng.choice(SPECIAL_U32 + [97, 98]) for _ in range(rng.randint(0, 6))]
            add("regex|ctorstr %s %s" % (rng.choice(["slice", "vec"]), w(l)), "ctor")
        elif r < 0.65:
            l = [rng.choice(esc + [0x30000, 0x10FFFF, 97]) for _ in range(rng.randint(0, 9))]
            if rng.random() < 0.5:      # planted out-of-range / large brace escapes
                l += [92, 117, 123] + [rng.choice([48, 48, 50, 51, 70, 102, 49]) for _ in range(rng.randint(1, 6))] + [125]
            add("regex|ctorstr parse %s" % w(l), "parse")
        elif r < 0.80:
            # string operations on good strings stay good (results are words; the model is proved good)
            a = [rng.choice([97, 98, MAXC, 0, 0xD800]) for _ in range(rng.randint(0, 5))]
            b = [rng.choice([97, 98, MAXC]) for _ in range(rng.randint(0, 2))]
            c = [rng.choice([97, 120, MAXC, 0xFFFD]) for _ in range(rng.randint(0, 2))]
            op = rng.choice(["concat", "at", "substr", "replace", "replace_all"])
            if op == "concat":
                add("strsearch|concat %s %s" % (w(a), w(b)), "strops")
            elif op == "at":
                add("strsearch|at %s %d" % (w(a), rng.randint(-1, 6)), "strops")
            elif op == "substr":
                add("strsearch|substr %s %d %d" % (w(a), rng.randint(-1, 6), rng.randint(-1, 6)), "strops")
            else:
                add("strsearch|%s %s %s %s" % (op, w(a), w(b), w(c)), "strops")
        elif r < 0.90:
            x = rng.choice([-1, 0, 97, 0xD800, MAXC, MAXC + 1, 0x10FFFF, 2 ** 31 - 1, -2 ** 31])
            add("strconv|%s %d" % (rng.choice(["from_code", "from_int"]), x), "conv")
        else:
            # regex replace + get_string hand out good strings
            a = [rng.choice([97, 98, MAXC]) for _ in range(rng.randint(0, 5))]
            rep = [rng.choice([120, MAXC, 0xFFFD]) for _ in range(rng.randint(0, 2))]
            add("regex|W smtrange 1 97 1 98 ; star 0 ; str 1 %d ; concat 1 2 ; %s 3 %s %s" % (
                rng.choice([97, MAXC]), rng.choice(["replre", "replreall"]), w(a), w(rep)), "replace_re")
            add("regex|range %d %d ; plus 0 ; getstr 1 ; comp 1 ; getstr 2" % (rng.choice([0, 97, MAXC]), MAXC), "get_string")
    info = {"rule": "every special code point (0, quote, backslash, 0x7F/0x80, surrogate edges, 0xFFFD, 0xFFFF/0x10000, MAX_CHAR, MAX_CHAR+1, U+30000, U+E0000, U+10FFFF; for integer constructors also 0xD800, 0xDFFF, 0x110000, 2^31, 2^32-1) through every constructor; random strings / slices / literal texts with planted out-of-range escapes; each result is checked with is_good, ReManager::str, str_in_re and Display; str_* / str_from_code / str_from_int / regex replace / get_string outputs; the accessors From<&[u32; N]> (N = 0-4, 7), is_good, len, is_empty, char(i) in and out of range, iter, is_unicode, to_unicode_string (surrogate edges), good_char, good_string; non-trivial = involves a code point outside printable ASCII",
            "distribution": dist}
    return cases, info


def nontrivial(case):
    return any(int(t) > 126 for t in case.split() if t.isdigit())
