"""C03 -- derivatives are left quotients; every derivative class is uniform; set/class derivative errors."""
from regexgen import *
ENGINE = "regex"
TIMEOUT = 900
ASSUMPTIONS = ["oracle: the quotient is checked with the reference matcher on all words <= 3 after the derivative (PDeriv program)",
               "class structure (which sets straddle classes) is compared with the verified model"]


def one_case(rng, tier):
    al = Alphabet(rng, boundary=True)
    case = Case()
    pool = []
    for _ in range(rng.choice([0, 1])):
        pool.append(gen_term(rng, case, al, 2, pool))
    t = gen_term(rng, case, al, rng.choice([2, 3, 4]), pool) if rng.random() < 0.85 else degenerate_term(rng, case, al)
    case.obs("classes %d" % t)
    probes = al.probe_chars()
    alpha = al.letters[:3]
    k = 2 if tier == "quick" else 3
    n_obs = rng.choice([2, 3, 4])
    for _ in range(n_obs):
        r = rng.random()
        if r < 0.45:
            c = rng.choice(probes)
            d = case.push("deriv %d %d" % (t, c))
            case.obs("memall %d %d %s" % (d, k, word(alpha)))
            # a second character: same term if same class (strict comparison of the dump/ids)
            c2 = rng.choice(probes)
            case.push("deriv %d %d" % (t, c2))
        elif r < 0.65:
            a = rng.choice(probes); b = rng.choice(probes)
            if a > b:
                a, b = b, a
            d = case.push("setder %d %d %d" % (t, a, b))
            case.obs("memall %d %d %s" % (d, k, word(alpha)))
        elif r < 0.85:
            cid = rng.choice(["0", "1", "2", "c", "c", "3", "7"])
            d = case.push("classder %d %s" % (t, cid))
            case.obs("memall %d %d %s" % (d, k, word(alpha)))
        else:
            w = [rng.choice(alpha) for _ in range(rng.choice([0, 1, 2, 3]))]
            d = case.push("sderiv %d %s" % (t, word(w)))
            case.obs("memall %d %d %s" % (d, k, word(alpha)))
    return case.line()


def history_case(rng):
    """class_derivative / set_derivative answers must not depend on what is already cached: take
    derivatives of a term, then query its complement (and the built-in constant pairs empty/Sigma*,
    eps/Sigma+) with valid and invalid class ids"""
    al = Alphabet(rng)
    case = Case()
    k = rng.random()
    if k < 0.5:
        x = case.push(rng.choice(["all", "none", "eps", "splus", "allchar"]))
    else:
        x = gen_term(rng, case, al, rng.choice([1, 2]), [])
    for c in rng.sample(al.probe_chars(), 2):
        case.push("deriv %d %d" % (x, c))
    if rng.random() < 0.5:
        case.obs("mem %d %s" % (x, word([al.rand_char(rng) for _ in range(rng.choice([1, 2, 3]))])))
    y = case.push("comp %d" % x)
    for cid in ["0", "1", "c", "2"]:
        case.push("classder %d %s" % (y, cid))
    for cid in rng.sample(["0", "1", "c", "3"], 2):
        case.push("classder %d %s" % (x, cid))
    a, b = sorted(rng.sample(al.probe_chars(), 2))
    case.push("setder %d %d %d" % (y, a, b))
    return case.line()


def generate(rng, tier):
    n = 4000 if tier == "quick" else 40000
    cases = [one_case(rng, tier) for _ in range(n)]
    cases += [history_case(rng) for _ in range(400 if tier == "quick" else 4000)]
    # the D2 shape: a set that starts in a gap and ends inside the next interval
    cases += ["range 10 20 ; range 30 40 ; union 0 1 ; setder 2 25 35 ; setder 2 21 29 ; setder 2 15 25 ; setder 2 10 20 ; setder 2 0 9 ; setder 2 41 196607 ; setder 2 29 30"]
    info = {"rule": "random terms; derivatives w.r.t. every kind of character (range end points, the characters just outside, 0/MAX), set_derivative with sets over the critical points (inside one class, inside the complement, straddling), class_derivative with valid and invalid ids, str_derivative; each derivative is judged by membership of all words <= k against the quotient denotation; non-trivial = at least one operator",
            "distribution": {"cases": n}}
    return cases, info


def nontrivial(case):
    return any(op in case for op in ("concat", "union", "inter", "comp", "diff", "star", "plus", "opt", "pow", "loop"))


def shrink(exe, case, impl, model, msg):
    import vlib
    return vlib.shrink_history(exe, ENGINE, case, "regex")


def search(rng, diff_cases, tier):
    out = []
    for c in diff_cases[:20]:
        out += intensify(c, rng)
    return out
