"""C08 -- string literals: parse_smt_literal follows the SMT-LIB escapes, Display round-trips.
Exhaustive short texts over the escape symbols + random texts with planted valid / malformed /
out-of-range escapes and non-BMP characters + Display / re-parse of every code point class and of
strings that spell escape sequences (+ the clamping constructors used by C17)."""
import itertools

ENGINE = "literal"
MAXC = 0x2FFFF
BS, LU, LB, RB, QUOTE = 92, 117, 123, 125, 34
# \ u { } 0 2 3 f F g "
SYMS = [BS, LU, LB, RB, 48, 50, 51, 102, 70, 103, QUOTE]
HEXL = "0123456789abcdef"
# code point classes of the printers and of the clamp
CRIT = [0, 1, 9, 10, 31, 32, 33, 34, 35, 47, 48, 57, 65, 70, 71, 91, 92, 93, 97, 102, 103, 117,
        123, 125, 126, 127, 128, 159, 160, 255, 256, 0xFFF, 0x1000, 0xD7FF, 0xE000, 0xFFFD,
        0xFFFF, 0x10000, 0x10001, 0x1FFFF, 0x20000, 0x2FFFE, 0x2FFFF]
BEYOND = [0x30000, 0x30001, 0xE0000, 0xFFFFF, 0x100000, 0x10FFFF]      # Rust chars above MAX_CHAR
NOCHAR = [0xD800, 0xDFFF, 0x110000, 0x7FFFFFFF, 0xFFFFFFFF]             # u32 only

ASSUMPTIONS = [
    "a text is given to the crate as a Rust String built from its code points (no surrogates, <= 0x10FFFF)",
    "display / roundtrip build the SmtString with From<&[u32]> (clamping) and print it with format!(\"{}\")",
    "the harness strips the outer quotes and undoes doubled quotes itself before re-parsing",
    "Rust's {:x} / {:02x} / {:04x} formatting, char::to_digit(16) and char::is_ascii_hexdigit are modelled by fmt_x / pad0 / hexval (tied to the crate by this correspondence)",
    "the model mirrors the crate with the D4 (backslash printed as \\u{5c}) and D7 (code points > MAX_CHAR become 0xFFFD) repairs",
]


def w(l):
    return "%d %s" % (len(l), " ".join(map(str, l))) if l else "0"


def is_char(x):
    return 0 <= x <= 0x10FFFF and not (0xD800 <= x <= 0xDFFF)


def s2c(s):
    return [ord(ch) for ch in s]


def rand_char(rng):
    r = rng.random()
    if r < 0.35:
        return rng.choice(SYMS + [65, 97, 52, 49, 53, 99, 67])
    if r < 0.55:
        return rng.randint(32, 126)
    if r < 0.75:
        return rng.choice(CRIT)
    if r < 0.87:
        return rng.choice(BEYOND)
    x = rng.randint(0, 0x10FFFF)
    return x if is_char(x) else 0xFFFD


def hexstr(rng, v, width):
    s = "%x" % v
    s = "0" * max(0, width - len(s)) + s
    return "".join(ch.upper() if rng.random() < 0.3 else ch for ch in s)


def rand_value(rng):
    r = rng.random()
    if r < 0.5:
        return rng.choice(CRIT)
    if r < 0.7:
        return rng.randint(0, 255)
    return rng.randint(0, MAXC)


def piece(rng):
    """one planted piece: (code points, kind)"""
    r = rng.random()
    if r < 0.16:                                   # \udddd
        v = rng.choice([0, 0x41, 0x5C, 0x22, 0x7F, 0x80, 0xFFFF, rng.randint(0, 0xFFFF)])
        return s2c("\\u" + hexstr(rng, v, 4)), "valid4"
    if r < 0.36:                                   # \u{d..d} in range
        v = rand_value(rng)
        n = len("%x" % v)
        return s2c("\\u{" + hexstr(rng, v, rng.randint(n, 5)) + "}"), "validbrace"
    if r < 0.46:                                   # out of range / too long
        k = rng.random()
        if k < 0.4:
            v = rng.choice([0x30000, 0x30001, 0x3FFFF, 0xFFFFF, 0x40000, rng.randint(0x30000, 0xFFFFF)])
            return s2c("\\u{" + hexstr(rng, v, 5) + "}"), "outofrange"
        v = rand_value(rng)
        return s2c("\\u{" + hexstr(rng, v, rng.randint(6, 8)) + "}"), "toolong"
    if r < 0.62:                                   # malformed
        v = rand_value(rng)
        h = hexstr(rng, v, rng.randint(1, 5))
        forms = ["\\u{" + h, "\\u{" + h + "g}", "\\u{}", "\\u{", "\\u", "\\", "\\U" + hexstr(rng, v & 0xFFFF, 4),
                 "\\u" + hexstr(rng, v & 0xFFF, 3), "\\u" + hexstr(rng, v & 0xFF, 2) + "g" + "0",
                 "\\\\u" + hexstr(rng, v & 0xFFFF, 4), "\\u\\u" + hexstr(rng, v & 0xFFFF, 4),
                 "\\u{\\u{" + h + "}}", "\\u{" + h + "\\u" + hexstr(rng, v & 0xFFFF, 4),
                 "\\u {" + h + "}", "\\u{" + h + " }", "\\x41", "u{" + h + "}", "\\u{" + h + "}}",
                 "\\u{-1}", "\\u{+" + h[:4] + "}"]
        return s2c(rng.choice(forms)), "malformed"
    if r < 0.72:
        return [rng.choice(BEYOND + [0x2FFFF, 0x2FFFE, 0x10000])], "nonbmp"
    if r < 0.78:
        return [QUOTE] * rng.randint(1, 3), "quotes"
    return [rand_char(rng) for _ in range(rng.randint(1, 4))], "plain"


def planted_text(rng):
    pcs = [piece(rng) for _ in range(rng.randint(1, 5))]
    t = [c for p, _ in pcs for c in p]
    kinds = [k for _, k in pcs]
    if rng.random() < 0.25 and t:                  # cut: the text ends inside an escape attempt
        t = t[:rng.randint(1, len(t))]
        kinds.append("cut")
    return t, kinds


SPELL = [s2c("\\u{41}"), s2c("A"), s2c("\\\\u{41}"), s2c("\\u0041"), s2c("\\u{5c}"), s2c("\\u{5C}u{41}"),
         [0x80, 97], [0xFFF, 102], [0x1000, 48], [0x10000, RB], [0x10000, 48, RB], [0, 48], [127, RB],
         [BS], [BS, BS], [BS, LU], [BS, LU, LB], [BS, QUOTE], [QUOTE], [QUOTE, QUOTE], [QUOTE, BS, QUOTE],
         [QUOTE, QUOTE, QUOTE], [BS, LU, LB, 53, 99, RB], [BS, 0x5C], [0x5C, 0x75, 0x7B, 0x32, 0x32, 0x7D],
         s2c("\\u{22}"), s2c("\\u0022"), s2c("a\"b\\c"), [0x2FFFF, 102, 102], [0xFFFF, 70], [0x2FFFF], []]


def generate(rng, tier):
    quick = tier == "quick"
    cases = []
    dist = {}

    def add(c, kind):
        cases.append(c)
        dist[kind] = dist.get(kind, 0) + 1

    # 1. exhaustive: every text up to length L over the 11 escape symbols
    L = 4 if quick else 6
    ntexts = 0
    for n in range(0, L + 1):
        for t in itertools.product(SYMS, repeat=n):
            add("parse " + w(list(t)), "parse_exhaustive")
            ntexts += 1
    # brace escapes need up to 10 characters: exhaustive over the 6 symbols \ u { } 2 f
    L2 = 6 if quick else 8
    nt2 = 0
    for n in range(5, L2 + 1):
        for t in itertools.product([BS, LU, LB, RB, 50, 102], repeat=n):
            if t[0] == BS or t[1] == BS:
                add("parse " + w(list(t)), "parse_exhaustive6")
                nt2 += 1
    # every \u{h..h} shape: 0..7 digits from {0,2,3,f,F}, followed by } or not, + one trailing char
    nshape = 0
    for n in range(0, 8):
        digs = itertools.product([48, 50, 51, 102, 70], repeat=n) if n <= (3 if quick else 5) else \
            [tuple(rng.choice([48, 50, 51, 102, 70]) for _ in range(n)) for _ in range(100 if quick else 2000)]
        for d in digs:
            for tail in ([RB], [], [RB, 50], [103, RB]):
                add("parse " + w([BS, LU, LB] + list(d) + tail), "parse_brace_shapes")
                nshape += 1

    # 1b. random walks over the escape tokens with runs of hex digits: a parser state left over from
    # an abandoned escape attempt must not capture later characters (e.g. \2u22222 or \u{gabcd})
    nwalk = 4000 if quick else 100000
    for _ in range(nwalk):
        t = []
        for _k in range(rng.randint(2, 6)):
            r = rng.random()
            if r < 0.22:
                t.append(BS)
            elif r < 0.40:
                t.append(LU)
            elif r < 0.52:
                t.append(LB)
            elif r < 0.64:
                t.append(RB)
            elif r < 0.76:
                t.append(rng.choice([103, 32, 85, QUOTE, 0x80, 120]))
            else:
                t += [rng.choice([48, 50, 52, 65, 102, 70]) for _ in range(rng.randint(1, 7))]
        add("parse " + w(t), "parse_walk")

    # 2. random texts with planted escapes
    nrand = 4000 if quick else 150000
    for _ in range(nrand):
        t, kinds = planted_text(rng)
        add("parse " + w(t), "parse_planted")
        for k in set(kinds):
            dist["planted_" + k] = dist.get("planted_" + k, 0) + 1
        if rng.random() < 0.3:
            add("from_str " + w(t), "from_str")
        if rng.random() < 0.05:
            add("from_string " + w(t), "from_str")

    # 3. printers: every code point class, single characters
    singles = sorted(set(list(range(0, 300)) + CRIT + [c + 1 for c in CRIT if c < MAXC] +
                         [rng.randint(0, MAXC) for _ in range(300 if quick else 20000)]))
    for x in singles:
        add("display 1 %d" % x, "display_single")
        add("roundtrip 1 %d" % x, "roundtrip_single")
        add("char_to_smt %d" % x, "char_printers")
        add("smt_char_as_string %d" % x, "char_printers")
    for x in BEYOND + NOCHAR + [rng.randint(MAXC + 1, 2 ** 32 - 1) for _ in range(20)]:
        add("char_to_smt %d" % x, "char_printers_beyond")
        add("smt_char_as_string %d" % x, "char_printers_beyond")
        add("display 1 %d" % x, "display_clamped")
        add("roundtrip 2 %d 65" % x, "display_clamped")
    if not quick:   # the printers on the complete range, in strings of 64 characters
        for lo in range(0, MAXC + 1, 64):
            add("roundtrip " + w(list(range(lo, lo + 64))), "roundtrip_all_codepoints")

    # 4. strings that spell escapes
    for s in SPELL:
        add("display " + w(s), "display_spell")
        add("roundtrip " + w(s), "roundtrip_spell")
    alpha = [BS, LU, LB, 52, 49, RB, QUOTE, 0x80, 0]
    for n in range(1, (3 if quick else 4) + 1):
        for s in itertools.product(alpha, repeat=n):
            add("roundtrip " + w(list(s)), "roundtrip_exhaustive")
            if n <= 2:
                add("display " + w(list(s)), "display_exhaustive")
    nrt = 2500 if quick else 100000
    for _ in range(nrt):
        r = rng.random()
        if r < 0.5:
            t, _k = planted_text(rng)
            s = [c for c in t]
        else:
            s = [rng.choice(CRIT + [BS, QUOTE, LU, LB, RB, 52, 49, 102]) for _ in range(rng.randint(1, 8))]
        add("roundtrip " + w(s), "roundtrip_random")
        if rng.random() < 0.4:
            add("display " + w(s), "display_random")

    # 5. constructors (D7 / C17)
    for x in CRIT + BEYOND:
        add("from_char %d" % x, "from_char")
        add("from_str 1 %d" % x, "from_str")
        add("from_str 3 97 %d 98" % x, "from_str")
    for x in CRIT + BEYOND + NOCHAR + [MAXC + 1]:
        add("from_u32 %d" % x, "from_u32")
        add("from_slice 1 %d" % x, "from_slice")
        add("from_vec 1 %d" % x, "from_slice")
    for _ in range(300 if quick else 5000):
        a = [rng.choice(CRIT + BEYOND + NOCHAR) if rng.random() < 0.7 else rng.randint(0, 2 ** 32 - 1)
             for _ in range(rng.randint(0, 6))]
        add(rng.choice(["from_slice ", "from_vec "]) + w(a), "from_slice")
    add("parse 0", "parse_exhaustive")

    info = {
        "rule": ("parse: the text goes through parse_smt_literal and is compared with the verified model "
                 "(= lit_parse_ref, C08_parse_is_ref); display / char printers: the crate's own output is judged by "
                 "the property oracle (printable ASCII, quotes doubled and nothing else, reads back through the "
                 "verified parser as the original string) and compared with the model; roundtrip: Display, strip "
                 "quotes, undouble, parse_smt_literal, all in the crate, must return the string; constructors: "
                 "result and is_good. Non-trivial: a text with a backslash, a string with a character that is not "
                 "plain printable ASCII, a constructor input beyond MAX_CHAR."),
        "exhaustive_domains": [
            "all %d texts of length <= %d over the 11 symbols \\ u { } 0 2 3 f F g \"" % (ntexts, L),
            "all %d texts of length 5..%d over \\ u { } 2 f with a backslash in the first two positions" % (nt2, L2),
            "%d brace-escape shapes: \\u{ + 0..7 digits of {0,2,3,f,F} (exhaustive up to %d digits) x 4 tails" % (nshape, 3 if quick else 5),
            "display / roundtrip / char_to_smt / smt_char_as_string of every code point 0..299 and all class boundaries +-1",
            "roundtrip of all strings of length <= %d over {\\, u, {, 4, 1, }, \", 0x80, 0}" % (3 if quick else 4),
        ] + ([] if quick else ["roundtrip of all 196608 code points (strings of 64 consecutive code points)"]),
        "distribution": dist,
    }
    return cases, info


def nontrivial(case):
    t = case.split()
    op = t[0]
    if op in ("char_to_smt", "smt_char_as_string", "from_char", "from_u32"):
        x = int(t[1])
        if op.startswith("from"):
            return x > MAXC
        return not (32 <= x < 127) or x in (BS, QUOTE)
    nums = list(map(int, t[2:]))
    if op == "parse":
        return BS in nums
    if op in ("display", "roundtrip"):
        return any(not (32 <= x < 127) or x in (BS, QUOTE) for x in nums)
    return any(x > MAXC for x in nums)


def _variants(case, limit=400):
    t = case.split()
    op = t[0]
    if op not in ("parse", "display", "roundtrip", "from_str"):
        return []
    nums = list(map(int, t[2:]))
    out = []
    for i in range(len(nums) + 1):
        out.append(nums[:i])
        out.append(nums[i:])
    for i in range(len(nums)):
        out.append(nums[:i] + nums[i + 1:])
        for s in SYMS + [65, 0x80]:
            out.append(nums[:i] + [s] + nums[i + 1:])
    res = []
    for l in out[:limit]:
        res.append("%s %s" % (op, w(l)))
        if op == "display":
            res.append("roundtrip " + w(l))
    return res


def search(rng, diff_cases, tier):
    """around strict disagreements: prefixes, suffixes, deletions and single substitutions"""
    extra = []
    for c in diff_cases[:8]:
        extra += _variants(c)
    if not diff_cases:          # broken proof obligation only: re-run the witnesses and the short texts
        for s in SPELL:
            extra.append("roundtrip " + w(s))
    return extra


def shrink(exe, case, impl, model, msg):
    """greedy: drop one character at a time while the case stays a violation"""
    import vlib
    t = case.split()
    if t[0] not in ("parse", "display", "roundtrip", "from_str", "from_slice", "from_vec"):
        return case, impl, model, msg
    op, nums = t[0], list(map(int, t[2:]))
    best = (case, impl, model, msg)
    for _ in range(40):
        cands = ["%s %s" % (op, w(nums[:i] + nums[i + 1:])) for i in range(len(nums))]
        if not cands:
            break
        res = vlib.run_cases(exe, ENGINE, cands, "C08-shrink")
        hit = None
        for i, (c, im, st, mo, m) in enumerate(res):
            if st == "BAD":
                hit = (i, (c, im, mo, m))
                break
        if hit is None:
            break
        nums = nums[:hit[0]] + nums[hit[0] + 1:]
        best = hit[1]
    return best
