"""C18 -- start_char / start_class are exact."""
from regexgen import *
import pc05
ENGINE = "regex"
TIMEOUT = 900
ASSUMPTIONS = ["oracle: start_char compared with the verified decision (derivative + emptiness) of the model; 'false' answers are cross-checked by enumerating words c.w with |w| <= 3"]


def one_case(rng, tier):
    al = Alphabet(rng, boundary=True)
    case = Case()
    r = rng.random()
    if r < 0.4:
        t = pc05.sem_empty(rng, case, al)
        if rng.random() < 0.5:
            z = case.push("range %d %d" % al.rand_range(rng))
            t = case.push(rng.choice(["concat %d %d" % (t, z), "concat %d %d" % (z, t), "union %d %d" % (t, z), "plus %d" % t, "inter %d %d" % (z, t)]))
    elif r < 0.9:
        t = gen_term(rng, case, al, rng.choice([2, 3, 4]), [])
    else:
        t = degenerate_term(rng, case, al)
    for c in rng.sample(al.probe_chars(), min(4, len(al.probe_chars()))):
        case.obs("startc %d %d" % (t, c))
    for cid in rng.sample(["0", "1", "2", "c", "5"], 3):
        case.obs("startcl %d %s" % (t, cid))
    return case.line()


def generate(rng, tier):
    n = 4000 if tier == "quick" else 40000
    cases = [one_case(rng, tier) for _ in range(n)]
    cases += ["allchar ; str 2 97 98 ; inter 0 1 ; startc 2 97 ; char 99 ; concat 3 2 ; startc 4 99"]
    info = {"rule": "intersections, and concatenations / loops whose operands are semantically but not syntactically empty, plus random terms; start_char at every class representative, both end points and the characters outside; start_class on valid and invalid ids; non-trivial = at least one operator",
            "distribution": {"cases": n}}
    return cases, info


def nontrivial(case):
    return any(op in case for op in ("concat", "union", "inter", "comp", "diff", "star", "plus", "opt", "pow", "loop"))


def shrink(exe, case, impl, model, msg):
    import vlib
    return vlib.shrink_history(exe, ENGINE, case, "regex")


def search(rng, diff_cases, tier):
    out = []
    for c in diff_cases[:20]:
        out += intensify(c, rng)
    return out
