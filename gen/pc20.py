"""C20 -- CharSet interval algebra: exhaustive over critical points + random."""
ENGINE = "charset"
MAXC = 0x2FFFF
CRIT = [0, 1, 2, 5, 6, 7, 0xFFFD, 0x2FFFD, 0x2FFFE, 0x2FFFF]
ASSUMPTIONS = ["CharSet values are built with start <= end <= MAX_CHAR (the type invariant; only a debug assertion in the crate)",
               "start/end of a result are read through pick() and size()"]


def ivs(points):
    return [(a, b) for i, a in enumerate(points) for b in points[i:]]


def generate(rng, tier):
    cases = []
    pts = CRIT if tier == "quick" else sorted(set(CRIT + [3, 4, 8, 100, 0x10000]))
    I = ivs(pts)
    xs = sorted(set(pts + [p + 1 for p in pts if p < MAXC] + [MAXC + 1, 2**32 - 1]))
    for (a, b) in I:
        cases += ["size %d %d" % (a, b), "singleton %d %d" % (a, b), "alphabet %d %d" % (a, b), "pick %d %d" % (a, b)]
        for x in xs:
            cases += ["contains %d %d %d" % (a, b, x), "before %d %d %d" % (a, b, x), "after %d %d %d" % (a, b, x)]
    for (a, b) in I:
        for (c, d) in I:
            for op in ("covers", "inter", "union", "pcmp"):
                cases.append("%s %d %d %d %d" % (op, a, b, c, d))
    for x in pts:
        cases.append("mk single %d" % x)
    cases.append("mk all")
    nlist = 1500 if tier == "quick" else 20000
    cases.append("interlist 0")
    for _ in range(nlist):
        k = rng.randint(1, 5)
        l = [rng.choice(I) for _ in range(k)]
        cases.append("interlist %d %s" % (k, " ".join("%d %d" % s for s in l)))
    nrand = 2000 if tier == "quick" else 100000
    def rint():
        r = rng.random()
        if r < 0.3:
            return rng.choice(CRIT)
        if r < 0.6:
            return rng.randint(0, 300)
        return rng.randint(0, MAXC)
    for _ in range(nrand):
        a, b = sorted((rint(), rint())); c, d = sorted((rint(), rint()))
        if rng.random() < 0.3:      # adjacency / touching
            c = min(MAXC, b + rng.choice([0, 1, 2])); d = max(c, d)
        op = rng.choice(["covers", "inter", "union", "pcmp"])
        cases.append("%s %d %d %d %d" % (op, a, b, c, d))
    info = {"rule": "every operation on all valid intervals over %d critical points (all ordered pairs for binary ops, all critical x and x+1 for unary queries), plus random inter_list lists (1..5 sets) and random pairs biased to adjacency; a case is non-trivial when it involves at least one non-singleton, non-full interval" % len(pts),
            "exhaustive_domains": ["%d intervals over critical points %s: %d ordered pairs x {covers,inter,union,pcmp}" % (len(I), pts, len(I) ** 2)],
            "distribution": {"intervals": len(I), "pairs": len(I) ** 2, "random_pairs": nrand, "inter_lists": nlist}}
    return cases, info


def nontrivial(case):
    t = case.split()
    if t[0] in ("mk",):
        return False
    nums = list(map(int, t[1:]))
    if t[0] == "interlist":
        nums = nums[1:]
    prs = list(zip(nums[0::2], nums[1::2]))
    return any(a != b and not (a == 0 and b == MAXC) for (a, b) in prs[:2])


def search(rng, diff_cases, tier):
    return []
