"""C16 -- included_in never claims an inclusion that does not hold."""
from regexgen import *
ENGINE = "regex"
TIMEOUT = 900
ASSUMPTIONS = ["oracle: every 'true' answer is checked on all words <= 4 over the critical alphabet with the reference matcher; the union built from the pair is checked by membership bits against the denotation"]


def pattern(rng, case, al, n):
    """concatenations mixing ranges, Sigma*, loops: the shapes the rigid/flexible matcher handles"""
    parts = []
    for _ in range(n):
        r = rng.random()
        if r < 0.45:
            parts.append(case.push("range %d %d" % al.rand_range(rng)))
        elif r < 0.65:
            parts.append(case.push("all"))
        elif r < 0.75:
            parts.append(case.push("allchar"))
        elif r < 0.85:
            x = case.push("range %d %d" % al.rand_range(rng))
            parts.append(case.push(rng.choice(["star %d", "plus %d", "opt %d", "loop %d 1 2"]) % x))
        elif r < 0.92:
            x = case.push("range %d %d" % al.rand_range(rng)); y = case.push("range %d %d" % al.rand_range(rng))
            parts.append(case.push("union %d %d" % (x, y)))
        else:
            x = case.push("range %d %d" % al.rand_range(rng))
            parts.append(case.push("comp %d" % x))
    return case.push("concatl %d%s" % (len(parts), "".join(" %d" % p for p in parts)))


def generalised_pair(rng, case, al):
    """build r as a concatenation of ranges / loops and s as a GENERALISATION of it (ranges widened,
    sub-sequences replaced by Sigma*, Sigma* inserted), so that L(r) is inside L(s) and the rigid /
    flexible matcher has to succeed through its prefix, suffix, left-to-right and right-to-left passes"""
    n = rng.choice([1, 2, 3, 4, 5, 6])
    facts = []
    for _ in range(n):
        k = rng.random()
        a, b = al.rand_range(rng)
        if k < 0.7:
            facts.append(("range", a, b))
        elif k < 0.85:
            facts.append(("all",))
        else:
            facts.append(("loop", a, b, rng.choice(["star", "plus", "opt"])))
    def emit(fs):
        ids = []
        for f in fs:
            if f[0] == "range":
                ids.append(case.push("range %d %d" % (f[1], f[2])))
            elif f[0] == "all":
                ids.append(case.push("all"))
            else:
                x = case.push("range %d %d" % (f[1], f[2])); ids.append(case.push("%s %d" % (f[3], x)))
        return case.push("concatl %d%s" % (len(ids), "".join(" %d" % i for i in ids)))
    # generalise
    g = []
    i = 0
    while i < len(facts):
        f = facts[i]
        k = rng.random()
        if k < 0.25:                       # replace a run of 1-3 factors by Sigma*
            g.append(("all",)); i += rng.choice([1, 1, 2, 3]); continue
        if f[0] == "range" and k < 0.6:    # widen the range
            a = max(0, f[1] - rng.choice([0, 1, 5])); b = min(MAXC, f[2] + rng.choice([0, 1, 5]))
            g.append(("range", a, b))
        elif f[0] == "loop":
            g.append(("all",))
        else:
            g.append(f)
        if rng.random() < 0.15:
            g.append(("all",))
        i += 1
    if rng.random() < 0.2:
        g.insert(0, ("all",))
    r_id = emit(facts)
    s_id = emit(g)
    return r_id, s_id


def one_case(rng, tier):
    al = Alphabet(rng)
    case = Case()
    r = rng.random()
    if r < 0.05:
        # almost-universal right-hand sides: a star over the alphabet minus exactly one end point
        lo, hi = rng.choice([(1, MAXC), (0, MAXC - 1), (1, MAXC - 1), (0, MAXC)])
        near = case.push("range %d %d" % (lo, hi)); b = case.push("star %d" % near)
        k = rng.randrange(4)
        if k == 0:
            a = case.push("char %d" % rng.choice([0, MAXC]))
        elif k == 1:
            a = case.push("str " + word([rng.choice([0, MAXC, 97]), rng.choice([0, MAXC, 97])]))
        elif k == 2:
            x = case.push("allchar"); a = case.push("pow %d 2" % x)
        else:
            x = case.push("str " + word([97, 98, 99])); a = case.push("comp %d" % x)
        if rng.random() < 0.5:
            pre = case.push("char 97"); post = case.push("char 98")
            a = case.push("concatl 3 %d %d %d" % (pre, a, post)); b = case.push("concatl 3 %d %d %d" % (pre, b, post))
        case.obs("incl %d %d" % (a, b)); case.obs("incl %d %d" % (b, a))
        u = case.push("union %d %d" % (a, b))
        case.obs("memall %d %d %s" % (u, 3, word([0, 97, MAXC])))
        return case.line()
    if r < 0.35:
        a, b = generalised_pair(rng, case, al)
    elif r < 0.6:
        a = pattern(rng, case, al, rng.choice([1, 2, 3, 4, 5]))
        b = pattern(rng, case, al, rng.choice([1, 2, 3, 4, 5]))
    elif r < 0.8:
        a = gen_term(rng, case, al, 3, []); b = gen_term(rng, case, al, 3, [])
    else:
        a = pattern(rng, case, al, rng.choice([2, 3])); b = gen_term(rng, case, al, 2, [a])
    case.obs("incl %d %d" % (a, b)); case.obs("incl %d %d" % (b, a))
    u = case.push("union %d %d" % (a, b))
    case.obs("memall %d %d %s" % (u, 3 if tier == "quick" else 4, word(al.letters[:3])))
    return case.line()


def exhaustive_matcher_cases():
    """all ways to generalise a concatenation u of 1-3 ranges into v: Sigma* inserted at every subset of the
    gaps (incl. both ends), every range kept or widened, and one range optionally made disjoint (negative
    instances); this enumerates the prefix / suffix / middle-rigid / flexible-region shapes of the matcher,
    e.g. u = a.b against Sigma*.a.b.Sigma* (a rigid pattern as long as all of u)"""
    import itertools
    out = []
    letters = [97, 98, 99]
    for n in (1, 2, 3):
        for gaps in itertools.product([0, 1], repeat=n + 1):
            for widen in itertools.product([0, 1, 2], repeat=n):      # 0 same, 1 wider, 2 disjoint
                if sum(1 for w in widen if w == 2) > 1:
                    continue
                case = Case()
                uf = [case.push("range %d %d" % (letters[i], letters[i])) for i in range(n)]
                u = case.push("concatl %d%s" % (n, "".join(" %d" % x for x in uf)))
                vf = []
                for i in range(n):
                    if gaps[i]:
                        vf.append(case.push("all"))
                    if widen[i] == 0:
                        vf.append(case.push("range %d %d" % (letters[i], letters[i])))
                    elif widen[i] == 1:
                        vf.append(case.push("range %d %d" % (letters[i] - 1, letters[i] + 2)))
                    else:
                        vf.append(case.push("range %d %d" % (letters[i] + 10, letters[i] + 12)))
                if gaps[n]:
                    vf.append(case.push("all"))
                v = case.push("concatl %d%s" % (len(vf), "".join(" %d" % x for x in vf)))
                case.obs("incl %d %d" % (u, v)); case.obs("incl %d %d" % (v, u))
                w = case.push("union %d %d" % (u, v))
                case.obs("memall %d 3 %s" % (w, word([97, 98, 99])))
                out.append(case.line())
    return out


def generate(rng, tier):
    n = 4000 if tier == "quick" else 50000
    cases = exhaustive_matcher_cases() + [one_case(rng, tier) for _ in range(n)]
    info = {"rule": "ordered pairs biased to concatenations of ranges / Sigma* / loops / unions / complements on either side (rigid prefix, rigid suffix, left-to-right and right-to-left passes), plus random pairs; included_in both ways, then the union (pruned by the same test) with membership of all words <= k; non-trivial = both sides have an operator",
            "distribution": {"cases": n}, "exhaustive_domains": ["all generalisations of a concatenation of 1-3 singleton ranges: Sigma* at every subset of the gaps x each range same / wider / disjoint (at most one disjoint)"]}
    return cases, info


def nontrivial(case):
    return "concatl" in case or "union" in case


def shrink(exe, case, impl, model, msg):
    import vlib
    return vlib.shrink_history(exe, ENGINE, case, "regex")


def search(rng, diff_cases, tier):
    out = []
    for c in diff_cases[:20]:
        out += intensify(c, rng)
    return out
