"""Generator of builder histories for the "automata" engine (C13, C14, C04)."""
MAXC = 0x2FFFF


def partition_labels(rng, pts):
    """random disjoint labels over critical points; returns list of (a,b)"""
    cuts = sorted(rng.sample(pts, rng.randint(0, min(len(pts), 5))))
    labels = []
    i = 0
    while i + 1 < len(cuts) + 1 and i < len(cuts):
        a = cuts[i]
        b = cuts[i + 1] - 1 if i + 1 < len(cuts) and rng.random() < 0.5 else a + rng.choice([0, 0, 1, 3])
        if i + 1 < len(cuts):
            b = min(b, cuts[i + 1] - 1)
        b = min(max(a, b), MAXC)
        labels.append((a, b))
        i += 1
    return labels


def complete_spec(rng, n, pts, full_cover_prob=0.2, unreachable=True):
    """a complete deterministic specification over states 0..n-1 (names shuffled)"""
    names = list(range(n))
    if rng.random() < 0.5:
        names = [rng.randint(0, 50) * 2 + 1000 * i for i in range(n)]   # arbitrary distinct names
    stmts = ["new %d" % names[0]]
    targets = list(range(n))
    if unreachable and n > 2 and rng.random() < 0.5:
        # a component that is never the target of the reachable part
        k = rng.randint(1, n - 1)
        reach_targets = list(range(0, k))
    else:
        k = n
        reach_targets = targets
    ops = []
    for s in range(n):
        tg = reach_targets if s < k else targets
        if rng.random() < full_cover_prob:
            # full coverage, no default
            cuts = sorted(set([0] + rng.sample(pts, rng.randint(0, min(3, len(pts))))))
            for i, a in enumerate(cuts):
                b = (cuts[i + 1] - 1) if i + 1 < len(cuts) else MAXC
                ops.append("add %d %d %d %d" % (names[s], a, b, names[rng.choice(tg)]))
        else:
            for (a, b) in partition_labels(rng, pts):
                ops.append("add %d %d %d %d" % (names[s], a, b, names[rng.choice(tg)]))
            ops.append("def %d %d" % (names[s], names[rng.choice(tg)]))
        if rng.random() < 0.4:
            ops.append("fin %d" % names[s])
    if rng.random() < 0.5:
        rng.shuffle(ops)
    return stmts + ops, names


def planted_equiv(rng, n, pts):
    """complete DFA with planted equivalent states: copy rows of one state to others, cycles of sinks"""
    stmts, names = complete_spec(rng, n, pts, unreachable=(rng.random() < 0.6))
    # duplicate: new states that mirror existing ones
    ops = stmts[1:]
    extra = []
    m = rng.randint(1, 3)
    for j in range(m):
        src = rng.choice(names)
        new = 5000 + j
        for o in ops:
            t = o.split()
            if t[0] in ("add", "def", "fin") and int(t[1]) == src:
                t[1] = str(new)
                extra.append(" ".join(t))
        # some transitions elsewhere now lead to the copy
        for idx, o in enumerate(ops):
            t = o.split()
            if t[0] == "add" and int(t[4]) == src and rng.random() < 0.5:
                t[4] = str(new); ops[idx] = " ".join(t)
            if t[0] == "def" and int(t[2]) == src and rng.random() < 0.5:
                t[2] = str(new); ops[idx] = " ".join(t)
    # a cycle of equivalent sinks
    if rng.random() < 0.5:
        k = rng.randint(2, 4)
        fin = rng.random() < 0.5
        for j in range(k):
            extra.append("def %d %d" % (7000 + j, 7000 + (j + 1) % k))
            if fin:
                extra.append("fin %d" % (7000 + j))
        if rng.random() < 0.7 and ops:
            extra.append("add %d %d %d %d" % (names[0], MAXC, MAXC, 7000)) if not any(o.startswith("add %d " % names[0]) and o.split()[3] == str(MAXC) for o in ops) else None
    extra = [e for e in extra if e]
    return [stmts[0]] + ops + extra


def malformed(rng, n, pts):
    stmts, names = complete_spec(rng, n, pts, unreachable=False)
    k = rng.randrange(6)
    s = rng.choice(names); t = rng.choice(names); t2 = rng.choice(names)
    a = rng.choice(pts)
    if k == 0:     # missing default with a gap
        stmts = [o for o in stmts if not o.startswith("def %d " % s)]
    elif k == 1:   # overlapping labels, different successors
        stmts += ["add %d %d %d %d" % (s, a, min(MAXC, a + 5), t), "add %d %d %d %d" % (s, min(MAXC, a + 2), min(MAXC, a + 9), t2)]
    elif k == 2:   # overlapping labels, equal successors
        stmts += ["add %d %d %d %d" % (s, a, min(MAXC, a + 5), t), "add %d %d %d %d" % (s, min(MAXC, a + 2), min(MAXC, a + 9), t)]
    elif k == 3:   # label overlapping a transition into the default target (D6 shape)
        stmts = [o for o in stmts if not o.startswith("def %d " % s) and not o.startswith("add %d " % s)]
        stmts += ["add %d %d %d %d" % (s, 97, 99, t), "add %d %d %d %d" % (s, 98, 98, t2), "def %d %d" % (s, t)]
    elif k == 4:   # default plus full coverage
        stmts = [o for o in stmts if not o.startswith("add %d " % s)]
        stmts += ["add %d 0 %d %d" % (s, MAXC, t), "def %d %d" % (s, t2)]
    else:          # incomplete state with >= 1 transition and no default (majority promotion, D6)
        stmts = [o for o in stmts if not o.startswith("def %d " % s) and not o.startswith("add %d " % s)]
        stmts += ["add %d %d %d %d" % (s, 97, 97, t)]
        if rng.random() < 0.5:
            stmts += ["add %d %d %d %d" % (s, 100, 120, t)]
    return stmts


PTS = [0, 1, 48, 57, 97, 98, 99, 100, 122, 0xFFFD, MAXC - 1, MAXC]


def tiny_alphabet_spec(rng, n):
    """all states cover the alphabet with the SAME cut points and declare no default: the combined
    alphabet has 1-3 classes, rows of the compact table are dense and collide"""
    cuts = sorted(set([0] + rng.sample([1, 97, 98, 0xFFFD, MAXC], rng.choice([0, 0, 1, 2]))))
    stmts = ["new 0"]
    for s in range(n):
        for i, a in enumerate(cuts):
            b = (cuts[i + 1] - 1) if i + 1 < len(cuts) else MAXC
            stmts.append("add %d %d %d %d" % (s, a, b, rng.randrange(n)))
        if rng.random() < 0.4:
            stmts.append("fin %d" % s)
    return stmts


def intensify(case, rng):
    """failing-input search around a builder history on which model and implementation disagree: keep the
    history and observe the automaton exhaustively (every transition on all critical characters, acceptance of
    all words <= 4 over several alphabets, the table, pruning, minimization in both orders)"""
    stmts = [s for s in case.split(" ; ") if s.split() and s.split()[0] in ("new", "add", "def", "fin")]
    pts = set([0, MAXC])
    for s in stmts:
        t = s.split()
        if t[0] == "add":
            a, b = int(t[2]), int(t[3])
            for x in (a - 1, a, b, b + 1):
                if 0 <= x <= MAXC:
                    pts.add(x)
    pts = sorted(pts)
    out = []
    for build in ("build", "buildu"):
        for variant in range(3):
            alpha = rng.sample(pts, min(3, len(pts)))
            obs = [build, "dump", "nextall %d %s" % (len(pts), " ".join(map(str, pts))), "edges", "finals", "table", "alphabet",
                   "acceptsall 4 %d %s" % (len(alpha), " ".join(map(str, alpha)))]
            if variant == 0:
                obs += ["prune", "table", "minimize", "finals", "acceptsall 4 %d %s" % (len(alpha), " ".join(map(str, alpha)))]
            elif variant == 1:
                obs += ["minimize", "finals", "prune", "minimize", "acceptsall 4 %d %s" % (len(alpha), " ".join(map(str, alpha)))]
            else:
                obs += ["minimize", "minimize", "table"]
            out.append(" ; ".join(stmts + obs))
    return out
