"""C01 -- regex membership equals the SMT-LIB denotation of the construction program."""
from regexgen import *
ENGINE = "regex"
# release as well: the documented asserts of char / range must not be debug-only checks
PROFILES = ["debug", "release"]
TIMEOUT = 900
PARTIAL = ["C01 theorems are stated for the model; see evidence.theorems; language-level correctness of every constructor is proved in coq/LangProofs*.v as far as listed there"]
ASSUMPTIONS = ["constructor calls that panic on u32 overflow of loop bounds produce no term (compared as PANIC on both sides)",
               "oracle: reference matcher mref (Denote.v) evaluated on the implementation's own membership answers"]


def one_case(rng, tier, wrapped=False):
    al = Alphabet(rng, boundary=True)
    case = Case(wrapped)
    k = 3 if tier == "quick" else 4
    r = rng.random()
    pool = []
    # some prior history: unrelated terms so that ids differ between cases
    for _ in range(rng.choice([0, 0, 1, 2])):
        pool.append(gen_term(rng, case, al, 2, pool, allow_compl=not wrapped or True))
    if r < 0.70:
        t = gen_term(rng, case, al, rng.choice([2, 3, 4, 5]), pool)
    elif r < 0.93:
        t = degenerate_term(rng, case, al)
    else:
        t = overflow_term(rng, case, al)
        case.obs("nullable %d" % t)
        case.obs("mem %d %s" % (t, word([al.rand_char(rng) for _ in range(rng.choice([0, 1, 2]))])))
        return case.line()
    alpha = al.letters[:3] if len(al.letters) > 3 and k >= 4 else al.letters[:4]
    # add one character just outside the ranges used
    probes = [c for c in al.probe_chars() if c not in alpha]
    if probes and len(alpha) < 4:
        alpha = alpha + [rng.choice(probes)]
    case.obs("nullable %d" % t)
    case.obs("memall %d %d %s" % (t, k, word(alpha)))
    if rng.random() < 0.3:
        w = [rng.choice(alpha) for _ in range(rng.choice([5, 6, 8]))]
        case.obs("mem %d %s" % (t, word(w)))
    return case.line()


def wrapper_list_case(rng):
    """every list-form wrapper (re_concat_list / re_union_list / re_inter_list / re_diff_list) with 0..3
    operands that differ as languages, through the thread-local manager"""
    al = Alphabet(rng)
    case = Case(True)
    ops = []
    for _ in range(4):
        k = rng.random()
        if k < 0.4:
            ops.append(case.push("str " + word([al.rand_char(rng) for _ in range(rng.choice([1, 2]))])))
        elif k < 0.7:
            a, b = sorted((al.rand_char(rng), al.rand_char(rng)))
            x = case.push("smtrange 1 %d 1 %d" % (a, b))
            ops.append(case.push(rng.choice(["plus %d", "star %d", "opt %d"]) % x))
        else:
            x = case.push("allchar"); ops.append(case.push("pow %d %d" % (x, rng.choice([1, 2]))))
    base = ops[0]
    k = rng.choice([0, 1, 2, 3])
    sel = ops[1:1 + k]
    op = rng.choice(["diffl", "diffl", "unionl", "interl", "concatl"])
    if op == "diffl":
        t = case.push("diffl %d %d%s" % (base, len(sel), "".join(" %d" % x for x in sel)))
    else:
        t = case.push("%s %d%s" % (op, len(sel), "".join(" %d" % x for x in sel)))
    case.obs("nullable %d" % t)
    case.obs("memall %d 3 %s" % (t, word(al.letters[:3])))
    return case.line()


def generate(rng, tier):
    n = 4000 if tier == "quick" else 40000
    cases = [wrapper_list_case(rng) for _ in range(300 if tier == "quick" else 3000)]
    # documented asserts of char / range: invalid arguments must panic (and valid boundary ones must not)
    for a, b in [(5, 3), (98, 97), (0, MAXC + 1), (MAXC, MAXC + 1), (MAXC + 1, MAXC + 1), (MAXC + 1, 3), (1, 0), (MAXC, MAXC), (0, 0), (0, MAXC)]:
        cases.append("range %d %d ; nullable 0 ; mem 0 1 %d" % (a, b, min(a, MAXC)))
    for x in [MAXC, MAXC + 1, 2 ** 32 - 1, 0]:
        cases.append("char %d ; nullable 0 ; mem 0 1 %d" % (x, min(x, MAXC)))
    nw = len(cases)
    for i in range(n):
        wrapped = rng.random() < 0.2
        nw += wrapped
        c = one_case(rng, tier, wrapped)
        if wrapped and ("loopinf" in c or "charset" in c or " eps" in c or c.startswith("W eps") or "range " in c.replace("smtrange", "") or "char " in c):
            # the wrappers have no such entry points: run on a ReManager instead
            c = c[2:]
            nw -= 1
        cases.append(c)
    info = {"rule": "random construction programs (depth<=5, all constructors incl. list forms, prior manager history, ranges over critical points incl. 0/MAX, adjacent/overlapping), a degenerate stream (loops over empty/eps/nullable bodies, i>j, loop of loop, complement pairs, diff(x,x)) and an overflow-frontier stream; observed: nullable + membership of ALL words up to length %d over the case's critical alphabet; non-trivial = at least one operator" % (3 if tier == "quick" else 4),
            "distribution": {"cases": n, "via_smtlib_wrappers_thread_local_manager": nw}}
    return cases, info


def nontrivial(case):
    return any(op in case for op in ("concat", "union", "inter", "comp", "diff", "star", "plus", "opt", "pow", "loop"))


def shrink(exe, case, impl, model, msg):
    import vlib
    return vlib.shrink_history(exe, ENGINE, case, "regex")


def search(rng, diff_cases, tier):
    out = []
    for c in diff_cases[:20]:
        out += intensify(c, rng)
    return out
