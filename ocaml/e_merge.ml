(* C12: merge_partitions / merge_partition_list -- model side.
   None of pmerge_opt (out of fuel) = panic; C12_merge_never_panics shows it never happens for
   well-formed inputs. *)
open Model
open Util
let part c =
  let k = ci c in
  let rec go k p = if k = 0 then p else (let a = cn c in let e = cn c in go (k - 1) (ppush p a e)) in
  go k pnew
let dump p =
  let n = int_of_nat (plen p) in
  let b0 = Buffer.create 64 in
  Buffer.add_string b0 ("L " ^ string_of_int n);
  List.iter (fun (a, e) -> Buffer.add_string b0 (" " ^ sn a ^ " " ^ sn e)) p.ivs;
  Buffer.add_string b0 (" W " ^ sn (ppick_complement p) ^ " E " ^ b (pempty_complement p));
  Buffer.contents b0
let same p x y = classid_eqb (get (pclass_of_char p x)) (get (pclass_of_char p y))
let run toks =
  let c = cur_of toks in
  match next c with
  | "merge" -> let p1 = part c in let p2 = part c in dump (get (pmerge_opt p1 p2))
  | "mergelist" ->
      let k = ci c in
      let l = List.init k (fun _ -> part c) in
      dump (List.fold_left (fun acc p -> get (pmerge_opt acc p)) pnew l)
  | "literal" ->
      let p1 = part c in let p2 = part c in
      let x = cn c in let y = cn c in
      let m = get (pmerge_opt p1 p2) in
      b (same p1 x y) ^ " " ^ b (same p2 x y) ^ " " ^ b (same m x y)
  | _ -> failwith "bad op"

(* oracle.  merge / mergelist: the specification determines the result uniquely
   (C12_merge_class_exact + C12_merge_wf + C12_partition_ext), so the oracle is equality with
   the model.  literal: additionally the literal sentence of the property
   "same class in the merge  <->  same class in p1 and same class in p2" is evaluated on the
   implementation's answer; it is proved outside KnownClass_C12 (C12_literal_iff_outside_known)
   and refuted on the D9 witness (C12_literal_iff_refuted). *)
let oracle toks impl model =
  if impl <> model then Some "impl differs from the verified model (spec determines the result uniquely)"
  else match toks with
    | "literal" :: _ ->
      (match String.split_on_char ' ' impl with
       | [v1; v2; v3] ->
         let t s = match s with "T" -> true | "F" -> false | _ -> failwith "verdict" in
         if t v3 = (t v1 && t v2) then None
         else Some "literal iff of C12 fails: same class in p1 and in p2 but different classes in merge_partitions(p1,p2) (one-interval classes; KnownClass_C12)"
       | _ -> failwith "three verdicts expected")
    | _ -> None
