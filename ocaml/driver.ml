(* driver <engine> <cases> [<impl-results>]
   prints one line per case:  <status> TAB <model result> TAB <oracle message>
   status: OK   impl = model and the property oracle holds on impl's answer
           DIFF impl <> model but the oracle is satisfied by impl's answer (representation freedom)
           BAD  the property oracle is violated by impl's answer
   For engines whose observations are uniquely determined by the specification (proved in Coq:
   the model satisfies the spec and the spec has one solution) the oracle is equality with the
   model, so DIFF does not occur for them. *)
let engines : (string * (string list -> string)) list = [
  "charset", E_charset.run;
  "regex", E_regex.run;
  "merge", E_merge.run;
  "literal", E_literal.run;
  "partition", E_partition.run;
  "automata", E_automata.run;
  "looprange", E_looprange.run;
  "strconv", E_strconv.run;
  "strsearch", E_strsearch.run;
  (* informational engine (Display implementations): used by bin/displaycheck only, by no property *)
  "display", E_display.run;
]
(* engines with an oracle of their own: (cases tokens, impl result) -> None | Some msg *)
let oracles : (string * (string list -> string -> string -> string option)) list = [
  "regex", E_regex.oracle;
  "merge", E_merge.oracle;
  "literal", E_literal.oracle;
  "partition", E_partition.oracle;
  "automata", E_automata.oracle;
]
let read_lines f =
  let ic = open_in f in
  let rec go acc = match input_line ic with l -> go (l :: acc) | exception End_of_file -> close_in ic; List.rev acc in
  go []
let toks l = List.filter (fun s -> s <> "") (String.split_on_char ' ' l)
let () =
  let engine = Sys.argv.(1) in
  let run = try List.assoc engine engines with Not_found -> failwith "unknown engine" in
  let cases = read_lines Sys.argv.(2) in
  let impl = if Array.length Sys.argv > 3 then Some (Array.of_list (read_lines Sys.argv.(3))) else None in
  List.iteri (fun i line ->
    let t = toks line in
    let m = try run t with Util.Panic -> "PANIC" | Stack_overflow -> "MODEL-STACK-OVERFLOW" | e -> "MODEL-EXN " ^ Printexc.to_string e in
    match impl with
    | None -> print_endline m
    | Some a ->
      let r = if i < Array.length a then a.(i) else "MISSING" in
      let status, msg =
        match List.assoc_opt engine oracles with
        | None -> if r = m then "OK", "" else "BAD", "impl differs from the verified model (spec determines the result uniquely)"
        | Some o ->
          (match (try o t r m with Util.Panic -> Some "oracle panic" | Failure s -> Some ("oracle cannot read impl result: " ^ s) | e -> Some ("oracle exception " ^ Printexc.to_string e)) with
           | Some msg -> "BAD", msg
           | None -> if r = m then "OK", "" else "DIFF", "")
      in
      Printf.printf "%s\t%s\t%s\n" status m msg) cases
