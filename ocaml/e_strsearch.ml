(* engine "strsearch" (C06): model side.  Ops: concat len at substr prefixof suffixof contains indexof
   replace replace_all.  Words are length-prefixed, i32 arguments are decimal.
   Result lines: words as `len c1 c2 ...`, bools T/F, ints in decimal, None (= Rust panics) -> PANIC. *)
open Model
open Util

(* the extracted Z stays a Coq inductive: converters (Util has only N / nat) *)
let z_of_int n = if n = 0 then Z0 else if n > 0 then Zpos (pos_of_int n) else Zneg (pos_of_int (- n))
let int_of_z = function Z0 -> 0 | Zpos p -> int_of_pos p | Zneg p -> - (int_of_pos p)
let cz c = z_of_int (ci c)
let sz z = string_of_int (int_of_z z)
let sw w = String.concat " " (string_of_int (List.length w) :: List.map sn w)

let run toks =
  let c = cur_of toks in
  match next c with
  | "concat" -> let a = cword c in let b' = cword c in sw (get (str_concat a b'))
  | "len" -> sz (str_len (cword c))
  | "at" -> let s = cword c in let i = cz c in sw (get (str_at s i))
  | "substr" -> let s = cword c in let i = cz c in let n = cz c in sw (get (str_substr s i n))
  | "prefixof" -> let a = cword c in let b' = cword c in b (get (str_prefixof a b'))
  | "suffixof" -> let a = cword c in let b' = cword c in b (get (str_suffixof a b'))
  | "contains" -> let a = cword c in let b' = cword c in b (get (str_contains a b'))
  | "indexof" -> let s = cword c in let p = cword c in let i = cz c in sz (get (str_indexof s p i))
  | "replace" -> let s = cword c in let p = cword c in let r = cword c in sw (get (str_replace s p r))
  | "replace_all" -> let s = cword c in let p = cword c in let r = cword c in sw (get (str_replace_all s p r))
  | _ -> failwith "bad op"
