#!/bin/sh
# builds build/driver from coq/extracted/model.ml + ocaml/*.ml
set -e
cd "$(dirname "$0")"
B=../build/ocaml
mkdir -p $B
cp ../coq/extracted/model.ml ../coq/extracted/model.mli *.ml $B/
cd $B
ENG=$(ls e_*.ml | sort | tr '\n' ' ')
ocamlfind ocamlopt -w -a -package str -linkpkg model.mli model.ml util.ml autdump.ml $ENG driver.ml -o ../driver
