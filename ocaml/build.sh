#!/bin/sh
# builds build/driver from coq/extracted/model.ml + the engines registered in ocaml/driver.ml
set -e
cd "$(dirname "$0")"
B=../build/ocaml
mkdir -p $B
rm -f $B/*.ml $B/*.mli
cp ../coq/extracted/model.ml ../coq/extracted/model.mli *.ml $B/
cd $B
ENG=$(grep -o 'E_[a-z0-9_]*\.' driver.ml | sort -u | tr 'A-Z' 'a-z' | sed 's/\.$/.ml/' | grep -v e_regex.ml | tr '\n' ' ')
ENG="e_regex.ml $ENG"
ocamlfind ocamlopt -w -a -package str -linkpkg model.mli model.ml util.ml autdump.ml $ENG driver.ml -o ../driver
