(* engine "display": model side of harness/src/e_display.rs (coq/Display.v).  Informational: no
   property uses this engine; bin/displaycheck lists the disagreements. *)
open Model
open Util
let show w = String.concat " " (string_of_int (List.length w) :: List.map sn w)

let build_aut toks =
  let h = List.filter_map E_automata.parse_bop (E_regex.split_stmts toks) in
  get (build_unchecked (run_history h))

let run toks =
  let c = cur_of toks in
  match next c with
  | "looprange" -> let a = cn c in let h = next c in
      show (lr_display (if h = "inf" then LR (a, None) else LR (a, Some (n h))))
  | "charset" -> let a = cn c in let bb = cn c in
      if not (cs_validb (a, bb)) then raise Panic;      (* debug assertion of CharSet::range *)
      show (cs_display (a, bb))
  | "classid" -> let x = next c in
      show (classid_display (if x = "c" then CComp else CInt (nat_of_int (int_of_string x))))
  | "cover" ->
      show (cover_display (match next c with
        | "covered" -> CoveredBy (nat_of_int (ci c))
        | "disjoint" -> DisjointFromAll
        | "overlaps" -> Overlaps
        | _ -> failwith "bad cover"))
  | "partition" -> let k = ci c in
      let l = List.init k (fun _ -> let a = cn c in let bb = cn c in (a, bb)) in
      show (part_display (List.fold_left (fun p (a, bb) -> ppush p a bb) pnew l))
  | "automaton" -> show (get (automaton_display (build_aut (List.tl toks))))
  | "states" ->
      let a = build_aut (List.tl toks) in
      let ws = List.map state_display (a_states a) in
      show (List.concat (List.mapi (fun i w -> if i = 0 then w else n_of_int 32 :: w) ws))
  | op -> failwith ("bad op " ^ op)
