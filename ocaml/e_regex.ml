(* model side of the "regex" engine + property oracle (reference matcher mref on the program) *)
open Model
open Util
open Autdump

let fuel = nat_of_int 20000
let show_lr = function
  | LR (a, Some b) -> Printf.sprintf "LoopRange(%s,Some(%s))" (sn a) (sn b)
  | LR (a, None) -> Printf.sprintf "LoopRange(%s,None)" (sn a)
let rec dump e =
  let i = sn (rid e) in
  match rnode e with
  | NEmpty -> "E" ^ i
  | NEps -> "e" ^ i
  | NRange (a, b) -> Printf.sprintf "R%s[%s,%s]" i (sn a) (sn b)
  | NConcat (a, b) -> Printf.sprintf "C%s(%s,%s)" i (dump a) (dump b)
  | NLoop (a, r) -> Printf.sprintf "L%s{%s}(%s)" i (show_lr r) (dump a)
  | NCompl a -> Printf.sprintf "N%s(%s)" i (dump a)
  | NUnion l -> Printf.sprintf "U%s(%s)" i (String.concat "," (List.map dump l))
  | NInter l -> Printf.sprintf "I%s(%s)" i (String.concat "," (List.map dump l))
(* parser of a structural dump (the implementation's own term, ids included) back into a model term;
   nullable flag and derivative classes are not printed and are not used by sub_terms / leaves *)
let parse_dump (str : string) : re =
  let n = String.length str in
  let pos = ref 0 in
  let peek () = if !pos < n then str.[!pos] else '\000' in
  let adv () = incr pos in
  let expect ch = if peek () <> ch then failwith ("dump: expected " ^ String.make 1 ch) else adv () in
  let number () =
    let st0 = !pos in
    while !pos < n && str.[!pos] >= '0' && str.[!pos] <= '9' do adv () done;
    if !pos = st0 then failwith "dump: number";
    n_of_int (int_of_string (String.sub str st0 (!pos - st0))) in
  let mk i k = Node (i, false, pnew, k) in
  let rec term () =
    let kind = peek () in adv ();
    let i = number () in
    match kind with
    | 'E' -> mk i NEmpty
    | 'e' -> mk i NEps
    | 'R' -> expect '['; let a = number () in expect ','; let b_ = number () in expect ']'; mk i (NRange (a, b_))
    | 'C' -> expect '('; let a = term () in expect ','; let b_ = term () in expect ')'; mk i (NConcat (a, b_))
    | 'N' -> expect '('; let a = term () in expect ')'; mk i (NCompl a)
    | 'L' ->
        expect '{';
        let st0 = !pos in
        while peek () <> '}' do adv () done;
        let rs = String.sub str st0 (!pos - st0) in
        expect '}';
        let r =
          (try Scanf.sscanf rs "LoopRange(%d,Some(%d))" (fun a b_ -> LR (n_of_int a, Some (n_of_int b_)))
           with _ -> Scanf.sscanf rs "LoopRange(%d,None)" (fun a -> LR (n_of_int a, None))) in
        expect '('; let a = term () in expect ')'; mk i (NLoop (a, r))
    | 'U' | 'I' ->
        expect '(';
        let items = ref [] in
        if peek () <> ')' then begin
          items := [term ()];
          while peek () = ',' do adv (); items := term () :: !items done
        end;
        expect ')';
        let l = List.rev !items in
        mk i (if kind = 'U' then NUnion l else NInter l)
    | _ -> failwith "dump: constructor"
  in
  let t = term () in
  if !pos <> n then failwith "dump: trailing characters";
  t
(* ids erased: two dumps that differ only in the hash-consing ids *)
let erase_ids (str : string) : string =
  let bf = Buffer.create (String.length str) in
  let n = String.length str in
  let i = ref 0 in
  while !i < n do
    let ch = str.[!i] in
    Buffer.add_char bf ch;
    incr i;
    if (ch = 'E' || ch = 'e' || ch = 'R' || ch = 'C' || ch = 'N' || ch = 'L' || ch = 'U' || ch = 'I')
       && !i < n && str.[!i] >= '0' && str.[!i] <= '9' && (!i < 2 || str.[!i - 2] <> 'p')
    then (while !i < n && str.[!i] >= '0' && str.[!i] <= '9' do incr i done)
  done;
  Buffer.contents bf
let ids_line l = Printf.sprintf "%d %s" (List.length l) (String.concat "," (List.map (fun r -> sn (rid r)) l))
let cid_of = function "c" -> CComp | t -> CInt (nat_of_int (int_of_string t))
let cid_show = function CComp -> "c" | CInt i -> string_of_int (int_of_nat i)
let word_show w = String.concat " " (string_of_int (List.length w) :: List.map sn w)
let all_words alpha k =
  let res = ref [ [] ] and last = ref [ [] ] in
  for _ = 1 to k do
    let next = List.concat_map (fun w -> List.map (fun c -> w @ [c]) alpha) !last in
    res := !res @ next; last := next
  done; !res

type st = { mutable m : mgr; mutable v : (re * prog) list (* reversed *) ; mutable n : int }
let nth st i = List.nth st.v (st.n - 1 - i)
let term st c = nth st (ci c)
let terms st c = let k = ci c in List.init k (fun _ -> term st c)
let push st (m, r) p = st.m <- m; st.v <- (r, p) :: st.v; st.n <- st.n + 1; dump r

(* one statement: returns the printed result *)
let stmt st toks =
  let c = cur_of toks in
  let op = next c in
  match op with
  | "none" -> push st (st.m, st.m.m_empty) PNone
  | "eps" -> push st (st.m, st.m.m_eps) PEps
  | "all" -> push st (st.m, st.m.m_full) PAll
  | "allchar" -> push st (st.m, st.m.m_sigma) PAllChar
  | "splus" -> push st (st.m, st.m.m_splus) (PLoop (PAllChar, n_of_int 1, None))
  | "char" -> let x = cn c in push st (get (mchar st.m x)) (PRange (x, x))
  | "range" -> let a = cn c in let b = cn c in push st (get (range st.m a b)) (PRange (a, b))
  | "charset" -> let a = cn c in let b = cn c in push st (get (char_set st.m (a, b))) (PRange (a, b))
  | "smtrange" -> let w1 = cword c in let w2 = cword c in push st (get (smt_range st.m w1 w2)) (p_smtrange w1 w2)
  | "str" -> let w = cword c in push st (get (mstr st.m w)) (PStr w)
  | "concat" -> let (a, pa) = term st c in let (b, pb) = term st c in push st (get (concat a st.m b)) (PConcat (pa, pb))
  | "concatl" -> let l = terms st c in push st (get (concat_list st.m (List.map fst l))) (p_concat_list (List.map snd l))
  | "union" -> let (a, pa) = term st c in let (b, pb) = term st c in push st (get (union st.m a b)) (PUnion (pa, pb))
  | "unionl" -> let l = terms st c in push st (get (union_list st.m (List.map fst l))) (p_union_list (List.map snd l))
  | "inter" -> let (a, pa) = term st c in let (b, pb) = term st c in push st (get (inter st.m a b)) (PInter (pa, pb))
  | "interl" -> let l = terms st c in push st (get (inter_list st.m (List.map fst l))) (p_inter_list (List.map snd l))
  | "comp" -> let (a, pa) = term st c in push st (st.m, get (complement st.m a)) (PComp pa)
  | "diff" -> let (a, pa) = term st c in let (b, pb) = term st c in push st (get (diff st.m a b)) (PDiff (pa, pb))
  | "diffl" -> let (a, pa) = term st c in let l = terms st c in
      push st (get (diff_list st.m a (List.map fst l))) (p_diff_list pa (List.map snd l))
  | "star" -> let (a, pa) = term st c in push st (get (star st.m a)) (PLoop (pa, N0, None))
  | "plus" -> let (a, pa) = term st c in push st (get (plus st.m a)) (PLoop (pa, n_of_int 1, None))
  | "opt" -> let (a, pa) = term st c in push st (get (opt st.m a)) (PLoop (pa, N0, Some (n_of_int 1)))
  | "pow" -> let (a, pa) = term st c in let k = cn c in push st (get (exp st.m a k)) (PLoop (pa, k, Some k))
  | "loop" -> let (a, pa) = term st c in let i = cn c in let j = cn c in
      push st (get (smt_loop st.m a i j)) (PLoop (pa, i, Some j))
  | "loopinf" -> let (a, pa) = term st c in let i = cn c in push st (get (loop_inf st.m a i)) (PLoop (pa, i, None))
  | "deriv" -> let (a, pa) = term st c in let x = cn c in push st (get (char_derivative st.m a x)) (PDeriv (pa, x))
  | "sderiv" -> let (a, pa) = term st c in let w = cword c in push st (get (str_derivative st.m a w)) (p_sderiv pa w)
  | "classder" -> let (a, pa) = term st c in let k = cid_of (next c) in
      (match get (class_derivative st.m a k) with
       | (m1, DOk r) -> push st (m1, r) (PDeriv (pa, get (ppick (rcls a) k)))
       | (m1, DErr e) -> ignore (push st (m1, a) pa); "ERR " ^ (match e with BadClassId -> "BadClassId" | AmbiguousCharSet -> "AmbiguousCharSet"))
  | "setder" -> let (a, pa) = term st c in let x = cn c in let y = cn c in
      (match get (set_derivative st.m a (x, y)) with
       | (m1, DOk r) -> push st (m1, r) (PDeriv (pa, x))
       | (m1, DErr e) -> ignore (push st (m1, a) pa); "ERR " ^ (match e with BadClassId -> "BadClassId" | AmbiguousCharSet -> "AmbiguousCharSet"))
  | "dump" -> dump (fst (term st c))
  | "subterms" -> let (a, _) = term st c in
      (* a fixed fuel: whatever sub_terms_fuel returns is what sub_terms returns (C07c_sub_terms_fuel_some) *)
      let l = get (sub_terms_fuel fuel a) in
      ids_line l ^ " @ " ^ dump a
  | "leaves" -> let (a, _) = term st c in
      let l = get (leaves_fuel fuel a) in
      ids_line l ^ " @ " ^ dump a
  | "reinfo" -> let (a, _) = term st c in let k = ci c in
      let cids = List.init k (fun _ -> cid_of (next c)) in
      Printf.sprintf "empty=%s n=%d valid=%s" (b (re_is_empty a)) (int_of_nat (re_num_deriv_classes a))
        (String.concat "" (List.map (fun x -> b (re_valid_class_id a x)) cids))
  | "nullable" -> b (rnul (fst (term st c)))
  | "mem" -> let (a, _) = term st c in let w = cword c in
      let (m1, r) = get (str_in_re st.m w a) in st.m <- m1; b r
  | "memall" -> let (a, _) = term st c in let k = ci c in let alpha = cword c in
      String.concat "" (List.map (fun w -> let (m1, r) = get (str_in_re st.m w a) in st.m <- m1; b r) (all_words alpha k))
  | "classes" -> let (a, _) = term st c in let p = rcls a in
      Printf.sprintf "ids=%s ranges=%s n=%d ec=%s" (String.concat "," (List.map cid_show (pclass_ids p)))
        (String.concat "," (List.map cs_show p.ivs)) (List.length p.ivs) (b (pempty_complement p))
  | "iter" -> let (a, _) = term st c in let (m1, l) = get (iter_derivatives fuel st.m a) in st.m <- m1;
      Printf.sprintf "%d %s first=%s" (List.length l) (String.concat "," (List.map (fun r -> sn (rid r)) l))
        (b (match l with r :: _ -> re_eqb r a | [] -> false))
  | "iterdump" -> let (a, _) = term st c in let (m1, l) = get (iter_derivatives fuel st.m a) in st.m <- m1;
      Printf.sprintf "%d %s" (List.length l) (String.concat " " (List.map dump l))
  | "empty" -> let (a, _) = term st c in let (m1, r) = get (is_empty_re fuel st.m a) in st.m <- m1; b r
  | "getstr" -> let (a, _) = term st c in let (m1, r) = get (get_string fuel st.m a) in st.m <- m1;
      (match r with None -> "N" | Some w -> Printf.sprintf "S %s %s" (word_show w) (b (goodwb w)))
  | "startc" -> let (a, _) = term st c in let x = cn c in
      let (m1, r) = get (start_char fuel a st.m x) in st.m <- m1; b r
  | "startcl" -> let (a, _) = term st c in let k = cid_of (next c) in
      (match get (start_class fuel st.m a k) with
       | (m1, SOk r) -> st.m <- m1; b r
       | (m1, SErr _) -> st.m <- m1; "ERR BadClassId")
  | "incl" -> let (a, _) = term st c in let (d, _) = term st c in b (included_in a d)
  | "eq" -> let (a, _) = term st c in let (d, _) = term st c in let e = re_eqb a d in b e ^ " " ^ b e
  | "same" | "differ" -> let (a, _) = term st c in let (d, _) = term st c in let e = re_eqb a d in b e ^ " " ^ b e
  | "closure" -> let (a, _) = term st c in let chars = cword c in
      let (m1, l) = get (iter_derivatives fuel st.m a) in st.m <- m1;
      let (m2, l) = get (iter_derivatives fuel st.m a) in st.m <- m2;
      let ids = List.map rid l in
      let res = ref "T" in
      (try List.iter (fun r ->
         let cs = chars @ List.concat_map (fun (x, y) -> [x; y]) (rcls r).ivs in
         List.iter (fun x ->
           let (m3, d) = get (char_derivative st.m r x) in st.m <- m3;
           if not (List.mem (rid d) ids) then (res := Printf.sprintf "F %s %s" (sn (rid r)) (sn x); raise Exit)) cs) l
       with Exit -> ());
      !res
  | "nextall" -> let (a, _) = term st c in let chars = cword c in
      (match get (compile_with_bound fuel st.m a None) with
       | (m1, Some aut) -> st.m <- m1;
         String.concat "," (List.concat_map (fun s -> List.map (fun x -> string_of_int (int_of_nat (get (a_next aut s x)))) chars) aut.astates)
       | (_, None) -> raise Panic)
  | "replre" -> let (a, _) = term st c in let s1 = cword c in let s2 = cword c in
      let (m1, r) = get (str_replace_re st.m s1 a s2) in st.m <- m1; word_show r ^ " " ^ b (goodwb r)
  | "replreall" -> let (a, _) = term st c in let s1 = cword c in let s2 = cword c in
      let (m1, r) = get (str_replace_re_all st.m s1 a s2) in st.m <- m1; word_show r ^ " " ^ b (goodwb r)
  | "ctorstr" -> let kind = next c in let xs = cword c in
      let is_char x = let x = int_of_n x in (x < 0xD800 || x > 0xDFFF) && x <= 0x10FFFF in
      let w = match kind with
        | "str" | "string" -> from_str (List.filter is_char xs)
        | "char" -> from_char (List.hd xs)
        | "u32" -> from_u32 (List.hd xs)
        | "slice" -> from_slice xs
        | "vec" -> from_vec xs
        | "parse" -> get (parse_smt_literal (List.filter is_char xs))
        | _ -> failwith "bad kind" in
      let (m1, r) = get (mstr st.m w) in st.m <- m1;
      let (m2, mem) = get (str_in_re st.m w r) in st.m <- m2;
      st.v <- (r, PStr w) :: st.v; st.n <- st.n + 1;
      let ascii = List.for_all (fun x -> let x = int_of_n x in x >= 32 && x < 127) (smt_display w) in
      Printf.sprintf "word=%s good=%s re=%s mem=%s ascii=%s" (String.concat "," (string_of_int (List.length w) :: List.map sn w))
        (b (goodwb w)) (dump r) (b mem) (b ascii)
  | "compile" -> let (a, _) = term st c in
      (match get (compile_with_bound fuel st.m a None) with
       | (m1, Some aut) -> st.m <- m1; dump_aut aut
       | (_, None) -> raise Panic)
  | "trycompile" -> let (a, _) = term st c in let k = ci c in
      (* the bound only matters relative to the number of states, which is below the fuel: clamp huge
         bounds (2^32 and beyond) so that the unary nat stays small *)
      (match get (compile_with_bound fuel st.m a (Some (nat_of_int (min k 100000)))) with
       | (m1, Some aut) -> st.m <- m1; "S " ^ string_of_int (int_of_nat aut.num_states)
       | (m1, None) -> st.m <- m1; "N")
  | "accepts" -> let (a, _) = term st c in let k = ci c in let alpha = cword c in
      (match get (compile_with_bound fuel st.m a None) with
       | (m1, Some aut) -> st.m <- m1;
         String.concat "" (List.map (fun w -> b (get (a_accepts aut w))) (all_words alpha k))
       | (_, None) -> raise Panic)
  | "minimize" -> let (a, _) = term st c in
      (match get (compile_with_bound fuel st.m a None) with
       | (m1, Some aut) -> st.m <- m1; dump_aut (get (minimize aut))
       | (_, None) -> raise Panic)
  | _ -> failwith ("bad stmt " ^ op)

let split_stmts toks =
  let rec go cur acc = function
    | [] -> List.rev (if cur = [] then acc else List.rev cur :: acc)
    | ";" :: t -> go [] (if cur = [] then acc else List.rev cur :: acc) t
    | x :: t -> go (x :: cur) acc t in
  go [] [] toks

let strip_w toks = match toks with "W" :: t -> t | t -> t
let run_states toks =
  let toks = strip_w toks in
  let st = { m = new_mgr; v = []; n = 0 } in
  let out = ref [] in
  (try List.iter (fun s -> out := stmt st s :: !out) (split_stmts toks)
   with Panic -> out := "PANIC" :: !out);
  (st, List.rev !out)
let run toks = String.concat " ; " (snd (run_states toks))

(* ---------- oracle: judge the implementation's own answers with the reference matcher ---------- *)
let split_results line =
  let re = Str.regexp_string " ; " in Str.split_delim re line
let crit_alpha toks =
  (* characters mentioned in the case (numbers <= MAXC) are too many; use those of char/range/str *)
  let acc = ref [] in
  let add x = if not (List.mem x !acc) && x >= 0 && x <= 196607 then acc := x :: !acc in
  List.iter (fun s ->
    match s with
    | "char" :: x :: _ -> add (int_of_string x)
    | ("range" | "charset") :: a :: bb :: _ -> let a = int_of_string a and bb = int_of_string bb in
        add a; add bb; add (a - 1); add (bb + 1)
    | "str" :: _ :: w -> List.iter (fun x -> add (int_of_string x)) w
    | ("deriv" | "startc") :: _ :: x :: _ -> add (int_of_string x)
    | _ -> ()) (split_stmts toks);
  let l = List.sort compare !acc in
  let l = if l = [] then [97] else l in
  (* keep the alphabet small: at most 4 symbols *)
  let rec take k = function [] -> [] | x :: t -> if k = 0 then [] else x :: take (k - 1) t in
  List.map n_of_int (take 4 l)

let is_err r = String.length r >= 3 && String.sub r 0 3 = "ERR"
let oracle toks impl model =
  let toks = strip_w toks in
  let stmts = split_stmts toks in
  let res = split_results impl in
  let mres = split_results model in
  let iter_count : (int, int) Hashtbl.t = Hashtbl.create 7 in
  (* try_compile answers seen before the number of derivatives of the term is known: judged as soon
     as an iter statement on the same term supplies the count *)
  let pending_tc : (int * int * string * int * string list) list ref = ref [] in
  let judge_tc cnt (bound, r, i, s) bad_ =
    let exp = if cnt <= bound && bound > 0 then "S " ^ string_of_int cnt else "N" in
    if r <> exp && r <> "PANIC" then
      bad_ i s (Printf.sprintf "try_compile = %s but iter_derivatives yields %d terms (bound %d): expected %s" r cnt bound exp) in
  (* replay the case on the model to obtain the programs of the values (programs do not depend on
     the model's answers, only on the statements) *)
  let st = { m = new_mgr; v = []; n = 0 } in
  let alpha = lazy (crit_alpha toks) in
  let words k = all_words (Lazy.force alpha) k in
  let fail = ref None in
  let bad i s msg = if !fail = None then fail := Some (Printf.sprintf "statement %d (%s): %s" i (String.concat " " s) msg) in
  (try
    List.iteri (fun i s ->
      let r = try List.nth res i with _ -> "MISSING" in
      let mr = try List.nth mres i with _ -> "MISSING" in
      let prog_of k = snd (nth st k) in
      let c = cur_of s in
      let op = next c in
      (match op with
       | "mem" -> let p = prog_of (ci c) in let w = cword c in
           if r <> b (mref p w) then bad i s ("membership " ^ r ^ " but the SMT-LIB denotation says " ^ b (mref p w))
       | "memall" -> let p = prog_of (ci c) in let k = ci c in let al = cword c in
           let exp = String.concat "" (List.map (fun w -> b (mref p w)) (all_words al k)) in
           if r <> exp then bad i s ("membership bits " ^ r ^ " differ from the SMT-LIB denotation " ^ exp)
       | "accepts" -> let p = prog_of (ci c) in let k = ci c in let al = cword c in
           let exp = String.concat "" (List.map (fun w -> b (mref p w)) (all_words al k)) in
           if r <> exp then bad i s ("compiled automaton accepts " ^ r ^ " but the denotation is " ^ exp)
       | "nullable" -> let p = prog_of (ci c) in
           if r <> b (mref p []) then bad i s ("nullable flag " ^ r ^ " but epsilon-membership is " ^ b (mref p []))
       | "empty" -> let p = prog_of (ci c) in
           if r <> mr && mr <> "PANIC" then
             bad i s ("is_empty_re = " ^ r ^ " but the verified emptiness decision says " ^ mr);
           if r = "T" then (match List.find_opt (fun w -> mref p w) (words 4) with
             | Some w -> bad i s ("is_empty_re = true but the word [" ^ word_show w ^ "] is in the language")
             | None -> ())
           else if r <> "F" then bad i s ("unexpected result " ^ r)
       | "getstr" -> let p = prog_of (ci c) in
           (match String.split_on_char ' ' r with
            | ["N"] -> (match List.find_opt (fun w -> mref p w) (words 4) with
                | Some w -> bad i s ("get_string = None but the word [" ^ word_show w ^ "] is in the language")
                | None -> ())
            | "S" :: _ :: rest ->
              let rec splitlast = function [x] -> ([], x) | x :: t -> let (a, l) = splitlast t in (x :: a, l) | [] -> ([], "") in
              let (ws, good) = splitlast rest in
              let w = List.map n ws in
              if good <> "T" then bad i s "get_string returned a string that is not is_good"
              else if not (mref p w) then bad i s ("get_string returned a word outside the language: " ^ r)
            | _ -> bad i s ("unexpected result " ^ r))
       | "startc" -> let p = prog_of (ci c) in let x = cn c in
           if r = "F" then (match List.find_opt (fun w -> mref p (x :: w)) (words 3) with
             | Some w -> bad i s ("start_char = false but [" ^ word_show (x :: w) ^ "] is in the language")
             | None -> ());
           if r <> mr && mr <> "PANIC" then
             bad i s ("start_char = " ^ r ^ " but the verified decision procedure (derivative + emptiness) says " ^ mr)
       | "startcl" ->
           if r <> mr && mr <> "PANIC" then bad i s ("start_class = " ^ r ^ " but the verified decision procedure says " ^ mr)
       | "setder" | "classder" ->
           if is_err r <> is_err mr || (is_err r && r <> mr) then
             bad i s ("result " ^ r ^ " but the class structure of the term requires " ^ (if is_err mr then mr else "Ok(derivative)"))
       | "iter" -> let k = ci c in
           (match String.split_on_char ' ' r with
            | cnt :: ids :: _ ->
              let ids = String.split_on_char ',' ids in
              Hashtbl.replace iter_count k (int_of_string cnt);
              List.iter (fun (k', bound, r', i', s') -> if k' = k then judge_tc (int_of_string cnt) (bound, r', i', s') bad) !pending_tc;
              pending_tc := List.filter (fun (k', _, _, _, _) -> k' <> k) !pending_tc;
              if List.length (List.sort_uniq compare ids) <> List.length ids then bad i s "iter_derivatives yields a term twice";
              if not (List.mem "first=T" (String.split_on_char ' ' r)) then bad i s "iter_derivatives does not yield e first";
              if int_of_string cnt <> List.length ids then bad i s "count mismatch"
            | _ -> bad i s ("unexpected result " ^ r))
       | "incl" -> let p = prog_of (ci c) in let q = prog_of (ci c) in
           if r = "T" then (match List.find_opt (fun w -> mref p w && not (mref q w)) (words 4) with
             | Some w -> bad i s ("included_in = true but [" ^ word_show w ^ "] is in the first language only")
             | None -> ())
       | "ctorstr" ->
           let has x = List.mem x (String.split_on_char ' ' r) in
           if not (has "good=T") then bad i s "a constructor / parser handed out a string that is not is_good"
           else if not (has "mem=T") then bad i s "the string is not a member of its own str.to_re language"
           else if not (has "ascii=T") then bad i s "Display printed a non-ASCII character"
           else if erase_ids r <> erase_ids mr then bad i s ("result differs from the verified model: " ^ mr)
           (* equal up to hash-consing ids (not observable through the API): a broken tie, not a failing input *)
       | "replre" | "replreall" ->
           (* the SMT-LIB value is unique (C10_replace_re_complete / C10_replace_re_all_complete) and the
              model is proved to return it: any other answer violates the property *)
           if r <> mr && mr <> "PANIC" then
             bad i s ("result [" ^ r ^ "] is not the SMT-LIB value [" ^ mr ^ "] (leftmost, then shortest match)")
       | "subterms" | "leaves" ->
           (* judged on the implementation's own term: its dump is parsed back and the verified
              sub_terms / leaves (C07c) are evaluated on it; a difference from the model's line that is
              only a renumbering of ids stays a broken correspondence *)
           (match String.index_opt r '@' with
            | Some k when k >= 1 && k + 2 <= String.length r ->
                let ids = String.trim (String.sub r 0 k) in
                let dmp = String.sub r (k + 2) (String.length r - k - 2) in
                (match (try Some (parse_dump dmp) with _ -> None) with
                 | Some t ->
                     let expect = ids_line (get ((if op = "subterms" then sub_terms_fuel else leaves_fuel) fuel t)) in
                     if ids <> expect then bad i s ("result [" ^ ids ^ "] but the structure of the term itself gives [" ^ expect ^ "]")
                 | None -> if r <> mr && mr <> "PANIC" then bad i s ("unparsable dump; result [" ^ r ^ "] model [" ^ mr ^ "]"))
            | _ -> if r <> mr && mr <> "PANIC" then bad i s ("result [" ^ r ^ "] but the term's structure gives [" ^ mr ^ "]"))
       | "reinfo" ->
           (* no ids involved: emptiness, number of derivative classes, validity of class ids *)
           if r <> mr && mr <> "PANIC" then bad i s ("result [" ^ r ^ "] but the term's structure gives [" ^ mr ^ "]")
       | "same" -> if r <> "T T" then bad i s ("the same construction gave a different term: " ^ r)
       | "differ" -> if r <> "F F" then bad i s ("terms that must differ compare equal: " ^ r)
       | "closure" -> if r <> "T" then bad i s ("the yielded set is not closed under char_derivative: " ^ r)
       | "eq" -> (match String.split_on_char ' ' r with
            | [a; bb] -> if a <> bb then bad i s "== and pointer identity disagree"
            | _ -> bad i s ("unexpected result " ^ r))
       | "trycompile" -> let k = ci c in let bound = ci c in
           (match Hashtbl.find_opt iter_count k with
            | Some cnt ->
              let exp = if cnt <= bound && bound > 0 then "S " ^ string_of_int cnt else "N" in
              if r <> exp then bad i s (Printf.sprintf "try_compile = %s but iter_derivatives yielded %d terms (bound %d): expected %s" r cnt bound exp)
            | None -> pending_tc := (k, bound, r, i, s) :: !pending_tc)
       | _ -> ());
      (* advance the model state to keep programs / values aligned *)
      ignore (stmt st s)) stmts
  with Panic -> () | Failure _ -> () | Not_found -> () | Invalid_argument _ -> ());
  !fail
