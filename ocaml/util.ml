(* conversions between OCaml ints/strings and the extracted Coq numbers *)
open Model
let rec pos_of_int n = if n = 1 then XH else if n land 1 = 0 then XO (pos_of_int (n lsr 1)) else XI (pos_of_int (n lsr 1))
let n_of_int n = if n = 0 then N0 else if n < 0 then failwith "n_of_int" else Npos (pos_of_int n)
let rec int_of_pos = function XH -> 1 | XO p -> 2 * int_of_pos p | XI p -> 2 * int_of_pos p + 1
let int_of_n = function N0 -> 0 | Npos p -> int_of_pos p
let rec nat_of_int n = if n <= 0 then O else S (nat_of_int (n-1))
let rec int_of_nat = function O -> 0 | S k -> 1 + int_of_nat k
let n s = n_of_int (int_of_string s)
let sn x = string_of_int (int_of_n x)
let b x = if x then "T" else "F"
exception Panic
let get = function Some x -> x | None -> raise Panic

(* token cursor *)
type cur = { t : string array; mutable p : int }
let cur_of l = { t = Array.of_list l; p = 0 }
let next c = let x = c.t.(c.p) in c.p <- c.p + 1; x
let cn c = n (next c)
let ci c = int_of_string (next c)
let cdone c = c.p >= Array.length c.t
let cword c = let k = ci c in List.init k (fun _ -> cn c)
