open Model
open Util
let cs_show (a, b) = sn a ^ "-" ^ sn b
let dump_aut (a : automaton) =
  let st (s : astate) =
    let trs = List.map2 (fun iv t -> Printf.sprintf "%s>%d" (cs_show iv) (int_of_nat t)) s.a_classes.ivs s.a_succ in
    Printf.sprintf "s%d:%s:[%s]:d=%s" (int_of_nat s.a_id) (if s.a_final then "F" else "N") (String.concat "," trs)
      (match s.a_default with Some d -> string_of_int (int_of_nat d) | None -> "-") in
  Printf.sprintf "n=%d f=%d i=%d | %s" (int_of_nat a.num_states) (int_of_nat a.num_final) (int_of_nat a.initial)
    (String.concat " " (List.map st a.astates))
let table_str (a : automaton) =
  let al = pick_alphabet a in
  let t = get (compile_successors a) in
  let n = int_of_nat a.num_states in
  let cells = List.concat (List.init n (fun s -> List.mapi (fun i _ -> string_of_int (int_of_nat (ct_eval t (nat_of_int s) (nat_of_int i)))) al)) in
  Printf.sprintf "A=%s T=%s" (String.concat "," (List.map sn al)) (String.concat "," cells)
