(* engine "literal" (C08, and the constructors of C17): model side.
   Words and texts are length-prefixed lists of code points. *)
open Model
open Util
let show w = String.concat " " (string_of_int (List.length w) :: List.map sn w)
let flag w = show w ^ " " ^ b (goodwb w)
let maxc = int_of_n mAXC

let run toks =
  let c = cur_of toks in
  match next c with
  | "parse" -> show (get (parse_smt_literal (cword c)))
  | "display" -> show (smt_display (from_slice (cword c)))
  | "roundtrip" ->
      let s = from_slice (cword c) in
      show (get (parse_smt_literal (lit_undouble (lit_body (smt_display s)))))
  | "char_to_smt" -> show (char_to_smt (cn c))
  | "smt_char_as_string" -> show (smt_char_as_string (cn c))
  | "from_str" | "from_string" -> flag (from_str (cword c))
  | "from_char" -> flag (from_char (cn c))
  | "from_u32" -> flag (from_u32 (cn c))
  | "from_slice" -> flag (from_slice (cword c))
  | "from_vec" -> flag (from_vec (cword c))
  | "from_array" -> flag (from_array (cword c))
  | "accessors" ->
      let s = from_slice (cword c) in
      let len = int_of_nat (smt_len s) in
      let chars = List.init len (fun i -> get (smt_char s (nat_of_int i))) in
      Printf.sprintf "len=%d empty=%s good=%s uni=%s chars=%s iter=%s ustr=%s" len (b (smt_is_empty s))
        (b (smt_is_good s)) (b (smt_is_unicode s)) (show chars) (show (smt_iter s)) (show (smt_to_unicode_string s))
  | "charat" -> let s = from_slice (cword c) in let i = ci c in sn (get (smt_char s (nat_of_int i)))
  | "good_char" -> b (good_char (cn c))
  | "good_string" -> b (good_string (cword c))
  | _ -> failwith "bad op"

(* property oracle.  parse / roundtrip / constructors: the specification determines the result
   (C08_parse_is_ref, C08_roundtrip, ctor_good), so it is equality with the verified model.
   display / char printers: the property leaves the printed form free; the implementation's own
   output must be printable ASCII, quote the double quote by doubling it and nothing else, and
   read back (through the verified parser = lit_parse_ref) as the original string. *)
let word_of_line r =
  match List.filter (fun s -> s <> "") (String.split_on_char ' ' r) with
  | [] -> failwith "empty result"
  | k :: rest ->
      let k = int_of_string k in
      let l = List.map int_of_string rest in
      if List.length l <> k then failwith "length prefix"; l

(* undo doubling; None when a lone double quote occurs *)
let rec undouble_strict = function
  | [] -> Some []
  | 34 :: 34 :: r -> (match undouble_strict r with Some u -> Some (34 :: u) | None -> None)
  | 34 :: _ -> None
  | x :: r -> (match undouble_strict r with Some u -> Some (x :: u) | None -> None)

let check_printed ~quoted txt (s : int list) =
  if not (List.for_all (fun c -> 32 <= c && c <= 126) txt) then Some "printed form is not printable ASCII"
  else
    let bodyo =
      if not quoted then Some txt
      else match txt with
        | 34 :: r when r <> [] && List.nth r (List.length r - 1) = 34 ->
            Some (List.filteri (fun i _ -> i < List.length r - 1) r)
        | _ -> None in
    match bodyo with
    | None -> Some "printed form is not enclosed in double quotes"
    | Some bd ->
      match undouble_strict bd with
      | None -> Some "a double quote is printed without being doubled"
      | Some u ->
        let back = parse_smt_literal (List.map n_of_int u) in
        (match back with
         | None -> Some "reference parser panics on the printed form"
         | Some w ->
           let w = List.map int_of_n w in
           if w = s then None
           else Some ("printed form reads back as " ^ String.concat " " (List.map string_of_int w)))

let oracle toks r m =
  let c = cur_of toks in
  let op = next c in
  let strict () = if r = m then None else Some "impl differs from the verified model (spec determines the result uniquely)" in
  (* char(i) is documented to panic out of range: PANIC must coincide with the model's *)
  if op = "charat" then strict ()
  else if r = "PANIC" || r = "ABORT" || r = "TIMEOUT" || r = "MISSING" then Some ("impl: " ^ r)
  else match op with
  | "display" ->
      let s = List.map int_of_n (from_slice (cword c)) in
      check_printed ~quoted:true (word_of_line r) s
  | "char_to_smt" | "smt_char_as_string" ->
      let x = int_of_string (next c) in
      if x <= maxc then check_printed ~quoted:false (word_of_line r) [x] else strict ()
  | _ -> strict ()
