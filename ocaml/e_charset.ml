open Model
open Util
let cs c = let a = cn c in let b = cn c in (a, b)
let show (a, b) = sn a ^ " " ^ sn b
let opt = function None -> "N" | Some s -> "S " ^ show s
let run toks =
  let c = cur_of toks in
  match next c with
  | "contains" -> let s = cs c in b (cs_contains s (cn c))
  | "covers" -> let s = cs c in let o = cs c in b (cs_covers s o)
  | "before" -> let s = cs c in b (cs_is_before s (cn c))
  | "after" -> let s = cs c in b (cs_is_after s (cn c))
  | "size" -> sn (get (cs_size (cs c)))
  | "singleton" -> b (cs_is_singleton (cs c))
  | "alphabet" -> b (cs_is_alphabet (cs c))
  | "pick" -> sn (cs_pick (cs c))
  | "mk" -> (match next c with "single" -> show (cs_singleton (cn c)) | _ -> show cs_all)
  | "inter" -> let s = cs c in let o = cs c in opt (cs_inter s o)
  | "union" -> let s = cs c in let o = cs c in opt (get (cs_union s o))
  | "interlist" -> let k = ci c in let l = List.init k (fun _ -> cs c) in opt (cs_inter_list l)
  | "pcmp" -> let s = cs c in let o = cs c in
      let r = cs_pcmp s o in
      (match r with OrdEq -> "EQ" | OrdLt -> "LT" | OrdGt -> "GT" | OrdNone -> "NONE") ^ " " ^ b (cs_eqb s o) ^ " "
      (* <, <=, >, >= are the provided methods of PartialOrd: determined by partial_cmp; != by == *)
      ^ b (r = OrdLt) ^ b (r = OrdLt || r = OrdEq) ^ b (r = OrdGt) ^ b (r = OrdGt || r = OrdEq) ^ b (not (cs_eqb s o))
  | _ -> failwith "bad op"
