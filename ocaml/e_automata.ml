(* model side of the "automata" engine + oracles for C13 (builder), C14 (prune / table), C04 (minimize) *)
open Model
open Util
open Autdump

let all_words alpha k =
  let res = ref [ [] ] and last = ref [ [] ] in
  for _ = 1 to k do
    let next = List.concat_map (fun w -> List.map (fun c -> w @ [c]) alpha) !last in
    res := !res @ next; last := next
  done; !res
let split_stmts = E_regex.split_stmts
let split_results = E_regex.split_results

let parse_bop s =
  let c = cur_of s in
  match next c with
  | "new" -> Some (BNew (cn c))
  | "add" -> let k = cn c in let a = cn c in let bb = cn c in let k2 = cn c in Some (BAdd (k, (a, bb), k2))
  | "def" -> let k = cn c in let k2 = cn c in Some (BDef (k, k2))
  | "fin" -> Some (BFin (cn c))
  | _ -> None

let observe (a : automaton) s : automaton * string =
  let c = cur_of s in
  match next c with
  | "dump" -> (a, dump_aut a)
  | "table" -> (a, table_str a)
  | "alphabet" -> (a, String.concat "," (List.map sn (pick_alphabet a)))
  | "nextall" -> let chars = cword c in
      (a, String.concat "," (List.concat_map (fun st -> List.map (fun x -> string_of_int (int_of_nat (get (a_next a st x)))) chars) a.astates))
  | "csnext" -> let st = ci c in let x = cn c in let y = cn c in
      (* Automaton::state(st) panics out of range; CharSet::range debug-asserts x <= y <= MAX_CHAR *)
      let s0 = get (a_state_at a (nat_of_int st)) in
      if not (cs_validb (x, y)) then raise Panic;
      (match get (a_char_set_next a s0 (x, y)) with
       | None -> (a, "ERR AmbiguousCharSet")
       | Some t -> (a, string_of_int (int_of_nat t.a_id)))
  | "stateinfo" -> let probes = cword c in
      let cid_show = function CComp -> "c" | CInt i -> string_of_int (int_of_nat i) in
      let nat_s k = string_of_int (int_of_nat k) in
      let ini = get (a_initial_state a) in
      let hd = Printf.sprintf "i=%s n=%s nf=%s F=%s" (nat_s ini.a_id) (nat_s (a_num_states a)) (nat_s (a_num_final_states a))
                 (String.concat "," (List.map (fun (t : astate) -> nat_s t.a_id) (a_final_states a))) in
      let one k (s : astate) =
        let st = get (a_state_at a (nat_of_int k)) in
        let ns = s_num_successors s in
        let d = match s_default_successor s with Some d -> nat_s d | None -> "-" in
        let dd = match get (a_default_successor a s) with Some t -> nat_s t.a_id | None -> "-" in
        let cls = List.map cid_show (s_char_classes s) in
        let nx = List.map (fun cid -> nat_s (get (a_class_next a s cid)).a_id) (s_char_classes s) in
        let picks = List.map sn (s_char_picks s) in
        let rg = List.map cs_show (s_char_ranges s) in
        let pr = List.map (fun x -> cid_show (get (s_class_of_char s x)) ^ b (get (s_char_maps_to_default s x))) probes in
        Printf.sprintf "s%s:k=%s:ns=%s:hd=%s:d=%s:D=%s:v=%s%s%s:cls=%s:nx=%s:picks=%s:rg=%s:p=%s"
          (nat_s s.a_id) (nat_s st.a_id) (nat_s ns) (b (s_has_default_successor s)) d dd
          (b (s_valid_class_id s CComp)) (b (s_valid_class_id s (CInt O))) (b (s_valid_class_id s (CInt ns)))
          (String.concat "," cls) (String.concat "," nx) (String.concat "," picks) (String.concat "," rg) (String.concat "," pr) in
      (a, String.concat " " (hd :: List.mapi one (a_states a)))
  | "edges" ->
      (a, String.concat " " (List.map (fun (st : astate) ->
         let es = List.mapi (fun i t -> Printf.sprintf "%d>%d" i (int_of_nat t)) st.a_succ
                  @ (match st.a_default with Some d -> [Printf.sprintf "c>%d" (int_of_nat d)] | None -> []) in
         Printf.sprintf "s%d:%s" (int_of_nat st.a_id) (String.concat "," es)) a.astates))
  | "finals" ->
      let f = List.filter_map (fun (st : astate) -> if st.a_final then Some (string_of_int (int_of_nat st.a_id)) else None) a.astates in
      (a, Printf.sprintf "%s n=%d nf=%d" (String.concat "," f) (int_of_nat a.num_states) (int_of_nat a.num_final))
  | "acceptsall" -> let k = ci c in let alpha = cword c in
      (a, String.concat "" (List.map (fun w -> b (get (a_accepts a w))) (all_words alpha k)))
  | "prune" -> let r = remove_unreachable a in (r, dump_aut r)
  | "minimize" -> let r = get (minimize a) in (r, dump_aut r)
  | op -> failwith ("bad observation " ^ op)

let run toks =
  let out = ref [] in
  let h = ref [] in
  let aut = ref None in
  (try List.iter (fun s ->
     match parse_bop s with
     | Some o -> h := !h @ [o]
     | None ->
       (match s with
        | ["build"] ->
          (match get (build (run_history !h)) with
           | BOk a -> aut := Some a; out := ("OK " ^ dump_aut a) :: !out
           | BErr e -> out := ("ERR " ^ (match e with NonDisjointCharSets -> "NonDisjointCharSets"
                                         | EmptyComplementaryClass -> "EmptyComplementaryClass"
                                         | MissingDefaultSuccessor -> "MissingDefaultSuccessor")) :: !out)
        | ["buildu"] -> let a = get (build_unchecked (run_history !h)) in aut := Some a; out := ("OK " ^ dump_aut a) :: !out
        | _ -> (match !aut with
                | None -> out := "NOAUT" :: !out
                | Some a -> let (a', r) = observe a s in aut := Some a'; out := r :: !out)))
     (split_stmts toks)
   with Panic -> out := "PANIC" :: !out);
  String.concat " ; " (List.rev !out)

(* ---------- parsing the implementation's automaton dump ---------- *)
let parse_aut (d : string) : automaton =
  (* n=3 f=1 i=0 | s0:N:[49-98>1,..]:d=2 s1:... *)
  match Str.split_delim (Str.regexp_string " | ") d with
  | [hd; body] ->
    let kv = List.map (fun x -> match String.split_on_char '=' x with [k; v] -> (k, int_of_string v) | _ -> failwith "hdr") (String.split_on_char ' ' hd) in
    let states = List.filter (fun s -> s <> "") (String.split_on_char ' ' body) in
    let st s =
      match String.split_on_char ':' s with
      | [sid; fl; trs; dflt] ->
        let id = int_of_string (String.sub sid 1 (String.length sid - 1)) in
        let trs = String.sub trs 1 (String.length trs - 2) in
        let trl = if trs = "" then [] else String.split_on_char ',' trs in
        let tr x = Scanf.sscanf x "%d-%d>%d" (fun a bb t -> ((n_of_int a, n_of_int bb), nat_of_int t)) in
        let trl = List.map tr trl in
        let ivs = List.map fst trl in
        let d = String.sub dflt 2 (String.length dflt - 2) in
        { a_id = nat_of_int id; a_final = (fl = "F");
          a_classes = { ivs = ivs; wit = least_uncovered ivs N0 };
          a_succ = List.map snd trl; a_default = (if d = "-" then None else Some (nat_of_int (int_of_string d))) }
      | _ -> failwith ("state " ^ s) in
    { num_states = nat_of_int (List.assoc "n" kv); num_final = nat_of_int (List.assoc "f" kv);
      initial = nat_of_int (List.assoc "i" kv); astates = List.map st states }
  | [hd] when String.length hd >= 3 && String.sub hd 0 3 = "n=0" ->
    { num_states = O; num_final = O; initial = O; astates = [] }
  | _ -> failwith "automaton dump"

let strip_ok r = if String.length r > 3 && String.sub r 0 3 = "OK " then Some (String.sub r 3 (String.length r - 3)) else None

let crit_chars (h : bop list) =
  let acc = ref [0; 196607] in
  let add x = if x >= 0 && x <= 196607 && not (List.mem x !acc) then acc := x :: !acc in
  List.iter (function BAdd (_, (a, bb), _) -> let a = int_of_n a and bb = int_of_n bb in add a; add bb; add (a - 1); add (bb + 1) | _ -> ()) h;
  List.map n_of_int (List.sort compare !acc)

let oracle toks impl _model =
  let stmts = split_stmts toks in
  let res = Array.of_list (split_results impl) in
  let fail = ref None in
  let bad i s msg = if !fail = None then fail := Some (Printf.sprintf "statement %d (%s): %s" i (String.concat " " s) msg) in
  let h = ref [] in
  let cur : automaton option ref = ref None in
  let ri = ref 0 in
  List.iteri (fun i s ->
    match parse_bop s with
    | Some o -> h := !h @ [o]
    | None ->
      let r = if !ri < Array.length res then res.(!ri) else "MISSING" in
      incr ri;
      if r = "PANIC" && s <> ["buildu"] then bad i s "the implementation panicked"
      else
      (match s with
       | ["build"] ->
         let hh = !h in
         (match strip_ok r with
          | Some d ->
            let a = parse_aut d in
            cur := Some a;
            if not (spec_sound hh) then
              bad i s "build returned an automaton for a specification with a conflicting or uncovered character"
            else if not (aut_wfb a) then bad i s "the automaton returned is not well formed"
            else begin
              let names = h_names hh in
              if int_of_nat a.num_states <> List.length names then bad i s "number of states differs from the number of states mentioned";
              if int_of_nat a.initial <> 0 then bad i s "initial state is not the state given to new";
              List.iteri (fun id k ->
                let st = a_state a (nat_of_int id) in
                if st.a_final <> h_final hh k then bad i s (Printf.sprintf "finality of state %s differs from what was marked" (sn k));
                List.iter (fun c ->
                  let exp = match spec_delta hh k c with Some k' -> name_id hh k' | None -> None in
                  let got = a_next a st c in
                  if exp <> got then
                    bad i s (Printf.sprintf "delta(%s, %s) = %s but the caller specified %s" (sn k) (sn c)
                               (match got with Some x -> string_of_int (int_of_nat x) | None -> "none")
                               (match exp with Some x -> string_of_int (int_of_nat x) | None -> "none")))
                  (crit_chars hh)) names
            end
          | None ->
            if spec_strict hh then bad i s ("build rejected (" ^ r ^ ") a complete conflict-free specification that declares defaults only where needed"))
       | ["buildu"] -> (match strip_ok r with Some d -> cur := Some (parse_aut d) | None -> cur := None)
       | "prune" :: _ ->
         (match !cur with
          | Some a when r <> "NOAUT" ->
            let bb = parse_aut r in
            (match dfa_equiv a bb with
             | Some true -> ()
             | Some false -> bad i s "pruned automaton accepts a different language"
             | None -> bad i s "pruned automaton is not total");
            if not (aut_wfb bb) then bad i s "pruned automaton is not well formed";
            if int_of_nat bb.num_states <> List.length (reachable a) then
              bad i s (Printf.sprintf "kept %d states but %d are reachable" (int_of_nat bb.num_states) (List.length (reachable a)));
            if List.length (reachable bb) <> int_of_nat bb.num_states then bad i s "an unreachable state was kept";
            cur := Some bb
          | _ -> ())
       | "minimize" :: _ ->
         (match !cur with
          | Some a when r <> "NOAUT" ->
            let bb = parse_aut r in
            (match dfa_equiv a bb with
             | Some true -> ()
             | Some false -> bad i s "minimized automaton accepts a different language"
             | None -> bad i s "minimized automaton is not total");
            if not (aut_wfb bb) then bad i s "minimized automaton is not well formed (ids, successor arrays, defaults or final-state count)";
            (match collapsed bb with
             | Some true -> ()
             | Some false -> bad i s "two distinct states of the result accept the same residual language"
             | None -> bad i s "result not total");
            (match nerode_index a with
             | Some k -> if int_of_nat bb.num_states <> int_of_nat k then
                 bad i s (Printf.sprintf "result has %d states, the input has %d Nerode classes" (int_of_nat bb.num_states) (int_of_nat k))
             | None -> ());
            cur := Some bb
          | _ -> ())
       | "table" :: _ ->
         (match !cur with
          | Some a when r <> "NOAUT" ->
            (try Scanf.sscanf r "A=%s T=%s" (fun al cells ->
               let al = if al = "" then [] else List.map n (String.split_on_char ',' al) in
               let cells = if cells = "" then [] else List.map int_of_string (String.split_on_char ',' cells) in
               let m = List.length al in
               (* one representative of each class of the combined partition *)
               let exp_al = pick_alphabet a in
               if al <> exp_al then bad i s "pick_alphabet is not one representative per class of the combined partition";
               List.iteri (fun idx v ->
                 let st = idx / m and ci = idx mod m in
                 match a_step a (nat_of_int st) (List.nth al ci) with
                 | Some t -> if int_of_nat t <> v then bad i s (Printf.sprintf "table(%d,%d) = %d but next = %d" st ci v (int_of_nat t))
                 | None -> bad i s "next undefined") cells)
             with Scanf.Scan_failure _ | End_of_file | Failure _ -> bad i s ("cannot read " ^ r))
          | _ -> ())
       | "acceptsall" :: _ | "nextall" :: _ | "edges" :: _ | "finals" :: _ | "dump" :: _ | "alphabet" :: _ | "csnext" :: _ | "stateinfo" :: _ ->
         (* determined by the automaton just read back: recompute from the implementation's own dump *)
         (match !cur with
          | Some a when r <> "NOAUT" ->
            (try let (_, exp) = observe a s in
               if exp <> r then bad i s ("observation " ^ r ^ " disagrees with the automaton's own transition structure: " ^ exp)
             with Panic -> bad i s "undefined transition")
          | _ -> ())
       | _ -> ())) stmts;
  !fail
