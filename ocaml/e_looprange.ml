(* C15: model side of the LoopRange engine.  A range is `lo hi` with hi a number or `inf`;
   a None result of the model is the Rust panic (Util.get raises Panic). *)
open Model
open Util
let rg c = let a = cn c in let h = next c in if h = "inf" then LR (a, None) else LR (a, Some (n h))
let show = function LR (a, None) -> sn a ^ " inf" | LR (a, Some h) -> sn a ^ " " ^ sn h
let run toks =
  let c = cur_of toks in
  match next c with
  | "finite" -> let i = cn c in let j = cn c in show (lr_finite i j)
  | "infinite" -> show (lr_infinite (cn c))
  | "opt" -> show lr_opt
  | "star" -> show lr_star
  | "plus" -> show lr_plus
  | "point" -> show (lr_point (cn c))
  | "preds" -> let r = rg c in
      String.concat " " [b (lr_is_finite r); b (lr_is_infinite r); b (lr_is_point r); b (lr_is_zero r);
                         b (lr_is_one r); b (lr_is_all r); sn (lr_start r)]
  | "contains" -> let r = rg c in b (lr_contains r (cn c))
  | "includes" -> let r = rg c in let o = rg c in b (lr_includes r o)
  | "eq" -> let r = rg c in let o = rg c in b (lr_eqb r o)
  | "add" -> let r = rg c in let s = rg c in show (get (lr_add r s))
  | "addpt" -> let r = rg c in show (get (lr_add_point r (cn c)))
  | "scale" -> let r = rg c in show (get (lr_scale r (cn c)))
  | "mul" -> let r = rg c in let s = rg c in show (get (lr_mul r s))
  | "rmie" -> let r = rg c in let s = rg c in b (get (lr_rmie r s))
  (* checked variants: never panic on valid ranges, None exactly where the panicking variant panics
     (C15g_checked_add, C15g_checked_mul, C15g_checked_rmie in coq/gendep) *)
  | "cadd" -> let r = rg c in let s = rg c in (match lr_add r s with Some x -> "S " ^ show x | None -> "N")
  | "cmul" -> let r = rg c in let s = rg c in (match lr_mul r s with Some x -> "S " ^ show x | None -> "N")
  | "crmie" -> let r = rg c in let s = rg c in (match lr_rmie r s with Some x -> "S " ^ b x | None -> "N")
  | "shift" -> show (lr_shift (rg c))
  | _ -> failwith "bad op"
