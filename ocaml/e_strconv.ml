(* C09: model side of engine "strconv" (StrConv.v).
   Words are read as SmtString::from(&[u32]) builds them: a code point above MAX_CHAR becomes
   REPLACEMENT_CHAR.  None of the model = the Rust code panics. *)
open Model
open Util
let z_of_int i = if i = 0 then Z0 else if i > 0 then Zpos (pos_of_int i) else Zneg (pos_of_int (- i))
let int_of_z = function Z0 -> 0 | Zpos p -> int_of_pos p | Zneg p -> - (int_of_pos p)
let sz z = string_of_int (int_of_z z)
let word c = List.map (fun x -> if goodb x then x else rEPLC) (cword c)
let show w = String.concat " " (string_of_int (List.length w) :: List.map sn w)
let cz c = z_of_int (ci c)
let run toks =
  let c = cur_of toks in
  match next c with
  | "lt" -> let v = word c in let w = word c in b (get (str_lt v w))
  | "le" -> let v = word c in let w = word c in b (get (str_le v w))
  | "is_digit" -> b (get (str_is_digit (word c)))
  | "to_code" -> sz (get (str_to_code (word c)))
  | "from_code" -> show (str_from_code (cz c))
  | "to_int" -> sz (get (str_to_int (word c)))
  | "from_int" -> show (get (str_from_int (cz c)))
  | _ -> failwith "bad op"
