(* C11: CharPartition construction programs + queries, model side (see harness/src/e_partition.rs
   for the case grammar).  [run] computes the model's result line; [oracle] decides a line of the
   implementation that differs from the model's: everything the specification determines uniquely
   must be equal; a pick (pick i, pick_in_class, the picks and the complement witness of dump) may be
   any member of its class (C11: "each pick lies in its class"), which is decided with the verified
   class_of_char of the model (PartitionProofs.pclass_of_char_iff). *)
open Model
open Util
let cs c = let a = cn c in let b = cn c in (a, b)
let si = string_of_int
let nat c = nat_of_int (ci c)
let cid = function CInt i -> "I" ^ si (int_of_nat i) | CComp -> "C"
let read_cid c = match next c with
  | "I" -> CInt (nat c)
  | "C" -> CComp
  | _ -> failwith "bad class id"
let sets c = let k = ci c in List.init k (fun _ -> cs c)
let show_set (a, b) = sn a ^ "-" ^ sn b

(* None = Err(NonDisjointCharSets) *)
let build c : part option =
  let p0 = match next c with
    | "new" -> Some pnew
    | "from_set" -> Some (pfrom_set (cs c))
    | "try_from_list" | "try_from_iter" -> ptry_from_list (sets c)
    | _ -> failwith "bad constructor" in
  let pushes = sets c in
  match p0 with
  | None -> None
  | Some p -> Some (List.fold_left (fun p (a, b) -> ppush p a b) p pushes)

let dump (p : part) =
  let n = plen p in
  let idx = List.init (int_of_nat n) nat_of_int in
  let get = List.map (fun i -> show_set (pget p i)) idx in
  let ranges = List.map show_set p.ivs in
  let ids = pclass_ids p in
  Printf.sprintf "len=%d is_empty=%s get=[%s] ranges=[%s] sentinel=%s wit=%s ec=%s nc=%d hint=%d-%d ids=[%s] picks=[%s]"
    (int_of_nat n) (b (p.ivs = [])) (String.concat "," get) (String.concat "," ranges)
    (show_set (pget p n)) (sn (ppick_complement p)) (b (pempty_complement p))
    (int_of_nat (pnum_classes p)) (List.length ids) (List.length ids)
    (String.concat "," (List.map cid ids)) (String.concat "," (List.map sn (ppicks p)))

let query p c =
  match next c with
  | "class_of_char" -> cid (get (pclass_of_char p (cn c)))
  | "interval_cover" ->
    (match get (pinterval_cover p (cs c)) with
     | CoveredBy i -> "COV " ^ si (int_of_nat i) | DisjointFromAll -> "DISJ" | Overlaps -> "OVER")
  | "class_of_set" ->
    (match get (pclass_of_set p (cs c)) with Some x -> cid x | None -> "ERR AmbiguousCharSet")
  | "good_char_set" -> b (get (pgood_char_set p (cs c)))
  | "dump" -> dump p
  | "get" -> let (a, b) = pget p (nat c) in sn a ^ " " ^ sn b
  | "start" -> sn (pstart p (nat c))
  | "end" -> sn (pend p (nat c))
  | "interval" -> show_set (get (pinterval p (nat c)))
  | "pick" -> sn (get (ppick_iv p (nat c)))
  | "valid_class_id" -> b (pvalid p (read_cid c))
  | "pick_in_class" -> sn (get (ppick p (read_cid c)))
  | _ -> failwith "bad query"

let run toks =
  let c = cur_of toks in
  match build c with
  | None -> "ERR NonDisjointCharSets"
  | Some p -> query p c

(* ---- oracle *)
let unique = "impl differs from the verified model (spec determines the result uniquely)"
(* x is a legal pick for class k of p *)
let in_class p x k =
  goodb x && (match pclass_of_char p x with Some k' -> classid_eqb k k' | None -> false)
let fields line =
  List.map (fun kv -> match String.index_opt kv '=' with
      | Some i -> (String.sub kv 0 i, String.sub kv (i + 1) (String.length kv - i - 1))
      | None -> (kv, "")) (List.filter (fun s -> s <> "") (String.split_on_char ' ' line))
let items v =   (* "[a,b,c]" -> ["a";"b";"c"] *)
  let l = String.length v in
  if l < 2 || v.[0] <> '[' || v.[l - 1] <> ']' then failwith "list expected" else
  List.filter (fun s -> s <> "") (String.split_on_char ',' (String.sub v 1 (l - 2)))
let pick_ok p k impl =
  match int_of_string_opt impl with
  | None -> Some ("pick of class " ^ cid k ^ ": not a number: " ^ impl)
  | Some x -> if x >= 0 && in_class p (n_of_int x) k then None
    else Some ("pick " ^ impl ^ " does not lie in class " ^ cid k)

let oracle toks impl model =
  if impl = model then None else
  let c = cur_of toks in
  match build c with
  | None -> Some unique
  | Some p ->
    (match next c with
     | "pick" when model <> "PANIC" -> pick_ok p (CInt (nat c)) impl
     | "pick_in_class" when model <> "PANIC" -> pick_ok p (read_cid c) impl
     | "dump" ->
       let fi = fields impl and fm = fields model in
       if List.map fst fi <> List.map fst fm then Some unique else
       let bad = List.filter (fun ((k, vi), (_, vm)) -> k <> "wit" && k <> "picks" && vi <> vm) (List.combine fi fm) in
       (match bad with
        | ((k, vi), (_, vm)) :: _ -> Some ("dump field " ^ k ^ ": impl " ^ vi ^ ", specification " ^ vm)
        | [] ->
          let wi = List.assoc "wit" fi and wm = List.assoc "wit" fm in
          let wres =
            if wi = wm then None
            else if pempty_complement p then Some ("pick_complement " ^ wi ^ " but the complementary class is empty (must be MAX_CHAR+1)")
            else pick_ok p CComp wi in
          (match wres with
           | Some m -> Some m
           | None ->
             let ids = pclass_ids p and pi = items (List.assoc "picks" fi) in
             if List.length ids <> List.length pi then Some "picks: wrong number of picks" else
             List.fold_left2 (fun acc k x -> match acc with Some _ -> acc | None -> pick_ok p k x) None ids pi))
     | _ -> Some unique)
