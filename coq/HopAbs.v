(* HopAbs.v -- C04, layer B: Hopcroft's algorithm on abstract states.
   An abstract state is a block-id function [bid] on the states 0..n-1 (the current partition), the
   number [k] of block ids in use and an activity predicate [act b c] on (block, character) splitters
   (the work list).  The crate's variant keeps one splitter per (block, character) with a non-empty
   preimage, flagged active or inactive; picking deactivates; splitting a block duplicates active
   splitters to both halves and activates one half of an inactive one.

   [hinv] is the work-list invariant, in pairwise form: two states of one block whose c-successors lie
   in different blocks are told apart by an *active* splitter (block of either successor, c) -- or by
   the splitter (a, C) currently being processed, if their block is still on the todo list.
   It is established by deactivating a splitter (hinv_pick), preserved by every block split
   (hinv_split) and yields stability when nothing is active (hinv_stable). *)
Require Import Base.
Open Scope nat_scope.

Section Abs.
  Context (n alpha : nat) (delta : nat -> nat -> nat).

  Definition closed_delta : Prop := forall x c, x < n -> c < alpha -> delta x c < n.

  Definition stable (bid : nat -> nat) : Prop :=
    forall x y c, x < n -> y < n -> c < alpha -> bid x = bid y -> bid (delta x c) = bid (delta y c).

  Definition splits_by (bid : nat -> nat) (a C x y : nat) : Prop :=
    (bid (delta x a) = C /\ bid (delta y a) <> C) \/ (bid (delta x a) <> C /\ bid (delta y a) = C).

  Definition hinv (bid : nat -> nat) (act : nat -> nat -> Prop) (todo : list nat) (a C : nat) : Prop :=
    forall x y c, x < n -> y < n -> c < alpha -> bid x = bid y -> bid (delta x c) <> bid (delta y c) ->
      act (bid (delta x c)) c \/ act (bid (delta y c)) c \/
      (c = a /\ In (bid x) todo /\ splits_by bid a C x y).

  (* block B (id B) is split by pr: the part where pr fails gets the fresh id k *)
  Record asplit (bid : nat -> nat) (act : nat -> nat -> Prop) (k B : nat) (pr : nat -> bool)
                (bid' : nat -> nat) (act' : nat -> nat -> Prop) : Prop := {
    as_bid : forall x, x < n -> bid' x = if Nat.eqb (bid x) B && negb (pr x) then k else bid x;
    as_other : forall D c, D <> B -> D <> k -> act D c -> act' D c;
    as_act : forall c x, act B c -> x < n -> c < alpha ->
               (bid' (delta x c) = B \/ bid' (delta x c) = k) -> act' (bid' (delta x c)) c;
    as_ina : forall c x y, x < n -> y < n -> c < alpha ->
               bid' (delta x c) = B -> bid' (delta y c) = k -> act' B c \/ act' k c }.

  Lemma asplit_bid_cases bid act k B pr bid' act' x :
    asplit bid act k B pr bid' act' -> x < n -> bid x <> k ->
    (bid x = B /\ pr x = false /\ bid' x = k) \/ (bid' x = bid x /\ bid' x <> k /\ (bid x = B -> pr x = true)).
  Proof.
    intros S Hx Hk. rewrite (as_bid _ _ _ _ _ _ _ S x Hx).
    destruct (Nat.eqb (bid x) B) eqn:He; cbn [andb].
    - apply Nat.eqb_eq in He. destruct (pr x); cbn [negb]; [right|left]; auto.
    - apply Nat.eqb_neq in He. right. split; [reflexivity|]. split; [exact Hk|]. intros H. contradiction.
  Qed.

  Lemma hinv_split bid act todo a C k B pr bid' act' todo' :
    closed_delta ->
    (forall x, x < n -> bid x <> k) ->
    hinv bid act todo a C ->
    asplit bid act k B pr bid' act' ->
    (forall x y, x < n -> y < n -> bid x = B -> bid y = B -> pr x = pr y -> ~ splits_by bid a C x y) ->
    (forall b, In b todo -> b <> B -> In b todo') ->
    (todo' = [] \/ (B <> C /\ C <> k)) ->
    hinv bid' act' todo' a C.
  Proof.
    intros Hcl Hfresh HI S Hexc Htodo HC x y c Hx Hy Hc Hbxy Hne.
    pose proof (Hcl x c Hx Hc) as Hu. pose proof (Hcl y c Hy Hc) as Hv.
    pose proof (asplit_bid_cases _ _ _ _ _ _ _ x S Hx (Hfresh x Hx)) as Cx.
    pose proof (asplit_bid_cases _ _ _ _ _ _ _ y S Hy (Hfresh y Hy)) as Cy.
    pose proof (asplit_bid_cases _ _ _ _ _ _ _ _ S Hu (Hfresh _ Hu)) as Cu.
    pose proof (asplit_bid_cases _ _ _ _ _ _ _ _ S Hv (Hfresh _ Hv)) as Cv.
    (* x and y were already in one block; inside B they agree on pr *)
    assert (Hxy : bid x = bid y /\ (bid x = B -> pr x = pr y)).
    { destruct Cx as [[X1 [X2 X3]]|[X1 [X2 X3]]], Cy as [[Y1 [Y2 Y3]]|[Y1 [Y2 Y3]]].
      - split; congruence.
      - exfalso. congruence.
      - exfalso. congruence.
      - split; [congruence|]. intros Hb. rewrite (X3 Hb). symmetry. apply Y3. congruence. }
    destruct Hxy as [Hbxy0 Hpr].
    (* an active splitter of an old block stays active on the new block of a state it contains *)
    assert (Hkeep : forall z, z < n -> (exists w, w < n /\ delta w c = z) ->
                    act (bid z) c -> act' (bid' z) c).
    { intros z Hz [w [Hw Hwz]] Ha.
      destruct (asplit_bid_cases _ _ _ _ _ _ _ z S Hz (Hfresh z Hz)) as [[Z1 [Z2 Z3]]|[Z1 [Z2 Z3]]].
      - rewrite Z1 in Ha. rewrite <- Hwz. apply (as_act _ _ _ _ _ _ _ S c w Ha Hw Hc).
        right. rewrite Hwz. exact Z3.
      - destruct (Nat.eq_dec (bid z) B) as [Hb|Hb].
        + rewrite Hb in Ha. rewrite <- Hwz. apply (as_act _ _ _ _ _ _ _ S c w Ha Hw Hc).
          left. rewrite Hwz. congruence.
        + rewrite Z1. apply (as_other _ _ _ _ _ _ _ S); auto. }
    destruct (Nat.eq_dec (bid (delta x c)) (bid (delta y c))) as [Hsame|Hdiff].
    - (* the successors were in one block, which has just been split *)
      destruct Cu as [[U1 [U2 U3]]|[U1 [U2 U3]]], Cv as [[V1 [V2 V3]]|[V1 [V2 V3]]].
      + exfalso. congruence.
      + assert (Hb : bid' (delta y c) = B) by congruence.
        destruct (as_ina _ _ _ _ _ _ _ S c y x Hy Hx Hc Hb U3) as [H|H].
        * right. left. rewrite Hb. exact H.
        * left. rewrite U3. exact H.
      + assert (Hb : bid' (delta x c) = B) by congruence.
        destruct (as_ina _ _ _ _ _ _ _ S c x y Hx Hy Hc Hb V3) as [H|H].
        * left. rewrite Hb. exact H.
        * right. left. rewrite V3. exact H.
      + exfalso. congruence.
    - destruct (HI x y c Hx Hy Hc Hbxy0 Hdiff) as [H|[H|[H1 [H2 H3]]]].
      + left. apply Hkeep; auto. exists x. auto.
      + right. left. apply Hkeep; auto. exists y. auto.
      + right. right. subst c. destruct (Nat.eq_dec (bid x) B) as [Hb|Hb].
        * exfalso. apply (Hexc x y Hx Hy Hb); auto; congruence.
        * assert (Hbx' : bid' x = bid x).
          { destruct Cx as [[X1 _]|[X1 _]]; [contradiction|exact X1]. }
          pose proof (Htodo _ H2 Hb) as Hin'.
          destruct HC as [->|[HBC HCk]]; [destruct Hin'|].
          split; [reflexivity|]. split; [rewrite Hbx'; exact Hin'|].
          assert (HCi : forall z, z < n -> (bid' z = C <-> bid z = C)).
          { intros z Hz. destruct (asplit_bid_cases _ _ _ _ _ _ _ z S Hz (Hfresh z Hz)) as [[Z1 [Z2 Z3]]|[Z1 [Z2 Z3]]].
            - split; intros H; exfalso; congruence.
            - rewrite Z1. reflexivity. }
          unfold splits_by in *. rewrite !(HCi _ Hu), !(HCi _ Hv). exact H3.
  Qed.

  (* deactivating the picked splitter (a, C) *)
  Lemma hinv_pick bid act act' todo a0 C0 a C :
    hinv bid act [] a0 C0 ->
    (forall D c, act D c -> act' D c \/ (D = C /\ c = a)) ->
    (forall x y, x < n -> y < n -> bid x = bid y -> bid (delta x a) = C -> bid (delta y a) <> C -> In (bid x) todo) ->
    hinv bid act' todo a C.
  Proof.
    intros HI Hact Htodo x y c Hx Hy Hc Hb Hne.
    destruct (HI x y c Hx Hy Hc Hb Hne) as [H|[H|[_ [[] _]]]].
    - destruct (Hact _ _ H) as [H'|[H1 H2]]; [left; exact H'|]. right. right. subst c.
      split; [reflexivity|]. split; [apply (Htodo x y); auto; congruence|]. left. split; congruence.
    - destruct (Hact _ _ H) as [H'|[H1 H2]]; [right; left; exact H'|]. right. right. subst c.
      split; [reflexivity|]. split; [rewrite Hb; apply (Htodo y x); auto; congruence|]. right. split; congruence.
  Qed.

  Lemma hinv_stable bid act a C :
    hinv bid act [] a C -> (forall D c, ~ act D c) -> stable bid.
  Proof.
    intros HI Hno x y c Hx Hy Hc Hb.
    destruct (Nat.eq_dec (bid (delta x c)) (bid (delta y c))) as [He|Hne]; [exact He|].
    destruct (HI x y c Hx Hy Hc Hb Hne) as [H|[H|[_ [[] _]]]]; exfalso; eapply Hno; eauto.
  Qed.

  Lemma hinv_ext (bid : nat -> nat) (act : nat -> nat -> Prop) bid' (act' : nat -> nat -> Prop) todo a C :
    (forall x, bid' x = bid x) -> (forall b c, act b c -> act' b c) ->
    hinv bid act todo a C -> hinv bid' act' todo a C.
  Proof.
    intros Hb Ha HI x y c Hx Hy Hc He Hne. unfold splits_by. rewrite !Hb in *.
    destruct (HI x y c Hx Hy Hc He Hne) as [H|[H|H]]; [left; apply Ha; exact H|right; left; apply Ha; exact H|right; right; exact H].
  Qed.

  Lemma hinv_weaken_todo bid act todo todo' a C :
    hinv bid act todo a C -> (forall b, In b todo -> In b todo') -> hinv bid act todo' a C.
  Proof.
    intros HI Hs x y c Hx Hy Hc Hb Hne. destruct (HI x y c Hx Hy Hc Hb Hne) as [H|[H|[H1 [H2 H3]]]];
      [left; exact H|right; left; exact H|right; right; auto].
  Qed.

  (* a block in which the processed splitter separates nothing can leave the todo list *)
  Lemma hinv_drop bid act todo a C B :
    hinv bid act (B :: todo) a C ->
    (forall x y, x < n -> y < n -> bid x = B -> bid y = B -> ~ splits_by bid a C x y) ->
    hinv bid act todo a C.
  Proof.
    intros HI Hno x y c Hx Hy Hc Hb Hne. destruct (HI x y c Hx Hy Hc Hb Hne) as [H|[H|[H1 [[H2|H2] H3]]]];
      [left; exact H|right; left; exact H| |right; right; auto].
    exfalso. subst c. apply (Hno x y); auto; congruence.
  Qed.

  (* the invariants that only say the partition is not too fine / respects finality *)
  Definition coarse (E : nat -> nat -> Prop) (bid : nat -> nat) : Prop :=
    forall x y, x < n -> y < n -> E x y -> bid x = bid y.
  Definition respects (f : nat -> bool) (bid : nat -> nat) : Prop :=
    forall x y, x < n -> y < n -> bid x = bid y -> f x = f y.

  Lemma coarse_split E bid act k B pr bid' act' :
    asplit bid act k B pr bid' act' -> coarse E bid ->
    (forall x y, x < n -> y < n -> E x y -> pr x = pr y) -> coarse E bid'.
  Proof.
    intros S HC Hpr x y Hx Hy He.
    rewrite (as_bid _ _ _ _ _ _ _ S x Hx), (as_bid _ _ _ _ _ _ _ S y Hy).
    rewrite (HC x y Hx Hy He), (Hpr x y Hx Hy He). reflexivity.
  Qed.

  Lemma respects_split f bid act k B pr bid' act' :
    asplit bid act k B pr bid' act' -> (forall x, x < n -> bid x <> k) -> respects f bid -> respects f bid'.
  Proof.
    intros S Hfresh HR x y Hx Hy Hb. apply HR; auto.
    destruct (asplit_bid_cases _ _ _ _ _ _ _ x S Hx (Hfresh x Hx)) as [[X1 [X2 X3]]|[X1 [X2 X3]]],
             (asplit_bid_cases _ _ _ _ _ _ _ y S Hy (Hfresh y Hy)) as [[Y1 [Y2 Y3]]|[Y1 [Y2 Y3]]]; congruence.
  Qed.
End Abs.

(* ------------------------------------------------------------------ the abstract algorithm as a step relation *)
From Coq Require Import Relations.

Section Run.
  Context (n alpha : nat) (delta : nat -> nat -> nat) (isf : nat -> bool) (E : nat -> nat -> Prop).

  (* a configuration: partition, number of block ids, active splitters, and -- while a splitter (a, C)
     is being processed -- the blocks still to be refined with it *)
  Record conf := { c_bid : nat -> nat; c_k : nat; c_act : nat -> nat -> Prop;
                   c_todo : list nat; c_a : nat; c_C : nat }.

  Definition cpred (c : conf) (y : nat) : bool := Nat.eqb (c_bid c (delta y (c_a c))) (c_C c).

  Inductive hstep (c : conf) : conf -> Prop :=
  | HS_pick a C act' todo :
      c_todo c = [] -> a < alpha -> C < c_k c ->
      (forall D c', c_act c D c' -> act' D c' \/ (D = C /\ c' = a)) ->
      (forall x y, x < n -> y < n -> c_bid c x = c_bid c y ->
                   c_bid c (delta x a) = C -> c_bid c (delta y a) <> C -> In (c_bid c x) todo) ->
      hstep c {| c_bid := c_bid c; c_k := c_k c; c_act := act'; c_todo := todo; c_a := a; c_C := C |}
  | HS_skip B todo :
      c_todo c = B :: todo ->
      (forall x y, x < n -> y < n -> c_bid c x = B -> c_bid c y = B -> cpred c x = cpred c y) ->
      hstep c {| c_bid := c_bid c; c_k := c_k c; c_act := c_act c; c_todo := todo; c_a := c_a c; c_C := c_C c |}
  | HS_split B todo bid' act' :
      c_todo c = B :: todo -> ~ In B todo -> (B = c_C c -> todo = []) ->
      asplit n alpha delta (c_bid c) (c_act c) (c_k c) B (cpred c) bid' act' ->
      hstep c {| c_bid := bid'; c_k := S (c_k c); c_act := act'; c_todo := todo; c_a := c_a c; c_C := c_C c |}.

  Record env : Prop := {
    v_cl : closed_delta n alpha delta;
    v_fin : forall x y, x < n -> y < n -> E x y -> isf x = isf y;
    v_step : forall x y c, x < n -> y < n -> c < alpha -> E x y -> E (delta x c) (delta y c) }.

  Record cinv (c : conf) : Prop := {
    ci_h : hinv n alpha delta (c_bid c) (c_act c) (c_todo c) (c_a c) (c_C c);
    ci_fresh : forall x, x < n -> c_bid c x < c_k c;
    ci_proc : c_todo c <> [] -> c_a c < alpha /\ c_C c < c_k c;
    ci_res : respects n isf (c_bid c);
    ci_co : coarse n E (c_bid c) }.

  Lemma cpred_splits c x y : cpred c x = cpred c y -> ~ splits_by delta (c_bid c) (c_a c) (c_C c) x y.
  Proof.
    unfold cpred. intros Hp [[H1 H2]|[H1 H2]].
    - apply Nat.eqb_eq in H1. apply Nat.eqb_neq in H2. congruence.
    - apply Nat.eqb_neq in H1. apply Nat.eqb_eq in H2. congruence.
  Qed.

  Lemma hstep_inv c c' : env -> cinv c -> hstep c c' -> cinv c'.
  Proof.
    intros V I S. destruct S as [a C act' todo Ht Ha HC Hact Hcov|B todo Ht Hno|B todo bid' act' Ht Hnin HBC HA].
    - constructor; cbn [c_bid c_k c_act c_todo c_a c_C].
      + pose proof (ci_h _ I) as HI. rewrite Ht in HI. eapply hinv_pick; eauto.
      + apply (ci_fresh _ I).
      + intros _. auto.
      + apply (ci_res _ I).
      + apply (ci_co _ I).
    - constructor; cbn [c_bid c_k c_act c_todo c_a c_C].
      + pose proof (ci_h _ I) as HI. rewrite Ht in HI. apply (hinv_drop n alpha delta _ _ _ _ _ B HI).
        intros x y Hx Hy Hbx Hby. apply cpred_splits. apply Hno; assumption.
      + apply (ci_fresh _ I).
      + intros Hne. apply (ci_proc _ I). rewrite Ht. discriminate.
      + apply (ci_res _ I).
      + apply (ci_co _ I).
    - assert (Hp : c_a c < alpha /\ c_C c < c_k c) by (apply (ci_proc _ I); rewrite Ht; discriminate).
      assert (Hfresh : forall x, x < n -> c_bid c x <> c_k c).
      { intros x Hx. pose proof (ci_fresh _ I x Hx). lia. }
      constructor; cbn [c_bid c_k c_act c_todo c_a c_C].
      + pose proof (ci_h _ I) as HI. rewrite Ht in HI.
        eapply (hinv_split n alpha delta (c_bid c) (c_act c) (B :: todo)); eauto.
        * apply (v_cl V).
        * intros x y Hx Hy _ _. apply cpred_splits.
        * intros b [<-|Hb] Hne; [contradiction|exact Hb].
        * destruct (Nat.eq_dec B (c_C c)) as [He|Hne]; [left; auto|right; split; [exact Hne|lia]].
      + intros x Hx. rewrite (as_bid _ _ _ _ _ _ _ _ _ _ HA x Hx). pose proof (ci_fresh _ I x Hx).
        destruct (Nat.eqb (c_bid c x) B && negb (cpred c x)); lia.
      + intros _. split; [apply Hp|]. lia.
      + eapply respects_split; eauto. apply (ci_res _ I).
      + eapply coarse_split; [exact HA|apply (ci_co _ I)|].
        intros x y Hx Hy He. unfold cpred. destruct Hp as [Ha _].
        rewrite (ci_co _ I (delta x (c_a c)) (delta y (c_a c))); auto; try (apply (v_cl V); assumption).
        apply (v_step V); assumption.
  Qed.

  Lemma hrun_inv c c' : env -> cinv c -> clos_refl_trans conf hstep c c' -> cinv c'.
  Proof.
    intros V I R. induction R as [c c' S|c|c c1 c2 _ IH1 _ IH2]; auto. eapply hstep_inv; eauto.
  Qed.

  (* the classical initial configuration: final / non-final states, and for every character c for
     which both blocks have c-predecessors one of (1, c), (2, c) active *)
  Lemma init_cinv act : env ->
    (forall c x y, x < n -> y < n -> c < alpha -> isf (delta x c) = true -> isf (delta y c) = false ->
                   act 1 c \/ act 2 c) ->
    cinv {| c_bid := fun x => if isf x then 1 else 2; c_k := 3; c_act := act; c_todo := []; c_a := 0; c_C := 0 |}.
  Proof.
    intros V Hact. constructor; cbn [c_bid c_k c_act c_todo c_a c_C].
    - intros x y c Hx Hy Hc _ Hne.
      destruct (isf (delta x c)) eqn:Fx, (isf (delta y c)) eqn:Fy; try congruence.
      + destruct (Hact c x y Hx Hy Hc Fx Fy); auto.
      + destruct (Hact c y x Hy Hx Hc Fy Fx); auto.
    - intros x _. destruct (isf x); lia.
    - intros H. contradiction.
    - intros x y _ _ H. destruct (isf x), (isf y); congruence.
    - intros x y Hx Hy He. rewrite (v_fin V x y Hx Hy He). reflexivity.
  Qed.

  (* Layer B: every run of the abstract algorithm that ends with an empty work list has computed the
     coarsest stable partition that respects finality *)
  Theorem abstract_hopcroft_correct c0 c : env -> cinv c0 ->
    clos_refl_trans conf hstep c0 c ->
    c_todo c = [] -> (forall D a, ~ c_act c D a) ->
    stable n alpha delta (c_bid c) /\ respects n isf (c_bid c) /\ coarse n E (c_bid c) /\
    ((forall bid', stable n alpha delta bid' -> respects n isf bid' ->
                   forall x y, x < n -> y < n -> bid' x = bid' y -> E x y) ->
     forall x y, x < n -> y < n -> (c_bid c x = c_bid c y <-> E x y)).
  Proof.
    intros V I0 R Ht Hno. pose proof (hrun_inv c0 c V I0 R) as I.
    assert (Hst : stable n alpha delta (c_bid c)).
    { pose proof (ci_h _ I) as HI. rewrite Ht in HI. eapply hinv_stable; eauto. }
    split; [exact Hst|]. split; [apply (ci_res _ I)|]. split; [apply (ci_co _ I)|].
    intros Hmax x y Hx Hy. split.
    - apply (Hmax (c_bid c) Hst (ci_res _ I) x y Hx Hy).
    - apply (ci_co _ I x y Hx Hy).
  Qed.
End Run.
