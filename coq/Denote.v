(* Denote.v -- SMT-LIB 2.6 denotation of regex construction programs (specification side, independent
   of the code model) and an executable reference matcher used as property oracle.
   [denote p w] : the word w belongs to the language SMT-LIB assigns to the construction p.
   [mref p w]   : executable decision procedure; OracleProofs: mref p w = true <-> denote p w. *)
Require Import Base.
Open Scope N_scope.

Inductive prog :=
| PNone | PEps | PAll | PAllChar
| PRange (a b : N)                       (* re.range of two one-character strings a <= b *)
| PStr (w : word)                        (* str.to_re *)
| PConcat (p q : prog)                   (* re.++ *)
| PUnion (p q : prog)                    (* re.union *)
| PInter (p q : prog)                    (* re.inter *)
| PComp (p : prog)                       (* re.comp *)
| PDiff (p q : prog)                     (* re.diff *)
| PLoop (p : prog) (lo : N) (hi : option N)   (* re.*, re.+, re.opt, re.^, re.loop; hi = None: unbounded *)
| PDeriv (p : prog) (c : N).             (* left quotient c^-1 L(p)  (not SMT-LIB; used for C03) *)

Definition lang := word -> Prop.
Definition l_concat (A B : lang) : lang := fun w => exists u v, w = u ++ v /\ A u /\ B v.
Fixpoint l_pow (A : lang) (n : nat) : lang :=
  match n with O => fun w => w = [] | S k => l_concat A (l_pow A k) end.
Definition in_bounds (n : nat) (lo : N) (hi : option N) : Prop :=
  lo <= N.of_nat n /\ match hi with Some h => N.of_nat n <= h | None => True end.

Fixpoint denote (p : prog) : lang :=
  match p with
  | PNone => fun _ => False
  | PEps => fun w => w = []
  | PAll => fun w => goodw w
  | PAllChar => fun w => exists c, w = [c] /\ good c
  | PRange a b => fun w => exists c, w = [c] /\ a <= c /\ c <= b /\ good c
  | PStr s => fun w => w = s
  | PConcat p q => l_concat (denote p) (denote q)
  | PUnion p q => fun w => denote p w \/ denote q w
  | PInter p q => fun w => denote p w /\ denote q w
  | PComp p => fun w => goodw w /\ ~ denote p w
  | PDiff p q => fun w => denote p w /\ ~ denote q w
  | PLoop p lo hi => fun w => exists n, in_bounds n lo hi /\ l_pow (denote p) n w
  | PDeriv p c => fun w => denote p (c :: w)
  end.

(* ---------- executable reference matcher ---------- *)
Fixpoint splits (w : word) : list (word * word) :=
  match w with
  | [] => [([], [])]
  | c :: t => ([], w) :: map (fun uv => (c :: fst uv, snd uv)) (splits t)
  end.
Fixpoint word_eqb (u v : word) : bool :=
  match u, v with [], [] => true | a :: s, b :: t => (a =? b) && word_eqb s t | _, _ => false end.
(* w is a concatenation of exactly k non-empty words accepted by f *)
Fixpoint ne_decomp (f : word -> bool) (k : nat) (w : word) : bool :=
  match k with
  | O => match w with [] => true | _ => false end
  | S k' => existsb (fun uv => match fst uv with [] => false | _ => f (fst uv) && ne_decomp f k' (snd uv) end)
                    (splits w)
  end.
Definition loop_ref (f : word -> bool) (lo : N) (hi : option N) (w : word) : bool :=
  existsb (fun k =>
             ne_decomp f k w &&
             (if f [] then match hi with Some h => (N.of_nat k <=? h) && (lo <=? h) | None => true end
              else (lo <=? N.of_nat k) && match hi with Some h => N.of_nat k <=? h | None => true end))
          (seq 0 (S (length w))).
Fixpoint mref (p : prog) (w : word) : bool :=
  match p with
  | PNone => false
  | PEps => match w with [] => true | _ => false end
  | PAll => goodwb w
  | PAllChar => match w with [c] => goodb c | _ => false end
  | PRange a b => match w with [c] => (a <=? c) && (c <=? b) && goodb c | _ => false end
  | PStr s => word_eqb w s
  | PConcat p q => existsb (fun uv => mref p (fst uv) && mref q (snd uv)) (splits w)
  | PUnion p q => mref p w || mref q w
  | PInter p q => mref p w && mref q w
  | PComp p => goodwb w && negb (mref p w)
  | PDiff p q => mref p w && negb (mref q w)
  | PLoop p lo hi => loop_ref (mref p) lo hi w
  | PDeriv p c => mref p (c :: w)
  end.

(* helpers to translate API calls into programs *)
Definition p_smtrange (s1 s2 : word) : prog :=
  match s1, s2 with
  | [c1], [c2] => if c1 <=? c2 then PRange c1 c2 else PNone
  | _, _ => PNone
  end.
Definition p_concat_list (l : list prog) : prog := fold_right PConcat PEps l.
Definition p_union_list (l : list prog) : prog := fold_right PUnion PNone l.
Definition p_inter_list (l : list prog) : prog := fold_right PInter PAll l.
Definition p_diff_list (p : prog) (l : list prog) : prog := fold_left PDiff l p.
Definition p_sderiv (p : prog) (w : word) : prog := fold_left PDeriv w p.
