(* Deriv.v -- executable model of the derivative machinery of ReManager (no proofs here):
   cached_deriv / compute_derivative / deriv, char_derivative, str_derivative, str_in_re,
   class_derivative(_unchecked), set_derivative(_unchecked).
   cached_deriv is structurally recursive on the term; the manager state is threaded through. *)
Require Import Base CharSet Partition LoopRange Regex Inclusion Constructors.
Open Scope N_scope.

Fixpoint cache_lookup (i : N) (c : classid) (l : list ((N * classid) * re)) : option re :=
  match l with
  | [] => None
  | ((j, d), r) :: t => if (i =? j) && classid_eqb c d then Some r else cache_lookup i c t
  end.
Definition cache_insert (m : mgr) (i : N) (c : classid) (r : re) : mgr :=
  set_cache m (((i, c), r) :: cache m).

(* RE::class_of_char; None never happens (PartitionProofs) *)
Definition coc (x : re) (c : N) : option classid := pclass_of_char (rcls x) c.

Fixpoint cached_deriv (e : re) (m : mgr) (cid : classid) {struct e} : option (mgr * re) :=
  match cache_lookup (rid e) cid (cache m) with
  | Some r => Some (m, r)
  | None =>
    do c <- ppick (rcls e) cid;
    do (m', r) <-
      match e with
      | Node _ _ _ k =>
        match k with
        | NEmpty | NEps => Some (m, m_empty m)
        | NRange s => Some (m, if cs_contains s c then m_eps m else m_empty m)
        | NConcat e1 e2 =>
            do k1 <- coc e1 c; do (m1, d1) <- cached_deriv e1 m k1;
            do (m2, d1') <- concat d1 m1 e2;
            if rnul e1 then
              do k2 <- coc e2 c; do (m3, d2) <- cached_deriv e2 m2 k2;
              union m3 d1' d2
            else Some (m2, d1')
        | NLoop e1 rg =>
            do k1 <- coc e1 c; do (m1, d1) <- cached_deriv e1 m k1;
            do (m2, e2) <- mk_loop m1 e1 (lr_shift rg);
            concat d1 m2 e2
        | NCompl e1 =>
            do k1 <- coc e1 c; do (m1, d1) <- cached_deriv e1 m k1;
            do r <- complement m1 d1; Some (m1, r)
        | NInter l =>
            do (m1, ds) <- (fix dl (l : list re) (m : mgr) : option (mgr * list re) :=
                               match l with
                               | [] => Some (m, [])
                               | x :: t => do kx <- coc x c; do (m1, d) <- cached_deriv x m kx;
                                           do (m2, ds) <- dl t m1; Some (m2, d :: ds)
                               end) l m;
            inter_list m1 ds
        | NUnion l =>
            do (m1, ds) <- (fix dl (l : list re) (m : mgr) : option (mgr * list re) :=
                               match l with
                               | [] => Some (m, [])
                               | x :: t => do kx <- coc x c; do (m1, d) <- cached_deriv x m kx;
                                           do (m2, ds) <- dl t m1; Some (m2, d :: ds)
                               end) l m;
            union_list m1 ds
        end
      end;
    Some (cache_insert m' (rid e) cid r, r)
  end.
Definition deriv (m : mgr) (e : re) (c : N) : option (mgr * re) := do k <- coc e c; cached_deriv e m k.
Fixpoint str_derivative (m : mgr) (e : re) (w : list N) : option (mgr * re) :=
  match w with [] => Some (m, e) | c :: t => do (m1, d) <- deriv m e c; str_derivative m1 d t end.
Definition str_in_re (m : mgr) (w : list N) (e : re) : option (mgr * bool) :=
  do (m1, d) <- str_derivative m e w; Some (m1, rnul d).


(* public derivative API.  Errors: inl = Err(..) *)
Inductive rerr := BadClassId | AmbiguousCharSet.
Inductive dres := DErr (e : rerr) | DOk (r : re).
Definition char_derivative := deriv.
Definition class_derivative_unchecked (m : mgr) (e : re) (cid : classid) := cached_deriv e m cid.
Definition class_derivative (m : mgr) (e : re) (cid : classid) : option (mgr * dres) :=
  if pvalid (rcls e) cid then do (m1, r) <- cached_deriv e m cid; Some (m1, DOk r)
  else Some (m, DErr BadClassId).
Definition set_derivative (m : mgr) (e : re) (s : cs) : option (mgr * dres) :=
  do oc <- pclass_of_set (rcls e) s;
  match oc with
  | None => Some (m, DErr AmbiguousCharSet)
  | Some cid => do (m1, r) <- cached_deriv e m cid; Some (m1, DOk r)
  end.
Definition set_derivative_unchecked (m : mgr) (e : re) (s : cs) : option (mgr * re) :=
  do oc <- pclass_of_set (rcls e) s;
  match oc with
  | None => None                       (* unwrap() of Err: panic *)
  | Some cid => cached_deriv e m cid
  end.
