(* ReSearchProofs.v -- C10: naive_re_search finds the leftmost, then shortest, match;
   str_replace_re / str_replace_re_all compute str.replace_re / str.replace_re_all of SMT-LIB 2.6.

   1. substrings [sub s i j] = s[i..j)
   2. relational specifications: index form (MatchAt, LeftmostShortest, NoMatchFrom) used for the
      search, word form (FirstMatch, NoMatch, ReplaceRe, ReplaceReAll) = the SMT-LIB definitions
   3. the specifications are functional and invariant under lang_eq on good subjects
   4. index form => word form
   5. the loops of naive_re_search (re_extend, re_search_from) and the search theorem
   6. str_replace_re, str_replace_re_all; fuel |s|+1 is never exhausted
   7. None (panic) only if some char_derivative returns None
   8. program level: the results are the SMT-LIB values w.r.t. [denote p]
   No BFS is involved: nothing is conditional on termination. *)
Require Import Base CharSet Partition PartitionSpec LoopRange Regex Inclusion Constructors Deriv Explore.
Require Import Denote Sem Lang ManagerProofs ConstructorProofs RunProofs DerivProofs GoodProofs.
Open Scope nat_scope.

(* ------------------------------------------------------------------------------------------ *)
(** * 1. Substrings *)

(* s[i..j) *)
Definition sub (s : word) (i j : nat) : word := firstn (j - i) (skipn i s).

Lemma skipn_add (a b : nat) (l : word) : skipn a (skipn b l) = skipn (b + a) l.
Proof.
  revert l. induction b as [|b IH]; intros l; [reflexivity|].
  destruct l as [|x l]; [destruct a; reflexivity|]. cbn [skipn plus]. apply IH.
Qed.

Lemma firstn_app_len (u r : word) : firstn (length u) (u ++ r) = u.
Proof. induction u as [|x u IH]; [reflexivity|]. cbn. f_equal. exact IH. Qed.
Lemma skipn_app_len (u r : word) : skipn (length u) (u ++ r) = r.
Proof. induction u as [|x u IH]; [reflexivity|]. cbn. exact IH. Qed.

Lemma app_eq_len (a b a' b' : word) : a ++ b = a' ++ b' -> length a = length a' -> a = a' /\ b = b'.
Proof.
  revert a'. induction a as [|x a IH]; intros [|y a'] H Hl; try discriminate Hl.
  - split; [reflexivity | exact H].
  - cbn in H, Hl. injection H as -> H. injection Hl as Hl. destruct (IH a' H Hl) as [-> ->]. split; reflexivity.
Qed.

Lemma sub_length s i j : i <= j -> j <= length s -> length (sub s i j) = j - i.
Proof. intros H1 H2. unfold sub. rewrite firstn_length, skipn_length. lia. Qed.

Lemma sub_nil s i : sub s i i = [].
Proof. unfold sub. rewrite Nat.sub_diag. reflexivity. Qed.

Lemma sub_0 s i : sub s 0 i = firstn i s.
Proof. unfold sub. rewrite Nat.sub_0_r. reflexivity. Qed.

Lemma sub_skipn s k a n : sub s (k + a) (k + a + n) = firstn n (skipn a (skipn k s)).
Proof. unfold sub. rewrite skipn_add. f_equal. lia. Qed.

Lemma skipn_split s k i : k <= i -> skipn k s = sub s k i ++ skipn i s.
Proof.
  intros H. unfold sub. rewrite <- (firstn_skipn (i - k) (skipn k s)) at 1. f_equal.
  rewrite skipn_add. f_equal. lia.
Qed.

Lemma split3 s k i j : k <= i -> i <= j -> skipn k s = sub s k i ++ sub s i j ++ skipn j s.
Proof. intros H1 H2. rewrite (skipn_split s k i H1). f_equal. apply skipn_split. exact H2. Qed.

(* a decomposition of the suffix s[k..) gives positions in s *)
Lemma sub_decomp s k u w v : k <= length s -> skipn k s = u ++ w ++ v ->
  k + length u + length w <= length s /\
  sub s k (k + length u) = u /\
  sub s (k + length u) (k + length u + length w) = w /\
  skipn (k + length u + length w) s = v.
Proof.
  intros Hk H.
  assert (Hlen : length s - k = length u + (length w + length v)).
  { rewrite <- skipn_length, H, !app_length. reflexivity. }
  split; [lia|]. split; [|split].
  - unfold sub. replace (k + length u - k) with (length u) by lia. rewrite H. apply firstn_app_len.
  - unfold sub. replace (k + length u + length w - (k + length u)) with (length w) by lia.
    rewrite <- skipn_add, H, skipn_app_len. apply firstn_app_len.
  - rewrite <- Nat.add_assoc, <- skipn_add, H. rewrite <- skipn_add, skipn_app_len. apply skipn_app_len.
Qed.

Lemma goodw_sub s i j : goodw s -> goodw (sub s i j).
Proof. intros H. unfold sub. apply goodw_firstn, goodw_skipn. exact H. Qed.

(* ------------------------------------------------------------------------------------------ *)
(** * 2. Specifications *)

(* s[i..j) is a match of A; only non-empty matches count when allow_empty = false *)
Definition MatchAt (A : lang) (allow_empty : bool) (s : word) (i j : nat) : Prop :=
  i <= j /\ j <= length s /\ A (sub s i j) /\ (allow_empty = false -> i < j).

(* s[i..j) is the leftmost match starting at or after k, and the shortest one starting at i *)
Definition LeftmostShortest (A : lang) (allow_empty : bool) (s : word) (k i j : nat) : Prop :=
  k <= i /\ MatchAt A allow_empty s i j /\
  (forall i' j', k <= i' -> i' < i -> ~ MatchAt A allow_empty s i' j') /\
  (forall j', j' < j -> ~ MatchAt A allow_empty s i j').

Definition NoMatchFrom (A : lang) (allow_empty : bool) (s : word) (k : nat) : Prop :=
  forall i j, k <= i -> ~ MatchAt A allow_empty s i j.

(* SMT-LIB: s = u1.w1.u2 with w1 in A, u1 the shortest possible and, for that u1, w1 the shortest *)
Definition FirstMatch (A : lang) (allow_empty : bool) (s u1 w1 u2 : word) : Prop :=
  s = u1 ++ w1 ++ u2 /\ A w1 /\ (allow_empty = false -> w1 <> []) /\
  forall u1' w1' u2', s = u1' ++ w1' ++ u2' -> A w1' -> (allow_empty = false -> w1' <> []) ->
    length u1 <= length u1' /\ (length u1' = length u1 -> length w1 <= length w1').

(* no substring of s is in A (no non-empty substring when allow_empty = false) *)
Definition NoMatch (A : lang) (allow_empty : bool) (s : word) : Prop :=
  forall u1 w1 u2, s = u1 ++ w1 ++ u2 -> A w1 -> (allow_empty = false -> w1 <> []) -> False.

(* x = str.replace_re(s, A, t) *)
Definition ReplaceRe (A : lang) (s t x : word) : Prop :=
  (NoMatch A true s /\ x = s) \/
  (exists u1 w1 u2, FirstMatch A true s u1 w1 u2 /\ x = u1 ++ t ++ u2).

(* x = str.replace_re_all(s, A, t): the recursive equation over non-empty matches *)
Inductive ReplaceReAll (A : lang) : word -> word -> word -> Prop :=
| RA_none s t : NoMatch A false s -> ReplaceReAll A s t s
| RA_step s t u1 w1 u2 y : FirstMatch A false s u1 w1 u2 -> ReplaceReAll A u2 t y ->
    ReplaceReAll A s t (u1 ++ t ++ y).

(* ------------------------------------------------------------------------------------------ *)
(** * 3. The specifications determine their result; invariance under lang_eq *)

Theorem LeftmostShortest_unique A ae s k i j i' j' :
  LeftmostShortest A ae s k i j -> LeftmostShortest A ae s k i' j' -> i = i' /\ j = j'.
Proof.
  intros (Hk & Hm & Hl & Hs) (Hk' & Hm' & Hl' & Hs').
  assert (i = i').
  { destruct (Nat.lt_trichotomy i i') as [H|[H|H]]; [|exact H|].
    - exfalso. apply (Hl' i j Hk H Hm).
    - exfalso. apply (Hl i' j' Hk' H Hm'). }
  subst i'. split; [reflexivity|].
  destruct (Nat.lt_trichotomy j j') as [H|[H|H]]; [|exact H|].
  - exfalso. apply (Hs' j H Hm).
  - exfalso. apply (Hs j' H Hm').
Qed.

Theorem LeftmostShortest_not_NoMatchFrom A ae s k i j :
  LeftmostShortest A ae s k i j -> NoMatchFrom A ae s k -> False.
Proof. intros (Hk & Hm & _) Hn. apply (Hn i j Hk Hm). Qed.

Theorem FirstMatch_unique A ae s u1 w1 u2 u1' w1' u2' :
  FirstMatch A ae s u1 w1 u2 -> FirstMatch A ae s u1' w1' u2' -> u1 = u1' /\ w1 = w1' /\ u2 = u2'.
Proof.
  intros (E & HA & Hne & Hmin) (E' & HA' & Hne' & Hmin').
  destruct (Hmin u1' w1' u2' E' HA' Hne') as [L1 L2].
  destruct (Hmin' u1 w1 u2 E HA Hne) as [L1' L2'].
  assert (Hu : length u1 = length u1') by lia.
  assert (Hw : length w1 = length w1') by (specialize (L2 (eq_sym Hu)); specialize (L2' Hu); lia).
  rewrite E in E'. destruct (app_eq_len _ _ _ _ E' Hu) as [-> E2].
  destruct (app_eq_len _ _ _ _ E2 Hw) as [-> ->]. repeat split.
Qed.

Theorem FirstMatch_not_NoMatch A ae s u1 w1 u2 : FirstMatch A ae s u1 w1 u2 -> NoMatch A ae s -> False.
Proof. intros (E & HA & Hne & _) Hn. apply (Hn u1 w1 u2 E HA Hne). Qed.

Theorem ReplaceRe_functional A s t x y : ReplaceRe A s t x -> ReplaceRe A s t y -> x = y.
Proof.
  intros [[Hn ->]|(u1 & w1 & u2 & Hf & ->)] [[Hn' ->]|(u1' & w1' & u2' & Hf' & ->)].
  - reflexivity.
  - exfalso. eapply FirstMatch_not_NoMatch; eauto.
  - exfalso. eapply FirstMatch_not_NoMatch; eauto.
  - destruct (FirstMatch_unique _ _ _ _ _ _ _ _ _ Hf Hf') as (-> & _ & ->). reflexivity.
Qed.

Theorem ReplaceReAll_functional A s t x : ReplaceReAll A s t x -> forall y, ReplaceReAll A s t y -> x = y.
Proof.
  induction 1 as [s t Hn | s t u1 w1 u2 x Hf Hr IH]; intros y Hy.
  - inversion Hy as [s' t' Hn' | s' t' u1' w1' u2' y' Hf' Hr']; subst.
    + reflexivity.
    + exfalso. eapply FirstMatch_not_NoMatch; eauto.
  - inversion Hy as [s' t' Hn' | s' t' u1' w1' u2' y' Hf' Hr']; subst.
    + exfalso. eapply FirstMatch_not_NoMatch; eauto.
    + destruct (FirstMatch_unique _ _ _ _ _ _ _ _ _ Hf Hf') as (-> & _ & ->).
      rewrite (IH y' Hr'). reflexivity.
Qed.

(* invariance under equality of the languages on good words, for good subjects *)
Lemma MatchAt_lang_eq A B ae s i j : goodw s -> lang_eq A B -> MatchAt A ae s i j -> MatchAt B ae s i j.
Proof.
  intros Hg HAB (H1 & H2 & H3 & H4). repeat split; auto. apply (HAB _ (goodw_sub s i j Hg)). exact H3.
Qed.

Theorem LeftmostShortest_lang_eq A B ae s k i j : goodw s -> lang_eq A B ->
  LeftmostShortest A ae s k i j -> LeftmostShortest B ae s k i j.
Proof.
  intros Hg HAB (Hk & Hm & Hl & Hs). pose proof (lang_eq_sym _ _ HAB) as HBA.
  split; [exact Hk|]. split; [eapply MatchAt_lang_eq; eauto|]. split.
  - intros i' j' H1 H2 Hm'. apply (Hl i' j' H1 H2). eapply MatchAt_lang_eq; eauto.
  - intros j' H1 Hm'. apply (Hs j' H1). eapply MatchAt_lang_eq; eauto.
Qed.

Theorem NoMatchFrom_lang_eq A B ae s k : goodw s -> lang_eq A B -> NoMatchFrom A ae s k -> NoMatchFrom B ae s k.
Proof.
  intros Hg HAB Hn i j Hk Hm. apply (Hn i j Hk). eapply MatchAt_lang_eq; eauto. apply lang_eq_sym; auto.
Qed.

Lemma goodw_mid (s u w v : word) : goodw s -> s = u ++ w ++ v -> goodw w /\ goodw v.
Proof. intros Hg ->. apply goodw_app in Hg as [_ Hg]. apply goodw_app in Hg. exact Hg. Qed.

Theorem FirstMatch_lang_eq A B ae s u1 w1 u2 : goodw s -> lang_eq A B ->
  FirstMatch A ae s u1 w1 u2 -> FirstMatch B ae s u1 w1 u2.
Proof.
  intros Hg HAB (E & HA & Hne & Hmin). split; [exact E|]. split; [|split; [exact Hne|]].
  - apply (HAB w1); [apply (goodw_mid s u1 w1 u2 Hg E) | exact HA].
  - intros u1' w1' u2' E' HB' Hne'. apply (Hmin u1' w1' u2' E'); [|exact Hne'].
    apply (HAB w1'); [apply (goodw_mid s u1' w1' u2' Hg E') | exact HB'].
Qed.

Theorem NoMatch_lang_eq A B ae s : goodw s -> lang_eq A B -> NoMatch A ae s -> NoMatch B ae s.
Proof.
  intros Hg HAB Hn u1 w1 u2 E HB Hne. apply (Hn u1 w1 u2 E); [|exact Hne].
  apply (HAB w1); [apply (goodw_mid s u1 w1 u2 Hg E) | exact HB].
Qed.

Theorem ReplaceRe_lang_eq A B s t x : goodw s -> lang_eq A B -> ReplaceRe A s t x -> ReplaceRe B s t x.
Proof.
  intros Hg HAB [[Hn ->]|(u1 & w1 & u2 & Hf & ->)].
  - left. split; [eapply NoMatch_lang_eq; eauto | reflexivity].
  - right. exists u1, w1, u2. split; [eapply FirstMatch_lang_eq; eauto | reflexivity].
Qed.

Theorem ReplaceReAll_lang_eq A B s t x : goodw s -> lang_eq A B -> ReplaceReAll A s t x -> ReplaceReAll B s t x.
Proof.
  intros Hg HAB H. induction H as [s t Hn | s t u1 w1 u2 x Hf Hr IH].
  - apply RA_none. eapply NoMatch_lang_eq; eauto.
  - apply RA_step with (w1 := w1) (u2 := u2).
    + eapply FirstMatch_lang_eq; eauto.
    + apply IH. destruct Hf as (E & _). apply (goodw_mid s u1 w1 u2 Hg E).
Qed.

(* ------------------------------------------------------------------------------------------ *)
(** * 4. Index form => word form (on the suffix s[k..)) *)

Theorem LeftmostShortest_FirstMatch A ae s k i j : k <= length s ->
  LeftmostShortest A ae s k i j -> FirstMatch A ae (skipn k s) (sub s k i) (sub s i j) (skipn j s).
Proof.
  intros Hks (Hk & (Hij & Hj & HA & Hne) & Hl & Hs).
  split; [apply split3; assumption|]. split; [exact HA|]. split.
  - intros Hae E. specialize (Hne Hae). apply (f_equal (@length N)) in E.
    rewrite sub_length in E by assumption. cbn in E. lia.
  - intros u w v E HAw Hnew.
    destruct (sub_decomp s k u w v Hks E) as (Hlen & _ & Ew & _).
    assert (Hm : MatchAt A ae s (k + length u) (k + length u + length w)).
    { split; [lia|]. split; [exact Hlen|]. split; [rewrite Ew; exact HAw|].
      intros Hae. specialize (Hnew Hae). destruct w; [congruence|cbn; lia]. }
    rewrite !sub_length by lia.
    assert (H1 : i <= k + length u).
    { destruct (Nat.le_gt_cases i (k + length u)) as [H|H]; [exact H|].
      exfalso. apply (Hl _ _ (Nat.le_add_r k (length u)) H Hm). }
    split; [lia|]. intros H2. assert (Hi : k + length u = i) by lia. rewrite Hi in Hm.
    destruct (Nat.le_gt_cases j (i + length w)) as [H|H]; [lia|].
    exfalso. apply (Hs _ H Hm).
Qed.

Theorem NoMatchFrom_NoMatch A ae s k : k <= length s -> NoMatchFrom A ae s k -> NoMatch A ae (skipn k s).
Proof.
  intros Hks Hn u w v E HAw Hnew.
  destruct (sub_decomp s k u w v Hks E) as (Hlen & _ & Ew & _).
  apply (Hn (k + length u) (k + length u + length w)); [lia|].
  split; [lia|]. split; [exact Hlen|]. split; [rewrite Ew; exact HAw|].
  intros Hae. specialize (Hnew Hae). destruct w; [congruence|cbn; lia].
Qed.

(* ------------------------------------------------------------------------------------------ *)
(** * 5. The loops of naive_re_search *)

Lemma empty_node_lang p w : is_empty_node p = true -> ~ L p w.
Proof.
  destruct p as [i n c k]. unfold is_empty_node. cbn [rnode]. destruct k; try discriminate.
  intros _ H. exact H.
Qed.

(* inner loop: the least non-empty prefix of [rest] that lies in L p, if any *)
Theorem re_extend_spec : merge_ok -> inclusion_sound -> forall rest m p j m' res,
  dwf m -> owned m p -> goodw rest -> re_extend m p rest j = Some (m', res) ->
  dwf m' /\ ext m m' /\
  match res with
  | Some j' => exists n, j' = j + S n /\ S n <= length rest /\ L p (firstn (S n) rest) /\
                         forall n', 0 < n' -> n' < S n -> ~ L p (firstn n' rest)
  | None => forall n', 0 < n' -> n' <= length rest -> ~ L p (firstn n' rest)
  end.
Proof.
  intros HM Hsub. induction rest as [|c t IH]; intros m p j m' res Dm Op Hg H; cbn [re_extend] in H.
  - inversion H; subst m' res. split; [exact Dm|]. split; [apply ext_refl|]. cbn. intros n' H1 H2. lia.
  - apply goodw_cons in Hg as [Hc Hgt].
    destruct (char_derivative m p c) as [[m1 p1]|] eqn:D1; cbn [bind] in H; [|discriminate].
    destruct (char_derivative_quotient HM Hsub m p c m1 p1 Dm Op Hc D1) as (D1' & X1 & Op1 & Q1).
    assert (Hstep : forall n, L p (firstn (S n) (c :: t)) <-> L p1 (firstn n t)).
    { intros n. cbn [firstn]. symmetry. apply Q1. apply goodw_firstn. exact Hgt. }
    assert (Hnul : rnul p1 = true <-> L p (firstn 1 (c :: t))).
    { rewrite (Hstep 0). cbn [firstn]. apply (nullable_owned m1 p1 (proj1 D1') Op1). }
    destruct (rnul p1) eqn:N1.
    + inversion H; subst m' res. split; [exact D1'|]. split; [exact X1|].
      exists 0. split; [lia|]. split; [cbn; lia|]. split; [apply Hnul; reflexivity|].
      intros n' H1 H2. lia.
    + destruct (is_empty_node p1) eqn:E1.
      * inversion H; subst m' res. split; [exact D1'|]. split; [exact X1|].
        intros n' H1 H2. destruct n' as [|n']; [lia|]. rewrite Hstep. apply empty_node_lang. exact E1.
      * destruct (IH m1 p1 (S j) m' res D1' Op1 Hgt H) as (D2 & X2 & R).
        split; [exact D2|]. split; [eapply ext_trans; eauto|].
        destruct res as [j'|].
        -- destruct R as (n & Ej & Hn & HL & Hmin). exists (S n). split; [lia|]. split; [cbn; lia|].
           split; [apply Hstep; exact HL|].
           intros n' H1 H2. destruct n' as [|n']; [lia|]. rewrite Hstep.
           destruct n' as [|n'].
           ++ cbn [firstn]. intros HL0. apply (nullable_owned m1 p1 (proj1 D1') Op1) in HL0. congruence.
           ++ apply Hmin; lia.
        -- intros n' H1 H2. destruct n' as [|n']; [lia|]. rewrite Hstep.
           destruct n' as [|n'].
           ++ cbn [firstn]. intros HL0. apply (nullable_owned m1 p1 (proj1 D1') Op1) in HL0. congruence.
           ++ apply R; [lia | cbn in H2; lia].
Qed.

(* outer loop: the first offset a into [suf] at which a non-empty match starts, and the shortest
   such match there *)
Theorem re_search_from_spec : merge_ok -> inclusion_sound -> forall suf m r i m' res,
  dwf m -> owned m r -> goodw suf -> re_search_from m r suf i = Some (m', res) ->
  dwf m' /\ ext m m' /\
  match res with
  | Found i' j' => exists a n, i' = i + a /\ j' = i' + S n /\ a + S n <= length suf /\
      L r (firstn (S n) (skipn a suf)) /\
      (forall n', 0 < n' -> n' < S n -> ~ L r (firstn n' (skipn a suf))) /\
      (forall a' n', a' < a -> 0 < n' -> a' + n' <= length suf -> ~ L r (firstn n' (skipn a' suf)))
  | NotFound => forall a' n', 0 < n' -> a' + n' <= length suf -> ~ L r (firstn n' (skipn a' suf))
  end.
Proof.
  intros HM Hsub. induction suf as [|c t IH]; intros m r i m' res Dm Or Hg H.
  - cbn [re_search_from] in H. inversion H; subst m' res. split; [exact Dm|]. split; [apply ext_refl|].
    intros a' n' H1 H2. cbn in H2. lia.
  - cbn [re_search_from] in H.
    destruct (re_extend m r (c :: t) i) as [[m1 e]|] eqn:E1; cbn [bind] in H; [|discriminate].
    destruct (re_extend_spec HM Hsub (c :: t) m r i m1 e Dm Or Hg E1) as (D1 & X1 & R1).
    destruct e as [j|].
    + inversion H; subst m' res. split; [exact D1|]. split; [exact X1|].
      destruct R1 as (n & Ej & Hn & HL & Hmin). exists 0, n. rewrite skipn_O.
      split; [lia|]. split; [lia|]. split; [lia|]. split; [exact HL|]. split; [exact Hmin|].
      intros a' n' Ha. lia.
    + apply goodw_cons in Hg as [Hc Hgt].
      destruct (IH m1 r (S i) m' res D1 (ext_owned m m1 r X1 Or) Hgt H) as (D2 & X2 & R2).
      split; [exact D2|]. split; [eapply ext_trans; eauto|].
      destruct res as [i' j'|].
      * destruct R2 as (a & n & Ei & Ej & Hlen & HL & Hmin & Hleft).
        exists (S a), n. cbn [skipn]. split; [lia|]. split; [lia|]. split; [cbn; lia|].
        split; [exact HL|]. split; [exact Hmin|].
        intros a' n' Ha Hn' Hl. destruct a' as [|a'].
        -- rewrite skipn_O. apply R1; lia.
        -- cbn [skipn]. apply Hleft; [lia | exact Hn' | cbn in Hl; lia].
      * intros a' n' Hn' Hl. destruct a' as [|a'].
        -- rewrite skipn_O. apply R1; lia.
        -- cbn [skipn]. apply R2; [exact Hn' | cbn in Hl; lia].
Qed.

(* a non-empty match as offsets into the suffix s[k..) *)
Lemma MatchAt_offsets A ae s k i j : k <= i -> i < j -> MatchAt A ae s i j ->
  exists a n, i = k + a /\ j = k + a + n /\ 0 < n /\ a + n <= length (skipn k s) /\
              A (firstn n (skipn a (skipn k s))).
Proof.
  intros Hk Hij (_ & Hj & HA & _). exists (i - k), (j - i).
  split; [lia|]. split; [lia|]. split; [lia|]. split; [rewrite skipn_length; lia|].
  rewrite <- sub_skipn. replace (k + (i - k)) with i by lia. replace (i + (j - i)) with j by lia. exact HA.
Qed.

(* C10, search: the result of naive_re_search is the leftmost, then shortest, match at or after k *)
Theorem naive_re_search_spec : merge_ok -> inclusion_sound -> forall m r s k allow_empty m' res,
  dwf m -> owned m r -> goodw s -> k <= length s ->
  naive_re_search m r s k allow_empty = Some (m', res) ->
  dwf m' /\ ext m m' /\
  (forall i j, res = Found i j -> LeftmostShortest (L r) allow_empty s k i j) /\
  (res = NotFound -> NoMatchFrom (L r) allow_empty s k).
Proof.
  intros HM Hsub m r s k ae m' res Dm Or Hg Hk H. unfold naive_re_search in H.
  pose proof (nullable_owned m r (proj1 Dm) Or) as Hnul.
  destruct (ae && rnul r) eqn:Sc.
  - (* nullable shortcut *)
    apply andb_true_iff in Sc as [-> Hn]. inversion H; subst m' res.
    split; [exact Dm|]. split; [apply ext_refl|]. split; [|discriminate].
    intros i j [= <- <-]. split; [lia|]. split; [|split].
    + split; [lia|]. split; [exact Hk|]. split; [|discriminate]. rewrite sub_nil. apply Hnul. exact Hn.
    + intros i' j' H1 H2. lia.
    + intros j' H1 (H2 & _). lia.
  - (* in this branch only non-empty substrings can match *)
    assert (Hne : forall i j, MatchAt (L r) ae s i j -> i < j).
    { intros i j (H1 & H2 & H3 & H4). destruct ae; [|apply H4; reflexivity].
      destruct (Nat.eq_dec i j) as [<-|Hd]; [|lia].
      rewrite sub_nil in H3. apply Hnul in H3. cbn in Sc. congruence. }
    destruct (re_search_from_spec HM Hsub (skipn k s) m r k m' res Dm Or (goodw_skipn k s Hg) H)
      as (D1 & X1 & R).
    split; [exact D1|]. split; [exact X1|]. split.
    + intros i j ->. destruct R as (a & n & -> & -> & Hlen & HL & Hmin & Hleft).
      rewrite skipn_length in Hlen.
      split; [lia|]. split; [|split].
      * split; [lia|]. split; [lia|]. split; [|intros _; lia]. rewrite sub_skipn. exact HL.
      * intros i' j' H1 H2 Hm. pose proof (Hne i' j' Hm) as Hlt.
        destruct (MatchAt_offsets _ _ _ k i' j' H1 Hlt Hm) as (a' & n' & -> & -> & Hn' & Hl' & HA').
        apply (Hleft a' n'); [lia | exact Hn' | exact Hl' | exact HA'].
      * intros j' H1 Hm. pose proof (Hne (k + a) j' Hm) as Hlt.
        destruct (MatchAt_offsets _ _ _ k (k + a) j' (Nat.le_add_r k a) Hlt Hm)
          as (a' & n' & Ea & -> & Hn' & Hl' & HA').
        assert (a' = a) by lia. subst a'. apply (Hmin n'); [exact Hn' | lia | exact HA'].
    + intros ->. intros i j H1 Hm. pose proof (Hne i j Hm) as Hlt.
      destruct (MatchAt_offsets _ _ _ k i j H1 Hlt Hm) as (a' & n' & -> & -> & Hn' & Hl' & HA').
      apply (R a' n'); [exact Hn' | exact Hl' | exact HA'].
Qed.

(* start position beyond the end of the string: only the nullable shortcut can answer Found
   (the callers never do this: they start at 0 or at the end of a previous match) *)
Theorem naive_re_search_past_end m r s k allow_empty : length s < k ->
  naive_re_search m r s k allow_empty =
  Some (m, if allow_empty && rnul r then Found k k else NotFound).
Proof.
  intros Hk. unfold naive_re_search. destruct (allow_empty && rnul r); [reflexivity|].
  rewrite skipn_all2 by lia. reflexivity.
Qed.

(* ------------------------------------------------------------------------------------------ *)
(** * 6. str_replace_re and str_replace_re_all *)

Theorem replace_re_spec_ext : merge_ok -> inclusion_sound -> forall m s r t m' x,
  dwf m -> owned m r -> goodw s -> str_replace_re m s r t = Some (m', x) ->
  dwf m' /\ ext m m' /\ ReplaceRe (L r) s t x.
Proof.
  intros HM Hsub m s r t m' x Dm Or Hg H. unfold str_replace_re in H.
  destruct (naive_re_search m r s 0 true) as [[m1 res]|] eqn:S1; cbn [bind] in H; [|discriminate].
  destruct (naive_re_search_spec HM Hsub m r s 0 true m1 res Dm Or Hg (Nat.le_0_l _) S1)
    as (D1 & X1 & HF & HN).
  destruct res as [i j|]; inversion H; subst m' x; (split; [exact D1|]); (split; [exact X1|]).
  - right. exists (firstn i s), (sub s i j), (skipn j s). split; [|reflexivity].
    pose proof (LeftmostShortest_FirstMatch _ _ s 0 i j (Nat.le_0_l _) (HF i j eq_refl)) as F.
    rewrite skipn_O, sub_0 in F. exact F.
  - left. split; [|reflexivity].
    pose proof (NoMatchFrom_NoMatch _ _ s 0 (Nat.le_0_l _) (HN eq_refl)) as F. rewrite skipn_O in F. exact F.
Qed.

Theorem replace_re_spec : merge_ok -> inclusion_sound -> forall m s r t m' x,
  dwf m -> owned m r -> goodw s -> str_replace_re m s r t = Some (m', x) -> ReplaceRe (L r) s t x.
Proof. intros HM Hsub m s r t m' x Dm Or Hg H. apply (replace_re_spec_ext HM Hsub m s r t m' x Dm Or Hg H). Qed.

(* the loop of str_replace_re_all from scan position i with accumulator x; the fuel is never
   exhausted because every (non-empty) match moves i forward *)
Lemma replace_re_all_go_spec : merge_ok -> inclusion_sound -> forall s r t, goodw s ->
  forall fuel m i x m' y, dwf m -> owned m r -> i <= length s -> length s - i < fuel ->
  replace_re_all_go fuel m s r t i x = Some (m', y) ->
  dwf m' /\ ext m m' /\ exists z, y = x ++ z /\ ReplaceReAll (L r) (skipn i s) t z.
Proof.
  intros HM Hsub s r t Hg. induction fuel as [|f IH]; intros m i x m' y Dm Or Hi Hf H; [lia|].
  cbn [replace_re_all_go] in H.
  destruct (naive_re_search m r s i false) as [[m1 res]|] eqn:S1; cbn [bind] in H; [|discriminate].
  destruct (naive_re_search_spec HM Hsub m r s i false m1 res Dm Or Hg Hi S1) as (D1 & X1 & HF & HN).
  destruct res as [j k|].
  - pose proof (HF j k eq_refl) as LS.
    pose proof (LeftmostShortest_FirstMatch _ _ s i j k Hi LS) as F.
    destruct LS as (Hij & (Hjk & Hk & _ & Hne) & _). specialize (Hne eq_refl).
    destruct (IH m1 k _ m' y D1 (ext_owned m m1 r X1 Or) Hk ltac:(lia) H) as (D2 & X2 & z & -> & Hz).
    split; [exact D2|]. split; [eapply ext_trans; eauto|].
    exists (sub s i j ++ t ++ z). split; [unfold sub; rewrite <- !app_assoc; reflexivity|].
    eapply RA_step; eauto.
  - inversion H; subst m' y. split; [exact D1|]. split; [exact X1|].
    exists (skipn i s). split; [reflexivity|]. apply RA_none. apply NoMatchFrom_NoMatch; auto.
Qed.

Theorem replace_re_all_spec_ext : merge_ok -> inclusion_sound -> forall m s r t m' x,
  dwf m -> owned m r -> goodw s -> str_replace_re_all m s r t = Some (m', x) ->
  dwf m' /\ ext m m' /\ ReplaceReAll (L r) s t x.
Proof.
  intros HM Hsub m s r t m' x Dm Or Hg H. unfold str_replace_re_all in H.
  destruct (replace_re_all_go_spec HM Hsub s r t Hg (S (length s)) m 0 [] m' x Dm Or
              (Nat.le_0_l _) ltac:(lia) H) as (D1 & X1 & z & -> & Hz).
  split; [exact D1|]. split; [exact X1|]. rewrite skipn_O in Hz. exact Hz.
Qed.

Theorem replace_re_all_spec : merge_ok -> inclusion_sound -> forall m s r t m' x,
  dwf m -> owned m r -> goodw s -> str_replace_re_all m s r t = Some (m', x) -> ReplaceReAll (L r) s t x.
Proof. intros HM Hsub m s r t m' x Dm Or Hg H. apply (replace_re_all_spec_ext HM Hsub m s r t m' x Dm Or Hg H). Qed.

(* ------------------------------------------------------------------------------------------ *)
(** * 7. Panics: None only if some char_derivative call returns None *)

(* a character derivative of an owned term fails in some well-formed extension of m.  Before the
   repair of D11 this could happen (u32 overflow of a loop bound inside ReManager::concat); since
   the repair it cannot (deriv_never_fails below), so the search / replace functions never panic. *)
Definition deriv_fails (m : mgr) : Prop :=
  exists m1 p c, dwf m1 /\ ext m m1 /\ owned m1 p /\ good c /\ char_derivative m1 p c = None.

Lemma deriv_fails_meaning m : deriv_fails m <->
  exists m1 p c, dwf m1 /\ ext m m1 /\ owned m1 p /\ good c /\ char_derivative m1 p c = None.
Proof. reflexivity. Qed.

Lemma deriv_fails_ext m m1 : ext m m1 -> deriv_fails m1 -> deriv_fails m.
Proof.
  intros X (m2 & p & c & D & X2 & O & Hc & H). exists m2, p, c.
  split; [exact D|]. split; [eapply ext_trans; eauto|]. auto.
Qed.

Lemma re_extend_none : merge_ok -> inclusion_sound -> forall rest m p j,
  dwf m -> owned m p -> goodw rest -> re_extend m p rest j = None -> deriv_fails m.
Proof.
  intros HM Hsub. induction rest as [|c t IH]; intros m p j Dm Op Hg H; cbn [re_extend] in H; [discriminate|].
  apply goodw_cons in Hg as [Hc Hgt].
  destruct (char_derivative m p c) as [[m1 p1]|] eqn:D1; cbn [bind] in H.
  - destruct (char_derivative_quotient HM Hsub m p c m1 p1 Dm Op Hc D1) as (D1' & X1 & Op1 & _).
    destruct (rnul p1); [discriminate|]. destruct (is_empty_node p1); [discriminate|].
    apply (deriv_fails_ext m m1 X1). apply (IH m1 p1 (S j) D1' Op1 Hgt H).
  - exists m, p, c. split; [exact Dm|]. split; [apply ext_refl|]. auto.
Qed.

Lemma re_search_from_none : merge_ok -> inclusion_sound -> forall suf m r i,
  dwf m -> owned m r -> goodw suf -> re_search_from m r suf i = None -> deriv_fails m.
Proof.
  intros HM Hsub. induction suf as [|c t IH]; intros m r i Dm Or Hg H; cbn [re_search_from] in H; [discriminate|].
  destruct (re_extend m r (c :: t) i) as [[m1 e]|] eqn:E1; cbn [bind] in H.
  - destruct (re_extend_spec HM Hsub (c :: t) m r i m1 e Dm Or Hg E1) as (D1 & X1 & _).
    destruct e as [j|]; [discriminate|]. apply goodw_cons in Hg as [_ Hgt].
    apply (deriv_fails_ext m m1 X1). apply (IH m1 r (S i) D1 (ext_owned m m1 r X1 Or) Hgt H).
  - apply (re_extend_none HM Hsub (c :: t) m r i Dm Or Hg E1).
Qed.

Theorem naive_re_search_total : merge_ok -> inclusion_sound -> forall m r s k allow_empty,
  dwf m -> owned m r -> goodw s -> naive_re_search m r s k allow_empty = None -> deriv_fails m.
Proof.
  intros HM Hsub m r s k ae Dm Or Hg H. unfold naive_re_search in H.
  destruct (ae && rnul r); [discriminate|].
  apply (re_search_from_none HM Hsub (skipn k s) m r k Dm Or (goodw_skipn k s Hg) H).
Qed.

Theorem str_replace_re_total : merge_ok -> inclusion_sound -> forall m s r t,
  dwf m -> owned m r -> goodw s -> str_replace_re m s r t = None -> deriv_fails m.
Proof.
  intros HM Hsub m s r t Dm Or Hg H. unfold str_replace_re in H.
  destruct (naive_re_search m r s 0 true) as [[m1 res]|] eqn:S1; cbn [bind] in H.
  - destruct res; discriminate.
  - apply (naive_re_search_total HM Hsub m r s 0 true Dm Or Hg S1).
Qed.

(* the out-of-fuel branch is unreachable *)
Lemma replace_re_all_go_none : merge_ok -> inclusion_sound -> forall s r t, goodw s ->
  forall fuel m i x, dwf m -> owned m r -> i <= length s -> length s - i < fuel ->
  replace_re_all_go fuel m s r t i x = None -> deriv_fails m.
Proof.
  intros HM Hsub s r t Hg. induction fuel as [|f IH]; intros m i x Dm Or Hi Hf H; [lia|].
  cbn [replace_re_all_go] in H.
  destruct (naive_re_search m r s i false) as [[m1 res]|] eqn:S1; cbn [bind] in H.
  - destruct (naive_re_search_spec HM Hsub m r s i false m1 res Dm Or Hg Hi S1) as (D1 & X1 & HF & _).
    destruct res as [j k|]; [|discriminate].
    destruct (HF j k eq_refl) as (Hij & (Hjk & Hk & _ & Hne) & _). specialize (Hne eq_refl).
    apply (deriv_fails_ext m m1 X1).
    apply (IH m1 k _ D1 (ext_owned m m1 r X1 Or) Hk ltac:(lia) H).
  - apply (naive_re_search_total HM Hsub m r s i false Dm Or Hg S1).
Qed.

Theorem str_replace_re_all_total : merge_ok -> inclusion_sound -> forall m s r t,
  dwf m -> owned m r -> goodw s -> str_replace_re_all m s r t = None -> deriv_fails m.
Proof.
  intros HM Hsub m s r t Dm Or Hg H. unfold str_replace_re_all in H.
  apply (replace_re_all_go_none HM Hsub s r t Hg (S (length s)) m 0 [] Dm Or (Nat.le_0_l _) ltac:(lia) H).
Qed.

(* D11 repaired: no character derivative panics (DerivProofs.char_derivative_total), hence the search
   and the two replace functions return on every good string, from every dwf manager *)
Theorem deriv_never_fails m : ~ deriv_fails m.
Proof.
  intros (m1 & p & c & D & _ & O & Hc & H).
  destruct (char_derivative_total m1 p c D O Hc) as (m' & d & E). congruence.
Qed.
Theorem naive_re_search_returns m r s k allow_empty :
  dwf m -> owned m r -> goodw s -> exists m' res, naive_re_search m r s k allow_empty = Some (m', res).
Proof.
  intros Dm Or Hg. destruct (naive_re_search m r s k allow_empty) as [[m' res]|] eqn:E; [eauto|].
  exfalso. apply (deriv_never_fails m).
  apply (naive_re_search_total merge_ok_holds inclusion_sound_holds m r s k allow_empty Dm Or Hg E).
Qed.
Theorem str_replace_re_returns m s r t :
  dwf m -> owned m r -> goodw s -> exists m' x, str_replace_re m s r t = Some (m', x).
Proof.
  intros Dm Or Hg. destruct (str_replace_re m s r t) as [[m' x]|] eqn:E; [eauto|].
  exfalso. apply (deriv_never_fails m).
  apply (str_replace_re_total merge_ok_holds inclusion_sound_holds m s r t Dm Or Hg E).
Qed.
Theorem str_replace_re_all_returns m s r t :
  dwf m -> owned m r -> goodw s -> exists m' x, str_replace_re_all m s r t = Some (m', x).
Proof.
  intros Dm Or Hg. destruct (str_replace_re_all m s r t) as [[m' x]|] eqn:E; [eauto|].
  exfalso. apply (deriv_never_fails m).
  apply (str_replace_re_all_total merge_ok_holds inclusion_sound_holds m s r t Dm Or Hg E).
Qed.

(* ------------------------------------------------------------------------------------------ *)
(** * 8. Program level: the results are the SMT-LIB values for the language [denote p] *)

Theorem re_search_denotation : merge_ok -> inclusion_sound -> forall p m m1 r s k allow_empty m2 res,
  dwf m -> prog_ok p = true -> run p m = Some (m1, r) -> goodw s -> k <= length s ->
  naive_re_search m1 r s k allow_empty = Some (m2, res) ->
  (forall i j, res = Found i j -> LeftmostShortest (denote p) allow_empty s k i j) /\
  (res = NotFound -> NoMatchFrom (denote p) allow_empty s k).
Proof.
  intros HM Hsub p m m1 r s k ae m2 res Dm Hok R Hg Hk H.
  destruct (run_correct Hsub p m m1 r (proj1 Dm) Hok R) as (_ & _ & _ & HL).
  destruct (run_dwf p m m1 r Dm Hok R) as (D1 & _ & Or).
  destruct (naive_re_search_spec HM Hsub m1 r s k ae m2 res D1 Or Hg Hk H) as (_ & _ & HF & HN).
  split.
  - intros i j E. apply (LeftmostShortest_lang_eq (L r)); auto.
  - intros E. apply (NoMatchFrom_lang_eq (L r)); auto.
Qed.

Theorem replace_re_denotation : merge_ok -> inclusion_sound -> forall p m m1 r s t m2 x,
  dwf m -> prog_ok p = true -> run p m = Some (m1, r) -> goodw s ->
  str_replace_re m1 s r t = Some (m2, x) -> ReplaceRe (denote p) s t x.
Proof.
  intros HM Hsub p m m1 r s t m2 x Dm Hok R Hg H.
  destruct (run_correct Hsub p m m1 r (proj1 Dm) Hok R) as (_ & _ & _ & HL).
  destruct (run_dwf p m m1 r Dm Hok R) as (D1 & _ & Or).
  apply (ReplaceRe_lang_eq (L r)); auto. apply (replace_re_spec HM Hsub m1 s r t m2 x D1 Or Hg H).
Qed.

Theorem replace_re_all_denotation : merge_ok -> inclusion_sound -> forall p m m1 r s t m2 x,
  dwf m -> prog_ok p = true -> run p m = Some (m1, r) -> goodw s ->
  str_replace_re_all m1 s r t = Some (m2, x) -> ReplaceReAll (denote p) s t x.
Proof.
  intros HM Hsub p m m1 r s t m2 x Dm Hok R Hg H.
  destruct (run_correct Hsub p m m1 r (proj1 Dm) Hok R) as (_ & _ & _ & HL).
  destruct (run_dwf p m m1 r Dm Hok R) as (D1 & _ & Or).
  apply (ReplaceReAll_lang_eq (L r)); auto. apply (replace_re_all_spec HM Hsub m1 s r t m2 x D1 Or Hg H).
Qed.

(* equality with the model's answer is a complete test oracle: the SMT-LIB value is unique *)
Theorem replace_re_complete : merge_ok -> inclusion_sound -> forall p m m1 r s t m2 x,
  dwf m -> prog_ok p = true -> run p m = Some (m1, r) -> goodw s ->
  str_replace_re m1 s r t = Some (m2, x) -> forall y, ReplaceRe (denote p) s t y <-> y = x.
Proof.
  intros HM Hsub p m m1 r s t m2 x Dm Hok R Hg H y.
  pose proof (replace_re_denotation HM Hsub p m m1 r s t m2 x Dm Hok R Hg H) as Hx.
  split; [intros Hy; apply (ReplaceRe_functional _ _ _ _ _ Hy Hx) | intros ->; exact Hx].
Qed.

Theorem replace_re_all_complete : merge_ok -> inclusion_sound -> forall p m m1 r s t m2 x,
  dwf m -> prog_ok p = true -> run p m = Some (m1, r) -> goodw s ->
  str_replace_re_all m1 s r t = Some (m2, x) -> forall y, ReplaceReAll (denote p) s t y <-> y = x.
Proof.
  intros HM Hsub p m m1 r s t m2 x Dm Hok R Hg H y.
  pose proof (replace_re_all_denotation HM Hsub p m m1 r s t m2 x Dm Hok R Hg H) as Hx.
  split; [intros Hy; apply (ReplaceReAll_functional _ _ _ _ Hy _ Hx) | intros ->; exact Hx].
Qed.

(* ------------------------------------------------------------------------------------------ *)
(** * 9. The model run from the fresh manager is a certified evaluator of the SMT-LIB functions
      (specification glue, used for the examples of Properties/C10.v and usable as test oracle) *)

Definition eval_re_search (p : prog) (s : word) (k : nat) (allow_empty : bool) : option sr :=
  match run p new_mgr with Some (m1, r) => option_map snd (naive_re_search m1 r s k allow_empty) | None => None end.
Definition eval_replace_re (p : prog) (s t : word) : option word :=
  match run p new_mgr with Some (m1, r) => option_map snd (str_replace_re m1 s r t) | None => None end.
Definition eval_replace_re_all (p : prog) (s t : word) : option word :=
  match run p new_mgr with Some (m1, r) => option_map snd (str_replace_re_all m1 s r t) | None => None end.

Theorem eval_re_search_sound : merge_ok -> inclusion_sound -> forall p s k allow_empty res,
  prog_ok p = true -> goodwb s = true -> k <= length s -> eval_re_search p s k allow_empty = Some res ->
  match res with
  | Found i j => LeftmostShortest (denote p) allow_empty s k i j
  | NotFound => NoMatchFrom (denote p) allow_empty s k
  end.
Proof.
  intros HM Hsub p s k ae res Hok Hg Hk H. apply goodwb_iff in Hg. unfold eval_re_search in H.
  destruct (run p new_mgr) as [[m1 r]|] eqn:R; [|discriminate].
  destruct (naive_re_search m1 r s k ae) as [[m2 res']|] eqn:E; [|discriminate]. cbn in H. injection H as ->.
  destruct (re_search_denotation HM Hsub p new_mgr m1 r s k ae m2 res new_mgr_dwf Hok R Hg Hk E) as [HF HN].
  destruct res as [i j|]; [apply HF | apply HN]; reflexivity.
Qed.

Theorem eval_replace_re_sound : merge_ok -> inclusion_sound -> forall p s t x,
  prog_ok p = true -> goodwb s = true -> eval_replace_re p s t = Some x -> ReplaceRe (denote p) s t x.
Proof.
  intros HM Hsub p s t x Hok Hg H. apply goodwb_iff in Hg. unfold eval_replace_re in H.
  destruct (run p new_mgr) as [[m1 r]|] eqn:R; [|discriminate].
  destruct (str_replace_re m1 s r t) as [[m2 x']|] eqn:E; [|discriminate]. cbn in H. injection H as ->.
  apply (replace_re_denotation HM Hsub p new_mgr m1 r s t m2 x new_mgr_dwf Hok R Hg E).
Qed.

Theorem eval_replace_re_all_sound : merge_ok -> inclusion_sound -> forall p s t x,
  prog_ok p = true -> goodwb s = true -> eval_replace_re_all p s t = Some x -> ReplaceReAll (denote p) s t x.
Proof.
  intros HM Hsub p s t x Hok Hg H. apply goodwb_iff in Hg. unfold eval_replace_re_all in H.
  destruct (run p new_mgr) as [[m1 r]|] eqn:R; [|discriminate].
  destruct (str_replace_re_all m1 s r t) as [[m2 x']|] eqn:E; [|discriminate]. cbn in H. injection H as ->.
  apply (replace_re_all_denotation HM Hsub p new_mgr m1 r s t m2 x new_mgr_dwf Hok R Hg E).
Qed.

(* the certified evaluators are total on accepted programs and good strings (run_total + the above) *)
Theorem eval_replace_re_total p s t : prog_ok p = true -> goodwb s = true ->
  exists x, eval_replace_re p s t = Some x /\ forall y, ReplaceRe (denote p) s t y <-> y = x.
Proof.
  intros Hok Hg. pose proof Hg as Hg'. apply goodwb_iff in Hg'. unfold eval_replace_re.
  destruct (run_total p new_mgr (proj1 new_mgr_dwf) Hok) as (m1 & r & R). rewrite R.
  destruct (run_dwf p new_mgr m1 r new_mgr_dwf Hok R) as (D1 & _ & Or).
  destruct (str_replace_re_returns m1 s r t D1 Or Hg') as (m2 & x & E). rewrite E. exists x. split; [reflexivity|].
  apply (replace_re_complete merge_ok_holds inclusion_sound_holds p new_mgr m1 r s t m2 x new_mgr_dwf Hok R Hg' E).
Qed.
Theorem eval_replace_re_all_total p s t : prog_ok p = true -> goodwb s = true ->
  exists x, eval_replace_re_all p s t = Some x /\ forall y, ReplaceReAll (denote p) s t y <-> y = x.
Proof.
  intros Hok Hg. pose proof Hg as Hg'. apply goodwb_iff in Hg'. unfold eval_replace_re_all.
  destruct (run_total p new_mgr (proj1 new_mgr_dwf) Hok) as (m1 & r & R). rewrite R.
  destruct (run_dwf p new_mgr m1 r new_mgr_dwf Hok R) as (D1 & _ & Or).
  destruct (str_replace_re_all_returns m1 s r t D1 Or Hg') as (m2 & x & E). rewrite E. exists x. split; [reflexivity|].
  apply (replace_re_all_complete merge_ok_holds inclusion_sound_holds p new_mgr m1 r s t m2 x new_mgr_dwf Hok R Hg' E).
Qed.

Print Assumptions naive_re_search_spec.
Print Assumptions replace_re_denotation.
Print Assumptions replace_re_all_denotation.
Print Assumptions replace_re_all_complete.
Print Assumptions str_replace_re_all_total.
