(* LoopRangeProofs.v -- C15: LoopRange arithmetic equals arithmetic on the integer sets.
   A range denotes the set [inr n r] of naturals (LoopRange.v).  Below: the set-level vocabulary
   (k-fold sums, sum sets, product sets, the loop-of-loop union), "ideal" (unbounded) versions of
   the operations, and the proofs that every operation of the model computes the set-level
   object, returning None exactly when that object does not fit u32 bounds. *)
Require Import Base LoopRange.
Open Scope N_scope.

(* ------------------------------------------------------------------ vocabulary *)

(* n is a sum of k naturals, each a member of r *)
Fixpoint ksum_nat (r : lr) (k : nat) (n : N) : Prop :=
  match k with
  | O => n = 0
  | S k' => exists x m, inr x r /\ ksum_nat r k' m /\ n = x + m
  end.
Definition ksum (r : lr) (k n : N) : Prop := ksum_nat r (N.to_nat k) n.

Definition sumset (r s : lr) (n : N) : Prop := exists x y, inr x r /\ inr y s /\ n = x + y.
Definition products (r s : lr) (n : N) : Prop := exists x y, inr x r /\ inr y s /\ n = x * y.
(* the exponents of L reached by (loop (loop L r) s): union over y in s of the y-fold sums of r *)
Definition loop_of_loop (r s : lr) (n : N) : Prop := exists y, inr y s /\ ksum r y n.

Definition subset_of (t u : lr) : Prop := forall n, inr n t -> inr n u.
(* t is the least range that contains the set P (its interval hull) *)
Definition hull_of (P : N -> Prop) (t : lr) : Prop :=
  (forall n, P n -> inr n t) /\ forall u, (forall n, P n -> inr n u) -> subset_of t u.
(* P is the denotation of a range with u32 bounds *)
Definition representable (P : N -> Prop) : Prop := exists t, lr_valid t /\ forall n, inr n t <-> P n.

Definition nonempty (r : lr) : Prop :=
  match r with LR a (Some b) => a <= b | LR _ None => True end.

(* ------------------------------------------------------------------ tactics *)

Ltac unf := unfold lr_valid, nonempty, inr, lr_contains, lr_includes, lr_add_point, lr_add, lr_scale,
  lr_point, lr_finite, lr_infinite, lr_opt, lr_star, lr_plus, lr_start, lr_is_point,
  add32, mul32, bind, U32MAX in *.

Ltac bdestr :=
  repeat match goal with
  | |- context [?a <=? ?b] => destruct (N.leb_spec a b)
  | |- context [?a <? ?b] => destruct (N.ltb_spec a b)
  | |- context [?a =? ?b] => destruct (N.eqb_spec a b)
  | H : context [?a <=? ?b] |- _ => destruct (N.leb_spec a b)
  | H : context [?a <? ?b] |- _ => destruct (N.ltb_spec a b)
  | H : context [?a =? ?b] |- _ => destruct (N.eqb_spec a b)
  end.

(* ------------------------------------------------------------------ basic facts *)

Lemma validb_iff r : lr_validb r = true <-> lr_valid r.
Proof.
  destruct r as [a [b|]]; unfold lr_validb, lr_valid.
  - rewrite andb_true_iff, !N.leb_le. tauto.
  - apply N.leb_le.
Qed.

Lemma valid_nonempty r : lr_valid r -> nonempty r.
Proof. destruct r as [a [b|]]; unf; tauto. Qed.

Lemma nonempty_start r : nonempty r -> inr (lr_start r) r.
Proof. destruct r as [a [b|]]; unf; lia. Qed.

Lemma start_least r n : inr n r -> lr_start r <= n.
Proof. destruct r as [a [b|]]; unf; lia. Qed.

(* two non-empty ranges with the same members are the same range *)
Lemma inr_ext t u : nonempty t -> nonempty u -> (forall n, inr n t <-> inr n u) -> t = u.
Proof.
  destruct t as [a [b|]], u as [c [d|]]; unf; intros Ht Hu H.
  - pose proof (H a). pose proof (H b). pose proof (H c). pose proof (H d).
    assert (a = c) by lia. assert (b = d) by lia. subst. reflexivity.
  - pose proof (H (N.max c b + 1)). lia.
  - pose proof (H (N.max a d + 1)). lia.
  - pose proof (H a). pose proof (H c). assert (a = c) by lia. subst. reflexivity.
Qed.

(* if the exact (unbounded) result t0 of an operation denotes P, then P is representable with u32
   bounds exactly when t0 itself is valid *)
Lemma representable_iff (P : N -> Prop) t0 :
  nonempty t0 -> (forall n, inr n t0 <-> P n) -> (representable P <-> lr_valid t0).
Proof.
  intros Hne H. split.
  - intros [t [Hv Ht]].
    assert (t = t0) as ->; [|exact Hv].
    apply inr_ext; auto using valid_nonempty. intros n. rewrite Ht, H. tauto.
  - intros Hv. exists t0. auto.
Qed.

Lemma contains_iff r i : lr_contains r i = true <-> inr i r.
Proof.
  destruct r as [a [b|]]; unf.
  - rewrite andb_true_iff, !N.leb_le. tauto.
  - apply N.leb_le.
Qed.

Lemma includes_iff r o : lr_valid o ->
  (lr_includes r o = true <-> forall n, inr n o -> inr n r).
Proof.
  destruct r as [a [b|]], o as [c [d|]]; unf; intros Hv.
  - rewrite andb_true_iff, !N.leb_le. split.
    + intros [H1 H2] n Hn. lia.
    + intros H. pose proof (H c). pose proof (H d). lia.
  - split; [discriminate|]. intros H. pose proof (H (N.max b c + 1)). lia.
  - rewrite N.leb_le. split.
    + intros H n Hn. lia.
    + intros H. pose proof (H c). lia.
  - rewrite N.leb_le. split.
    + intros H n Hn. lia.
    + intros H. pose proof (H c). lia.
Qed.

(* ------------------------------------------------------------------ constructors and tests *)

Lemma constructors_denote :
  (forall i j n, inr n (lr_finite i j) <-> i <= n <= j) /\
  (forall i n, inr n (lr_infinite i) <-> i <= n) /\
  (forall n, inr n lr_opt <-> n = 0 \/ n = 1) /\
  (forall n, inr n lr_star) /\
  (forall n, inr n lr_plus <-> 1 <= n) /\
  (forall k n, inr n (lr_point k) <-> n = k).
Proof. unf. repeat split; intros; lia. Qed.

Lemma constructors_valid :
  (forall i j, i <= j -> j <= U32MAX -> lr_valid (lr_finite i j)) /\
  (forall i, i <= U32MAX -> lr_valid (lr_infinite i)) /\
  lr_valid lr_opt /\ lr_valid lr_star /\ lr_valid lr_plus /\
  (forall k, k <= U32MAX -> lr_valid (lr_point k)).
Proof. unf. repeat split; intros; lia. Qed.

Lemma is_finite_iff r : lr_is_finite r = true <-> exists m, forall n, inr n r -> n <= m.
Proof.
  destruct r as [a [b|]]; unfold lr_is_finite; unf.
  - split; auto. intros _. exists b. lia.
  - split; [discriminate|]. intros [m H]. pose proof (H (N.max a m + 1)). lia.
Qed.

Lemma is_infinite_iff r : lr_is_infinite r = true <-> forall m, exists n, inr n r /\ m < n.
Proof.
  destruct r as [a [b|]]; unfold lr_is_infinite; unf.
  - split; [discriminate|]. intros H. destruct (H b) as [n Hn]. lia.
  - split; auto. intros _ m. exists (N.max a m + 1). lia.
Qed.

Lemma is_point_iff r : lr_valid r ->
  (lr_is_point r = true <-> exists k, forall n, inr n r <-> n = k).
Proof.
  destruct r as [a [b|]]; unf; intros Hv.
  - rewrite N.eqb_eq. split.
    + intros ->. exists b. intros; lia.
    + intros [k H]. pose proof (H a). pose proof (H b). lia.
  - split; [discriminate|]. intros [k H]. pose proof (H a). pose proof (H (a + 1)). lia.
Qed.

Lemma is_zero_iff r : lr_is_zero r = true <-> forall n, inr n r <-> n = 0.
Proof.
  destruct r as [a [b|]]; unfold lr_is_zero; unf.
  - destruct a as [|p]; [destruct b as [|q]|].
    + split; auto. intros; lia.
    + split; [discriminate|]. intros H. pose proof (H (N.pos q)). lia.
    + split; [discriminate|]. intros H. pose proof (H 0). lia.
  - destruct a; (split; [discriminate|]); intros H.
    + pose proof (H 1). lia.
    + pose proof (H 0). lia.
Qed.

Lemma is_one_iff r : lr_is_one r = true <-> forall n, inr n r <-> n = 1.
Proof.
  destruct r as [a [b|]]; unfold lr_is_one; unf.
  - destruct (N.eq_dec a 1) as [->|Ha]; [destruct (N.eq_dec b 1) as [->|Hb]|].
    + split; auto. intros; lia.
    + split.
      * destruct b as [|[q|q|]]; try discriminate. congruence.
      * intros H. pose proof (H 1). pose proof (H b). lia.
    + split.
      * destruct a as [|[q|q|]]; try discriminate. congruence.
      * intros H. pose proof (H 1). pose proof (H a). lia.
  - split.
    + destruct a as [|[q|q|]]; discriminate.
    + intros H. pose proof (H 1). pose proof (H (a + 2)). lia.
Qed.

Lemma is_all_iff r : lr_is_all r = true <-> forall n, inr n r.
Proof.
  destruct r as [a [b|]]; unfold lr_is_all; unf.
  - split; [destruct a; discriminate|]. intros H. pose proof (H (b + 1)). lia.
  - destruct a as [|p].
    + split; auto. intros; lia.
    + split; [discriminate|]. intros H. pose proof (H 0). lia.
Qed.

Lemma start_is_min r : lr_valid r ->
  inr (lr_start r) r /\ forall n, inr n r -> lr_start r <= n.
Proof.
  intros Hv. split.
  - apply nonempty_start, valid_nonempty, Hv.
  - apply start_least.
Qed.

Lemma eqb_iff r s : lr_eqb r s = true <-> r = s.
Proof.
  destruct r as [a [b|]], s as [c [d|]]; unfold lr_eqb.
  - rewrite andb_true_iff, !N.eqb_eq. split; [intros [-> ->]; reflexivity|]. intros H; inversion H; auto.
  - split; discriminate.
  - split; discriminate.
  - rewrite N.eqb_eq. split; [intros ->; reflexivity|]. intros H; inversion H; auto.
Qed.

(* ------------------------------------------------------------------ k-fold sums *)

Lemma ksum_nat_fin a b k n : a <= b ->
  (ksum_nat (LR a (Some b)) k n <-> N.of_nat k * a <= n <= N.of_nat k * b).
Proof.
  intros Hab. revert n. induction k as [|k IH]; intros n.
  - cbn [ksum_nat]. change (N.of_nat 0) with 0. rewrite !N.mul_0_l. lia.
  - cbn [ksum_nat]. rewrite Nat2N.inj_succ, !N.mul_succ_l.
    assert (Hm : N.of_nat k * a <= N.of_nat k * b) by (apply N.mul_le_mono_l; exact Hab).
    split.
    + intros (x & m & Hx & Hm' & ->). apply IH in Hm'. unfold inr in Hx. lia.
    + intros Hn. exists (n - N.min (N.of_nat k * b) (n - a)), (N.min (N.of_nat k * b) (n - a)).
      split; [|split].
      * unfold inr. lia.
      * apply IH. lia.
      * lia.
Qed.

Lemma ksum_nat_inf a k n :
  ksum_nat (LR a None) k n <-> (k = O /\ n = 0) \/ (k <> O /\ N.of_nat k * a <= n).
Proof.
  revert n. induction k as [|k IH]; intros n.
  - cbn [ksum_nat]. split; [intros ->; left; auto|]. intros [[_ H]|[H _]]; congruence.
  - cbn [ksum_nat]. rewrite Nat2N.inj_succ, !N.mul_succ_l. split.
    + intros (x & m & Hx & Hm & ->). right. split; [discriminate|].
      unfold inr in Hx. apply IH in Hm. destruct Hm as [[-> ->]|[_ Hm]].
      * change (N.of_nat 0) with 0. lia.
      * lia.
    + intros [[H _]|[_ Hn]]; [discriminate|].
      exists (n - N.of_nat k * a), (N.of_nat k * a). split; [|split].
      * unfold inr. lia.
      * apply IH. destruct k as [|k'].
        -- left. split; auto.
        -- right. split; [discriminate|lia].
      * lia.
Qed.

Lemma ksum_fin a b k n : a <= b -> (ksum (LR a (Some b)) k n <-> k * a <= n <= k * b).
Proof. intros Hab. unfold ksum. rewrite ksum_nat_fin by exact Hab. rewrite N2Nat.id. tauto. Qed.

Lemma ksum_inf a k n : ksum (LR a None) k n <-> (k = 0 /\ n = 0) \/ (0 < k /\ k * a <= n).
Proof.
  unfold ksum. rewrite ksum_nat_inf, N2Nat.id.
  assert (N.to_nat k = O <-> k = 0) by lia. assert (N.to_nat k <> O <-> 0 < k) by lia. tauto.
Qed.

Lemma ksum_0 r n : ksum r 0 n <-> n = 0.
Proof. unfold ksum. change (N.to_nat 0) with O. cbn [ksum_nat]. tauto. Qed.

Lemma ksum_succ r k n : ksum r (N.succ k) n <-> exists x m, inr x r /\ ksum r k m /\ n = x + m.
Proof. unfold ksum. rewrite N2Nat.inj_succ. cbn [ksum_nat]. tauto. Qed.

(* the recursive definition agrees with "sum of a list of k members of r" *)
Lemma ksum_nat_list r k n :
  ksum_nat r k n <->
  exists l, length l = k /\ Forall (fun x => inr x r) l /\ n = fold_right N.add 0 l.
Proof.
  revert n. induction k as [|k IH]; intros n; cbn [ksum_nat].
  - split.
    + intros ->. exists []. auto.
    + intros (l & Hl & _ & ->). destruct l; [reflexivity|discriminate].
  - split.
    + intros (x & m & Hx & Hm & ->). apply IH in Hm. destruct Hm as (l & Hl & Hf & ->).
      exists (x :: l). cbn [length fold_right]. auto.
    + intros (l & Hl & Hf & ->). destruct l as [|x l]; [discriminate|].
      inversion Hf as [|? ? Hx Hf']; subst. exists x, (fold_right N.add 0 l).
      split; [exact Hx|]. split; [|reflexivity]. apply IH. exists l. cbn [length] in Hl. auto.
Qed.

Lemma ksum_list r k n :
  ksum r k n <->
  exists l, N.of_nat (length l) = k /\ Forall (fun x => inr x r) l /\ n = fold_right N.add 0 l.
Proof.
  unfold ksum. rewrite ksum_nat_list. split; intros (l & Hl & H); exists l; (split; [lia|exact H]).
Qed.

(* ------------------------------------------------------------------ add *)

Definition add_ideal (r s : lr) : lr :=
  match r, s with
  | LR a (Some b), LR c (Some d) => LR (a + c) (Some (b + d))
  | LR a _, LR c _ => LR (a + c) None
  end.

Lemma add_ideal_sumset r s : nonempty r -> nonempty s ->
  forall n, inr n (add_ideal r s) <-> sumset r s n.
Proof.
  unfold sumset. destruct r as [a [b|]], s as [c [d|]]; unfold add_ideal; unf; intros Hr Hs n; split.
  - intros Hn. exists (N.min b (n - c)), (n - N.min b (n - c)). lia.
  - intros (x & y & Hx & Hy & ->). lia.
  - intros Hn. exists a, (n - a). lia.
  - intros (x & y & Hx & Hy & ->). lia.
  - intros Hn. exists (n - c), c. lia.
  - intros (x & y & Hx & Hy & ->). lia.
  - intros Hn. exists a, (n - a). lia.
  - intros (x & y & Hx & Hy & ->). lia.
Qed.

Lemma add_ideal_nonempty r s : nonempty r -> nonempty s -> nonempty (add_ideal r s).
Proof. destruct r as [a [b|]], s as [c [d|]]; unfold add_ideal; unf; lia. Qed.

Lemma add_some r s t : nonempty r -> nonempty s -> lr_add r s = Some t ->
  t = add_ideal r s /\ lr_valid t.
Proof.
  destruct r as [a [b|]], s as [c [d|]]; unfold add_ideal; unf; intros Hr Hs H; bdestr;
    try discriminate; inversion H; subst; split; try reflexivity; lia.
Qed.

Lemma add_none r s : nonempty r -> nonempty s ->
  (lr_add r s = None <-> ~ lr_valid (add_ideal r s)).
Proof.
  destruct r as [a [b|]], s as [c [d|]]; unfold add_ideal; unf; intros Hr Hs; bdestr;
    split; intros HH; try discriminate; try reflexivity; try lia; exfalso; apply HH; lia.
Qed.

Lemma add_sumset r s t : lr_valid r -> lr_valid s -> lr_add r s = Some t ->
  forall n, inr n t <-> exists x y, inr x r /\ inr y s /\ n = x + y.
Proof.
  intros Hr%valid_nonempty Hs%valid_nonempty H. apply add_some in H as [-> _]; auto.
  apply add_ideal_sumset; auto.
Qed.

Lemma add_valid r s t : lr_valid r -> lr_valid s -> lr_add r s = Some t -> lr_valid t.
Proof. intros Hr%valid_nonempty Hs%valid_nonempty H. apply add_some in H as [_ Hv]; auto. Qed.

Lemma add_none_iff r s : lr_valid r -> lr_valid s ->
  (lr_add r s = None <-> ~ representable (sumset r s)).
Proof.
  intros Hr%valid_nonempty Hs%valid_nonempty. rewrite add_none by auto.
  rewrite (representable_iff (sumset r s) (add_ideal r s)); [tauto| |].
  - apply add_ideal_nonempty; auto.
  - apply add_ideal_sumset; auto.
Qed.

(* the bounds that decide the panic *)
Lemma add_none_bounds r s : lr_valid r -> lr_valid s ->
  (lr_add r s = None <->
   U32MAX < lr_start r + lr_start s \/
   exists b d, r = LR (lr_start r) (Some b) /\ s = LR (lr_start s) (Some d) /\ U32MAX < b + d).
Proof.
  destruct r as [a [b|]], s as [c [d|]]; unf; intros Hr Hs; bdestr; split; intros HH;
    try discriminate; try reflexivity; try lia;
    try (destruct HH as [HH|(b' & d' & H1 & H2 & H3)]; try lia; try discriminate;
         inversion H1; inversion H2; subst; lia).
  right. exists b, d. repeat split; lia.
Qed.

Lemma add_point_spec r x t : lr_valid r -> x <= U32MAX -> lr_add_point r x = Some t ->
  lr_valid t /\ forall n, inr n t <-> exists y, inr y r /\ n = y + x.
Proof.
  intros Hr Hx H. unfold lr_add_point in H.
  assert (Hp : lr_valid (lr_point x)) by (unf; lia).
  split; [exact (add_valid _ _ _ Hr Hp H)|].
  intros n. rewrite (add_sumset _ _ _ Hr Hp H). split.
  - intros (y & z & Hy & Hz & ->). exists y. unf. assert (z = x) by lia. subst. auto.
  - intros (y & Hy & ->). exists y, x. unf. repeat split; auto; lia.
Qed.

(* ------------------------------------------------------------------ scale *)

Definition scale_ideal (r : lr) (k : N) : lr :=
  if k =? 0 then LR 0 (Some 0)
  else match r with
       | LR a None => LR (a * k) None
       | LR a (Some b) => LR (a * k) (Some (b * k))
       end.

Lemma scale_ideal_ksum r k : nonempty r -> forall n, inr n (scale_ideal r k) <-> ksum r k n.
Proof.
  destruct r as [a [b|]]; unfold scale_ideal; intros Hr n; destruct (N.eqb_spec k 0) as [->|Hk].
  - rewrite ksum_0. unfold inr. lia.
  - rewrite ksum_fin by exact Hr. unfold inr. rewrite (N.mul_comm a k), (N.mul_comm b k). tauto.
  - rewrite ksum_0. unfold inr. lia.
  - rewrite ksum_inf. unfold inr. rewrite (N.mul_comm a k). split.
    + intros Hn. right. lia.
    + intros [[Hk0 _]|[_ Hn]]; [lia|exact Hn].
Qed.

Lemma scale_ideal_nonempty r k : nonempty r -> nonempty (scale_ideal r k).
Proof.
  destruct r as [a [b|]]; unfold scale_ideal; intros Hr; destruct (k =? 0); unf; try lia.
  apply N.mul_le_mono_r. exact Hr.
Qed.

Lemma scale_some r k t : nonempty r -> lr_scale r k = Some t ->
  t = scale_ideal r k /\ lr_valid t.
Proof.
  intros Hr. pose proof (scale_ideal_nonempty r k Hr) as Hne. revert Hne.
  destruct r as [a [b|]]; unfold scale_ideal; unf; destruct (k =? 0); intros Hne HH;
    bdestr; try discriminate; inversion HH; subst; split; try reflexivity; lia.
Qed.

Lemma scale_none r k : nonempty r -> (lr_scale r k = None <-> ~ lr_valid (scale_ideal r k)).
Proof.
  intros Hr. pose proof (scale_ideal_nonempty r k Hr) as Hne. revert Hne.
  destruct r as [a [b|]]; unfold scale_ideal; unf; destruct (k =? 0); intros Hne;
    bdestr; split; intros HH; try discriminate; try reflexivity; try lia; exfalso; apply HH; lia.
Qed.

Lemma scale_ksum r k t : lr_valid r -> lr_scale r k = Some t -> forall n, inr n t <-> ksum r k n.
Proof.
  intros Hr%valid_nonempty H. apply scale_some in H as [-> _]; auto. apply scale_ideal_ksum; auto.
Qed.

Lemma scale_valid r k t : lr_valid r -> lr_scale r k = Some t -> lr_valid t.
Proof. intros Hr%valid_nonempty H. apply scale_some in H as [_ Hv]; auto. Qed.

Lemma scale_none_iff r k : lr_valid r ->
  (lr_scale r k = None <-> ~ representable (ksum r k)).
Proof.
  intros Hr%valid_nonempty. rewrite scale_none by auto.
  rewrite (representable_iff (ksum r k) (scale_ideal r k)); [tauto| |].
  - apply scale_ideal_nonempty; auto.
  - apply scale_ideal_ksum; auto.
Qed.

Lemma scale_none_bounds r k : lr_valid r ->
  (lr_scale r k = None <->
   k <> 0 /\ (U32MAX < lr_start r * k \/ exists b, r = LR (lr_start r) (Some b) /\ U32MAX < b * k)).
Proof.
  destruct r as [a [b|]]; unf; intros Hr; destruct (N.eqb_spec k 0) as [->|Hk].
  - split; [discriminate|]. intros [HH _]. congruence.
  - bdestr; split; intros HH; try discriminate; try reflexivity.
    + destruct HH as [_ [HH|(b' & H1 & H2)]]; [lia|]. inversion H1; subst. lia.
    + split; [assumption|]. right. exists b. split; [reflexivity|assumption].
    + split; [assumption|left; assumption].
  - split; [discriminate|]. intros [HH _]. congruence.
  - bdestr; split; intros HH; try discriminate; try reflexivity.
    + destruct HH as [_ [HH|(b' & H1 & H2)]]; [lia|discriminate].
    + split; [assumption|left; assumption].
Qed.

(* ------------------------------------------------------------------ mul *)

Definition mul_ideal (r s : lr) : lr :=
  if lr_is_zero r || lr_is_zero s then LR 0 (Some 0)
  else match r, s with
       | LR a (Some b), LR c (Some d) => LR (a * c) (Some (b * d))
       | LR a _, LR c _ => LR (a * c) None
       end.

Lemma is_zero_true r : lr_is_zero r = true -> r = LR 0 (Some 0).
Proof.
  destruct r as [a [b|]]; unfold lr_is_zero; destruct a; try discriminate.
  destruct b; [reflexivity|discriminate].
Qed.

Lemma is_zero_false a b : lr_is_zero (LR a (Some b)) = false -> a <= b -> 1 <= b.
Proof. unfold lr_is_zero. destruct a, b; try discriminate; lia. Qed.

Lemma inr_nonempty n r : inr n r -> nonempty r.
Proof. destruct r as [a [b|]]; unf; lia. Qed.

Lemma convex u p q n : inr p u -> inr q u -> p <= n <= q -> inr n u.
Proof. destruct u as [a [b|]]; unf; lia. Qed.

Lemma convex_unbounded u p n :
  inr p u -> (forall M, exists q, inr q u /\ M <= q) -> p <= n -> inr n u.
Proof.
  intros Hp Hq Hn. destruct (Hq n) as (q & Hq1 & Hq2). apply (convex u p q); auto.
Qed.

Lemma mul_ideal_nonempty r s : nonempty r -> nonempty s -> nonempty (mul_ideal r s).
Proof.
  unfold mul_ideal. destruct (lr_is_zero r || lr_is_zero s); [unf; lia|].
  destruct r as [a [b|]], s as [c [d|]]; unf; intros Hr Hs; try lia.
  apply N.mul_le_mono; assumption.
Qed.

Lemma mul_some r s t : nonempty r -> nonempty s -> lr_mul r s = Some t ->
  t = mul_ideal r s /\ lr_valid t.
Proof.
  intros Hr Hs. pose proof (mul_ideal_nonempty r s Hr Hs) as Hne. revert Hne.
  unfold lr_mul, mul_ideal. destruct (lr_is_zero r || lr_is_zero s).
  - intros _ HH. inversion HH; subst. unf. split; [reflexivity|lia].
  - destruct r as [a [b|]], s as [c [d|]]; unf; intros Hne HH; bdestr; try discriminate;
      inversion HH; subst; split; try reflexivity; lia.
Qed.

Lemma mul_none r s : nonempty r -> nonempty s ->
  (lr_mul r s = None <-> ~ lr_valid (mul_ideal r s)).
Proof.
  intros Hr Hs. pose proof (mul_ideal_nonempty r s Hr Hs) as Hne. revert Hne.
  unfold lr_mul, mul_ideal. destruct (lr_is_zero r || lr_is_zero s).
  - intros _. split; [discriminate|]. intros HH. exfalso. apply HH. unf. lia.
  - destruct r as [a [b|]], s as [c [d|]]; unf; intros Hne; bdestr; split; intros HH;
      try discriminate; try reflexivity; try lia; exfalso; apply HH; lia.
Qed.

Lemma mul_ideal_products r s x y : inr x r -> inr y s -> inr (x * y) (mul_ideal r s).
Proof.
  unfold mul_ideal. intros Hx Hy.
  destruct (lr_is_zero r) eqn:Zr; [|destruct (lr_is_zero s) eqn:Zs]; cbn [orb].
  - apply is_zero_true in Zr. subst. unf. assert (x = 0) by lia. subst. rewrite N.mul_0_l. lia.
  - apply is_zero_true in Zs. subst. unf. assert (y = 0) by lia. subst. rewrite N.mul_0_r. lia.
  - destruct r as [a [b|]], s as [c [d|]]; unf.
    + split; apply N.mul_le_mono; lia.
    + apply N.mul_le_mono; lia.
    + apply N.mul_le_mono; lia.
    + apply N.mul_le_mono; lia.
Qed.

Lemma mul_contains_products r s t x y :
  lr_mul r s = Some t -> inr x r -> inr y s -> inr (x * y) t.
Proof.
  intros H Hx Hy. apply mul_some in H as [-> _]; eauto using inr_nonempty.
  apply mul_ideal_products; auto.
Qed.

(* [a*c, b*d] (with the infinity rules) is the least range containing all products *)
Lemma mul_ideal_hull r s : nonempty r -> nonempty s -> hull_of (products r s) (mul_ideal r s).
Proof.
  intros Hr Hs. split.
  - intros n (x & y & Hx & Hy & ->). apply mul_ideal_products; auto.
  - intros u Hu n. unfold products in Hu.
    assert (Hprod : forall x y, inr x r -> inr y s -> inr (x * y) u) by (intros; apply Hu; eauto).
    clear Hu. pose proof (nonempty_start r Hr) as Sr. pose proof (nonempty_start s Hs) as Ss.
    unfold mul_ideal.
    destruct (lr_is_zero r) eqn:Zr; [|destruct (lr_is_zero s) eqn:Zs]; cbn [orb].
    + apply is_zero_true in Zr. subst. intros Hn. assert (n = 0) by (unf; lia). subst.
      specialize (Hprod 0 (lr_start s)). rewrite N.mul_0_l in Hprod. apply Hprod; auto; unf; lia.
    + apply is_zero_true in Zs. subst. intros Hn. assert (n = 0) by (unf; lia). subst.
      specialize (Hprod (lr_start r) 0). rewrite N.mul_0_r in Hprod. apply Hprod; auto; unf; lia.
    + pose proof (Hprod _ _ Sr Ss) as Hlo.
      destruct r as [a [b|]], s as [c [d|]]; cbn [lr_start] in *.
      * intros Hn. apply (convex u (a * c) (b * d)); auto.
        apply Hprod; unf; lia.
      * pose proof (is_zero_false _ _ Zr Hr) as Hb.
        intros Hn. apply (convex_unbounded u (a * c)); auto.
        intros M. exists (b * N.max c M). split; [apply Hprod; unf; lia|].
        assert (1 * N.max c M <= b * N.max c M) by (apply N.mul_le_mono_r; exact Hb). lia.
      * pose proof (is_zero_false _ _ Zs Hs) as Hd.
        intros Hn. apply (convex_unbounded u (a * c)); auto.
        intros M. exists (N.max a M * d). split; [apply Hprod; unf; lia|].
        assert (N.max a M * 1 <= N.max a M * d) by (apply N.mul_le_mono_l; exact Hd). lia.
      * intros Hn. apply (convex_unbounded u (a * c)); auto.
        intros M. exists (N.max a M * N.max c 1). split; [apply Hprod; unf; lia|].
        assert (N.max a M * 1 <= N.max a M * N.max c 1) by (apply N.mul_le_mono_l; lia). lia.
Qed.

Lemma hull_unique (P : N -> Prop) t u : (exists n, P n) -> hull_of P t -> hull_of P u -> t = u.
Proof.
  intros [n0 Hn0] [Ht1 Ht2] [Hu1 Hu2]. apply inr_ext.
  - apply (inr_nonempty n0). auto.
  - apply (inr_nonempty n0). auto.
  - intros n. split; [apply Ht2; exact Hu1|apply Hu2; exact Ht1].
Qed.

Lemma products_inhabited r s : nonempty r -> nonempty s -> exists n, products r s n.
Proof.
  intros Hr Hs. exists (lr_start r * lr_start s), (lr_start r), (lr_start s).
  auto using nonempty_start.
Qed.

Lemma mul_hull r s t : lr_valid r -> lr_valid s -> lr_mul r s = Some t ->
  lr_valid t /\ hull_of (products r s) t.
Proof.
  intros Hr%valid_nonempty Hs%valid_nonempty H. apply mul_some in H as [-> Hv]; auto.
  split; [exact Hv|]. apply mul_ideal_hull; auto.
Qed.

Lemma mul_none_iff r s : lr_valid r -> lr_valid s ->
  (lr_mul r s = None <-> ~ exists t, lr_valid t /\ hull_of (products r s) t).
Proof.
  intros Hr%valid_nonempty Hs%valid_nonempty. rewrite mul_none by auto.
  pose proof (mul_ideal_hull r s Hr Hs) as Hh. split.
  - intros Hnv (t & Hv & Ht). apply Hnv.
    rewrite <- (hull_unique _ _ _ (products_inhabited r s Hr Hs) Ht Hh). exact Hv.
  - intros Hne Hv. apply Hne. exists (mul_ideal r s). auto.
Qed.

(* ------------------------------------------------------------------ shift *)

Lemma shift_pred r : lr_valid r ->
  forall n, inr n (lr_shift r) <-> exists x, inr x r /\ n = x - 1.
Proof.
  destruct r as [a [b|]]; intros Hv n.
  - destruct a as [|p]; [destruct b as [|q]|]; unfold lr_shift; unf.
    + split; [intros Hn; exists 0; lia|intros (x & Hx & ->); lia].
    + split; [intros Hn; exists (n + 1); lia|intros (x & Hx & ->); lia].
    + split; [intros Hn; exists (n + 1); lia|intros (x & Hx & ->); lia].
  - destruct a as [|p]; unfold lr_shift; unf.
    + split; [intros Hn; exists (n + 1); lia|intros (x & Hx & ->); lia].
    + split; [intros Hn; exists (n + 1); lia|intros (x & Hx & ->); lia].
Qed.

Lemma shift_valid r : lr_valid r -> lr_valid (lr_shift r).
Proof.
  destruct r as [a [b|]]; intros Hv.
  - destruct a as [|p]; [destruct b as [|q]|]; unfold lr_shift; unf; lia.
  - destruct a as [|p]; unfold lr_shift; unf; lia.
Qed.

(* ------------------------------------------------------------------ right_mul_is_exact *)

Lemma loop_fin a b s n : a <= b ->
  (loop_of_loop (LR a (Some b)) s n <-> exists y, inr y s /\ y * a <= n <= y * b).
Proof.
  intros Hab. unfold loop_of_loop.
  split; intros (y & Hy & H); exists y; (split; [exact Hy|]); apply (ksum_fin a b y n Hab); exact H.
Qed.

Lemma loop_inf a s n :
  loop_of_loop (LR a None) s n <->
  exists y, inr y s /\ ((y = 0 /\ n = 0) \/ (0 < y /\ y * a <= n)).
Proof.
  unfold loop_of_loop.
  split; intros (y & Hy & H); exists y; (split; [exact Hy|]); apply (ksum_inf a y n); exact H.
Qed.

(* x * y is the sum of y copies of x *)
Lemma products_sub_loop r s n : products r s n -> loop_of_loop r s n.
Proof.
  intros (x & y & Hx & Hy & ->). exists y. split; [exact Hy|].
  destruct r as [a [b|]]; unfold inr in Hx.
  - apply ksum_fin; [lia|]. rewrite (N.mul_comm x y). split; apply N.mul_le_mono_l; lia.
  - apply ksum_inf. destruct (N.eq_dec y 0) as [->|Hy0].
    + left. rewrite N.mul_0_r. auto.
    + right. split; [lia|]. rewrite (N.mul_comm x y). apply N.mul_le_mono_l; lia.
Qed.

Lemma loop_sub_mul r s n : nonempty r -> loop_of_loop r s n -> inr n (mul_ideal r s).
Proof.
  intros Hr. unfold mul_ideal.
  destruct (lr_is_zero r) eqn:Zr; [|destruct (lr_is_zero s) eqn:Zs]; cbn [orb].
  - apply is_zero_true in Zr. subst. rewrite loop_fin by lia. intros (y & _ & Hn).
    rewrite N.mul_0_r in Hn. unf. lia.
  - apply is_zero_true in Zs. subst. intros (y & Hy & Hk). unfold inr in Hy.
    assert (y = 0) by lia. subst. apply ksum_0 in Hk. unf. lia.
  - destruct r as [a [b|]].
    + unfold nonempty in Hr. rewrite loop_fin by exact Hr. intros (y & Hy & Hn).
      destruct s as [c [d|]]; unfold inr in *.
      * assert (c * a <= y * a) by (apply N.mul_le_mono_r; lia).
        assert (y * b <= d * b) by (apply N.mul_le_mono_r; lia). lia.
      * assert (c * a <= y * a) by (apply N.mul_le_mono_r; lia). lia.
    + rewrite loop_inf. intros (y & Hy & Hn).
      assert (Hcy : lr_start s <= y) by (apply start_least; exact Hy).
      assert (Hg : a * lr_start s <= n).
      { destruct Hn as [[-> ->]|[_ Hn]].
        - assert (lr_start s = 0) as -> by lia. rewrite N.mul_0_r. lia.
        - assert (lr_start s * a <= y * a) by (apply N.mul_le_mono_r; exact Hcy). lia. }
      destruct s as [c [d|]]; cbn [lr_start] in Hg; unfold inr; exact Hg.
Qed.

(* the interval returned by mul is also the hull of the loop-of-loop set *)
Lemma loop_hull r s : nonempty r -> nonempty s -> hull_of (loop_of_loop r s) (mul_ideal r s).
Proof.
  intros Hr Hs. split.
  - intros n. apply loop_sub_mul; auto.
  - intros u Hu. apply (mul_ideal_hull r s Hr Hs). intros n Hn. apply Hu, products_sub_loop, Hn.
Qed.

Lemma mul_ideal_point r c : mul_ideal r (LR c (Some c)) = scale_ideal r c.
Proof.
  unfold mul_ideal, scale_ideal. destruct (N.eqb_spec c 0) as [->|Hc].
  - cbn [lr_is_zero]. rewrite orb_true_r. reflexivity.
  - assert (lr_is_zero (LR c (Some c)) = false) as -> by (destruct c; [congruence|reflexivity]).
    rewrite orb_false_r. destruct (lr_is_zero r) eqn:Zr.
    + apply is_zero_true in Zr. subst. rewrite N.mul_0_l. reflexivity.
    + destruct r as [a [b|]]; reflexivity.
Qed.

Lemma rmie_ideal r s bb : nonempty r -> nonempty s -> lr_rmie r s = Some bb ->
  (bb = true <-> forall n, loop_of_loop r s n <-> inr n (mul_ideal r s)).
Proof.
  intros Hr Hs. unfold lr_rmie. destruct (lr_is_point s) eqn:Hp.
  - (* s = [c,c]: a single c-fold sum *)
    intros HH. inversion HH; subst. split; [intros _|reflexivity].
    destruct s as [c [d|]]; [|discriminate]. unfold lr_is_point in Hp. apply N.eqb_eq in Hp. subst d.
    intros n. rewrite mul_ideal_point. rewrite scale_ideal_ksum by auto.
    unfold loop_of_loop, inr. split.
    + intros (y & Hy & Hk). assert (y = c) by lia. subst. exact Hk.
    + intros Hk. exists c. split; [lia|exact Hk].
  - (* s contains c and c+1 *)
    assert (Hc1 : inr (lr_start s) s /\ inr (lr_start s + 1) s).
    { destruct s as [c [d|]]; unf; [apply N.eqb_neq in Hp|]; lia. }
    destruct Hc1 as [Hc0 Hc1].
    assert (Zs : lr_is_zero s = false).
    { destruct (lr_is_zero s) eqn:Z; [|reflexivity]. apply is_zero_true in Z. subst. discriminate. }
    destruct r as [a [b|]].
    + (* r = [a,b] *)
      unfold nonempty in Hr. unfold mul32, bind.
      assert (Hb : b = a + (b - a)) by lia. revert Hb. generalize (b - a) as e. intros e ->.
      destruct (N.leb_spec (lr_start s * e) U32MAX) as [_|_]; [|discriminate].
      intros HH. inversion HH as [Hbb]. clear HH Hbb.
      destruct (N.leb_spec (a - 1) (lr_start s * e)) as [Hgap|Hgap].
      * (* no gap *)
        split; [intros _ n|reflexivity]. split; [apply loop_sub_mul; exact Hr|].
        rewrite loop_fin by lia. unfold mul_ideal. rewrite Zs, orb_false_r.
        destruct (lr_is_zero (LR a (Some (a + e)))) eqn:Zr.
        { apply is_zero_true in Zr. injection Zr as Ha He. assert (e = 0) by lia. subst a e.
          intros Hn. exists (lr_start s). split; [exact Hc0|]. rewrite !N.mul_0_r. unf. lia. }
        pose proof (is_zero_false _ _ Zr Hr) as Hb1.
        destruct s as [c [d|]]; cbn [lr_start] in *; unfold inr in *.
        -- (* s = [c,d] *)
           intros [Hn1 Hn2]. destruct (N.eq_dec a 0) as [->|Ha].
           ++ exists d. split; [lia|]. rewrite N.mul_0_r. split; lia.
           ++ pose proof (N.div_mod n a Ha) as Hdm. pose proof (N.mod_lt n a Ha) as Hml.
              assert (Hcq : c <= n / a) by (apply N.div_le_lower_bound; auto).
              revert Hdm Hml Hcq. generalize (n / a) as q. generalize (n mod a) as m.
              intros m q Hdm Hml Hcq.
              destruct (N.le_gt_cases d q) as [Hdq|Hdq].
              ** exists d. split; [lia|].
                 assert (d * a <= q * a) by (apply N.mul_le_mono_r; exact Hdq). lia.
              ** exists q. split; [lia|]. rewrite N.mul_add_distr_l.
                 assert (c * e <= q * e) by (apply N.mul_le_mono_r; exact Hcq). lia.
        -- (* s = [c, inf) *)
           intros Hn1. destruct (N.eq_dec a 0) as [->|Ha].
           ++ exists (N.max c n). split; [lia|]. rewrite N.mul_0_r.
              assert (N.max c n * 1 <= N.max c n * (0 + e)) by (apply N.mul_le_mono_l; lia). lia.
           ++ pose proof (N.div_mod n a Ha) as Hdm. pose proof (N.mod_lt n a Ha) as Hml.
              assert (Hcq : c <= n / a) by (apply N.div_le_lower_bound; auto).
              revert Hdm Hml Hcq. generalize (n / a) as q. generalize (n mod a) as m.
              intros m q Hdm Hml Hcq.
              exists q. split; [lia|]. rewrite N.mul_add_distr_l.
              assert (c * e <= q * e) by (apply N.mul_le_mono_r; exact Hcq). lia.
      * (* a gap right after c * b *)
        split; [discriminate|]. intros Hall. exfalso.
        assert (Zr : lr_is_zero (LR a (Some (a + e))) = false) by (destruct a; [lia|reflexivity]).
        assert (Hin : inr (lr_start s * (a + e) + 1) (mul_ideal (LR a (Some (a + e))) s)).
        { unfold mul_ideal. rewrite Zr, Zs. cbn [orb].
          destruct s as [c [d|]]; cbn [lr_start] in *; unfold inr in *.
          - assert ((c + 1) * (a + e) <= d * (a + e)) by (apply N.mul_le_mono_r; lia). lia.
          - lia. }
        apply Hall in Hin. rewrite loop_fin in Hin by lia. destruct Hin as (y & Hy & Hy1 & Hy2).
        destruct (N.le_gt_cases y (lr_start s)) as [Hyc|Hyc].
        -- assert (y * (a + e) <= lr_start s * (a + e)) by (apply N.mul_le_mono_r; exact Hyc). lia.
        -- assert ((lr_start s + 1) * a <= y * a) by (apply N.mul_le_mono_r; lia). lia.
    + (* r = [a, inf) *)
      intros HH. inversion HH as [Hbb]. clear HH Hbb.
      assert (Hm : mul_ideal (LR a None) s = LR (a * lr_start s) None).
      { unfold mul_ideal. rewrite Zs.
        assert (lr_is_zero (LR a None) = false) as -> by (destruct a; reflexivity).
        destruct s as [c [d|]]; reflexivity. }
      rewrite Hm. cbn [inr].
      destruct (N.ltb_spec 0 (lr_start s)) as [Hc|Hc]; cbn [orb].
      * split; [intros _ n|reflexivity]. rewrite loop_inf. split.
        -- intros (y & Hy & Hn). apply start_least in Hy.
           assert (lr_start s * a <= y * a) by (apply N.mul_le_mono_r; exact Hy). lia.
        -- intros Hn. exists (lr_start s). split; [exact Hc0|]. right. lia.
      * assert (Hc' : lr_start s = 0) by lia. rewrite Hc' in *. rewrite N.mul_0_r.
        destruct (N.leb_spec a 1) as [Ha|Ha].
        -- split; [intros _ n|reflexivity]. rewrite loop_inf. split; [lia|]. intros _.
           destruct (N.eq_dec n 0) as [->|Hn0].
           ++ exists 0. split; [exact Hc0|]. left. auto.
           ++ exists 1. split; [exact Hc1|]. right. lia.
        -- split; [discriminate|]. intros Hall. exfalso.
           assert (Hin : 0 <= 1) by lia. apply Hall in Hin. rewrite loop_inf in Hin.
           destruct Hin as (y & _ & [[_ Hn]|[Hy Hn]]); [discriminate|].
           assert (1 * a <= y * a) by (apply N.mul_le_mono_r; lia). lia.
Qed.

Lemma right_mul_is_exact_iff r s bb t : lr_valid r -> lr_valid s ->
  lr_rmie r s = Some bb -> lr_mul r s = Some t ->
  (bb = true <-> forall n, (exists y, inr y s /\ ksum r y n) <-> inr n t).
Proof.
  intros Hr%valid_nonempty Hs%valid_nonempty Hb Hm. apply mul_some in Hm as [-> _]; auto.
  apply (rmie_ideal r s bb Hr Hs Hb).
Qed.

(* independent of mul and of its overflow: true exactly when the loop-of-loop set is an interval *)
Lemma rmie_iff_interval r s bb : lr_valid r -> lr_valid s -> lr_rmie r s = Some bb ->
  (bb = true <-> exists t, forall n, loop_of_loop r s n <-> inr n t).
Proof.
  intros Hr%valid_nonempty Hs%valid_nonempty Hb. rewrite (rmie_ideal r s bb Hr Hs Hb). split.
  - intros H. exists (mul_ideal r s). exact H.
  - intros [t Ht].
    assert (Hinh : exists n, loop_of_loop r s n).
    { destruct (products_inhabited r s Hr Hs) as [n Hn]. exists n. apply products_sub_loop, Hn. }
    assert (Hh : hull_of (loop_of_loop r s) t).
    { split; [intros n; apply Ht|]. intros u Hu n Hn. apply Hu, Ht, Hn. }
    rewrite <- (hull_unique _ _ _ Hinh Hh (loop_hull r s Hr Hs)). exact Ht.
Qed.

Lemma rmie_none_iff r s :
  lr_rmie r s = None <->
  lr_is_point s = false /\ exists a b, r = LR a (Some b) /\ U32MAX < lr_start s * (b - a).
Proof.
  unfold lr_rmie. destruct (lr_is_point s).
  - split; [discriminate|]. intros [HH _]. discriminate.
  - destruct r as [a [b|]]; unfold mul32, bind.
    + destruct (N.leb_spec (lr_start s * (b - a)) U32MAX) as [Hle|Hgt].
      * split; [discriminate|]. intros [_ (a' & b' & H1 & H2)]. inversion H1; subst. lia.
      * split; [|reflexivity]. intros _. split; [reflexivity|]. exists a, b. auto.
    + split; [discriminate|]. intros [_ (a' & b' & H1 & _)]. discriminate.
Qed.

(* when the product is a finite representable interval the exactness test never panics *)
Lemma rmie_total_finite r s t : lr_valid r -> lr_valid s -> lr_is_finite s = true ->
  lr_mul r s = Some t -> exists bb, lr_rmie r s = Some bb.
Proof.
  intros Hr Hs Hf Hm. destruct (lr_rmie r s) as [bb|] eqn:E; [eauto|exfalso].
  apply rmie_none_iff in E. destruct E as [Hp (a & b & -> & Hov)].
  destruct s as [c [d|]]; [|discriminate]. cbn [lr_start] in Hov.
  apply mul_some in Hm as [-> Hv]; auto using valid_nonempty. revert Hv. unfold mul_ideal.
  assert (Zs : lr_is_zero (LR c (Some d)) = false).
  { destruct (lr_is_zero (LR c (Some d))) eqn:Z; [|reflexivity].
    apply is_zero_true in Z. inversion Z; subst. discriminate. }
  rewrite Zs, orb_false_r. destruct (lr_is_zero (LR a (Some b))) eqn:Zr.
  - apply is_zero_true in Zr. inversion Zr; subst. rewrite N.mul_0_r in Hov. unf. lia.
  - unf. intros Hv. assert (c * (b - a) <= d * b) by (apply N.mul_le_mono; lia). lia.
Qed.
