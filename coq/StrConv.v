(* StrConv.v -- model of the lexicographic orders and the int/code conversions of
   smt_strings.rs (property C09).  Model only, no proofs (see StrConvProofs.v).

   Mirrors, in the same case order:
     char_is_digit, vector_lt, vector_le           (private helpers)
     str_lt, str_le, str_is_digit, str_to_code, str_from_code, str_to_int, str_from_int
   An SmtString is its vector of code points ([word] = list N).  i32 values are Z.
   [None] = the Rust code panics (index out of bounds, or the documented panic of str_to_int);
   out of fuel is [None] as well.

   str_to_int mirrors the REPAIRED code (defect D5): scan for a non-digit first, then accumulate
   with checked_mul / checked_add.  The repaired code does not depend on the build profile
   (overflow checks on/off), so the model has no profile argument.  The accumulation of the pinned
   code in a release build (wrapping i32 arithmetic, test [y < x]) is kept as
   [pinned_to_int_release] to document the wrong number it returns. *)
Require Import Base.
Open Scope N_scope.

(* ------------------------------------------------------------------ i32 arithmetic *)
Definition I32MAX : Z := 2147483647.
Definition I32MIN : Z := (-2147483648)%Z.
Definition in_i32 (r : Z) : bool := ((I32MIN <=? r) && (r <=? I32MAX))%Z.
(* i32::checked_mul / i32::checked_add *)
Definition checked_mul_i32 (x y : Z) : option Z := if in_i32 (x * y) then Some (x * y)%Z else None.
Definition checked_add_i32 (x y : Z) : option Z := if in_i32 (x + y) then Some (x + y)%Z else None.
(* wrapping i32 arithmetic of a build without overflow checks: reduce into [-2^31, 2^31) *)
Definition wrap_i32 (r : Z) : Z := ((r + 2147483648) mod 4294967296 - 2147483648)%Z.
(* [x as i32] for a u32 x *)
Definition u32_as_i32 (x : N) : Z := wrap_i32 (Z.of_N x).

(* ------------------------------------------------------------------ char_is_digit *)
(* x >= '0' as u32 && x <= '9' as u32 *)
Definition char_is_digit (x : N) : bool := (48 <=? x) && (x <=? 57).

(* ------------------------------------------------------------------ vector_lt / vector_le *)
(* let mut i = 0; while i < max && v[i] == w[i] { i += 1 }      -- returns the final i.
   [fuel] bounds the number of loop tests; max + 1 tests are enough. *)
Fixpoint skip_equal (fuel : nat) (v w : word) (max i : nat) : option nat :=
  match fuel with
  | O => None
  | S f =>
      if (i <? max)%nat then
        do a <- nth_error v i;
        do b <- nth_error w i;
        if a =? b then skip_equal f v w max (S i) else Some i
      else Some i
  end.

Definition vector_lt (v w : word) : option bool :=
  let max := Nat.min (length v) (length w) in
  do i <- skip_equal (S max) v w max 0;
  if (i =? max)%nat then Some (length v <? length w)%nat
  else
    do a <- nth_error v i;
    do b <- nth_error w i;
    Some (a <? b).

Definition vector_le (v w : word) : option bool :=
  let max := Nat.min (length v) (length w) in
  do i <- skip_equal (S max) v w max 0;
  if (i =? max)%nat then Some (length v <=? length w)%nat
  else
    do a <- nth_error v i;
    do b <- nth_error w i;
    Some (a <? b).

Definition str_lt (s1 s2 : word) : option bool := vector_lt s1 s2.
Definition str_le (s1 s2 : word) : option bool := vector_le s1 s2.

(* ------------------------------------------------------------------ is_digit / to_code / from_code *)
(* s.len() == 1 && char_is_digit(s.s[0]) *)
Definition str_is_digit (s : word) : option bool :=
  if (length s =? 1)%nat then do c <- nth_error s 0; Some (char_is_digit c) else Some false.

(* if s.len() == 1 { s.s[0] as i32 } else { -1 } *)
Definition str_to_code (s : word) : option Z :=
  if (length s =? 1)%nat then do c <- nth_error s 0; Some (u32_as_i32 c) else Some (-1)%Z.

(* impl From<u32> for SmtString *)
Definition smt_of_u32 (x : N) : word := [if x <=? MAXC then x else REPLC].

(* if 0 <= x && x <= MAX_CHAR as i32 { SmtString::from(x as u32) } else { EMPTY } *)
Definition str_from_code (x : Z) : word :=
  if ((0 <=? x) && (x <=? Z.of_N MAXC))%Z then smt_of_u32 (Z.to_N x) else [].

(* ------------------------------------------------------------------ str_to_int (repaired, D5) *)
(* for &d in &s.s { x = x.checked_mul(10).and_then(|y| y.checked_add(d - '0')) or panic } *)
Fixpoint to_int_loop (ds : word) (x : Z) : option Z :=
  match ds with
  | [] => Some x
  | d :: ds' =>
      let digit := (Z.of_N d - 48)%Z in
      do y <- checked_mul_i32 x 10;
      do z <- checked_add_i32 y digit;
      to_int_loop ds' z
  end.

Definition str_to_int (s : word) : option Z :=
  if (match s with [] => true | _ => false end) || negb (forallb char_is_digit s)
  then Some (-1)%Z
  else to_int_loop s 0%Z.

(* The pinned (pre-repair) loop as a release build runs it: wrapping arithmetic, a non-digit is
   only seen when the scan reaches it, overflow "detected" by y < x.  None = panic. *)
Fixpoint pinned_loop_release (ds : word) (x : Z) : option Z :=
  match ds with
  | [] => Some x
  | d :: ds' =>
      if char_is_digit d then
        let y := wrap_i32 (10 * x + (Z.of_N d - 48)) in
        if (y <? x)%Z then None else pinned_loop_release ds' y
      else Some (-1)%Z
  end.
Definition pinned_to_int_release (s : word) : option Z :=
  match s with [] => Some (-1)%Z | _ => pinned_loop_release s 0%Z end.

(* ------------------------------------------------------------------ str_from_int *)
(* own decimal printer = what i32::to_string yields for n >= 0: most significant digit first, no
   leading zero, "0" for 0.  Digits are produced from the least significant end into [acc]. *)
Fixpoint dec_digits (fuel : nat) (n : Z) (acc : word) : option word :=
  match fuel with
  | O => None
  | S f =>
      let acc' := (Z.to_N (48 + n mod 10)) :: acc in
      if (n <? 10)%Z then Some acc' else dec_digits f (n / 10)%Z acc'
  end.
(* a number has at most as many decimal digits as binary digits *)
Definition dec_fuel (n : Z) : nat := match n with Zpos p => Pos.size_nat p | _ => 1%nat end.

(* if x >= 0 { SmtString::from(x.to_string()) } else { EMPTY } *)
Definition str_from_int (x : Z) : option word :=
  if (0 <=? x)%Z then dec_digits (dec_fuel x) x [] else Some [].
