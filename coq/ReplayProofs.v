(* ReplayProofs.v -- C07, hash-consing: re-issuing a construction on ANY later state of the same
   manager returns the very same term and leaves the manager unchanged.
     replay_make / replay_f : wf m -> f m args = Some (m1, t) -> wf m' -> ext m1 m' ->
                              f m' args = Some (m', t)           for every constructor f
     replay_run             : the same for whole construction programs ([run] of RunProofs.v)
     histories              : [history m m'] (inductive: constructions and arbitrary
                              invariant-preserving extensions) and executable histories
                              [exec_history] over concrete statements (constructions, derivatives,
                              derivative enumeration, emptiness test, compilation)
     identity               : re_eqb on owned terms is equality of the tagged trees
     languages              : L is a function of the tree; the language of a construction does not
                              depend on the history of the manager it was built in.
   Why it works: [make] of the later manager finds the stored term under the same key
   (wf_lookup of the later manager + ownership is stable under ext), and the control flow of every
   constructor depends only on its argument terms, on included_in (a function of the terms) and on
   the cached constants, which are the same five terms in every well-formed manager. *)
Require Import Base CharSet Partition PartitionSpec LoopRange Regex Inclusion Constructors Deriv
  Explore Automaton Compile Denote Sem.
Require Import Lang ManagerProofs ConstructorProofs RunProofs.
Require InclusionProofs.   (* C16; not imported: its [id_inj] would shadow ManagerProofs.id_inj *)
Open Scope N_scope.

(* ------------------------------------------------------------------------------------------ *)
(** * The cached constants do not depend on the manager *)

Lemma consts_same m m' : wf m -> wf m' ->
  m_sigma m' = m_sigma m /\ m_empty m' = m_empty m /\ m_full m' = m_full m /\
  m_eps m' = m_eps m /\ m_splus m' = m_splus m.
Proof.
  intros W W'.
  destruct (wf_consts m W) as [C1 C2 C3 C4 C5 _ _ _ _ _].
  destruct (wf_consts m' W') as [D1 D2 D3 D4 D5 _ _ _ _ _].
  repeat split; congruence.
Qed.

Lemma consts_new_mgr m : wf m ->
  m_sigma m = sigma0 /\ m_empty m = empty0 /\ m_full m = full0 /\ m_eps m = eps0 /\ m_splus m = splus0.
Proof.
  intros W. destruct (wf_consts m W) as [C1 C2 C3 C4 C5 _ _ _ _ _].
  unfold splus0, full0, sigma0, empty0, eps0. rewrite C3, C5, C1, C2, C4. repeat split; reflexivity.
Qed.

Ltac konst W W' :=
  let Es := fresh "Es" in let Ee := fresh "Ee" in let Ef := fresh "Ef" in
  let Ep := fresh "Ep" in let Esp := fresh "Esp" in
  destruct (consts_same _ _ W W') as (Es & Ee & Ef & Ep & Esp);
  rewrite ?Es, ?Ee, ?Ef, ?Ep, ?Esp.

(* ------------------------------------------------------------------------------------------ *)
(** * Lookups are stable under extension *)

Lemma id_to_re_ext m m' i r : ext m m' -> id_to_re m i = Some r -> id_to_re m' i = Some r.
Proof.
  intros [[l Hl] _] H. unfold id_to_re in *. rewrite Hl.
  rewrite nth_error_app1; [exact H|]. apply nth_error_Some. congruence.
Qed.

(* a stored term is found again by [make]: same term, manager unchanged *)
Lemma make_found m k t : wf m -> not_compl k -> owned m t -> key_of (rnode t) = key_of k ->
  make m k = Some (m, t).
Proof.
  intros W Hk Ho K. apply make_existing; auto. rewrite <- K. apply (wf_lookup m W t Ho).
Qed.

(* what [make] returns is owned by the resulting manager and stored under the requested key *)
Lemma make_result m k m1 t : wf m -> not_compl k -> make m k = Some (m1, t) ->
  owned m1 t /\ key_of (rnode t) = key_of k.
Proof.
  intros W Hk H. destruct (lookup (key_of k) (tbl m)) as [e|] eqn:Hl.
  - rewrite (make_existing m k e W Hk Hl) in H. inversion H; subst.
    apply lookup_in in Hl. apply (wf_tbl _ W) in Hl as [Hkey Ho]. auto.
  - rewrite (make_new m k W Hk Hl) in H. inversion H; subst.
    split; [apply grow_owned_x; auto | reflexivity].
Qed.

Theorem replay_make m k m1 t m' :
  wf m -> make m k = Some (m1, t) -> wf m' -> ext m1 m' -> make m' k = Some (m', t).
Proof.
  intros W H W' X.
  assert (Hc : not_compl k \/ exists x, k = NCompl x) by (destruct k; cbn; eauto).
  destruct Hc as [Hk | [x ->]].
  - destruct (make_result m k m1 t W Hk H) as [Ho Hkey].
    apply make_found; auto. eapply ext_owned; eauto.
  - cbn [make] in *. destruct (id_to_re m (rid x + 1)) as [r|] eqn:E; cbn [bind] in H; [|discriminate].
    inversion H; subst. rewrite (id_to_re_ext _ _ _ _ X E). reflexivity.
Qed.

Ltac rmake :=
  match goal with
  | W : wf ?m, H : make ?m ?k = Some (?m1, ?t), W' : wf ?m', X : ext ?m1 ?m' |- make ?m' ?k = Some (?m', ?t) =>
      exact (replay_make m k m1 t m' W H W' X)
  end.

(* immediate re-issue *)
Corollary make_idempotent m k m1 t : wf m -> wf m1 -> make m k = Some (m1, t) -> make m1 k = Some (m1, t).
Proof. intros W W1 H. exact (replay_make m k m1 t m1 W H W1 (ext_refl m1)). Qed.

Lemma replay_complement m e r m' : complement m e = Some r -> ext m m' -> complement m' e = Some r.
Proof. unfold complement. intros H X. eapply id_to_re_ext; eauto. Qed.

(* ------------------------------------------------------------------------------------------ *)
(** * Atoms *)

Theorem replay_char_set m s m1 t m' :
  wf m -> char_set m s = Some (m1, t) -> wf m' -> ext m1 m' -> char_set m' s = Some (m', t).
Proof. unfold char_set. intros W H W' X. rmake. Qed.

Theorem replay_range m a b m1 t m' :
  wf m -> range m a b = Some (m1, t) -> wf m' -> ext m1 m' -> range m' a b = Some (m', t).
Proof.
  unfold range. intros W H W' X. destruct ((a <=? b) && (b <=? MAXC)); [|discriminate].
  exact (replay_char_set _ _ _ _ _ W H W' X).
Qed.

Theorem replay_mchar m x m1 t m' :
  wf m -> mchar m x = Some (m1, t) -> wf m' -> ext m1 m' -> mchar m' x = Some (m', t).
Proof. unfold mchar. apply replay_range. Qed.

Theorem replay_smt_range m s1 s2 m1 t m' :
  wf m -> smt_range m s1 s2 = Some (m1, t) -> wf m' -> ext m1 m' -> smt_range m' s1 s2 = Some (m', t).
Proof.
  intros W H W' X. unfold smt_range in *. konst W W'.
  destruct s1 as [|c1 [|? ?]]; try (inversion H; subst; reflexivity).
  destruct s2 as [|c2 [|? ?]]; try (inversion H; subst; reflexivity).
  destruct (c1 <=? c2); [exact (replay_char_set _ _ _ _ _ W H W' X) | inversion H; subst; reflexivity].
Qed.

(* ------------------------------------------------------------------------------------------ *)
(** * Loops *)

Theorem replay_mk_loop m e rg m1 t m' :
  wf m -> mk_loop m e rg = Some (m1, t) -> wf m' -> ext m1 m' -> mk_loop m' e rg = Some (m', t).
Proof.
  intros W H W' X. unfold mk_loop in *. konst W W'.
  destruct (lr_is_zero rg); [inversion H; subst; reflexivity|].
  destruct (lr_is_one rg); [inversion H; subst; reflexivity|].
  destruct (rnode e) as [| |s|a b|x xr|a|l|l]; try (rmake).
  - inversion H; subst; reflexivity.
  - inversion H; subst; reflexivity.
  - destruct (lr_rmie xr rg) as [[|]|]; try rmake.
    destruct (lr_mul xr rg); rmake.
Qed.

Theorem replay_star m e m1 t m' :
  wf m -> star m e = Some (m1, t) -> wf m' -> ext m1 m' -> star m' e = Some (m', t).
Proof. unfold star. apply replay_mk_loop. Qed.
Theorem replay_plus m e m1 t m' :
  wf m -> plus m e = Some (m1, t) -> wf m' -> ext m1 m' -> plus m' e = Some (m', t).
Proof. unfold plus. apply replay_mk_loop. Qed.
Theorem replay_opt m e m1 t m' :
  wf m -> opt m e = Some (m1, t) -> wf m' -> ext m1 m' -> opt m' e = Some (m', t).
Proof. unfold opt. apply replay_mk_loop. Qed.
Theorem replay_exp m e k m1 t m' :
  wf m -> exp m e k = Some (m1, t) -> wf m' -> ext m1 m' -> exp m' e k = Some (m', t).
Proof. unfold exp. apply replay_mk_loop. Qed.
Theorem replay_loop_inf m e i m1 t m' :
  wf m -> Constructors.loop_inf m e i = Some (m1, t) -> wf m' -> ext m1 m' ->
  Constructors.loop_inf m' e i = Some (m', t).
Proof. unfold Constructors.loop_inf. apply replay_mk_loop. Qed.
Theorem replay_smt_loop m e i j m1 t m' :
  wf m -> smt_loop m e i j = Some (m1, t) -> wf m' -> ext m1 m' -> smt_loop m' e i j = Some (m', t).
Proof.
  intros W H W' X. unfold smt_loop in *. konst W W'.
  destruct (i <=? j); [exact (replay_mk_loop _ _ _ _ _ _ W H W' X) | inversion H; subst; reflexivity].
Qed.

(* ------------------------------------------------------------------------------------------ *)
(** * concat: the intermediate terms of the recursion are all found again *)

Theorem replay_concat : forall e1 m e2 m1 t m',
  wf m -> owned m e1 -> owned m e2 -> concat e1 m e2 = Some (m1, t) ->
  wf m' -> ext m1 m' -> concat e1 m' e2 = Some (m', t).
Proof.
  induction e1 as [e1 IH] using re_induction. intros m e2 m1 t m' W O1 O2 H W' X.
  rewrite concat_unfold in H |- *. unfold concat_rules in *. konst W W'.
  destruct (is_empty_node e1); [inversion H; subst; reflexivity|].
  destruct (is_empty_node e2); [inversion H; subst; reflexivity|].
  destruct (is_eps_node e1); [inversion H; subst; reflexivity|].
  destruct (is_eps_node e2); [inversion H; subst; reflexivity|].
  destruct (rule5g e1 e2) as [r|].
  { rmake. }
  destruct (rule5g e2 e1) as [r|].
  { rmake. }
  destruct (rule7g e1 e2) as [[x r]|].
  { rmake. }
  destruct (re_eqb e1 e2).
  { rmake. }
  destruct (rnode e1) as [| |s|x y|x xr|x|l|l] eqn:K.
  4: { destruct (wf_child m W e1 x O1) as [Ox _]; [rewrite K; cbn; auto|].
       destruct (wf_child m W e1 y O1) as [Oy _]; [rewrite K; cbn; auto|].
       destruct (concat y m e2) as [[ma rt]|] eqn:C1; cbn [bind] in H; [|discriminate].
       destruct (concat_ok y m e2 ma rt W Oy O2 C1) as (Wa & Xa & Ort & _).
       destruct (concat_ok x ma rt m1 t Wa (ext_owned m ma x Xa Ox) Ort H) as (_ & X1 & _ & _).
       rewrite (IH y (or_intror (or_introl eq_refl)) m e2 ma rt m' W Oy O2 C1 W' (ext_trans _ _ _ X1 X)).
       cbn [bind].
       apply (IH x (or_introl eq_refl) ma rt m1 t m' Wa (ext_owned m ma x Xa Ox) Ort H W' X). }
  all: destruct (rnul e1 && re_eqb e2 (m_full m));
    [inversion H; subst; reflexivity | rmake].
Qed.

Lemma replay_concat_list_go : forall rv m acc m1 t m',
  wf m -> (forall x, In x rv -> owned m x) -> owned m acc ->
  concat_list_go m rv acc = Some (m1, t) -> wf m' -> ext m1 m' ->
  concat_list_go m' rv acc = Some (m', t).
Proof.
  induction rv as [|x rv IH]; intros m acc m1 t m' W Hrv Hacc H W' X; cbn [concat_list_go] in *.
  - inversion H; subst. reflexivity.
  - destruct (concat x m acc) as [[ma r]|] eqn:C; cbn [bind] in H; [|discriminate].
    destruct (concat_ok x m acc ma r W (Hrv x (or_introl eq_refl)) Hacc C) as (Wa & Xa & Or & _).
    assert (Hrv' : forall z, In z rv -> owned ma z).
    { intros z Hz. apply (ext_owned m ma z Xa). apply Hrv. cbn; auto. }
    destruct (concat_list_go_ok rv ma r m1 t Wa Hrv' Or H) as (_ & X1 & _ & _).
    rewrite (replay_concat x m acc ma r m' W (Hrv x (or_introl eq_refl)) Hacc C W' (ext_trans _ _ _ X1 X)).
    cbn [bind]. eapply IH; eauto.
Qed.

Theorem replay_concat_list m l m1 t m' :
  wf m -> (forall x, In x l -> owned m x) -> concat_list m l = Some (m1, t) ->
  wf m' -> ext m1 m' -> concat_list m' l = Some (m', t).
Proof.
  intros W Hl H W' X. unfold concat_list in *. konst W W'.
  destruct (flat_map_flatten_concat_ok m l W Hl) as [Ho _].
  apply (replay_concat_list_go (rev (flat_map flatten_concat l)) m (m_eps m) m1 t m' W); auto.
  - intros x Hx. apply Ho. apply in_rev. exact Hx.
  - apply (c_eps_o m (wf_consts m W)).
Qed.

(* invariant preservation of the literal-string loop, without its language part *)
Lemma str_go_wf : forall rw m acc m1 t,
  wf m -> owned m acc -> str_go m rw acc = Some (m1, t) -> wf m1 /\ ext m m1 /\ owned m1 t.
Proof.
  induction rw as [|c rw IH]; intros m acc m1 t W Ho H; cbn [str_go] in H.
  - inversion H; subst. split; auto. split; [apply ext_refl | auto].
  - destruct (mchar m c) as [[ma ch]|] eqn:C; cbn [bind] in H; [|discriminate].
    destruct (mchar_ok m c ma ch W C) as (_ & Wa & Xa & Och & _).
    destruct (concat ch ma acc) as [[mb r]|] eqn:C2; cbn [bind] in H; [|discriminate].
    destruct (concat_ok ch ma acc mb r Wa Och (ext_owned m ma acc Xa Ho) C2) as (Wb & Xb & Or & _).
    destruct (IH mb r m1 t Wb Or H) as (W1 & X1 & Ot).
    split; auto. split; auto. eapply ext_trans; [exact Xa|]. eapply ext_trans; eauto.
Qed.

Lemma replay_str_go : forall rw m acc m1 t m',
  wf m -> owned m acc -> str_go m rw acc = Some (m1, t) -> wf m' -> ext m1 m' ->
  str_go m' rw acc = Some (m', t).
Proof.
  induction rw as [|c rw IH]; intros m acc m1 t m' W Ho H W' X; cbn [str_go] in *.
  - inversion H; subst. reflexivity.
  - destruct (mchar m c) as [[ma ch]|] eqn:C; cbn [bind] in H; [|discriminate].
    destruct (mchar_ok m c ma ch W C) as (_ & Wa & Xa & Och & _).
    destruct (concat ch ma acc) as [[mb r]|] eqn:C2; cbn [bind] in H; [|discriminate].
    destruct (concat_ok ch ma acc mb r Wa Och (ext_owned m ma acc Xa Ho) C2) as (Wb & Xb & Or & _).
    destruct (str_go_wf rw mb r m1 t Wb Or H) as (_ & X1 & _).
    rewrite (replay_mchar m c ma ch m' W C W' (ext_trans _ _ _ Xb (ext_trans _ _ _ X1 X))). cbn [bind].
    rewrite (replay_concat ch ma acc mb r m' Wa Och (ext_owned m ma acc Xa Ho) C2 W' (ext_trans _ _ _ X1 X)).
    cbn [bind]. eapply IH; eauto.
Qed.

Theorem replay_mstr m w m1 t m' :
  wf m -> mstr m w = Some (m1, t) -> wf m' -> ext m1 m' -> mstr m' w = Some (m', t).
Proof.
  intros W H W' X. unfold mstr in *. konst W W'.
  apply (replay_str_go (rev w) m (m_eps m) m1 t m' W); auto. apply (c_eps_o m (wf_consts m W)).
Qed.

(* ------------------------------------------------------------------------------------------ *)
(** * Set operations *)

Theorem replay_make_inter m v m1 t m' :
  wf m -> make_inter m v = Some (m1, t) -> wf m' -> ext m1 m' -> make_inter m' v = Some (m', t).
Proof.
  intros W H W' X. unfold make_inter in *. konst W W'.
  destruct (contains (simplify_set_operation v (m_full m) (m_empty m)) (m_eps m));
    [inversion H; subst; reflexivity|].
  destruct (simplify_set_operation v (m_full m) (m_empty m)) as [|x [|y r]];
    try (inversion H; subst; reflexivity).
  rmake.
Qed.

Theorem replay_make_union m v m1 t m' :
  wf m -> make_union m v = Some (m1, t) -> wf m' -> ext m1 m' -> make_union m' v = Some (m', t).
Proof.
  intros W H W' X. unfold make_union in *. konst W W'.
  set (v1 := simplify_set_operation v (m_empty m) (m_full m)) in *.
  set (v2 := match v1 with _ :: _ :: _ => remove_subsumed_go [] v1 | _ => v1 end) in *.
  clearbody v2. destruct v2 as [|x [|y r]]; try (inversion H; subst; reflexivity).
  rmake.
Qed.

Theorem replay_inter_list m l m1 t m' :
  wf m -> inter_list m l = Some (m1, t) -> wf m' -> ext m1 m' -> inter_list m' l = Some (m', t).
Proof. unfold inter_list. apply replay_make_inter. Qed.
Theorem replay_union_list m l m1 t m' :
  wf m -> union_list m l = Some (m1, t) -> wf m' -> ext m1 m' -> union_list m' l = Some (m', t).
Proof. unfold union_list. apply replay_make_union. Qed.
Theorem replay_inter m a b m1 t m' :
  wf m -> inter m a b = Some (m1, t) -> wf m' -> ext m1 m' -> inter m' a b = Some (m', t).
Proof. unfold inter. apply replay_inter_list. Qed.
Theorem replay_union m a b m1 t m' :
  wf m -> union m a b = Some (m1, t) -> wf m' -> ext m1 m' -> union m' a b = Some (m', t).
Proof. unfold union. apply replay_union_list. Qed.

Theorem replay_diff m a b m1 t m' :
  wf m -> owned m a -> owned m b -> diff m a b = Some (m1, t) -> wf m' -> ext m1 m' ->
  diff m' a b = Some (m', t).
Proof.
  intros W Oa Ob H W' X. unfold diff in *.
  destruct (complement_ok m b W Ob) as (nb & E & Onb & _). rewrite E in H. cbn [bind] in H.
  destruct (inter_wf m a nb m1 t W Oa Onb H) as (_ & X1 & _).
  rewrite (replay_complement m b nb m' E (ext_trans _ _ _ X1 X)). cbn [bind].
  exact (replay_inter m a nb m1 t m' W H W' X).
Qed.

(* the complemented operand list of diff_list *)
Definition compl_list (m : mgr) : list re -> option (list re) :=
  fix go (l : list re) : option (list re) :=
    match l with
    | [] => Some []
    | r :: t => do c <- complement m r; do rest <- go t; Some (flatten_inter c ++ rest)
    end.
Lemma compl_list_cons m r t :
  compl_list m (r :: t) = do c <- complement m r; do rest <- compl_list m t; Some (flatten_inter c ++ rest).
Proof. reflexivity. Qed.
Lemma diff_list_unfold m e1 l :
  diff_list m e1 l = do cl <- compl_list m l; make_inter m (flatten_inter e1 ++ cl).
Proof. reflexivity. Qed.
Lemma replay_compl_list m m' : ext m m' -> forall l cl, compl_list m l = Some cl -> compl_list m' l = Some cl.
Proof.
  intros X. induction l as [|r t IH]; intros cl H; [exact H|].
  rewrite compl_list_cons in *.
  destruct (complement m r) as [c|] eqn:E; cbn [bind] in H; [|discriminate].
  rewrite (replay_complement m r c m' E X). cbn [bind].
  destruct (compl_list m t) as [rest|]; cbn [bind] in H; [|discriminate].
  rewrite (IH rest eq_refl). exact H.
Qed.

Theorem replay_diff_list m e1 l m1 t m' :
  wf m -> owned m e1 -> (forall x, In x l -> owned m x) -> diff_list m e1 l = Some (m1, t) ->
  wf m' -> ext m1 m' -> diff_list m' e1 l = Some (m', t).
Proof.
  intros W O1 Hl H W' X.
  destruct (diff_list_wf m e1 l m1 t W O1 Hl H) as (_ & X1 & _).
  rewrite diff_list_unfold in *.
  destruct (compl_list m l) as [cl|] eqn:G; cbn [bind] in H; [|discriminate].
  rewrite (replay_compl_list m m' (ext_trans _ _ _ X1 X) l cl G). cbn [bind].
  exact (replay_make_inter m _ m1 t m' W H W' X).
Qed.

(* complement as a constructor: never allocates *)
Theorem replay_complement_mgr m e r m' :
  wf m -> owned m e -> complement m e = Some r -> ext m m' ->
  complement m' e = Some r /\ owned m' r.
Proof.
  intros W Ho H X. split; [eapply replay_complement; eauto|].
  destruct (complement_ok m e W Ho) as (r' & E & Or & _). rewrite E in H. inversion H; subst.
  eapply ext_owned; eauto.
Qed.

(* ------------------------------------------------------------------------------------------ *)
(** * Construction programs *)

Theorem replay_run : forall p m m1 t m',
  wf m -> prog_ok p = true -> run p m = Some (m1, t) -> wf m' -> ext m1 m' ->
  run p m' = Some (m', t).
Proof.
  induction p as [| | | |a b|s|p IHp q IHq|p IHp q IHq|p IHp q IHq|p IHp|p IHp q IHq|p IHp lo hi|p IHp c];
    intros m m1 t m' W Hok H W' X; cbn [run prog_ok] in *.
  - konst W W'. inversion H; subst; reflexivity.
  - konst W W'. inversion H; subst; reflexivity.
  - konst W W'. inversion H; subst; reflexivity.
  - konst W W'. inversion H; subst; reflexivity.
  - exact (replay_range m a b m1 t m' W H W' X).
  - exact (replay_mstr m s m1 t m' W H W' X).
  - apply andb_true_iff in Hok as [Hok1 Hok2].
    destruct (run p m) as [[ma a]|] eqn:R1; cbn [bind] in H; [|discriminate].
    destruct (run q ma) as [[mb b]|] eqn:R2; cbn [bind] in H; [|discriminate].
    destruct (run_wf p m ma a W Hok1 R1) as (Wa & Xa & Oa).
    destruct (run_wf q ma mb b Wa Hok2 R2) as (Wb & Xb & Ob).
    pose proof (ext_owned ma mb a Xb Oa) as Oa'.
    destruct (concat_wf a mb b m1 t Wb Oa' Ob H) as (_ & X1 & _).
    pose proof (ext_trans _ _ _ X1 X) as Xb'. pose proof (ext_trans _ _ _ Xb Xb') as Xa'.
    rewrite (IHp m ma a m' W Hok1 R1 W' Xa'). cbn [bind].
    rewrite (IHq ma mb b m' Wa Hok2 R2 W' Xb'). cbn [bind].
    exact (replay_concat a mb b m1 t m' Wb Oa' Ob H W' X).
  - apply andb_true_iff in Hok as [Hok1 Hok2].
    destruct (run p m) as [[ma a]|] eqn:R1; cbn [bind] in H; [|discriminate].
    destruct (run q ma) as [[mb b]|] eqn:R2; cbn [bind] in H; [|discriminate].
    destruct (run_wf p m ma a W Hok1 R1) as (Wa & Xa & Oa).
    destruct (run_wf q ma mb b Wa Hok2 R2) as (Wb & Xb & Ob).
    pose proof (ext_owned ma mb a Xb Oa) as Oa'.
    destruct (union_wf mb a b m1 t Wb Oa' Ob H) as (_ & X1 & _).
    pose proof (ext_trans _ _ _ X1 X) as Xb'. pose proof (ext_trans _ _ _ Xb Xb') as Xa'.
    rewrite (IHp m ma a m' W Hok1 R1 W' Xa'). cbn [bind].
    rewrite (IHq ma mb b m' Wa Hok2 R2 W' Xb'). cbn [bind].
    exact (replay_union mb a b m1 t m' Wb H W' X).
  - apply andb_true_iff in Hok as [Hok1 Hok2].
    destruct (run p m) as [[ma a]|] eqn:R1; cbn [bind] in H; [|discriminate].
    destruct (run q ma) as [[mb b]|] eqn:R2; cbn [bind] in H; [|discriminate].
    destruct (run_wf p m ma a W Hok1 R1) as (Wa & Xa & Oa).
    destruct (run_wf q ma mb b Wa Hok2 R2) as (Wb & Xb & Ob).
    pose proof (ext_owned ma mb a Xb Oa) as Oa'.
    destruct (inter_wf mb a b m1 t Wb Oa' Ob H) as (_ & X1 & _).
    pose proof (ext_trans _ _ _ X1 X) as Xb'. pose proof (ext_trans _ _ _ Xb Xb') as Xa'.
    rewrite (IHp m ma a m' W Hok1 R1 W' Xa'). cbn [bind].
    rewrite (IHq ma mb b m' Wa Hok2 R2 W' Xb'). cbn [bind].
    exact (replay_inter mb a b m1 t m' Wb H W' X).
  - destruct (run p m) as [[ma a]|] eqn:R1; cbn [bind] in H; [|discriminate].
    destruct (complement ma a) as [r|] eqn:E; cbn [bind] in H; [|discriminate].
    inversion H; subst ma r.
    rewrite (IHp m m1 a m' W Hok R1 W' X). cbn [bind].
    rewrite (replay_complement m1 a t m' E X). reflexivity.
  - apply andb_true_iff in Hok as [Hok1 Hok2].
    destruct (run p m) as [[ma a]|] eqn:R1; cbn [bind] in H; [|discriminate].
    destruct (run q ma) as [[mb b]|] eqn:R2; cbn [bind] in H; [|discriminate].
    destruct (run_wf p m ma a W Hok1 R1) as (Wa & Xa & Oa).
    destruct (run_wf q ma mb b Wa Hok2 R2) as (Wb & Xb & Ob).
    pose proof (ext_owned ma mb a Xb Oa) as Oa'.
    destruct (diff_wf mb a b m1 t Wb Oa' Ob H) as (_ & X1 & _).
    pose proof (ext_trans _ _ _ X1 X) as Xb'. pose proof (ext_trans _ _ _ Xb Xb') as Xa'.
    rewrite (IHp m ma a m' W Hok1 R1 W' Xa'). cbn [bind].
    rewrite (IHq ma mb b m' Wa Hok2 R2 W' Xb'). cbn [bind].
    exact (replay_diff mb a b m1 t m' Wb Oa' Ob H W' X).
  - destruct hi as [hi|]; apply andb_true_iff in Hok as [Hok1 Hok2]; apply N.leb_le in Hok2;
      (destruct (run p m) as [[ma a]|] eqn:R1; cbn [bind] in H; [|discriminate]);
      destruct (run_wf p m ma a W Hok1 R1) as (Wa & Xa & Oa).
    + destruct (post_wf _ _ _ _ (smt_loop_ok ma a lo hi m1 t Wa Oa Hok2 H)) as (_ & X1 & _).
      rewrite (IHp m ma a m' W Hok1 R1 W' (ext_trans _ _ _ X1 X)). cbn [bind].
      exact (replay_smt_loop ma a lo hi m1 t m' Wa H W' X).
    + destruct (post_wf _ _ _ _ (loop_inf_ok ma a lo m1 t Wa Oa Hok2 H)) as (_ & X1 & _).
      rewrite (IHp m ma a m' W Hok1 R1 W' (ext_trans _ _ _ X1 X)). cbn [bind].
      exact (replay_loop_inf ma a lo m1 t m' Wa H W' X).
  - discriminate.
Qed.

(* re-issuing immediately *)
Corollary run_idempotent p m m1 t :
  wf m -> prog_ok p = true -> run p m = Some (m1, t) -> run p m1 = Some (m1, t).
Proof.
  intros W Hok H. destruct (run_wf p m m1 t W Hok H) as (W1 & _ & _).
  exact (replay_run p m m1 t m1 W Hok H W1 (ext_refl m1)).
Qed.

(* ------------------------------------------------------------------------------------------ *)
(** * Every operation only extends the manager (the family [*_ext])

    For the constructors this is the [wf]/[ext] part of the f_ok lemmas of ConstructorProofs.v.
    Derivatives and the worklist procedures built on them (iter_derivatives, is_empty_re,
    get_string, compile) change the manager only through constructor calls and through
    [cache_insert] = [set_cache]; the latter is [set_cache_ext].  Their own monotonicity theorems
    belong to the derivative layer (C03/C19); histories below take [wf]/[ext] of the manager
    after such a step as premises. *)

Lemma make_ext m k m1 t : wf m -> not_compl k -> k_closed m k -> node_ok k ->
  make m k = Some (m1, t) -> wf m1 /\ ext m m1.
Proof. intros W H1 H2 H3 H. destruct (make_wf m k m1 t W H1 H2 H3 H) as (?&?&_). auto. Qed.
Lemma char_set_ext m s m1 t : wf m -> cs_valid s -> char_set m s = Some (m1, t) -> wf m1 /\ ext m m1.
Proof. intros W Hs H. destruct (char_set_wf m s m1 t W Hs H) as (?&?&_). auto. Qed.
Lemma range_ext m a b m1 t : wf m -> range m a b = Some (m1, t) -> wf m1 /\ ext m m1.
Proof. intros W H. destruct (range_wf m a b m1 t W H) as (?&?&_). auto. Qed.
Lemma mchar_ext m x m1 t : wf m -> mchar m x = Some (m1, t) -> wf m1 /\ ext m m1.
Proof. intros W H. destruct (mchar_wf m x m1 t W H) as (?&?&_). auto. Qed.
Lemma mstr_ext m w m1 t : wf m -> mstr m w = Some (m1, t) -> wf m1 /\ ext m m1.
Proof. intros W H. destruct (mstr_wf m w m1 t W H) as (?&?&_). auto. Qed.
Lemma smt_range_ext m s1 s2 m1 t : wf m -> goodw s2 -> smt_range m s1 s2 = Some (m1, t) -> wf m1 /\ ext m m1.
Proof. intros W Hg H. destruct (smt_range_ok m s1 s2 m1 t W Hg H) as (?&?&_). auto. Qed.
Lemma concat_ext e1 m e2 m1 t : wf m -> owned m e1 -> owned m e2 -> concat e1 m e2 = Some (m1, t) ->
  wf m1 /\ ext m m1.
Proof. intros W O1 O2 H. destruct (concat_wf e1 m e2 m1 t W O1 O2 H) as (?&?&_). auto. Qed.
Lemma concat_list_ext m l m1 t : wf m -> (forall x, In x l -> owned m x) ->
  concat_list m l = Some (m1, t) -> wf m1 /\ ext m m1.
Proof. intros W Hl H. destruct (concat_list_wf m l m1 t W Hl H) as (?&?&_). auto. Qed.
Lemma mk_loop_ext m e rg m1 t : wf m -> owned m e -> lr_valid rg -> mk_loop m e rg = Some (m1, t) ->
  wf m1 /\ ext m m1.
Proof. intros W Ho Hr H. destruct (mk_loop_wf m e rg m1 t W Ho Hr H) as (?&?&_). auto. Qed.
Lemma star_ext m e m1 t : wf m -> owned m e -> star m e = Some (m1, t) -> wf m1 /\ ext m m1.
Proof. intros W Ho H. destruct (star_ok m e m1 t W Ho H) as (?&?&_). auto. Qed.
Lemma plus_ext m e m1 t : wf m -> owned m e -> plus m e = Some (m1, t) -> wf m1 /\ ext m m1.
Proof. intros W Ho H. destruct (plus_ok m e m1 t W Ho H) as (?&?&_). auto. Qed.
Lemma opt_ext m e m1 t : wf m -> owned m e -> opt m e = Some (m1, t) -> wf m1 /\ ext m m1.
Proof. intros W Ho H. destruct (opt_ok m e m1 t W Ho H) as (?&?&_). auto. Qed.
Lemma exp_ext m e k m1 t : wf m -> owned m e -> k <= U32MAX -> exp m e k = Some (m1, t) -> wf m1 /\ ext m m1.
Proof. intros W Ho Hk H. destruct (exp_ok m e k m1 t W Ho Hk H) as (?&?&_). auto. Qed.
Lemma loop_inf_ext m e i m1 t : wf m -> owned m e -> i <= U32MAX ->
  Constructors.loop_inf m e i = Some (m1, t) -> wf m1 /\ ext m m1.
Proof. intros W Ho Hk H. destruct (loop_inf_ok m e i m1 t W Ho Hk H) as (?&?&_). auto. Qed.
Lemma smt_loop_ext m e i j m1 t : wf m -> owned m e -> j <= U32MAX -> smt_loop m e i j = Some (m1, t) ->
  wf m1 /\ ext m m1.
Proof. intros W Ho Hk H. destruct (smt_loop_ok m e i j m1 t W Ho Hk H) as (?&?&_). auto. Qed.
Lemma make_inter_ext m v m1 t : wf m -> (forall x, In x v -> owned m x) -> make_inter m v = Some (m1, t) ->
  wf m1 /\ ext m m1.
Proof. intros W Hv H. destruct (make_inter_wf m v m1 t W Hv H) as (?&?&_). auto. Qed.
Lemma make_union_ext m v m1 t : wf m -> (forall x, In x v -> owned m x) -> make_union m v = Some (m1, t) ->
  wf m1 /\ ext m m1.
Proof. intros W Hv H. destruct (make_union_wf m v m1 t W Hv H) as (?&?&_). auto. Qed.
Lemma inter_list_ext m l m1 t : wf m -> (forall x, In x l -> owned m x) -> inter_list m l = Some (m1, t) ->
  wf m1 /\ ext m m1.
Proof. intros W Hl H. destruct (inter_list_wf m l m1 t W Hl H) as (?&?&_). auto. Qed.
Lemma union_list_ext m l m1 t : wf m -> (forall x, In x l -> owned m x) -> union_list m l = Some (m1, t) ->
  wf m1 /\ ext m m1.
Proof. intros W Hl H. destruct (union_list_wf m l m1 t W Hl H) as (?&?&_). auto. Qed.
Lemma inter_ext m a b m1 t : wf m -> owned m a -> owned m b -> inter m a b = Some (m1, t) -> wf m1 /\ ext m m1.
Proof. intros W Oa Ob H. destruct (inter_wf m a b m1 t W Oa Ob H) as (?&?&_). auto. Qed.
Lemma union_ext m a b m1 t : wf m -> owned m a -> owned m b -> union m a b = Some (m1, t) -> wf m1 /\ ext m m1.
Proof. intros W Oa Ob H. destruct (union_wf m a b m1 t W Oa Ob H) as (?&?&_). auto. Qed.
Lemma diff_ext m a b m1 t : wf m -> owned m a -> owned m b -> diff m a b = Some (m1, t) -> wf m1 /\ ext m m1.
Proof. intros W Oa Ob H. destruct (diff_wf m a b m1 t W Oa Ob H) as (?&?&_). auto. Qed.
Lemma diff_list_ext m e1 l m1 t : wf m -> owned m e1 -> (forall x, In x l -> owned m x) ->
  diff_list m e1 l = Some (m1, t) -> wf m1 /\ ext m m1.
Proof. intros W O1 Hl H. destruct (diff_list_wf m e1 l m1 t W O1 Hl H) as (?&?&_). auto. Qed.
Lemma run_ext p m m1 t : wf m -> prog_ok p = true -> run p m = Some (m1, t) -> wf m1 /\ ext m m1.
Proof. intros W Hok H. destruct (run_wf p m m1 t W Hok H) as (?&?&_). auto. Qed.
(* the derivative cache is invisible to the constructors *)
Lemma set_cache_ext m c : wf m -> cache_ok (set_cache m c) -> wf (set_cache m c) /\ ext m (set_cache m c).
Proof.
  intros W Hc. split; [apply wf_set_cache; auto|].
  split; [exists []; cbn; rewrite app_nil_r; reflexivity | intros k e H; exact H].
Qed.

(* ------------------------------------------------------------------------------------------ *)
(** * Histories of one manager *)

(* [history m m']: m' is reached from m by a sequence of construction programs and of arbitrary
   other operations that extend the manager and keep its invariant (derivatives,
   iter_derivatives, is_empty_re, get_string, compile, direct constructor calls, ...). *)
Inductive history : mgr -> mgr -> Prop :=
| h_done m : history m m
| h_build m p m1 r m' : prog_ok p = true -> run p m = Some (m1, r) -> history m1 m' -> history m m'
| h_other m m1 m' : wf m1 -> ext m m1 -> history m1 m' -> history m m'.

Lemma history_wf m m' : wf m -> history m m' -> wf m' /\ ext m m'.
Proof.
  intros W H. induction H as [m | m p m1 r m' Hok R _ IH | m m1 m' W1 X1 _ IH].
  - split; [exact W | apply ext_refl].
  - destruct (run_ext p m m1 r W Hok R) as [W1 X1]. destruct (IH W1) as [W' X'].
    split; [exact W' | eapply ext_trans; eauto].
  - destruct (IH W1) as [W' X']. split; [exact W' | eapply ext_trans; eauto].
Qed.

Lemma history_trans m1 m2 m3 : history m1 m2 -> history m2 m3 -> history m1 m3.
Proof.
  intros H1 H2. induction H1 as [m | m p ma r m' Hok R _ IH | m ma m' Wa Xa _ IH]; auto.
  - eapply h_build; eauto.
  - eapply h_other; eauto.
Qed.

Theorem same_term_any_later_manager : forall p m m1 t m',
  wf m -> prog_ok p = true -> run p m = Some (m1, t) -> wf m' -> ext m1 m' ->
  run p m' = Some (m', t).
Proof. exact replay_run. Qed.

Theorem same_term_any_history : forall p m m1 t m',
  wf m -> prog_ok p = true -> run p m = Some (m1, t) -> history m1 m' ->
  run p m' = Some (m', t).
Proof.
  intros p m m1 t m' W Hok H Hh.
  destruct (run_ext p m m1 t W Hok H) as [W1 _].
  destruct (history_wf m1 m' W1 Hh) as [W' X'].
  exact (replay_run p m m1 t m' W Hok H W' X').
Qed.

(* ---- executable histories over concrete statements ---- *)
Inductive stmt :=
| SBuild (p : prog)                                     (* a construction through the API *)
| SCharDeriv (e : re) (c : N)                           (* char_derivative *)
| SClassDeriv (e : re) (cid : classid)                  (* class_derivative *)
| SIter (fuel : nat) (e : re)                           (* iter_derivatives, run to exhaustion *)
| SIsEmpty (fuel : nat) (e : re)                        (* is_empty_re *)
| SGetString (fuel : nat) (e : re)                      (* get_string *)
| SCompile (fuel : nat) (e : re) (maxs : option nat).   (* compile / try_compile *)

Definition exec_stmt (s : stmt) (m : mgr) : option mgr :=
  match s with
  | SBuild p => option_map fst (run p m)
  | SCharDeriv e c => option_map fst (char_derivative m e c)
  | SClassDeriv e cid => option_map fst (class_derivative m e cid)
  | SIter f e => option_map fst (iter_derivatives f m e)
  | SIsEmpty f e => option_map fst (is_empty_re f m e)
  | SGetString f e => option_map fst (get_string f m e)
  | SCompile f e mx => option_map fst (compile_with_bound f m e mx)
  end.
Fixpoint exec_history (h : list stmt) (m : mgr) : option mgr :=
  match h with
  | [] => Some m
  | s :: t => do m1 <- exec_stmt s m; exec_history t m1
  end.
(* what is assumed of a step: programs are accepted by the API; a derivative-layer step leaves a
   manager that extends the previous one and satisfies the invariant *)
Definition step_ok (s : stmt) (m m1 : mgr) : Prop :=
  match s with
  | SBuild p => prog_ok p = true
  | _ => wf m1 /\ ext m m1
  end.
Fixpoint history_ok (h : list stmt) (m : mgr) : Prop :=
  match h with
  | [] => True
  | s :: t => match exec_stmt s m with
              | Some m1 => step_ok s m m1 /\ history_ok t m1
              | None => True
              end
  end.

Lemma exec_history_history : forall h m m',
  history_ok h m -> exec_history h m = Some m' -> history m m'.
Proof.
  induction h as [|s h IH]; intros m m' Hok H; cbn [exec_history history_ok] in *.
  - inversion H; subst. apply h_done.
  - destruct (exec_stmt s m) as [m1|] eqn:E; cbn [bind] in H; [|discriminate].
    destruct Hok as [Hs Hrest]. specialize (IH m1 m' Hrest H).
    destruct s as [p|e c|e cid|f e|f e|f e|f e mx]; cbn [step_ok] in Hs;
      [|destruct Hs as [W1 X1]; eapply h_other; eauto ..].
    cbn [exec_stmt] in E. destruct (run p m) as [[m1' r]|] eqn:R; cbn in E; [|discriminate].
    inversion E; subst. eapply h_build; eauto.
Qed.

Theorem same_term_any_exec_history : forall p m m1 t h m',
  wf m -> prog_ok p = true -> run p m = Some (m1, t) ->
  history_ok h m1 -> exec_history h m1 = Some m' ->
  run p m' = Some (m', t).
Proof.
  intros p m m1 t h m' W Hok H Hh E.
  eapply same_term_any_history; eauto. eapply exec_history_history; eauto.
Qed.

(* a history made of constructions only needs no premise beyond acceptance of the programs *)
Lemma builds_history_ok : forall ps m,
  Forall (fun p => prog_ok p = true) ps -> history_ok (map SBuild ps) m.
Proof.
  induction ps as [|p ps IH]; intros m Hps; cbn [map history_ok]; [exact I|].
  inversion Hps; subst. destruct (exec_stmt (SBuild p) m); [|exact I].
  split; [assumption | apply IH; assumption].
Qed.

Theorem same_term_after_constructions : forall p m m1 t ps m',
  wf m -> prog_ok p = true -> run p m = Some (m1, t) ->
  Forall (fun q => prog_ok q = true) ps -> exec_history (map SBuild ps) m1 = Some m' ->
  run p m' = Some (m', t).
Proof.
  intros p m m1 t ps m' W Hok H Hps E.
  eapply same_term_any_exec_history; eauto. apply builds_history_ok; auto.
Qed.

(* ------------------------------------------------------------------------------------------ *)
(** * Equality is identity *)

Theorem eq_reflects_identity m a b : owned m a -> owned m b -> re_eqb a b = true -> a = b.
Proof. exact (re_eqb_owned m a b). Qed.

Theorem eq_iff_identity m a b : owned m a -> owned m b -> (re_eqb a b = true <-> a = b).
Proof.
  intros Oa Ob. split; [apply (re_eqb_owned m a b Oa Ob)|].
  intros ->. unfold re_eqb. apply N.eqb_refl.
Qed.

(* also for terms created at different times of the history *)
Theorem eq_reflects_identity_later m m' a b :
  ext m m' -> owned m a -> owned m' b -> re_eqb a b = true -> a = b.
Proof. intros X Oa Ob. apply (re_eqb_owned m' a b); auto. eapply ext_owned; eauto. Qed.

(* distinct stored terms have distinct ids and distinct keys *)
Theorem distinct_terms_distinct_ids m a b : owned m a -> owned m b -> a <> b -> rid a <> rid b.
Proof. intros Oa Ob Hne E. apply Hne. eapply id_inj; eauto. Qed.

Theorem same_key_same_term m a b :
  wf m -> owned m a -> owned m b -> key_of (rnode a) = key_of (rnode b) -> a = b.
Proof.
  intros W Oa Ob K. pose proof (wf_lookup m W a Oa) as Ha. pose proof (wf_lookup m W b Ob) as Hb.
  rewrite K in Ha. congruence.
Qed.

(* complement: total on owned terms, an involution, never the identity *)
Theorem complement_involution m e : wf m -> owned m e ->
  exists r, complement m e = Some r /\ owned m r /\ complement m r = Some e /\
            re_eqb r e = false /\ r <> e.
Proof.
  intros W Ho. destruct (complement_ok m e W Ho) as (r & E & Or & _). exists r.
  pose proof (complement_no_fixpoint m e r W Ho E) as Hne.
  split; [exact E|]. split; [exact Or|]. split; [exact (complement_involutive m e r W Ho E)|].
  split; [apply N.eqb_neq; exact Hne | intros ->; apply Hne; reflexivity].
Qed.

(* ------------------------------------------------------------------------------------------ *)
(** * Languages do not depend on the history *)

(* L is a function of the tree: the term found under an id in any later state of the manager is
   the same tree, hence denotes the same language *)
Theorem ext_preserves_language m m' t t' :
  ext m m' -> owned m t -> owned m' t' -> rid t' = rid t ->
  t' = t /\ forall w, L t' w <-> L t w.
Proof.
  intros X Ot Ot' E. assert (t' = t) by (eapply (id_inj m'); eauto; eapply ext_owned; eauto).
  subst. split; [reflexivity | tauto].
Qed.

Theorem language_history_free_modulo_inclusion : inclusion_sound ->
  forall p ma ma' ta mb mb' tb,
  wf ma -> wf mb -> prog_ok p = true ->
  run p ma = Some (ma', ta) -> run p mb = Some (mb', tb) ->
  lang_eq (L ta) (L tb) /\ lang_eq (L ta) (denote p) /\ rnul ta = rnul tb.
Proof.
  intros Hsub p ma ma' ta mb mb' tb Wa Wb Hok Ra Rb.
  destruct (run_correct Hsub p ma ma' ta Wa Hok Ra) as (_ & _ & _ & La).
  destruct (run_correct Hsub p mb mb' tb Wb Hok Rb) as (_ & _ & _ & Lb).
  split; [eapply lang_eq_trans; [exact La | apply lang_eq_sym; exact Lb]|]. split; [exact La|].
  pose proof (nullable_run Hsub p ma ma' ta Wa Hok Ra) as Na.
  pose proof (nullable_run Hsub p mb mb' tb Wb Hok Rb) as Nb.
  destruct (rnul ta), (rnul tb); auto.
  - symmetry. apply Nb. apply Na. reflexivity.
  - apply Na. apply Nb. reflexivity.
Qed.

(* ------------------------------------------------------------------------------------------ *)
(** * The thread-local manager of smt_regular_expressions.rs

    thread_local!(static MANAGER = RefCell::new(ReManager::new())): one manager value per thread
    that starts as [new_mgr]; every wrapper call is a step of its history. *)

Theorem thread_local_same_term : forall m p m1 t m',
  history new_mgr m -> prog_ok p = true -> run p m = Some (m1, t) -> history m1 m' ->
  run p m' = Some (m', t).
Proof.
  intros m p m1 t m' H0 Hok H Hh. destruct (history_wf new_mgr m new_mgr_wf H0) as [W _].
  eapply same_term_any_history; eauto.
Qed.

Theorem thread_local_first_use : forall p m1 t m',
  prog_ok p = true -> run p new_mgr = Some (m1, t) -> history m1 m' -> run p m' = Some (m', t).
Proof. intros p m1 t m' Hok H Hh. eapply (thread_local_same_term new_mgr); eauto. apply h_done. Qed.

Theorem thread_local_language_modulo_inclusion : inclusion_sound ->
  forall p ma ma' ta mb mb' tb,
  history new_mgr ma -> history new_mgr mb -> prog_ok p = true ->
  run p ma = Some (ma', ta) -> run p mb = Some (mb', tb) ->
  lang_eq (L ta) (L tb).
Proof.
  intros Hsub p ma ma' ta mb mb' tb Ha Hb Hok Ra Rb.
  destruct (history_wf new_mgr ma new_mgr_wf Ha) as [Wa _].
  destruct (history_wf new_mgr mb new_mgr_wf Hb) as [Wb _].
  exact (proj1 (language_history_free_modulo_inclusion Hsub p ma ma' ta mb mb' tb Wa Wb Hok Ra Rb)).
Qed.

(* ------------------------------------------------------------------------------------------ *)
(** * Discharging the inclusion premise (C16, InclusionProofs.v) *)

(* the premise [inclusion_sound] of run_correct / C01: the terms of a well-formed manager are
   closed under children, have injective ids and are well-formed trees *)
Theorem inclusion_sound_holds : inclusion_sound.
Proof.
  intros m W r s Or Os H.
  apply (InclusionProofs.included_in_sound_owned m); auto.
  - intros e c He Hc. apply (wf_child m W e c He Hc).
  - apply (wf_terms m W r Or).
  - apply (wf_terms m W s Os).
Qed.

Theorem language_history_free : forall p ma ma' ta mb mb' tb,
  wf ma -> wf mb -> prog_ok p = true ->
  run p ma = Some (ma', ta) -> run p mb = Some (mb', tb) ->
  lang_eq (L ta) (L tb) /\ lang_eq (L ta) (denote p) /\ rnul ta = rnul tb.
Proof. exact (language_history_free_modulo_inclusion inclusion_sound_holds). Qed.

Theorem thread_local_language : forall p ma ma' ta mb mb' tb,
  history new_mgr ma -> history new_mgr mb -> prog_ok p = true ->
  run p ma = Some (ma', ta) -> run p mb = Some (mb', tb) ->
  lang_eq (L ta) (L tb).
Proof. exact (thread_local_language_modulo_inclusion inclusion_sound_holds). Qed.

Print Assumptions replay_make.
Print Assumptions replay_concat.
Print Assumptions replay_run.
Print Assumptions same_term_any_exec_history.
Print Assumptions language_history_free_modulo_inclusion.
Print Assumptions thread_local_same_term.
Print Assumptions inclusion_sound_holds.
Print Assumptions language_history_free.
