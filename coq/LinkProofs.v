(* LinkProofs.v -- discharges the explicit premises that the proof files carried while they were
   developed in parallel: soundness of included_in (C16) and the refinement fact about
   merge_partitions (C12). *)
Require Import Base CharSet Partition PartitionSpec LoopRange Regex Inclusion Constructors Deriv Denote Sem.
Require Import Lang PartitionProofs ManagerProofs ConstructorProofs RunProofs DerivProofs Automaton AutomatonProofs.
Require MergeProofs.
Open Scope N_scope.

Lemma inclusion_on : forall m, wf m -> inclusion_sound_on m.
Proof. exact inclusion_sound_holds. Qed.

Lemma make_union_closed : forall m v m' t, wf m -> (forall x, In x v -> owned m x) ->
  make_union m v = Some (m', t) ->
  wf m' /\ ext m m' /\ owned m' t /\ lang_eq (L t) (fun w => exists x, In x v /\ L x w).
Proof. intros m v m' t W. exact (make_union_ok m v m' t W (inclusion_on m W)). Qed.

Lemma union_closed : forall m a b m' t, wf m -> owned m a -> owned m b -> union m a b = Some (m', t) ->
  wf m' /\ ext m m' /\ owned m' t /\ lang_eq (L t) (fun w => L a w \/ L b w).
Proof. intros m a b m' t W. exact (union_ok m a b m' t W (inclusion_on m W)). Qed.

Lemma union_list_closed : forall m l m' t, wf m -> (forall x, In x l -> owned m x) ->
  union_list m l = Some (m', t) ->
  wf m' /\ ext m m' /\ owned m' t /\ lang_eq (L t) (fun w => exists x, In x l /\ L x w).
Proof. intros m l m' t W. exact (union_list_ok m l m' t W (inclusion_on m W)). Qed.

Lemma run_correct_closed : forall p m m' t, wf m -> prog_ok p = true -> run p m = Some (m', t) ->
  wf m' /\ ext m m' /\ owned m' t /\ lang_eq (L t) (denote p).
Proof. exact (run_correct inclusion_sound_holds). Qed.

Lemma nullable_run_closed : forall p m m' t, wf m -> prog_ok p = true -> run p m = Some (m', t) ->
  (rnul t = true <-> denote p []).
Proof. exact (nullable_run inclusion_sound_holds). Qed.

Lemma membership_closed : forall p m m1 t w m2 b, dwf m -> prog_ok p = true -> run p m = Some (m1, t) ->
  goodw w -> str_in_re m1 w t = Some (m2, b) -> (b = true <-> denote p w).
Proof. exact (membership_denotation merge_ok_holds inclusion_sound_holds). Qed.

Lemma merge_spec_holds : merge_spec.
Proof.
  intros p1 p2 W1 W2. split; [apply MergeProofs.merge_wf; assumption|].
  intros x y. apply MergeProofs.merge_refines; assumption.
Qed.
