(* Automaton.v -- executable model of automata.rs and compact_tables.rs (no proofs here):
   AutomatonBuilder (get_state_id, mark_final, set_default_successor, add_transition, cleanup =
   Boyer-Moore majority default + removal of transitions to the default, make_partition,
   make_successor, build after repair D6 = validation before cleanup, build_unchecked),
   Automaton (next, class_next, str_next, accepts, edges, final_states, remove_unreachable_states,
   combined_char_partition, pick_alphabet, compile_successors) and the first-fit CompactTable.
   State names given to the builder are N (any hashable key in Rust).  None = panic. *)
Require Import Base CharSet Partition.
Open Scope nat_scope.

Fixpoint upd {A} (l : list A) (i : nat) (x : A) : list A :=
  match l, i with
  | [], _ => []
  | _ :: t, O => x :: t
  | y :: t, S k => y :: upd t k x
  end.
Definition swap {A} (d : A) (l : list A) (i j : nat) : list A :=
  let a := nth i l d in let b := nth j l d in upd (upd l i b) j a.

(* ================= builder ================= *)
Record sic := { s_final : bool; s_default : option nat; s_trans : list (cs * nat) }.
Definition sic_new := {| s_final := false; s_default := None; s_trans := [] |}.
Record builder := { id_map : list (N * nat); bstates : list sic }.
Fixpoint find_key (k : N) (l : list (N * nat)) : option nat :=
  match l with [] => None | (k', i) :: t => if N.eqb k k' then Some i else find_key k t end.
Definition get_state_id (b : builder) (k : N) : builder * nat :=
  match find_key k (id_map b) with
  | Some i => (b, i)
  | None => let i := length (bstates b) in
            ({| id_map := id_map b ++ [(k, i)]; bstates := bstates b ++ [sic_new] |}, i)
  end.
Definition b_new (k : N) : builder := fst (get_state_id {| id_map := []; bstates := [] |} k).
Definition upd_state (b : builder) (i : nat) (f : sic -> sic) : builder :=
  {| id_map := id_map b; bstates := upd (bstates b) i (f (nth i (bstates b) sic_new)) |}.
Definition b_mark_final (b : builder) (k : N) :=
  let '(b1, i) := get_state_id b k in
  upd_state b1 i (fun s => {| s_final := true; s_default := s_default s; s_trans := s_trans s |}).
Definition b_set_default (b : builder) (k n : N) :=
  let '(b1, i) := get_state_id b k in let '(b2, j) := get_state_id b1 n in
  upd_state b2 i (fun s => {| s_final := s_final s; s_default := Some j; s_trans := s_trans s |}).
Definition b_add_transition (b : builder) (k : N) (set : cs) (n : N) :=
  let '(b1, i) := get_state_id b k in let '(b2, j) := get_state_id b1 n in
  upd_state b2 i (fun s => {| s_final := s_final s; s_default := s_default s; s_trans := s_trans s ++ [(set, j)] |}).

Fixpoint maj_go (l : list (cs * nat)) (maj k : nat) : nat :=
  match l with
  | [] => maj
  | (_, x) :: t => if Nat.eqb k 0 then maj_go t x 1
                   else if Nat.eqb x maj then maj_go t maj (S k) else maj_go t maj (k - 1)
  end.
Definition count_target (l : list (cs * nat)) (m : nat) := length (filter (fun x => Nat.eqb (snd x) m) l).
Definition cleanup (s : sic) : sic :=
  let d := match s_default s, s_trans s with
           | None, (_, x0) :: t =>
               let m := maj_go t x0 1 in
               if Nat.leb (length (s_trans s) / 2) (count_target (s_trans s) m) then Some m else None
           | d, _ => d
           end in
  let tr := match d with Some i => filter (fun x => negb (Nat.eqb (snd x) i)) (s_trans s) | None => s_trans s end in
  {| s_final := s_final s; s_default := d; s_trans := tr |}.

Record astate := { a_id : nat; a_final : bool; a_classes : part; a_succ : list nat; a_default : option nat }.
Record automaton := { num_states : nat; num_final : nat; initial : nat; astates : list astate }.
Definition make_successor (s : sic) (p : part) : option (list nat) :=
  fold_left (fun acc tr =>
               match acc with
               | None => None
               | Some r => match pclass_of_char p (cs_pick (fst tr)) with
                           | Some (CInt i) => Some (upd r i (snd tr))
                           | _ => None                          (* panic!() *)
                           end
               end) (s_trans s) (Some (repeat 0 (length (ivs p)))).
Fixpoint build_states (l : list sic) (i : nat) : option (list astate) :=
  match l with
  | [] => Some []
  | s :: t =>
    let s := cleanup s in
    match ptry_from_list (map fst (s_trans s)) with
    | None => None
    | Some p =>
      match make_successor s p, build_states t (S i) with
      | Some suc, Some rest =>
          Some ({| a_id := i; a_final := s_final s; a_classes := p; a_succ := suc; a_default := s_default s |} :: rest)
      | _, _ => None
      end
    end
  end.
Definition build_unchecked (b : builder) : option automaton :=
  match build_states (bstates b) 0 with
  | Some sts => Some {| num_states := length sts; num_final := length (filter a_final sts); initial := 0; astates := sts |}
  | None => None
  end.

(* AutomatonBuilder::build (after repair D6: the transitions are validated as given, before
   cleanup() may promote a majority successor to default) *)
Inductive berr := NonDisjointCharSets | EmptyComplementaryClass | MissingDefaultSuccessor.
Inductive bres := BErr (e : berr) | BOk (a : automaton).
Definition has_default (s : sic) := match s_default s with Some _ => true | None => false end.
Fixpoint build_states_checked (l : list sic) (i : nat) : option (berr + list astate) :=
  match l with
  | [] => Some (inr [])
  | s0 :: t =>
    match ptry_from_list (map fst (s_trans s0)) with
    | None => Some (inl NonDisjointCharSets)
    | Some p0 =>
      if has_default s0 && pempty_complement p0 then Some (inl EmptyComplementaryClass)
      else if negb (has_default s0) && negb (pempty_complement p0) then Some (inl MissingDefaultSuccessor)
      else
        let s := cleanup s0 in
        match ptry_from_list (map fst (s_trans s)) with
        | None => Some (inl NonDisjointCharSets)
        | Some p =>
          do suc <- make_successor s p;
          do rest <- build_states_checked t (S i);
          match rest with
          | inl e => Some (inl e)
          | inr sts => Some (inr ({| a_id := i; a_final := s_final s; a_classes := p; a_succ := suc;
                                     a_default := s_default s |} :: sts))
          end
        end
    end
  end.
Definition build (b : builder) : option bres :=
  do r <- build_states_checked (bstates b) 0;
  match r with
  | inl e => Some (BErr e)
  | inr sts => Some (BOk {| num_states := length sts; num_final := length (filter a_final sts);
                            initial := 0; astates := sts |})
  end.
(* the pinned code validated after cleanup (defect D6) *)
Fixpoint build_states_prefix (l : list sic) (i : nat) : option (berr + list astate) :=
  match l with
  | [] => Some (inr [])
  | s0 :: t =>
    let s := cleanup s0 in
    match ptry_from_list (map fst (s_trans s)) with
    | None => Some (inl NonDisjointCharSets)
    | Some p =>
      if has_default s && pempty_complement p then Some (inl EmptyComplementaryClass)
      else if negb (has_default s) && negb (pempty_complement p) then Some (inl MissingDefaultSuccessor)
      else
        do suc <- make_successor s p;
        do rest <- build_states_prefix t (S i);
        match rest with
        | inl e => Some (inl e)
        | inr sts => Some (inr ({| a_id := i; a_final := s_final s; a_classes := p; a_succ := suc;
                                   a_default := s_default s |} :: sts))
        end
    end
  end.

Definition dstate := {| a_id := 0; a_final := false; a_classes := pnew; a_succ := []; a_default := None |}.
Definition a_state (a : automaton) (i : nat) := nth i (astates a) dstate.
Definition a_next (a : automaton) (s : astate) (c : N) : option nat :=
  match pclass_of_char (a_classes s) c with
  | Some (CInt i) => nth_error (a_succ s) i
  | Some CComp => a_default s                 (* None = unwrap() of a missing default: panic *)
  | None => None
  end.
Fixpoint a_str_next (a : automaton) (s : nat) (w : list N) : option nat :=
  match w with [] => Some s | c :: t => match a_next a (a_state a s) c with Some n => a_str_next a n t | None => None end end.
Definition a_accepts (a : automaton) (w : list N) : option bool :=
  option_map (fun s => a_final (a_state a s)) (a_str_next a (initial a) w).


(* ================= reachability, alphabet, compact table ================= *)
Definition edges (s : astate) : list nat := a_succ s ++ match a_default s with Some d => [d] | None => [] end.
Fixpoint reach_go (fuel : nat) (a : automaton) (queue seen out : list nat) : list nat :=
  match fuel with
  | O => out
  | S f =>
    match queue with
    | [] => out
    | i :: q =>
      let '(q1, s1) := fold_left (fun qs n => if existsb (Nat.eqb n) (snd qs) then qs else (fst qs ++ [n], n :: snd qs))
                                 (edges (a_state a i)) (q, seen) in
      reach_go f a q1 s1 (out ++ [i])
    end
  end.
Fixpoint insert_nat (x : nat) (l : list nat) := match l with [] => [x] | y :: t => if Nat.leb x y then x :: l else y :: insert_nat x t end.
Definition sort_nat (l : list nat) := fold_right insert_nat [] l.
Definition remap_state (new_id : list nat) (s : astate) : astate :=
  {| a_id := nth (a_id s) new_id 0; a_final := a_final s; a_classes := a_classes s;
     a_succ := map (fun x => nth x new_id 0) (a_succ s);
     a_default := option_map (fun x => nth x new_id 0) (a_default s) |}.
Definition remap_nodes (a : automaton) (new_id old_id : list nat) : automaton :=
  let sts := map (fun o => remap_state new_id (a_state a o)) old_id in
  {| num_states := length old_id; num_final := length (filter a_final sts);
     initial := nth (initial a) new_id 0; astates := sts |}.
Definition remove_unreachable (a : automaton) : automaton :=
  let reachable := sort_nat (reach_go (S (num_states a)) a [initial a] [initial a] []) in
  let new_id := fold_left (fun acc ix => upd acc (snd ix) (fst ix)) (combine (seq 0 (length reachable)) reachable)
                          (repeat 0 (num_states a)) in
  remap_nodes a new_id reachable.

Definition combined_partition (a : automaton) : part :=
  fold_left (fun acc s => pmerge acc (a_classes s)) (astates a) pnew.
Definition pick_alphabet (a : automaton) := ppicks (combined_partition a).

Record ctable := { ct_n : nat; ct_alpha : nat; ct_default : list nat; ct_base : list nat; ct_value : list nat; ct_check : list nat }.
Definition base_conflicts (t : ctable) (b : nat) (succ : list (nat * nat)) :=
  existsb (fun cv => negb (Nat.eqb (nth (b + fst cv) (ct_check t) (ct_n t)) (ct_n t))) succ.
Definition ct_resize (t : ctable) (sz : nat) : ctable :=
  {| ct_n := ct_n t; ct_alpha := ct_alpha t; ct_default := ct_default t; ct_base := ct_base t;
     ct_value := ct_value t ++ repeat 0 (sz - length (ct_value t));
     ct_check := ct_check t ++ repeat (ct_n t) (sz - length (ct_check t)) |}.
Fixpoint find_base (fuel : nat) (t : ctable) (b : nat) (succ : list (nat * nat)) : ctable * nat :=
  match fuel with
  | O => (t, b)
  | S f =>
    if base_conflicts t b succ then
      let b := S b in
      let t := if Nat.ltb (length (ct_value t)) (b + ct_alpha t) then ct_resize t (2 * length (ct_value t)) else t in
      find_base f t b succ
    else (t, b)
  end.
Definition set_successors (t : ctable) (i : nat) (succ : list (nat * nat)) : ctable :=
  let '(t, b) := find_base (S (length (ct_value t)) + ct_alpha t) t 0 succ in
  let '(v, c) := fold_left (fun vc cv => (upd (fst vc) (b + fst cv) (snd cv), upd (snd vc) (b + fst cv) i))
                           succ (ct_value t, ct_check t) in
  {| ct_n := ct_n t; ct_alpha := ct_alpha t; ct_default := ct_default t; ct_base := upd (ct_base t) i b;
     ct_value := v; ct_check := c |}.
Definition compile_successors (a : automaton) : option ctable :=
  let alphabet := pick_alphabet a in
  let n := num_states a in let m := length alphabet in
  let t0 := {| ct_n := n; ct_alpha := m; ct_default := repeat 0 n; ct_base := repeat 0 n;
               ct_value := repeat 0 m; ct_check := repeat n m |} in
  let t := fold_left (fun (ot : option ctable) s =>
             match ot with
             | None => None
             | Some t =>
               let t := match a_default s with
                        | Some d => {| ct_n := ct_n t; ct_alpha := ct_alpha t; ct_default := upd (ct_default t) (a_id s) d;
                                       ct_base := ct_base t; ct_value := ct_value t; ct_check := ct_check t |}
                        | None => t end in
               let cand := filter (fun ic => negb (match a_default s with Some _ => true | None => false end
                                                  && match pclass_of_char (a_classes s) (snd ic) with Some CComp => true | _ => false end))
                                  (combine (seq 0 m) alphabet) in
               let succ := map (fun ic => (fst ic, a_next a s (snd ic))) cand in
               if forallb (fun x => match snd x with Some _ => true | None => false end) succ
               then Some (set_successors t (a_id s) (map (fun x => (fst x, match snd x with Some v => v | None => 0 end)) succ))
               else None
             end) (astates a) (Some t0) in
  match t with
  | None => None
  | Some t =>
    let mx := fold_left Nat.max (ct_base t) 0 + m in
    Some {| ct_n := ct_n t; ct_alpha := ct_alpha t; ct_default := ct_default t; ct_base := ct_base t;
            ct_value := firstn mx (ct_value t); ct_check := firstn mx (ct_check t) |}
  end.
Definition ct_eval (t : ctable) (s c : nat) : nat :=
  let k := nth s (ct_base t) 0 + c in
  if Nat.eqb (nth k (ct_check t) (ct_n t)) s then nth k (ct_value t) 0 else nth s (ct_default t) 0.


(* ================= accessors of Automaton and State (public API tied to C14) =================
   Automaton::{initial_state, state, states, num_states, num_final_states, final_states,
   default_successor, class_next, char_set_next} and State::{num_successors, has_default_successor,
   default_successor, valid_class_id, char_maps_to_default, char_classes, class_of_char, char_picks,
   char_ranges}.  A `&State` handed out by the automaton is the state record; None = panic
   (`self.states[i]` out of bounds, unwrap() of a missing default). *)
(* &self.states[i] *)
Definition a_state_at (a : automaton) (i : nat) : option astate := nth_error (astates a) i.
Definition a_initial_state (a : automaton) : option astate := a_state_at a (initial a).
Definition a_states (a : automaton) : list astate := astates a.
Definition a_num_states (a : automaton) : nat := num_states a.
Definition a_num_final_states (a : automaton) : nat := num_final a.
(* FinalStateIterator: the states whose is_final flag is set, in index order *)
Definition a_final_states (a : automaton) : list astate := filter a_final (astates a).
(* Automaton::default_successor(s): s.default_successor.map(|i| &self.states[i]);
   outer None = index out of bounds *)
Definition a_default_successor (a : automaton) (s : astate) : option (option astate) :=
  match a_default s with
  | None => Some None
  | Some i => do t <- a_state_at a i; Some (Some t)
  end.
(* Automaton::class_next(s, cid): index taken from s, then &self.states[i].
   debug_assert!(s.valid_class_id(cid)) is a debug assertion, not behaviour (Base conventions): the
   theorems call class_next on valid class ids only, and so do char_set_next / next / the harness. *)
Definition a_class_next (a : automaton) (s : astate) (cid : classid) : option astate :=
  do i <- match cid with CInt i => nth_error (a_succ s) i | CComp => a_default s end;
  a_state_at a i.
(* Automaton::char_set_next(s, set): Some None = Err(AmbiguousCharSet) *)
Definition a_char_set_next (a : automaton) (s : astate) (set : cs) : option (option astate) :=
  do r <- pclass_of_set (a_classes s) set;
  match r with
  | None => Some None
  | Some cid => do t <- a_class_next a s cid; Some (Some t)
  end.

Definition s_num_successors (s : astate) : nat := plen (a_classes s).
Definition s_has_default_successor (s : astate) : bool :=
  match a_default s with Some _ => true | None => false end.
Definition s_default_successor (s : astate) : option nat := a_default s.
Definition s_valid_class_id (s : astate) (cid : classid) : bool := pvalid (a_classes s) cid.
(* has_default_successor() && class_of_char(c) == Complement  (short-circuit) *)
Definition s_char_maps_to_default (s : astate) (c : N) : option bool :=
  if s_has_default_successor s then
    do cid <- pclass_of_char (a_classes s) c; Some (classid_eqb cid CComp)
  else Some false.
Definition s_char_classes (s : astate) : list classid := pclass_ids (a_classes s).
Definition s_class_of_char (s : astate) (x : N) : option classid := pclass_of_char (a_classes s) x.
Definition s_char_picks (s : astate) : list N := ppicks (a_classes s).
Definition s_char_ranges (s : astate) : list cs := ivs (a_classes s).
