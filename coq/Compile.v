(* Compile.v -- executable model of ReManager::compile_with_bound / compile / try_compile
   (no proofs here): BFS over derivatives driving the AutomatonBuilder, then build_unchecked. *)
Require Import Base CharSet Partition LoopRange Regex Inclusion Constructors Deriv Explore Automaton.
Open Scope nat_scope.

(* ================= compile ================= *)
Fixpoint compile_ranges (m : mgr) (e : re) (sets : list cs) (i : nat) (queue seen : list re) (b : builder)
  : option (mgr * list re * list re * builder) :=
  match sets with
  | [] => Some (m, queue, seen, b)
  | set :: t =>
    match pclass_of_set (rcls e) set with
    | None | Some None => None                       (* unwrap() of Err: panic *)
    | Some (Some cid) =>
      match cached_deriv e m cid with
      | None => None
      | Some (m1, d) =>
        let '(q1, s1) := if existsb (re_eqb d) seen then (queue, seen) else (queue ++ [d], d :: seen) in
        compile_ranges m1 e t (S i) q1 s1 (b_add_transition b (rid e) set (rid d))
      end
    end
  end.
Fixpoint compile_go (fuel : nat) (m : mgr) (queue seen : list re) (b : builder) (count maxs : nat)
  : option (mgr * option builder) :=
  match fuel with
  | O => None
  | S f =>
    match queue with
    | [] => Some (m, Some b)
    | e :: q =>
      if Nat.eqb count maxs then Some (m, None) else
      match compile_ranges m e (ivs (rcls e)) 0 q seen b with
      | None => None
      | Some (m1, q1, s1, b1) =>
        let r2 := if pempty_complement (rcls e) then Some (m1, q1, s1, b1)
                  else match cached_deriv e m1 CComp with
                       | None => None
                       | Some (m2, d) =>
                         let '(q2, s2) := if existsb (re_eqb d) s1 then (q1, s1) else (q1 ++ [d], d :: s1) in
                         Some (m2, q2, s2, b_set_default b1 (rid e) (rid d))
                       end in
        match r2 with
        | None => None
        | Some (m2, q2, s2, b2) =>
          let b3 := if rnul e then b_mark_final b2 (rid e) else b2 in
          compile_go f m2 q2 s2 b3 (S count) maxs
        end
      end
    end
  end.
Definition compile_with_bound (fuel : nat) (m : mgr) (e : re) (maxs : option nat) : option (mgr * option automaton) :=
  match maxs with
  | Some 0 => Some (m, None)
  | _ =>
    let mx := match maxs with Some k => k | None => S fuel end in
    match compile_go fuel m [e] [e] (b_new (rid e)) 0 mx with
    | None => None
    | Some (m1, None) => Some (m1, None)
    | Some (m1, Some b) => match build_unchecked b with Some a => Some (m1, Some a) | None => None end
    end
  end.

