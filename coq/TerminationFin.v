(* TerminationFin.v -- finiteness: the owned terms of potential <= P of a manager that has only
   created normal nodes since the counter was c0 are, after erasing the ids of the new nodes,
   members of the finite list [universe c0 P (level P)]; erasing is injective.  Hence a duplicate-free
   list of such terms has at most [term_bound c0 P] elements. *)
Require Import Base CharSet Partition PartitionSpec LoopRange Regex Inclusion Constructors Deriv Denote Sem.
Require Import Lang LoopRangeProofs ManagerProofs ConstructorProofs DerivProofs.
Require Import Termination TerminationPot.
Open Scope N_scope.

(* ------------------------------------------------------------------------------------------ *)
(** * erase *)

Lemma erase_node c0 e :
  erase c0 e =
  if rid e <? c0 then SOld (rid e) else
  match rnode e with
  | NEmpty | NEps | NRange _ => SBad
  | NConcat a b => SCat (erase c0 a) (erase c0 b)
  | NLoop a r => SLoop (erase c0 a) r
  | NCompl a => SNot (erase c0 a)
  | NUnion l => SUn (map (erase c0) l)
  | NInter l => SIn (map (erase c0) l)
  end.
Proof.
  destruct e as [i n c k]. cbn [erase rid rnode]. destruct (i <? c0); [reflexivity|].
  destruct k; reflexivity.
Qed.

Lemma map_erase_inj c0 m l1 : (forall x, In x l1 -> forall b, owned m x -> owned m b -> erase c0 x = erase c0 b -> x = b) ->
  forall l2, (forall x, In x l1 -> owned m x) -> (forall x, In x l2 -> owned m x) ->
  map (erase c0) l1 = map (erase c0) l2 -> l1 = l2.
Proof.
  induction l1 as [|a t IH]; intros Hinj l2 H1 H2 E; destruct l2 as [|b t2]; cbn [map] in E; try discriminate; [reflexivity|].
  inversion E as [[Ea Et]]. f_equal.
  - apply Hinj; auto; [left; reflexivity | apply H1; left; reflexivity | apply H2; left; reflexivity].
  - apply IH; auto.
    + intros x Hx. apply Hinj. right. exact Hx.
    + intros x Hx. apply H1. right. exact Hx.
    + intros x Hx. apply H2. right. exact Hx.
Qed.

Lemma same_node_eq m a b : wf m -> owned m a -> owned m b -> rnode a = rnode b -> a = b.
Proof.
  intros W Oa Ob E. pose proof (wf_lookup m W a Oa) as La. pose proof (wf_lookup m W b Ob) as Lb.
  rewrite E in La. congruence.
Qed.

Theorem erase_inj c0 m : wf m -> nn c0 m -> forall a b, owned m a -> owned m b -> erase c0 a = erase c0 b -> a = b.
Proof.
  intros W Z. induction a as [a IH] using re_induction. intros b Oa Ob E.
  rewrite (erase_node c0 a), (erase_node c0 b) in E.
  assert (Hch : forall x, In x (children (rnode a)) -> owned m x) by (intros x Hx; apply (wf_child m W a x Oa Hx)).
  assert (Hchb : forall x, In x (children (rnode b)) -> owned m x) by (intros x Hx; apply (wf_child m W b x Ob Hx)).
  destruct (rid a <? c0) eqn:La, (rid b <? c0) eqn:Lb.
  - inversion E. apply (id_inj m); auto.
  - destruct (rnode b); discriminate.
  - destruct (rnode a); discriminate.
  - apply N.ltb_ge in La, Lb. pose proof (Z a Oa La) as Sa. pose proof (Z b Ob Lb) as Sb.
    apply (same_node_eq m a b W Oa Ob).
    destruct (rnode a) as [| |s|a1 a2|a1 r1|a1|l1|l1] eqn:Ka; cbn [nshape] in Sa; try contradiction;
    destruct (rnode b) as [| |s'|b1 b2|b1 r2|b1|l2|l2] eqn:Kb; cbn [nshape] in Sb; try contradiction; try discriminate;
    cbn [children] in *.
    + inversion E as [[E1 E2]]. f_equal.
      * apply IH; auto; [left; reflexivity | apply Hch; left; reflexivity | apply Hchb; left; reflexivity].
      * apply IH; auto; [right; left; reflexivity | apply Hch; right; left; reflexivity | apply Hchb; right; left; reflexivity].
    + inversion E as [[E1 E2]]. f_equal.
      apply IH; auto; [left; reflexivity | apply Hch; left; reflexivity | apply Hchb; left; reflexivity].
    + inversion E as [E1]. f_equal.
      apply IH; auto; [left; reflexivity | apply Hch; left; reflexivity | apply Hchb; left; reflexivity].
    + inversion E as [E1]. f_equal. apply (map_erase_inj c0 m l1); auto.
    + inversion E as [E1]. f_equal. apply (map_erase_inj c0 m l1); auto.
Qed.

(* ------------------------------------------------------------------------------------------ *)
(** * The enumerations *)

Lemma nrange_in b x : In x (nrange b) <-> x <= b.
Proof.
  unfold nrange. rewrite in_map_iff. split.
  - intros (n & <- & Hn). apply in_seq in Hn. lia.
  - intros H. exists (N.to_nat x). split; [apply N2Nat.id|]. apply in_seq. lia.
Qed.
Lemma ranges_in b i hi : i <= b -> match hi with Some j => j <= b | None => True end -> In (LR i hi) (ranges b).
Proof.
  intros Hi Hj. unfold ranges. apply in_flat_map. exists i. split; [apply nrange_in; exact Hi|].
  destruct hi as [j|]; [right | left; reflexivity]. apply in_map_iff. exists j. split; [reflexivity | apply nrange_in; exact Hj].
Qed.
Lemma lists_upto_in {A} (u : list A) : forall k l, (length l <= k)%nat -> (forall x, In x l -> In x u) -> In l (lists_upto k u).
Proof.
  induction k as [|k IH]; intros l Hl Hin.
  - destruct l; [left; reflexivity | cbn in Hl; lia].
  - destruct l as [|a t]; [left; reflexivity|]. right. apply in_flat_map. exists a.
    split; [apply Hin; left; reflexivity|]. apply in_map. apply IH; [cbn in Hl; lia|].
    intros x Hx. apply Hin. right. exact Hx.
Qed.

Lemma universe_S c0 b n x : In x (universe c0 b n) -> In x (universe c0 b (S n)).
Proof. intros H. cbn [universe]. apply in_or_app. left. exact H. Qed.
Lemma universe_mono c0 b n n' x : (n <= n')%nat -> In x (universe c0 b n) -> In x (universe c0 b n').
Proof. induction 1 as [|k Hk IH]; auto. intros Hx. apply universe_S. auto. Qed.

(* ------------------------------------------------------------------------------------------ *)
(** * Ranks *)

Lemma lex_lt1 M p p' v v' : p' + 1 <= p -> v' + 2 <= M -> 2 * (p' * M + v') + 1 < 2 * (p * M + v).
Proof.
  intros Hp Hv. assert ((p' + 1) * M <= p * M) by (apply N.mul_le_mono_r; exact Hp).
  replace ((p' + 1) * M) with (p' * M + M) in H by ring. lia.
Qed.
Lemma lex_lt2 M p p' v v' : p' <= p -> v' + 1 <= v -> 2 * (p' * M + v') + 1 < 2 * (p * M + v).
Proof. intros Hp Hv. assert (p' * M <= p * M) by (apply N.mul_le_mono_r; exact Hp). lia. Qed.

Lemma rank_le P e : rank P e <= 2 * (pa e * (P + 3) + vl e) + 1.
Proof. unfold rank. destruct (is_loop e); lia. Qed.
Lemma rank_ge P e : 2 * (pa e * (P + 3) + vl e) <= rank P e.
Proof. unfold rank. destruct (is_loop e); lia. Qed.

Lemma union_vl a : is_union a = true -> vl a = 1.
Proof. intros U. rewrite vl_node. unfold is_union in U. destruct (rnode a); try discriminate; reflexivity. Qed.

(* a child has a potential at most that of its parent and a strictly smaller rank *)
Lemma rank_child P e c : node_ok (rnode e) -> nz_node (rnode e) -> pa e <= P -> In c (children (rnode e)) ->
  pa c <= pa e /\ rank P c < rank P e.
Proof.
  intros Hok Hnz HP Hc. pose proof (vl_le_pa c) as Hvc. pose proof (phi_ge_pa c) as Hpc. pose proof (vl_pos c) as Hv1.
  assert (L1 : pa c + 1 <= pa e -> pa c <= pa e /\ rank P c < rank P e).
  { intros H. split; [lia|]. pose proof (rank_le P c). pose proof (rank_ge P e).
    assert (2 * (pa c * (P + 3) + vl c) + 1 < 2 * (pa e * (P + 3) + vl e)) by (apply lex_lt1; lia). lia. }
  assert (L2 : pa c <= pa e -> vl c + 1 <= vl e -> pa c <= pa e /\ rank P c < rank P e).
  { intros H H'. split; [lia|]. pose proof (rank_le P c). pose proof (rank_ge P e).
    assert (2 * (pa c * (P + 3) + vl c) + 1 < 2 * (pa e * (P + 3) + vl e)) by (apply lex_lt2; lia). lia. }
  rewrite (pa_node e), (vl_node e) in *.
  destruct (rnode e) as [| |s|a b|a [i [j|]]|a|l|l] eqn:K; unfold loop_pa, loop_vl in *;
    cbn [lpa lvl children node_ok nz_node lr_valid] in *; try contradiction.
  - destruct Hc as [Hc|[Hc|[]]]; subst c.
    + apply L1. pose proof (vl_pos b). lia.
    + apply L2; [lia|]. pose proof (vl_pos a). lia.
  - destruct Hc as [Hc|[]]; subst c.
    assert (Hj : j <> 0) by (apply (zero_fin i j); [lia | exact Hnz]).
    destruct (is_union a) eqn:U.
    + pose proof (phi_union a U) as E1. pose proof (union_vl a U) as E2.
      destruct (N.eq_dec j 1) as [->|Hj1].
      * (* the body is a union and the loop is an option: same potential, but the body is not a loop *)
        change (1 - 1) with 0 in *. rewrite N.mul_0_l, N.add_0_r in HP. split; [lia|].
        unfold rank, is_loop. rewrite K.
        replace (match rnode a with NLoop _ _ => true | _ => false end) with false
          by (unfold is_union in U; destruct (rnode a); try discriminate; reflexivity).
        rewrite (pa_node e), (vl_node e), K. unfold loop_pa, loop_vl. cbn [lpa lvl].
        rewrite E1, E2. change (1 - 1) with 0. rewrite N.mul_0_l, N.add_0_r. change (N.max 1 (1 * 1)) with 1. lia.
      * apply L2; [lia|]. rewrite E2. assert (2 <= j) by lia. lia.
    + pose proof (phi_nonunion a U) as E1. apply L1. unfold CW in *. remember ((j - 1) * vl a) as q. lia.
  - destruct Hc as [Hc|[]]; subst c. apply L1. remember ((i - 1) * vl a) as q. lia.
  - destruct Hc as [Hc|[]]; subst c. apply L1. lia.
  - apply L1. pose proof (lmax_ge pa 1 l c Hc). unfold CW in *. lia.
  - apply L1. pose proof (lmax_ge phi 2 l c Hc). unfold CW in *. lia.
Qed.

(* ------------------------------------------------------------------------------------------ *)
(** * Every bounded term is in the universe *)

Lemma NoDup_map_erase c0 m l : wf m -> nn c0 m -> (forall x, In x l -> owned m x) ->
  NoDup (map rid l) -> NoDup (map (erase c0) l).
Proof.
  intros W Z. induction l as [|a t IH]; intros Ho Hn; cbn [map] in *; [constructor|].
  inversion Hn as [|? ? Hni Hn']; subst. constructor.
  - intros Hin. apply in_map_iff in Hin as (y & Ey & Hy). apply Hni.
    assert (y = a) by (apply (erase_inj c0 m W Z); auto; [apply Ho; right; exact Hy | apply Ho; left; reflexivity]).
    subst y. apply in_map. exact Hy.
  - apply IH; auto. intros x Hx. apply Ho. right. exact Hx.
Qed.

Lemma in_universe_cat c0 b n a1 a2 : In a1 (universe c0 b n) -> In a2 (universe c0 b n) -> In (SCat a1 a2) (universe c0 b (S n)).
Proof.
  intros H1 H2. cbn [universe]. apply in_or_app. right. apply in_or_app. left.
  apply in_flat_map. exists a1. split; [exact H1 | apply in_map; exact H2].
Qed.
Lemma in_universe_loop c0 b n a r : In a (universe c0 b n) -> In r (ranges b) -> In (SLoop a r) (universe c0 b (S n)).
Proof.
  intros H1 H2. cbn [universe]. apply in_or_app. right. apply in_or_app. right. apply in_or_app. left.
  apply in_flat_map. exists a. split; [exact H1 | apply in_map; exact H2].
Qed.
Lemma in_universe_not c0 b n a : In a (universe c0 b n) -> In (SNot a) (universe c0 b (S n)).
Proof.
  intros H1. cbn [universe]. apply in_or_app. right. apply in_or_app. right. apply in_or_app. right.
  apply in_or_app. left. apply in_map. exact H1.
Qed.
Lemma in_universe_un c0 b n l : (forall x, In x l -> In x (universe c0 b n)) -> NoDup l -> In (SUn l) (universe c0 b (S n)).
Proof.
  intros H1 H2. cbn [universe]. apply in_or_app. right. apply in_or_app. right. apply in_or_app. right.
  apply in_or_app. right. apply in_or_app. left. apply in_map. apply lists_upto_in; [|exact H1].
  apply NoDup_incl_length; [exact H2 | exact H1].
Qed.
Lemma in_universe_in c0 b n l : (forall x, In x l -> In x (universe c0 b n)) -> NoDup l -> In (SIn l) (universe c0 b (S n)).
Proof.
  intros H1 H2. cbn [universe]. apply in_or_app. right. apply in_or_app. right. apply in_or_app. right.
  apply in_or_app. right. apply in_or_app. right. apply in_map. apply lists_upto_in; [|exact H1].
  apply NoDup_incl_length; [exact H2 | exact H1].
Qed.

Theorem in_universe c0 P m : wf m -> nzm m -> nn c0 m ->
  forall n t, owned m t -> pa t <= P -> rank P t <= N.of_nat n -> In (erase c0 t) (universe c0 P n).
Proof.
  intros W NZ Z. induction n as [|n IH]; intros t Ot HP Hr; rewrite (erase_node c0 t).
  - destruct (rid t <? c0) eqn:Lt.
    + apply N.ltb_lt in Lt. cbn [universe]. apply in_map. apply nrange_in. lia.
    + exfalso. pose proof (rank_ge P t). pose proof (pa_pos t). pose proof (vl_pos t).
      assert (1 * (P + 3) <= pa t * (P + 3)) by (apply N.mul_le_mono_r; lia). lia.
  - destruct (rid t <? c0) eqn:Lt.
    + apply N.ltb_lt in Lt. apply (universe_mono c0 P 0); [lia|]. cbn [universe]. apply in_map. apply nrange_in. lia.
    + apply N.ltb_ge in Lt. pose proof (Z t Ot Lt) as Sh. pose proof (NZ t Ot) as Hnz.
      pose proof (wf_terms m W t Ot) as Wt. apply wf_term_iff in Wt as (_ & _ & Hok & _).
      assert (Hch : forall c, In c (children (rnode t)) -> In (erase c0 c) (universe c0 P n)).
      { intros c Hc. destruct (rank_child P t c Hok Hnz HP Hc) as [Hp Hlt].
        apply IH; [apply (wf_child m W t c Ot Hc) | lia | lia]. }
      assert (Hown : forall c, In c (children (rnode t)) -> owned m c) by (intros c Hc; apply (wf_child m W t c Ot Hc)).
      pose proof (pa_node t) as Ep.
      destruct (rnode t) as [| |s|a b|a r|a|l|l] eqn:K; cbn [nshape children node_ok] in *; try contradiction.
      * apply in_universe_cat; apply Hch; [left | right; left]; reflexivity.
      * apply in_universe_loop; [apply Hch; left; reflexivity|].
        pose proof (phi_ge2 a). pose proof (vl_pos a). unfold loop_pa in Ep.
        destruct r as [i [j|]]; cbn [lpa lr_valid] in *.
        -- assert (j - 1 <= (j - 1) * vl a) by (rewrite <- (N.mul_1_r (j - 1)) at 1; apply N.mul_le_mono_l; lia).
           apply ranges_in; lia.
        -- assert (i - 1 <= (i - 1) * vl a) by (rewrite <- (N.mul_1_r (i - 1)) at 1; apply N.mul_le_mono_l; lia).
           apply ranges_in; [lia | exact I].
      * apply in_universe_not. apply Hch. left. reflexivity.
      * apply in_universe_un.
        -- intros x Hx. apply in_map_iff in Hx as (y & <- & Hy). apply Hch. exact Hy.
        -- apply (NoDup_map_erase c0 m l W Z Hown Sh).
      * apply in_universe_in.
        -- intros x Hx. apply in_map_iff in Hx as (y & <- & Hy). apply Hch. exact Hy.
        -- apply (NoDup_map_erase c0 m l W Z Hown Sh).
Qed.

Lemma rank_level P t : pa t <= P -> rank P t <= N.of_nat (level P).
Proof.
  intros HP. unfold level. rewrite N2Nat.id. pose proof (rank_le P t). pose proof (vl_le_pa t).
  assert (pa t * (P + 3) <= P * (P + 3)) by (apply N.mul_le_mono_r; exact HP). lia.
Qed.

(* the pigeonhole: a duplicate-free list of owned terms of potential <= P is short *)
Theorem count_bound c0 P m s : wf m -> nzm m -> nn c0 m ->
  (forall t, In t s -> owned m t) -> (forall t, In t s -> pa t <= P) -> NoDup (map rid s) ->
  (length s <= term_bound c0 P)%nat.
Proof.
  intros W NZ Z Ho Hp Hn. unfold term_bound. rewrite <- (map_length (erase c0) s).
  apply NoDup_incl_length.
  - apply (NoDup_map_erase c0 m s W Z Ho Hn).
  - intros x Hx. apply in_map_iff in Hx as (t & <- & Ht).
    apply (in_universe c0 P m W NZ Z); [apply Ho; exact Ht | apply Hp; exact Ht | apply rank_level, Hp; exact Ht].
Qed.
