(* Display.v -- executable model of the Display implementations that no property mentions (no
   proofs here, informational only: bin/displaycheck compares them with the crate, nothing alarms):
   LoopRange, CharSet, ClassId, CoverResult, CharPartition (character_sets.rs, loop_ranges.rs), State
   and Automaton (automata.rs).  A printed String is the list of its code points.  The Rust
   formatting of u32 / usize with {} is modelled by the decimal printer dec_N.  None = panic. *)
Require Import Base CharSet Partition LoopRange Literal Automaton.
Open Scope N_scope.

(* {} of an unsigned integer *)
Fixpoint dec_go (fuel : nat) (n : N) (acc : list N) : list N :=
  match fuel with
  | O => acc
  | S f => let acc' := (48 + n mod 10) :: acc in
           if n / 10 =? 0 then acc' else dec_go f (n / 10) acc'
  end.
Definition dec_N (n : N) : list N := dec_go (S (N.size_nat n)) n [].
Definition dec_nat (n : nat) : list N := dec_N (N.of_nat n).

(* impl Display for LoopRange: the first three patterns win over the general ones *)
Definition lr_display (r : lr) : list N :=
  match r with
  | LR 0 (Some 1) => [63]
  | LR 0 None => [42]
  | LR 1 None => [43]
  | LR i (Some j) => if i =? j then dec_N i else [91] ++ dec_N i ++ [46; 46] ++ dec_N j ++ [93]
  | LR i None => [91] ++ dec_N i ++ [46; 46; 105; 110; 102; 41]
  end.

(* impl Display for CharSet: a single character, Sigma (U+03A3) for the whole alphabet, else [a..b] *)
Definition cs_display (s : cs) : list N :=
  let a := fst s in let b := snd s in
  if a =? b then char_to_smt a
  else if (a =? 0) && (b =? MAXC) then [931]
  else [91] ++ char_to_smt a ++ [46; 46] ++ char_to_smt b ++ [93].

Definition classid_display (c : classid) : list N :=
  match c with
  | CInt i => [73; 110; 116; 101; 114; 118; 97; 108; 40] ++ dec_nat i ++ [41]
  | CComp => [67; 111; 109; 112; 108; 101; 109; 101; 110; 116]
  end.

Definition cover_display (c : cover) : list N :=
  match c with
  | CoveredBy i => [67; 111; 118; 101; 114; 101; 100; 66; 121; 40] ++ dec_nat i ++ [41]
  | DisjointFromAll => [68; 105; 115; 106; 111; 105; 110; 116; 70; 114; 111; 109; 65; 108; 108]
  | Overlaps => [79; 118; 101; 114; 108; 97; 112; 115]
  end.

(* impl Display for CharPartition: "{ " r1 " " r2 " " ... "}" *)
Definition part_display (p : part) : list N :=
  [123; 32] ++ flat_map (fun r => cs_display r ++ [32]) (ivs p) ++ [125].

(* impl Display for State: s<id> *)
Definition state_display (s : astate) : list N := 115 :: dec_nat (a_id s).

(* impl Display for Automaton; char_set_next(s, c).unwrap() and &self.states[..] may panic *)
Definition trans_lines (a : automaton) (s : astate) : option (list N) :=
  do ls <- fold_left (fun (acc : option (list N)) c =>
             do l <- acc;
             do r <- a_char_set_next a s c;
             do d <- r;                                             (* unwrap of Err(..) *)
             Some (l ++ [32; 32; 948; 40] ++ state_display s ++ [44; 32] ++ cs_display c ++ [41; 32; 61; 32] ++ state_display d ++ [10]))
           (s_char_ranges s) (Some []);
  match s_default_successor s with
  | Some d => Some (ls ++ [32; 32; 948; 40] ++ state_display s ++ [44; 32; 46; 46; 46; 41; 32; 61; 32; 115] ++ dec_nat d ++ [10])
  | None => Some ls
  end.
Definition automaton_display (a : automaton) : option (list N) :=
  do ini <- a_initial_state a;
  do tr <- fold_left (fun (acc : option (list N)) s => do l <- acc; do t <- trans_lines a s; Some (l ++ t))
                     (a_states a) (Some []);
  Some (dec_nat (a_num_states a) ++ [32; 115; 116; 97; 116; 101; 115] ++ [10] ++
        [105; 110; 105; 116; 105; 97; 108; 32; 115; 116; 97; 116; 101; 58; 32] ++ state_display ini ++ [10] ++
        [102; 105; 110; 97; 108; 32; 115; 116; 97; 116; 101] ++ (if Nat.eqb (a_num_final_states a) 1 then [] else [115]) ++ [58] ++
        flat_map (fun s => 32 :: state_display s) (a_final_states a) ++ [10] ++
        [116; 114; 97; 110; 115; 105; 116; 105; 111; 110; 115; 58] ++ [10] ++ tr ++ [10]).
