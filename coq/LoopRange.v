(* LoopRange.v -- executable model of loop_ranges.rs (no proofs here).
   LR lo (Some hi) = [lo, hi], LR lo None = [lo, +inf).  None results = u32 overflow panic. *)
Require Import Base.
Open Scope N_scope.

Inductive lr := LR (lo : N) (hi : option N).

Definition lr_valid (r : lr) : Prop :=
  match r with LR a (Some b) => a <= b /\ b <= U32MAX | LR a None => a <= U32MAX end.
Definition lr_validb (r : lr) : bool :=
  match r with LR a (Some b) => (a <=? b) && (b <=? U32MAX) | LR a None => a <=? U32MAX end.
(* the set of naturals a range denotes *)
Definition inr (n : N) (r : lr) : Prop :=
  match r with LR a (Some b) => a <= n /\ n <= b | LR a None => a <= n end.

Definition lr_finite (i j : N) := LR i (Some j).
Definition lr_infinite (i : N) := LR i None.
Definition lr_opt := LR 0 (Some 1).
Definition lr_star := LR 0 None.
Definition lr_plus := LR 1 None.
Definition lr_point (k : N) := LR k (Some k).
Definition lr_is_finite r := match r with LR _ (Some _) => true | _ => false end.
Definition lr_is_infinite r := match r with LR _ None => true | _ => false end.
Definition lr_is_point r := match r with LR a (Some b) => a =? b | _ => false end.
Definition lr_is_zero r := match r with LR 0 (Some 0) => true | _ => false end.
Definition lr_is_one r := match r with LR 1 (Some 1) => true | _ => false end.
Definition lr_is_all r := match r with LR 0 None => true | _ => false end.
Definition lr_start r := match r with LR a _ => a end.
Definition lr_eqb (r s : lr) : bool :=
  match r, s with
  | LR a None, LR b None => a =? b
  | LR a (Some x), LR b (Some y) => (a =? b) && (x =? y)
  | _, _ => false
  end.
Definition lr_contains (r : lr) (i : N) : bool :=
  match r with LR j (Some k) => (j <=? i) && (i <=? k) | LR j None => j <=? i end.
Definition lr_includes (r o : lr) : bool :=
  match r, o with
  | LR i1 None, LR i2 _ => i1 <=? i2
  | LR i1 (Some j1), LR i2 (Some j2) => (i1 <=? i2) && (j2 <=? j1)
  | _, _ => false
  end.
Definition lr_add (r s : lr) : option lr :=
  do i <- add32 (lr_start r) (lr_start s);
  match r, s with
  | LR _ (Some b), LR _ (Some d) => do j <- add32 b d; Some (LR i (Some j))
  | _, _ => Some (LR i None)
  end.
Definition lr_add_point (r : lr) (x : N) : option lr := lr_add r (lr_point x).
Definition lr_scale (r : lr) (k : N) : option lr :=
  if k =? 0 then Some (lr_point 0)
  else match r with
       | LR a None => do i <- mul32 a k; Some (LR i None)
       | LR a (Some b) => do i <- mul32 a k; do j <- mul32 b k; Some (LR i (Some j))
       end.
Definition lr_mul (r s : lr) : option lr :=
  if lr_is_zero r || lr_is_zero s then Some (lr_point 0)
  else match r, s with
       | LR a (Some b), LR c (Some d) => do i <- mul32 a c; do j <- mul32 b d; Some (LR i (Some j))
       | LR a _, LR c _ => do i <- mul32 a c; Some (LR i None)
       end.
(* right_mul_is_exact; b - a never underflows on a valid range; a - 1 is saturating_sub *)
Definition lr_rmie (r s : lr) : option bool :=
  if lr_is_point s then Some true else
  match r with
  | LR a None => Some ((0 <? lr_start s) || (a <=? 1))
  | LR a (Some b) => do x <- mul32 (lr_start s) (b - a); Some (a - 1 <=? x)
  end.
Definition lr_shift (r : lr) : lr :=
  match r with
  | LR 0 None => LR 0 None
  | LR 0 (Some 0) => LR 0 (Some 0)
  | LR 0 (Some j) => LR 0 (Some (j - 1))
  | LR i None => LR (i - 1) None
  | LR i (Some j) => LR (i - 1) (Some (j - 1))
  end.
