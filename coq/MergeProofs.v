(* MergeProofs.v -- C12: merge_partitions computes the coarsest common refinement (proofs).
   Method.  Besides the covered set, a sorted interval list is described by its *cuts*:
   [cut l x] = "x is the end of an interval or x+1 is the start of an interval" (the positions
   where a class boundary lies between x and x+1).  A sorted list is determined by its covered
   set and its cuts (mg_ivs_ext), and two characters x <= y lie in the same interval iff x is
   covered and there is no cut in [x, y-1] (mg_same_ival_iff).  The sweep of merge_partitions is
   shown to produce a sorted list whose covered set / cut set is the union of those of the two
   inputs (mg_merge_spec); every C12 fact is a consequence.
   All names are prefixed mg_ except the final lemmas quoted by Properties/C12.v. *)
Require Import Base CharSet Partition PartitionSpec.
From Coq Require Import Permutation Setoid Morphisms.
Open Scope N_scope.

(* ------------------------------------------------------------------ covered / cut *)
Definition cutp (s : cs) (x : N) : Prop := x = snd s \/ x + 1 = fst s.
Definition cut (l : list cs) (x : N) : Prop := exists s, In s l /\ cutp s x.
Definition same_ival (l : list cs) (x y : N) : Prop := exists s, In s l /\ mem x s /\ mem y s.

Lemma mg_cov_nil x : covered [] x <-> False.
Proof. unfold covered. split; [intros [s [[] _]] | tauto]. Qed.
Lemma mg_cov_cons s l x : covered (s :: l) x <-> mem x s \/ covered l x.
Proof.
  unfold covered. split.
  - intros [r [[E | I] M]]; [subst; auto | right; eauto].
  - intros [M | [r [I M]]]; [exists s | exists r]; simpl; auto.
Qed.
Lemma mg_cov_app l1 l2 x : covered (l1 ++ l2) x <-> covered l1 x \/ covered l2 x.
Proof.
  induction l1 as [| s t IH]; simpl.
  - rewrite mg_cov_nil. tauto.
  - rewrite !mg_cov_cons, IH. tauto.
Qed.
Lemma mg_cut_nil x : cut [] x <-> False.
Proof. unfold cut. split; [intros [s [[] _]] | tauto]. Qed.
Lemma mg_cut_cons s l x : cut (s :: l) x <-> cutp s x \/ cut l x.
Proof.
  unfold cut. split.
  - intros [r [[E | I] M]]; [subst; auto | right; eauto].
  - intros [M | [r [I M]]]; [exists s | exists r]; simpl; auto.
Qed.

Lemma mg_mem_dec x s : mem x s \/ ~ mem x s.
Proof. unfold mem. lia. Qed.
Lemma mg_cov_dec l x : covered l x \/ ~ covered l x.
Proof.
  induction l as [| s t IH].
  - right. rewrite mg_cov_nil. tauto.
  - rewrite mg_cov_cons. destruct (mg_mem_dec x s); tauto.
Qed.
Lemma mg_same_ival_dec l x y : same_ival l x y \/ ~ same_ival l x y.
Proof.
  induction l as [| s t IH].
  - right. intros [r [[] _]].
  - destruct (mg_mem_dec x s) as [Hx | Hx]; destruct (mg_mem_dec y s) as [Hy | Hy];
      try (left; exists s; simpl; now auto);
      (destruct IH as [[r [I M]] | IH]; [left; exists r; simpl; auto |
       right; intros [r [[E | I] [M1 M2]]]; [subst; tauto | apply IH; exists r; auto]]).
Qed.
Lemma mg_same_class_dec p x y : same_class p x y \/ ~ same_class p x y.
Proof.
  unfold same_class. fold (same_ival (ivs p) x y).
  destruct (mg_same_ival_dec (ivs p) x y); destruct (mg_cov_dec (ivs p) x);
    destruct (mg_cov_dec (ivs p) y); tauto.
Qed.

(* ------------------------------------------------------------------ sorted lists *)
Lemma mg_sorted_tail s t : ivs_sorted (s :: t) -> ivs_sorted t.
Proof. simpl. tauto. Qed.
Lemma mg_sorted_valid l : ivs_sorted l -> forall s, In s l -> cs_valid s.
Proof.
  induction l as [| r t IH]; simpl; [tauto |].
  intros [V [_ S]] s [E | I]; [subst; auto | auto].
Qed.
Lemma mg_sorted_lt s t : ivs_sorted (s :: t) -> forall r, In r t -> snd s < fst r.
Proof.
  revert s. induction t as [| y t IH]; intros s H r I; [destruct I |].
  destruct H as [Vs [G S]]. destruct I as [E | I]; [subst; exact G |].
  specialize (IH y S r I). destruct S as [[Vy _] _]. lia.
Qed.
Lemma mg_sorted_cons s t : cs_valid s -> ivs_sorted t -> (forall r, In r t -> snd s < fst r) ->
  ivs_sorted (s :: t).
Proof.
  intros V S H. simpl. split; [exact V | split; [| exact S]].
  destruct t as [| y t]; [exact I | apply H; simpl; auto].
Qed.
Lemma mg_sorted_tri l : ivs_sorted l -> forall s r, In s l -> In r l ->
  s = r \/ snd s < fst r \/ snd r < fst s.
Proof.
  induction l as [| h t IH]; intros S s r Is Ir; [destruct Is |].
  pose proof (mg_sorted_lt h t S) as L.
  destruct Is as [Es | Is]; destruct Ir as [Er | Ir]; subst; auto.
  apply IH; auto. eapply mg_sorted_tail; eauto.
Qed.
Lemma mg_sorted_app l s : ivs_sorted (l ++ [s]) ->
  ivs_sorted l /\ cs_valid s /\ forall r, In r l -> snd r < fst s.
Proof.
  induction l as [| h t IH]; intros S.
  - simpl in S. simpl. tauto.
  - change ((h :: t) ++ [s]) with (h :: (t ++ [s])) in S.
    pose proof (mg_sorted_lt _ _ S) as L.
    destruct (IH (mg_sorted_tail _ _ S)) as [St [V B]].
    split; [| split; [exact V |]].
    + apply mg_sorted_cons; auto.
      * eapply mg_sorted_valid; [exact S | simpl; auto].
      * intros r I. apply L. apply in_or_app. auto.
    + intros r [E | I]; [subst; apply L; apply in_or_app; simpl; auto | auto].
Qed.
Lemma mg_sorted_snoc l s : ivs_sorted l -> cs_valid s -> (forall r, In r l -> snd r < fst s) ->
  ivs_sorted (l ++ [s]).
Proof.
  induction l as [| h t IH]; intros S V B.
  - simpl. tauto.
  - change ((h :: t) ++ [s]) with (h :: (t ++ [s])).
    apply mg_sorted_cons.
    + eapply mg_sorted_valid; [exact S | simpl; auto].
    + apply IH; [eapply mg_sorted_tail; eauto | auto | intros; apply B; simpl; auto].
    + intros r I. apply in_app_or in I. destruct I as [I | [E | []]].
      * eapply mg_sorted_lt; eauto.
      * subst. apply B. simpl. auto.
Qed.
Lemma mg_cov_good l x : ivs_sorted l -> covered l x -> good x.
Proof.
  intros S [s [I [_ M]]]. destruct (mg_sorted_valid l S s I). unfold good. lia.
Qed.

(* same interval <-> covered and no cut in between *)
Lemma mg_same_ival_iff l x y : ivs_sorted l -> x <= y ->
  (same_ival l x y <-> covered l x /\ forall z, x <= z < y -> ~ cut l z).
Proof.
  intros S L. split.
  - intros [s [I [[X1 X2] [Y1 Y2]]]]. split; [exists s; unfold mem; auto |].
    intros z Hz [r [Ir C]].
    pose proof (mg_sorted_valid l S r Ir) as [Vr _].
    destruct (mg_sorted_tri l S s r I Ir) as [E | [E | E]]; [subst r | |]; unfold cutp in C; lia.
  - intros [[s [I [X1 X2]]] NC]. exists s. split; [exact I |]. unfold mem.
    assert (y <= snd s); [| lia].
    destruct (N.le_gt_cases y (snd s)) as [H | H]; [exact H | exfalso].
    apply (NC (snd s)); [lia |]. exists s. unfold cutp. auto.
Qed.

Lemma mg_same_class_sym p x y : same_class p x y -> same_class p y x.
Proof. unfold same_class. intros [[s [I [A B]]] | [A B]]; [left; exists s; auto | right; auto]. Qed.
Lemma mg_same_class_refl p x : same_class p x x.
Proof.
  unfold same_class. destruct (mg_cov_dec (ivs p) x) as [[s [I M]] | H]; [left; exists s; auto | auto].
Qed.
Lemma mg_same_class_trans p x y z : ivs_sorted (ivs p) ->
  same_class p x y -> same_class p y z -> same_class p x z.
Proof.
  unfold same_class. intros S [[s [Is [A B]]] | [A B]] [[r [Ir [C D]]] | [C D]].
  - left. destruct (mg_sorted_tri _ S s r Is Ir) as [E | E]; [subst r; exists s; auto |].
    unfold mem in *. lia.
  - exfalso. apply C. exists s. auto.
  - exfalso. apply B. exists r. auto.
  - right. auto.
Qed.

(* a class boundary between z and z+1 *)
Lemma mg_cut_not_same p z : ivs_sorted (ivs p) -> cut (ivs p) z -> ~ same_class p z (z + 1).
Proof.
  intros S C [SI | [A B]].
  - apply (mg_same_ival_iff _ z (z + 1) S) in SI; [| lia]. destruct SI as [_ NC].
    apply (NC z); [lia | exact C].
  - destruct C as [s [I C]]. pose proof (mg_sorted_valid _ S s I) as [V _].
    destruct C as [C | C]; [apply A | apply B]; exists s; unfold mem; split; auto; lia.
Qed.

(* same_class in terms of covered / cut *)
Lemma mg_same_class_iff p x y : ivs_sorted (ivs p) -> x <= y ->
  (same_class p x y <->
   (covered (ivs p) x /\ forall z, x <= z < y -> ~ cut (ivs p) z)
   \/ (~ covered (ivs p) x /\ ~ covered (ivs p) y)).
Proof.
  intros S L. unfold same_class. fold (same_ival (ivs p) x y).
  rewrite (mg_same_ival_iff _ x y S L). tauto.
Qed.

(* ------------------------------------------------------------------ extensionality *)
Lemma mg_ivs_ext_lo : forall l l' lo,
  ivs_sorted l -> ivs_sorted l' ->
  (forall s, In s l -> lo <= fst s) -> (forall s, In s l' -> lo <= fst s) ->
  (forall x, lo <= x -> (covered l x <-> covered l' x)) ->
  (forall x, lo <= x -> x < MAXC -> (cut l x <-> cut l' x)) -> l = l'.
Proof.
  induction l as [| s t IH]; intros l' lo S S' B B' HC HK.
  - destruct l' as [| s' t']; [reflexivity | exfalso].
    pose proof (mg_sorted_valid _ S' s' (or_introl eq_refl)) as [V _].
    assert (covered (s' :: t') (fst s')) as C by (exists s'; unfold mem; simpl; split; auto; lia).
    apply HC in C; [| apply B'; simpl; auto]. apply mg_cov_nil in C. exact C.
  - pose proof (mg_sorted_valid _ S s (or_introl eq_refl)) as [V1 V2].
    destruct l' as [| s' t'].
    + exfalso.
      assert (covered (s :: t) (fst s)) as C by (exists s; unfold mem; simpl; split; auto; lia).
      apply HC in C; [| apply B; simpl; auto]. apply mg_cov_nil in C. exact C.
    + pose proof (mg_sorted_valid _ S' s' (or_introl eq_refl)) as [V1' V2'].
      pose proof (mg_sorted_lt _ _ S) as L. pose proof (mg_sorted_lt _ _ S') as L'.
      assert (fst s = fst s') as EF.
      { assert (covered (s :: t) (fst s)) as C by (exists s; unfold mem; simpl; split; auto; lia).
        apply HC in C; [| apply B; simpl; auto].
        assert (covered (s' :: t') (fst s')) as C' by (exists s'; unfold mem; simpl; split; auto; lia).
        apply HC in C'; [| apply B'; simpl; auto].
        apply mg_cov_cons in C. apply mg_cov_cons in C'.
        assert (fst s' <= fst s).
        { destruct C as [[C _] | [r [I [C _]]]]; [exact C | specialize (L' r I); lia]. }
        assert (fst s <= fst s').
        { destruct C' as [[C' _] | [r [I [C' _]]]]; [exact C' | specialize (L r I); lia]. }
        lia. }
      assert (forall (u u' : cs) (w w' : list cs), ivs_sorted (u :: w) -> ivs_sorted (u' :: w') ->
                fst u = fst u' -> lo <= fst u -> fst u <= snd u -> fst u' <= snd u' -> snd u' <= MAXC ->
                (forall x, lo <= x -> x < MAXC -> (cut (u :: w) x <-> cut (u' :: w') x)) ->
                snd u < snd u' -> False) as KEY.
      { intros u u' w w' Su Su' E Lo Vu Vu' Mu' HK' Lt.
        assert (cut (u :: w) (snd u)) as C by (exists u; unfold cutp; simpl; auto).
        apply HK' in C; [| lia | lia].
        assert (same_ival (u' :: w') (fst u') (snd u')) as SI
            by (exists u'; unfold mem; simpl; repeat split; auto; lia).
        apply (mg_same_ival_iff _ _ _ Su' Vu') in SI. destruct SI as [_ NC].
        apply (NC (snd u)); [lia | exact C]. }
      assert (snd s = snd s') as ES.
      { destruct (N.lt_trichotomy (snd s) (snd s')) as [H | [H | H]]; [exfalso | exact H | exfalso].
        - apply (KEY s s' t t'); auto. apply B; simpl; auto.
        - apply (KEY s' s t' t); auto; [apply B'; simpl; auto |].
          intros x X1 X2. symmetry. apply HK; auto. }
      assert (s = s') as E by (destruct s, s'; simpl in *; subst; reflexivity).
      subst s'. f_equal.
      apply (IH t' (snd s + 1)).
      * eapply mg_sorted_tail; eauto.
      * eapply mg_sorted_tail; eauto.
      * intros r I. specialize (L r I). lia.
      * intros r I. specialize (L' r I). lia.
      * intros x X. specialize (HC x). rewrite !mg_cov_cons in HC.
        assert (~ mem x s) by (unfold mem; lia).
        assert (lo <= x) by (specialize (B s (or_introl eq_refl)); lia). tauto.
      * intros x X X'. specialize (HK x). rewrite !mg_cut_cons in HK.
        assert (~ cutp s x) by (unfold cutp; lia).
        assert (lo <= x) by (specialize (B s (or_introl eq_refl)); lia). tauto.
Qed.

Lemma mg_ivs_ext l l' : ivs_sorted l -> ivs_sorted l' ->
  (forall x, covered l x <-> covered l' x) ->
  (forall x, x < MAXC -> (cut l x <-> cut l' x)) -> l = l'.
Proof.
  intros S S' HC HK. apply (mg_ivs_ext_lo l l' 0); auto; intros; lia.
Qed.

Lemma mg_wit_unique l w w' : wit_ok l w -> wit_ok l w' -> w = w'.
Proof.
  intros [A B] [A' B'].
  destruct (N.lt_trichotomy w w') as [H | [H | H]]; [| exact H |].
  - exfalso. apply A. apply B'. exact H.
  - exfalso. apply A'. apply B. exact H.
Qed.

Lemma mg_part_ext_cut p q : pwf p -> pwf q ->
  (forall x, covered (ivs p) x <-> covered (ivs q) x) ->
  (forall x, x < MAXC -> (cut (ivs p) x <-> cut (ivs q) x)) -> p = q.
Proof.
  intros [S W] [S' W'] HC HK.
  pose proof (mg_ivs_ext _ _ S S' HC HK) as E.
  destruct p as [l w], q as [l' w']. simpl in *. subst l'.
  f_equal. eapply mg_wit_unique; eauto.
Qed.

(* cuts are determined by covered + same-interval relation *)
Lemma mg_cut_char l z : ivs_sorted l ->
  (cut l z <-> (covered l z \/ covered l (z + 1)) /\ ~ same_ival l z (z + 1)).
Proof.
  intros S. split.
  - intros C. split.
    + destruct C as [s [I C]]. pose proof (mg_sorted_valid _ S s I) as [V _].
      destruct C as [C | C]; [left | right]; exists s; unfold mem; split; auto; lia.
    + intros SI. apply (mg_same_ival_iff _ z (z + 1) S) in SI; [| lia].
      destruct SI as [_ NC]. apply (NC z); [lia | exact C].
  - intros [[[s [I [M1 M2]]] | [s [I [M1 M2]]]] NS].
    + destruct (N.eq_dec z (snd s)) as [E | E]; [exists s; unfold cutp; auto |].
      exfalso. apply NS. exists s. unfold mem. repeat split; auto; lia.
    + destruct (N.eq_dec (z + 1) (fst s)) as [E | E]; [exists s; unfold cutp; auto |].
      exfalso. apply NS. exists s. unfold mem. repeat split; auto; lia.
Qed.

(* the extensionality principle of DESIGN.md: same covered set and same same-interval relation *)
Lemma mg_part_ext p q : pwf p -> pwf q ->
  (forall x, covered (ivs p) x <-> covered (ivs q) x) ->
  (forall x y, (exists s, In s (ivs p) /\ mem x s /\ mem y s) <->
               (exists s, In s (ivs q) /\ mem x s /\ mem y s)) -> p = q.
Proof.
  intros Wp Wq HC HS. apply mg_part_ext_cut; auto.
  intros x _. destruct Wp as [S _], Wq as [S' _].
  rewrite (mg_cut_char _ x S), (mg_cut_char _ x S'). unfold same_ival.
  rewrite (HC x), (HC (x + 1)), (HS x (x + 1)). tauto.
Qed.

(* ------------------------------------------------------------------ push and the witness *)
Definition mg_push (r : part) (s : cs) : part := ppush r (fst s) (snd s).

Lemma mg_fold_push_ivs T : forall r, ivs (fold_left mg_push T r) = ivs r ++ T.
Proof.
  induction T as [| s T IH]; intros r; simpl.
  - now rewrite app_nil_r.
  - rewrite IH. unfold mg_push, ppush. simpl. destruct s. simpl. now rewrite <- app_assoc.
Qed.

Lemma mg_push_wit r a b : ivs_sorted (ivs r ++ [(a, b)]) -> wit_ok (ivs r) (wit r) ->
  wit_ok (ivs (ppush r a b)) (wit (ppush r a b)).
Proof.
  intros S [NC LC]. apply mg_sorted_app in S. destruct S as [S [[V1 V2] B]]. simpl in *.
  unfold ppush, wit_ok. simpl.
  assert (forall x, x <= a -> covered (ivs r) x -> x < a) as CB.
  { intros x _ [s [I [_ M]]]. specialize (B s I). lia. }
  destruct (N.leb_spec a (wit r)) as [H | H].
  - assert (a = wit r) as E.
    { destruct (N.eq_dec a (wit r)) as [E | E]; [exact E | exfalso].
      assert (covered (ivs r) a) as C by (apply LC; lia).
      destruct C as [s [I [_ M]]]. specialize (B s I). lia. }
    split.
    + rewrite mg_cov_app, mg_cov_cons, mg_cov_nil. unfold mem. simpl.
      intros [[s [I [_ M]]] | [M | []]]; [specialize (B s I) |]; lia.
    + intros x X. rewrite mg_cov_app, mg_cov_cons. unfold mem. simpl.
      destruct (N.lt_ge_cases x (wit r)) as [Lt | Ge]; [left; auto | right; left; lia].
  - split.
    + rewrite mg_cov_app, mg_cov_cons, mg_cov_nil. unfold mem. simpl. intros [C | [M | []]]; [auto | lia].
    + intros x X. rewrite mg_cov_app. left. auto.
Qed.

Lemma mg_fold_push_wit T : forall r, ivs_sorted (ivs r ++ T) -> wit_ok (ivs r) (wit r) ->
  wit_ok (ivs (fold_left mg_push T r)) (wit (fold_left mg_push T r)).
Proof.
  induction T as [| s T IH]; intros r S W; simpl; [exact W |].
  destruct s as [a b]. unfold mg_push at 2. simpl.
  assert (ivs_sorted (ivs r ++ [(a, b)])) as S1.
  { clear - S. revert S. generalize (ivs r). induction l as [| h t IH]; intros S.
    - simpl in *. tauto.
    - change (ivs_sorted (h :: (t ++ [(a, b)]))). change (ivs_sorted (h :: (t ++ (a, b) :: T))) in S.
      apply mg_sorted_cons.
      + eapply mg_sorted_valid; [exact S | simpl; auto].
      + apply IH. eapply mg_sorted_tail; eauto.
      + intros q I. apply (mg_sorted_lt _ _ S). apply in_app_or in I. apply in_or_app.
        destruct I as [I | [E | []]]; [auto | right; simpl; auto]. }
  apply IH.
  - unfold ppush. simpl. rewrite <- app_assoc. exact S.
  - apply mg_push_wit; auto.
Qed.

Lemma mg_wit_nil : wit_ok [] 0.
Proof. split; [rewrite mg_cov_nil; tauto | intros; lia]. Qed.

Lemma mg_pwf_new : pwf pnew.
Proof. split; simpl; [exact I | exact mg_wit_nil]. Qed.

(* a partition built by new + push of a sorted list of intervals (what the harness and
   try_from_iter do) is well formed *)
Lemma mg_build_wf T : ivs_sorted T -> pwf (fold_left mg_push T pnew).
Proof.
  intros S. split.
  - rewrite mg_fold_push_ivs. exact S.
  - apply mg_fold_push_wit; [exact S | exact mg_wit_nil].
Qed.

(* ------------------------------------------------------------------ the sweep as a step function *)
Definition mg_nxt (l : list cs) : N * N * list cs :=
  match l with [] => (SENT, SENT, []) | (x, y) :: t => (x, y, t) end.

Definition mg_step (a b : N) (l1 : list cs) (c d : N) (l2 : list cs)
  : option (cs * (N * N * list cs) * (N * N * list cs)) :=
  if negb ((b <=? MAXC) || (d <=? MAXC)) then None else
  if b <? c then Some ((a, b), mg_nxt l1, (c, d, l2))
  else if d <? a then Some ((c, d), (a, b, l1), mg_nxt l2)
  else if c <? a then Some ((c, a - 1), (a, b, l1), (a, d, l2))
  else if a <? c then Some ((a, c - 1), (c, b, l1), (c, d, l2))
  else if b <? d then Some ((a, b), mg_nxt l1, (b + 1, d, l2))
  else if d <? b then Some ((c, d), (d + 1, b, l1), mg_nxt l2)
  else Some ((a, b), mg_nxt l1, mg_nxt l2).

Fixpoint mg_list (fuel : nat) (a b : N) (l1 : list cs) (c d : N) (l2 : list cs) : option (list cs) :=
  match fuel with
  | O => None
  | S f =>
    match mg_step a b l1 c d l2 with
    | None => Some []
    | Some (iv, (a', b', l1'), (c', d', l2')) => option_map (cons iv) (mg_list f a' b' l1' c' d' l2')
    end
  end.

Lemma mg_nxt_skipn : forall i l,
  mg_nxt (skipn i l) = (fst (nth i l (SENT, SENT)), snd (nth i l (SENT, SENT)), skipn (S i) l).
Proof.
  induction i as [| i IH]; intros [| [x y] t]; simpl; auto.
  - rewrite IH. destruct t; reflexivity.
Qed.

Lemma mg_loop_list : forall f p1 p2 i a b j c d res,
  merge_loop f p1 p2 i a b j c d res =
  option_map (fun T => fold_left mg_push T res)
             (mg_list f a b (skipn i (ivs p1)) c d (skipn j (ivs p2))).
Proof.
  induction f as [| f IH]; intros p1 p2 i a b j c d res; [reflexivity |].
  cbn [merge_loop mg_list]. unfold mg_step.
  destruct (negb ((b <=? MAXC) || (d <=? MAXC))); [reflexivity |].
  rewrite !mg_nxt_skipn. unfold pget.
  destruct (nth i (ivs p1) (SENT, SENT)) as [x y].
  destruct (nth j (ivs p2) (SENT, SENT)) as [x' y']. simpl fst. simpl snd.
  destruct (b <? c); [| destruct (d <? a); [| destruct (c <? a); [| destruct (a <? c);
    [| destruct (b <? d); [| destruct (d <? b)]]]]];
    rewrite IH;
    match goal with |- context [mg_list ?f ?a ?b ?l1 ?c ?d ?l2] =>
      destruct (mg_list f a b l1 c d l2); reflexivity end.
Qed.

(* state invariant: [a,b] followed by l is sorted, or [a,b] is the sentinel and l is empty *)
Definition mg_ok (a b : N) (l : list cs) : Prop :=
  a <= b /\ (b <= MAXC \/ (a = SENT /\ b = SENT /\ l = [])) /\
  match l with [] => True | y :: _ => b < fst y end /\ ivs_sorted l.
Definition mg_live (b : N) : nat := if b <=? MAXC then 1%nat else 0%nat.
Definition mg_mu (a b : N) (l1 : list cs) (c d : N) (l2 : list cs) : nat :=
  (2 * (length l1 + mg_live b + length l2 + mg_live d) + (if (a =? c)%N then 0 else 1))%nat.

Lemma mg_sent : SENT = 196608.
Proof. reflexivity. Qed.
Lemma mg_maxc : MAXC = 196607.
Proof. reflexivity. Qed.

Lemma mg_sent_cov x : good x -> ~ mem x (SENT, SENT).
Proof. unfold good, mem. rewrite mg_sent, mg_maxc. simpl. lia. Qed.
Lemma mg_sent_cut x : x < MAXC -> ~ cutp (SENT, SENT) x.
Proof. unfold cutp. rewrite mg_sent, mg_maxc. simpl. lia. Qed.

Lemma mg_nxt_ok l a b l' : ivs_sorted l -> mg_nxt l = (a, b, l') ->
  mg_ok a b l' /\ (length l' + mg_live b = length l)%nat /\
  (forall s, In s l -> a <= fst s) /\
  (forall x, good x -> (covered ((a, b) :: l') x <-> covered l x)) /\
  (forall x, x < MAXC -> (cut ((a, b) :: l') x <-> cut l x)).
Proof.
  intros S E. destruct l as [| [x y] t]; simpl in E; inversion E; subst; clear E.
  - split; [| split; [| split; [| split]]].
    + unfold mg_ok. rewrite mg_sent, mg_maxc. simpl. repeat split; auto; lia.
    + reflexivity.
    + intros s [].
    + intros x G. rewrite mg_cov_cons, mg_cov_nil. pose proof (mg_sent_cov x G). tauto.
    + intros x G. rewrite mg_cut_cons, mg_cut_nil. pose proof (mg_sent_cut x G). tauto.
  - pose proof S as S0. destruct S as [[V1 V2] [G S]]. simpl in V1, V2.
    pose proof (mg_sorted_lt _ _ S0) as L. simpl in L.
    split; [| split; [| split; [| split]]].
    + unfold mg_ok. repeat split; auto.
    + unfold mg_live. destruct (N.leb_spec b MAXC); simpl; lia.
    + intros s [Es | I]; [subst; simpl; lia | specialize (L s I); lia].
    + tauto.
    + tauto.
Qed.

Ltac mg_mu_tac :=
  unfold mg_mu, mg_live in *;
  repeat match goal with
  | |- context [?x <=? ?y] => destruct (N.leb_spec x y)
  | H : context [?x <=? ?y] |- _ => destruct (N.leb_spec x y)
  | |- context [?x =? ?y] => destruct (N.eqb_spec x y)
  end; simpl length in *; try lia.

Ltac mg_unf := unfold good, mem, cutp, cs_valid, SENT, MAXC in *; simpl fst in *; simpl snd in *.
Ltac mg_lia := mg_unf; lia.
Ltac mg_okt := unfold mg_ok; (split; [mg_lia | split; [left; mg_lia | split; [first [assumption | exact I | mg_lia] | assumption]]]).

Lemma mg_step_some a b l1 c d l2 iv a' b' l1' c' d' l2' :
  mg_ok a b l1 -> mg_ok c d l2 ->
  mg_step a b l1 c d l2 = Some (iv, (a', b', l1'), (c', d', l2')) ->
  mg_ok a' b' l1' /\ mg_ok c' d' l2' /\
  (mg_mu a' b' l1' c' d' l2' < mg_mu a b l1 c d l2)%nat /\
  cs_valid iv /\ N.min a c <= fst iv /\ snd iv < N.min a' c' /\
  (forall x, good x ->
     ((mem x (a, b) \/ covered l1 x) \/ (mem x (c, d) \/ covered l2 x) <->
      mem x iv \/ covered ((a', b') :: l1') x \/ covered ((c', d') :: l2') x)) /\
  (forall x, x < MAXC ->
     ((cutp (a, b) x \/ cut l1 x) \/ (cutp (c, d) x \/ cut l2 x) <->
      cutp iv x \/ cut ((a', b') :: l1') x \/ cut ((c', d') :: l2') x)).
Proof.
  intros O1 O2 E. unfold mg_step in E.
  pose proof O1 as O1'. pose proof O2 as O2'.
  destruct O1' as [Hle [Hb [Hg Hs]]]. destruct O2' as [Hle0 [Hb0 [Hg0 Hs0]]].
  destruct (mg_nxt l1) as [[x1 y1] t1] eqn:E1.
  destruct (mg_nxt l2) as [[x2 y2] t2] eqn:E2.
  destruct (mg_nxt_ok l1 x1 y1 t1 Hs E1) as [N1 [Len1 [Lo1 [Cv1 Ct1]]]].
  destruct (mg_nxt_ok l2 x2 y2 t2 Hs0 E2) as [N2 [Len2 [Lo2 [Cv2 Ct2]]]].
  assert (b < x1 \/ (b = SENT /\ x1 = SENT)) as G1.
  { destruct l1 as [| [u v] t]; simpl in E1; inversion E1; subst; [rewrite mg_sent in *; rewrite mg_maxc in *; lia | left; exact Hg]. }
  assert (d < x2 \/ (d = SENT /\ x2 = SENT)) as G2.
  { destruct l2 as [| [u v] t]; simpl in E2; inversion E2; subst; [rewrite mg_sent in *; rewrite mg_maxc in *; lia | left; exact Hg0]. }
  destruct (negb ((b <=? MAXC) || (d <=? MAXC))) eqn:EX; [discriminate E |].
  assert (b <= MAXC \/ d <= MAXC) as LV.
  { apply negb_false_iff, orb_true_iff in EX. rewrite !N.leb_le in EX. exact EX. }
  clear EX.
  (destruct (N.ltb_spec b c) as [K1 | K1]; [| destruct (N.ltb_spec d a) as [K2 | K2];
     [| destruct (N.ltb_spec c a) as [K3 | K3]; [| destruct (N.ltb_spec a c) as [K4 | K4];
     [| destruct (N.ltb_spec b d) as [K5 | K5]; [| destruct (N.ltb_spec d b) as [K6 | K6]]]]]]);
  inversion E; subst; clear E;
  (split; [first [assumption | mg_okt] |
   split; [first [assumption | mg_okt] |
   split; [mg_mu_tac |
   split; [mg_lia |
   split; [mg_lia |
   split; [mg_lia |
   split; [intros z G; specialize (Cv1 z G); specialize (Cv2 z G);
           rewrite ?Cv1, ?Cv2, ?mg_cov_cons;
           (clear - K1 K2 K3 K4 K5 K6 Hle Hle0 G || clear - K1 K2 K3 K4 K5 Hle Hle0 G || clear - K1 K2 K3 K4 Hle Hle0 G
             || clear - K1 K2 K3 Hle Hle0 G || clear - K1 K2 Hle Hle0 G || clear - K1 Hle Hle0 G);
           mg_unf; intuition lia
          |intros z G; specialize (Ct1 z G); specialize (Ct2 z G);
           rewrite ?Ct1, ?Ct2, ?mg_cut_cons;
           (clear - K1 K2 K3 K4 K5 K6 Hle Hle0 G || clear - K1 K2 K3 K4 K5 Hle Hle0 G || clear - K1 K2 K3 K4 Hle Hle0 G
             || clear - K1 K2 K3 Hle Hle0 G || clear - K1 K2 Hle Hle0 G || clear - K1 Hle Hle0 G);
           mg_unf; intuition lia]]]]]]]).
Qed.

Lemma mg_step_none a b l1 c d l2 :
  mg_ok a b l1 -> mg_ok c d l2 -> mg_step a b l1 c d l2 = None ->
  (forall x, good x -> ~ ((mem x (a, b) \/ covered l1 x) \/ (mem x (c, d) \/ covered l2 x))) /\
  (forall x, x < MAXC -> ~ ((cutp (a, b) x \/ cut l1 x) \/ (cutp (c, d) x \/ cut l2 x))).
Proof.
  intros O1 O2 E. unfold mg_step in E.
  destruct (negb ((b <=? MAXC) || (d <=? MAXC))) eqn:EX.
  - apply negb_true_iff, orb_false_iff in EX. rewrite !N.leb_gt in EX. destruct EX as [X1 X2].
    destruct O1 as [Hle [Hb [Hg Hs]]]. destruct O2 as [Hle0 [Hb0 [Hg0 Hs0]]].
    destruct Hb as [Hb | [Ea [Eb El]]]; [lia |].
    destruct Hb0 as [Hb0 | [Ec [Ed El2]]]; [lia |]. subst.
    split; intros x G; rewrite !mg_cov_nil || rewrite !mg_cut_nil.
    + pose proof (mg_sent_cov x G). tauto.
    + pose proof (mg_sent_cut x G). tauto.
  - exfalso.
    destruct (b <? c); [discriminate E |]. destruct (d <? a); [discriminate E |].
    destruct (c <? a); [discriminate E |]. destruct (a <? c); [discriminate E |].
    destruct (b <? d); [discriminate E |]. destruct (d <? b); discriminate E.
Qed.

Lemma mg_list_spec : forall fuel a b l1 c d l2,
  mg_ok a b l1 -> mg_ok c d l2 -> (mg_mu a b l1 c d l2 < fuel)%nat ->
  exists T, mg_list fuel a b l1 c d l2 = Some T /\ ivs_sorted T /\
    (forall s, In s T -> N.min a c <= fst s) /\
    (forall x, good x ->
       (covered T x <-> (mem x (a, b) \/ covered l1 x) \/ (mem x (c, d) \/ covered l2 x))) /\
    (forall x, x < MAXC ->
       (cut T x <-> (cutp (a, b) x \/ cut l1 x) \/ (cutp (c, d) x \/ cut l2 x))).
Proof.
  induction fuel as [| f IH]; intros a b l1 c d l2 O1 O2 M; [lia |].
  cbn [mg_list].
  destruct (mg_step a b l1 c d l2) as [[[iv [[a' b'] l1']] [[c' d'] l2']] |] eqn:E.
  - destruct (mg_step_some _ _ _ _ _ _ _ _ _ _ _ _ _ O1 O2 E)
      as [O1' [O2' [M' [V [Lo [Hi [Cv Ct]]]]]]].
    destruct (IH a' b' l1' c' d' l2' O1' O2') as [T [ET [ST [BT [CvT CtT]]]]]; [lia |].
    exists (iv :: T). rewrite ET. split; [reflexivity |].
    split; [| split; [| split]].
    + apply mg_sorted_cons; auto. intros r Ir. specialize (BT r Ir). lia.
    + intros s [Es | Is]; [subst; exact Lo |]. specialize (BT s Is). destruct V as [V _]. lia.
    + intros x G. specialize (Cv x G). specialize (CvT x G).
      rewrite !mg_cov_cons in Cv. rewrite mg_cov_cons, CvT, Cv. clear. tauto.
    + intros x G. specialize (Ct x G). specialize (CtT x G).
      rewrite !mg_cut_cons in Ct. rewrite mg_cut_cons, CtT, Ct. clear. tauto.
  - destruct (mg_step_none _ _ _ _ _ _ O1 O2 E) as [Cv Ct].
    exists []. split; [reflexivity |]. split; [exact I |].
    split; [intros s [] |].
    split; intros x G; [specialize (Cv x G); rewrite mg_cov_nil | specialize (Ct x G); rewrite mg_cut_nil]; tauto.
Qed.

(* ------------------------------------------------------------------ merge_partitions: the core fact *)
Lemma mg_merge_spec p1 p2 : pwf p1 -> pwf p2 ->
  exists m, pmerge_opt p1 p2 = Some m /\ pwf m /\
    (forall x, covered (ivs m) x <-> covered (ivs p1) x \/ covered (ivs p2) x) /\
    (forall x, x < MAXC -> (cut (ivs m) x <-> cut (ivs p1) x \/ cut (ivs p2) x)).
Proof.
  intros [S1 W1] [S2 W2]. unfold pmerge_opt, pget.
  pose proof (mg_nxt_skipn 0 (ivs p1)) as E1. pose proof (mg_nxt_skipn 0 (ivs p2)) as E2.
  destruct (nth 0 (ivs p1) (SENT, SENT)) as [a b]. destruct (nth 0 (ivs p2) (SENT, SENT)) as [c d].
  simpl fst in *. simpl snd in *. change (skipn 0 (ivs p1)) with (ivs p1) in E1.
  change (skipn 0 (ivs p2)) with (ivs p2) in E2.
  destruct (mg_nxt_ok _ _ _ _ S1 E1) as [O1 [Len1 [_ [Cv1 Ct1]]]].
  destruct (mg_nxt_ok _ _ _ _ S2 E2) as [O2 [Len2 [_ [Cv2 Ct2]]]].
  rewrite mg_loop_list.
  destruct (mg_list_spec (merge_fuel p1 p2) a b (skipn 1 (ivs p1)) c d (skipn 1 (ivs p2)) O1 O2)
    as [T [ET [ST [_ [CvT CtT]]]]].
  { unfold merge_fuel, plen, mg_mu. destruct (a =? c); lia. }
  rewrite ET. simpl option_map. exists (fold_left mg_push T pnew).
  split; [reflexivity |].
  assert (ivs (fold_left mg_push T pnew) = T) as EI by (rewrite mg_fold_push_ivs; reflexivity).
  split; [| split].
  - split; [rewrite EI; exact ST |].
    apply mg_fold_push_wit; [exact ST | exact mg_wit_nil].
  - rewrite EI. intros x.
    destruct (N.le_gt_cases x MAXC) as [G | G].
    + specialize (CvT x G). specialize (Cv1 x G). specialize (Cv2 x G).
      rewrite mg_cov_cons in Cv1, Cv2. rewrite CvT, Cv1, Cv2. clear. tauto.
    + split; [intros C; apply (mg_cov_good _ _ ST) in C; unfold good in C; lia |].
      intros [C | C]; [apply (mg_cov_good _ _ S1) in C | apply (mg_cov_good _ _ S2) in C];
        unfold good in C; lia.
  - rewrite EI. intros x G. specialize (CtT x G). specialize (Ct1 x G). specialize (Ct2 x G).
    rewrite mg_cut_cons in Ct1, Ct2. rewrite CtT, Ct1, Ct2. clear. tauto.
Qed.

(* fuel sufficiency: the default of pmerge is never used *)
Lemma merge_fuel_sufficient p1 p2 : pwf p1 -> pwf p2 -> pmerge_opt p1 p2 = Some (pmerge p1 p2).
Proof.
  intros W1 W2. destruct (mg_merge_spec p1 p2 W1 W2) as [m [E _]].
  unfold pmerge. rewrite E. reflexivity.
Qed.
Lemma merge_never_panics p1 p2 : pwf p1 -> pwf p2 -> pmerge_opt p1 p2 <> None.
Proof. intros W1 W2. rewrite (merge_fuel_sufficient p1 p2 W1 W2). discriminate. Qed.

Lemma mg_pmerge_spec p1 p2 : pwf p1 -> pwf p2 ->
  pwf (pmerge p1 p2) /\
  (forall x, covered (ivs (pmerge p1 p2)) x <-> covered (ivs p1) x \/ covered (ivs p2) x) /\
  (forall x, x < MAXC -> (cut (ivs (pmerge p1 p2)) x <-> cut (ivs p1) x \/ cut (ivs p2) x)).
Proof.
  intros W1 W2. destruct (mg_merge_spec p1 p2 W1 W2) as [m [E H]].
  unfold pmerge. rewrite E. exact H.
Qed.

Lemma merge_wf p1 p2 : pwf p1 -> pwf p2 -> pwf (pmerge p1 p2).
Proof. intros W1 W2. apply (mg_pmerge_spec p1 p2 W1 W2). Qed.
Lemma merge_covered p1 p2 : pwf p1 -> pwf p2 ->
  forall x, covered (ivs (pmerge p1 p2)) x <-> covered (ivs p1) x \/ covered (ivs p2) x.
Proof. intros W1 W2. apply (mg_pmerge_spec p1 p2 W1 W2). Qed.
Lemma mg_merge_cut p1 p2 : pwf p1 -> pwf p2 ->
  forall x, x < MAXC -> (cut (ivs (pmerge p1 p2)) x <-> cut (ivs p1) x \/ cut (ivs p2) x).
Proof. intros W1 W2. apply (mg_pmerge_spec p1 p2 W1 W2). Qed.

(* ------------------------------------------------------------------ class characterisation,
   generic in the family of partitions whose covered sets / cuts are united *)
Lemma mg_exact_gen m ps x y : pwf m -> Forall pwf ps ->
  (forall u, covered (ivs m) u <-> exists p, In p ps /\ covered (ivs p) u) ->
  (forall u, u < MAXC -> (cut (ivs m) u <-> exists p, In p ps /\ cut (ivs p) u)) ->
  x <= y -> good y ->
  (same_class m x y <->
   (forall p, In p ps -> ~ covered (ivs p) x /\ ~ covered (ivs p) y)
   \/ (forall z, x <= z <= y -> forall p, In p ps -> same_class p x z)).
Proof.
  intros [Sm _] Wps HC HK L G. unfold good in G.
  assert (forall p, In p ps -> ivs_sorted (ivs p)) as Sp.
  { intros p I. rewrite Forall_forall in Wps. destruct (Wps p I) as [S _]. exact S. }
  rewrite (mg_same_class_iff m x y Sm L). split.
  - intros [[Cx NC] | [NCx NCy]].
    + right. intros z Z p I. apply (mg_same_class_iff p x z (Sp p I)); [lia |].
      destruct (mg_cov_dec (ivs p) x) as [Cp | Cp].
      * left. split; [exact Cp |]. intros w Hw Kw. apply (NC w); [lia |].
        apply HK; [lia |]. exists p. auto.
      * right. split; [exact Cp |]. intros [s [Is [M1 M2]]].
        assert (x < fst s) as Lt.
        { destruct (N.lt_ge_cases x (fst s)) as [H | H]; [exact H | exfalso].
          apply Cp. exists s. unfold mem. split; [exact Is | lia]. }
        apply (NC (fst s - 1)); [lia |]. apply HK; [lia |]. exists p. split; [exact I |].
        exists s. split; [exact Is |]. unfold cutp. right. lia.
    + left. intros p I. split; intros C; [apply NCx | apply NCy]; apply HC; exists p; auto.
  - intros [U | A].
    + right. split; intros C; apply HC in C; destruct C as [p [I C]]; destruct (U p I); tauto.
    + destruct (mg_cov_dec (ivs m) x) as [Cx | Cx].
      * left. split; [exact Cx |]. intros w Hw Kw. apply HK in Kw; [| lia].
        destruct Kw as [p [I Kw]].
        apply (mg_cut_not_same p w (Sp p I) Kw).
        apply (mg_same_class_trans p w x (w + 1) (Sp p I)).
        -- apply mg_same_class_sym. apply A; [lia | exact I].
        -- apply A; [lia | exact I].
      * right. split; [exact Cx |]. intros Cy. apply HC in Cy. destruct Cy as [p [I Cy]].
        assert (same_class p x y) as SC by (apply A; [lia | exact I]).
        destruct SC as [[s [Is [M1 M2]]] | [_ N2]]; [| tauto].
        apply Cx. apply HC. exists p. split; [exact I |]. exists s. auto.
Qed.

Lemma mg_in2 (p1 p2 : part) (P : part -> Prop) :
  (exists p, In p [p1; p2] /\ P p) <-> P p1 \/ P p2.
Proof.
  split.
  - intros [p [[E | [E | []]] H]]; subst; auto.
  - intros [H | H]; [exists p1 | exists p2]; simpl; auto.
Qed.

Lemma merge_class_exact p1 p2 x y : pwf p1 -> pwf p2 -> x <= y -> good y ->
  (same_class (pmerge p1 p2) x y <->
   (~ covered (ivs p1) x /\ ~ covered (ivs p2) x /\ ~ covered (ivs p1) y /\ ~ covered (ivs p2) y)
   \/ (forall z, x <= z <= y -> same_class p1 x z /\ same_class p2 x z)).
Proof.
  intros W1 W2 L G.
  destruct (mg_pmerge_spec p1 p2 W1 W2) as [Wm [HC HK]].
  rewrite (mg_exact_gen (pmerge p1 p2) [p1; p2] x y Wm); auto.
  - split.
    + intros [U | A]; [left | right].
      * destruct (U p1 (or_introl eq_refl)). destruct (U p2 (or_intror (or_introl eq_refl))). tauto.
      * intros z Z. split; apply A; simpl; auto.
    + intros [U | A]; [left | right].
      * intros p [E | [E | []]]; subst; tauto.
      * intros z Z p [E | [E | []]]; subst; apply A; exact Z.
  - intros u. rewrite (HC u). symmetry. apply (mg_in2 p1 p2 (fun p => covered (ivs p) u)).
  - intros u Hu. rewrite (HK u Hu). symmetry. apply (mg_in2 p1 p2 (fun p => cut (ivs p) u)).
Qed.

Lemma mg_not_good_same p x y : pwf p -> ~ good x \/ ~ good y -> same_class p x y ->
  ~ covered (ivs p) x /\ ~ covered (ivs p) y.
Proof.
  intros [S _] NG [[s [I [M1 M2]]] | H]; [| exact H]. exfalso.
  destruct (mg_sorted_valid _ S s I) as [_ V]. unfold good, mem in *. lia.
Qed.

(* same class in the merge => same class in both (what derivative classes rely on) *)
Lemma merge_refines p1 p2 x y : pwf p1 -> pwf p2 ->
  same_class (pmerge p1 p2) x y -> same_class p1 x y /\ same_class p2 x y.
Proof.
  intros W1 W2 SC.
  assert (forall u v, u <= v -> same_class (pmerge p1 p2) u v ->
                      same_class p1 u v /\ same_class p2 u v) as KEY.
  { intros u v L H. destruct (N.le_gt_cases v MAXC) as [G | G].
    - apply (merge_class_exact p1 p2 u v W1 W2 L G) in H.
      destruct H as [U | A]; [unfold same_class; tauto | apply A; lia].
    - apply (mg_not_good_same _ u v (merge_wf p1 p2 W1 W2)) in H; [| right; unfold good; lia].
      rewrite !(merge_covered p1 p2 W1 W2) in H. unfold same_class. tauto. }
  destruct (N.le_ge_cases x y) as [L | L]; [apply KEY; auto |].
  apply mg_same_class_sym in SC. destruct (KEY y x L SC).
  split; apply mg_same_class_sym; auto.
Qed.

Lemma merge_complement p1 p2 x : pwf p1 -> pwf p2 ->
  (in_class (pmerge p1 p2) x CComp <-> in_class p1 x CComp /\ in_class p2 x CComp).
Proof.
  intros W1 W2. unfold in_class. rewrite (merge_covered p1 p2 W1 W2). tauto.
Qed.

(* the witness of a well-formed partition is an element of the complementary class when the
   class is not empty *)
Lemma mg_wit_class p : pwf p ->
  (pempty_complement p = false -> in_class p (ppick_complement p) CComp) /\
  (pempty_complement p = true -> forall x, good x -> covered (ivs p) x).
Proof.
  intros [_ [NC LC]]. unfold pempty_complement, ppick_complement, in_class, good. split.
  - intros E. apply N.ltb_ge in E. auto.
  - intros E x G. apply N.ltb_lt in E. apply LC. lia.
Qed.
Lemma merge_witness p1 p2 : pwf p1 -> pwf p2 ->
  (pempty_complement (pmerge p1 p2) = false ->
     in_class p1 (ppick_complement (pmerge p1 p2)) CComp /\
     in_class p2 (ppick_complement (pmerge p1 p2)) CComp /\
     forall x, x < ppick_complement (pmerge p1 p2) -> covered (ivs p1) x \/ covered (ivs p2) x) /\
  (pempty_complement (pmerge p1 p2) = true ->
     forall x, good x -> covered (ivs p1) x \/ covered (ivs p2) x).
Proof.
  intros W1 W2. pose proof (merge_wf p1 p2 W1 W2) as Wm.
  destruct (mg_wit_class _ Wm) as [A B]. split.
  - intros E. apply A in E. apply (merge_complement p1 p2 _ W1 W2) in E.
    destruct E as [E1 E2]. split; [exact E1 | split; [exact E2 |]].
    intros x X. apply (merge_covered p1 p2 W1 W2). destruct Wm as [_ [_ LC]]. apply LC. exact X.
  - intros E x G. apply (merge_covered p1 p2 W1 W2). auto.
Qed.

(* coarsest: every common refinement with the same complementary class D1 /\ D2 refines the merge.
   (Without the condition on the complementary class this is false -- that is finding D9:
   q = {[4,5],[11,MAX]} is a common refinement of {[0,10]} and {[4,5]} with three classes.) *)
Lemma merge_coarsest p1 p2 q : pwf p1 -> pwf p2 -> pwf q ->
  (forall x, covered (ivs q) x <-> covered (ivs p1) x \/ covered (ivs p2) x) ->
  (forall x y, same_class q x y -> same_class p1 x y /\ same_class p2 x y) ->
  forall x y, same_class q x y -> same_class (pmerge p1 p2) x y.
Proof.
  intros W1 W2 [Sq _] HC R.
  assert (forall x y, x <= y -> same_class q x y -> same_class (pmerge p1 p2) x y) as KEY.
  { intros x y L SC. destruct SC as [[s [I [M1 M2]]] | [N1 N2]].
    - destruct (mg_sorted_valid _ Sq s I) as [_ V].
      apply (merge_class_exact p1 p2 x y W1 W2 L); [unfold good, mem in *; lia |].
      right. intros z Z. apply R. left. exists s. unfold mem in *. repeat split; auto; lia.
    - right. rewrite !(merge_covered p1 p2 W1 W2), <- !HC. auto. }
  intros x y SC. destruct (N.le_ge_cases x y) as [L | L]; [apply KEY; auto |].
  apply mg_same_class_sym. apply KEY; auto. apply mg_same_class_sym. exact SC.
Qed.

(* maximality: two neighbouring intervals of the result cannot be joined *)
Lemma merge_maximal p1 p2 i s s' : pwf p1 -> pwf p2 ->
  nth_error (ivs (pmerge p1 p2)) i = Some s -> nth_error (ivs (pmerge p1 p2)) (S i) = Some s' ->
  snd s + 1 = fst s' ->
  ~ (same_class p1 (snd s) (fst s') /\ same_class p2 (snd s) (fst s')).
Proof.
  intros W1 W2 E E' A [SC1 SC2].
  destruct (mg_pmerge_spec p1 p2 W1 W2) as [[Sm _] [_ HK]].
  apply nth_error_In in E. apply nth_error_In in E'.
  destruct (mg_sorted_valid _ Sm s' E') as [V1 V2].
  assert (cut (ivs (pmerge p1 p2)) (snd s)) as K by (exists s; unfold cutp; auto).
  apply HK in K; [| lia]. rewrite <- A in SC1, SC2.
  destruct W1 as [S1 _], W2 as [S2 _].
  destruct K as [K | K]; [apply (mg_cut_not_same p1 _ S1 K) | apply (mg_cut_not_same p2 _ S2 K)]; auto.
Qed.

(* ------------------------------------------------------------------ the literal statement *)
Definition KnownClass_C12 (p1 p2 : part) (x y : N) : Prop :=
  same_class p1 x y /\ same_class p2 x y /\
  ~ (~ covered (ivs p1) x /\ ~ covered (ivs p2) x /\ ~ covered (ivs p1) y /\ ~ covered (ivs p2) y) /\
  exists z, (x < z < y \/ y < z < x) /\ ~ (same_class p1 x z /\ same_class p2 x z).

Lemma literal_iff_outside_known p1 p2 x y : pwf p1 -> pwf p2 -> good x -> good y ->
  ~ KnownClass_C12 p1 p2 x y ->
  (same_class (pmerge p1 p2) x y <-> same_class p1 x y /\ same_class p2 x y).
Proof.
  intros W1 W2 Gx Gy NK. split; [apply merge_refines; auto |]. intros [SC1 SC2].
  pose proof W1 as [S1 _]. pose proof W2 as [S2 _].
  assert (forall z, (same_class p1 x z /\ same_class p2 x z) \/ ~ (same_class p1 x z /\ same_class p2 x z)) as D.
  { intros z. destruct (mg_same_class_dec p1 x z); destruct (mg_same_class_dec p2 x z); tauto. }
  destruct (mg_cov_dec (ivs p1) x) as [C1x | C1x]; destruct (mg_cov_dec (ivs p2) x) as [C2x | C2x];
  destruct (mg_cov_dec (ivs p1) y) as [C1y | C1y]; destruct (mg_cov_dec (ivs p2) y) as [C2y | C2y];
  try (destruct (N.le_ge_cases x y) as [L | L];
       [apply (merge_class_exact p1 p2 x y W1 W2 L Gy); left; tauto
       |apply mg_same_class_sym; apply (merge_class_exact p1 p2 y x W1 W2 L Gx); left; tauto]);
  (assert (forall z, (x < z < y \/ y < z < x) -> same_class p1 x z /\ same_class p2 x z) as A;
   [intros z Z; destruct (D z) as [H | H]; [exact H | exfalso; apply NK; unfold KnownClass_C12;
      split; [exact SC1 | split; [exact SC2 | split; [tauto | exists z; auto]]]] |]);
  (destruct (N.le_ge_cases x y) as [L | L];
   [apply (merge_class_exact p1 p2 x y W1 W2 L Gy); right; intros z Z;
    destruct (N.eq_dec z x) as [Ex | Ex]; [subst z; split; apply mg_same_class_refl |];
    destruct (N.eq_dec z y) as [Ey | Ey]; [subst z; auto |]; apply A; lia
   |apply mg_same_class_sym; apply (merge_class_exact p1 p2 y x W1 W2 L Gx); right; intros z Z;
    assert (same_class p1 x z /\ same_class p2 x z) as [B1 B2];
    [destruct (N.eq_dec z x) as [Ex | Ex]; [subst z; split; apply mg_same_class_refl |];
     destruct (N.eq_dec z y) as [Ey | Ey]; [subst z; auto |]; apply A; lia |];
    split; [apply (mg_same_class_trans p1 y x z S1); [apply mg_same_class_sym |]; auto
           |apply (mg_same_class_trans p2 y x z S2); [apply mg_same_class_sym |]; auto]]).
Qed.

(* ------------------------------------------------------------------ algebra *)
Lemma merge_new_l p : pwf p -> pmerge pnew p = p.
Proof.
  intros W. destruct (mg_pmerge_spec pnew p mg_pwf_new W) as [Wm [HC HK]].
  apply mg_part_ext_cut; auto.
  - intros x. rewrite HC. simpl. rewrite mg_cov_nil. tauto.
  - intros x G. rewrite (HK x G). simpl. rewrite mg_cut_nil. tauto.
Qed.
Lemma merge_new_r p : pwf p -> pmerge p pnew = p.
Proof.
  intros W. destruct (mg_pmerge_spec p pnew W mg_pwf_new) as [Wm [HC HK]].
  apply mg_part_ext_cut; auto.
  - intros x. rewrite HC. simpl. rewrite mg_cov_nil. tauto.
  - intros x G. rewrite (HK x G). simpl. rewrite mg_cut_nil. tauto.
Qed.
Lemma merge_idem p : pwf p -> pmerge p p = p.
Proof.
  intros W. destruct (mg_pmerge_spec p p W W) as [Wm [HC HK]].
  apply mg_part_ext_cut; auto.
  - intros x. rewrite HC. tauto.
  - intros x G. rewrite (HK x G). tauto.
Qed.
Lemma merge_comm p1 p2 : pwf p1 -> pwf p2 -> pmerge p1 p2 = pmerge p2 p1.
Proof.
  intros W1 W2.
  destruct (mg_pmerge_spec p1 p2 W1 W2) as [Wm [HC HK]].
  destruct (mg_pmerge_spec p2 p1 W2 W1) as [Wm' [HC' HK']].
  apply mg_part_ext_cut; auto.
  - intros x. rewrite HC, HC'. tauto.
  - intros x G. rewrite (HK x G), (HK' x G). tauto.
Qed.
Lemma merge_assoc p1 p2 p3 : pwf p1 -> pwf p2 -> pwf p3 ->
  pmerge (pmerge p1 p2) p3 = pmerge p1 (pmerge p2 p3).
Proof.
  intros W1 W2 W3.
  destruct (mg_pmerge_spec p1 p2 W1 W2) as [W12 [HC12 HK12]].
  destruct (mg_pmerge_spec p2 p3 W2 W3) as [W23 [HC23 HK23]].
  destruct (mg_pmerge_spec _ p3 W12 W3) as [Wa [HCa HKa]].
  destruct (mg_pmerge_spec p1 _ W1 W23) as [Wb [HCb HKb]].
  apply mg_part_ext_cut; auto.
  - intros x. rewrite HCa, HCb, HC12, HC23. tauto.
  - intros x G. rewrite (HKa x G), (HKb x G), (HK12 x G), (HK23 x G). tauto.
Qed.

(* ------------------------------------------------------------------ merge_partition_list *)
Lemma mg_fold_spec : forall l acc, Forall pwf l -> pwf acc ->
  pwf (fold_left pmerge l acc) /\
  (forall x, covered (ivs (fold_left pmerge l acc)) x <->
             covered (ivs acc) x \/ exists p, In p l /\ covered (ivs p) x) /\
  (forall x, x < MAXC -> (cut (ivs (fold_left pmerge l acc)) x <->
             cut (ivs acc) x \/ exists p, In p l /\ cut (ivs p) x)).
Proof.
  induction l as [| q l IH]; intros acc Wl Wa.
  - simpl. split; [exact Wa |]. split; intros x; [| intros _]; split; auto; intros [H | [p [[] _]]]; exact H.
  - inversion Wl as [| q' l' Wq Wl']; subst.
    destruct (mg_pmerge_spec acc q Wa Wq) as [Wm [HC HK]].
    destruct (IH (pmerge acc q) Wl' Wm) as [Wf [HCf HKf]].
    simpl fold_left. split; [exact Wf |]. split.
    + intros x. rewrite HCf, HC. split.
      * intros [[H | H] | [p [I H]]]; [left; exact H | right; exists q; simpl; auto | right; exists p; simpl; auto].
      * intros [H | [p [[E | I] H]]]; [left; left; exact H | subst; left; right; exact H | right; exists p; auto].
    + intros x G. rewrite (HKf x G), (HK x G). split.
      * intros [[H | H] | [p [I H]]]; [left; exact H | right; exists q; simpl; auto | right; exists p; simpl; auto].
      * intros [H | [p [[E | I] H]]]; [left; left; exact H | subst; left; right; exact H | right; exists p; auto].
Qed.

Lemma mg_list_spec_top l : Forall pwf l ->
  pwf (pmerge_list l) /\
  (forall x, covered (ivs (pmerge_list l)) x <-> exists p, In p l /\ covered (ivs p) x) /\
  (forall x, x < MAXC -> (cut (ivs (pmerge_list l)) x <-> exists p, In p l /\ cut (ivs p) x)).
Proof.
  intros Wl. destruct (mg_fold_spec l pnew Wl mg_pwf_new) as [W [HC HK]].
  unfold pmerge_list. split; [exact W |]. split.
  - intros x. rewrite HC. simpl. rewrite mg_cov_nil. tauto.
  - intros x G. rewrite (HK x G). simpl. rewrite mg_cut_nil. tauto.
Qed.

Lemma merge_list_wf l : Forall pwf l -> pwf (pmerge_list l).
Proof. intros Wl. apply (mg_list_spec_top l Wl). Qed.

Lemma merge_list_nil : pmerge_list [] = pnew.
Proof. reflexivity. Qed.

Lemma merge_list_single p : pwf p -> pmerge_list [p] = p.
Proof. intros W. unfold pmerge_list. simpl. apply merge_new_l. exact W. Qed.

Lemma merge_list_perm l l' : Forall pwf l -> Permutation l l' -> pmerge_list l = pmerge_list l'.
Proof.
  intros Wl P.
  assert (Forall pwf l') as Wl'.
  { rewrite Forall_forall in *. intros p I. apply Wl. eapply Permutation_in; [apply Permutation_sym; exact P | exact I]. }
  destruct (mg_list_spec_top l Wl) as [W [HC HK]].
  destruct (mg_list_spec_top l' Wl') as [W' [HC' HK']].
  apply mg_part_ext_cut; auto.
  - intros x. rewrite HC, HC'. split; intros [p [I H]]; exists p; split; auto.
    + eapply Permutation_in; [exact P | exact I].
    + eapply Permutation_in; [apply Permutation_sym; exact P | exact I].
  - intros x G. rewrite (HK x G), (HK' x G). split; intros [p [I H]]; exists p; split; auto.
    + eapply Permutation_in; [exact P | exact I].
    + eapply Permutation_in; [apply Permutation_sym; exact P | exact I].
Qed.

Lemma merge_list_app l1 l2 : Forall pwf l1 -> Forall pwf l2 ->
  pmerge_list (l1 ++ l2) = pmerge (pmerge_list l1) (pmerge_list l2).
Proof.
  intros W1 W2.
  assert (Forall pwf (l1 ++ l2)) as W12 by (apply Forall_app; auto).
  destruct (mg_list_spec_top l1 W1) as [Wa [HCa HKa]].
  destruct (mg_list_spec_top l2 W2) as [Wb [HCb HKb]].
  destruct (mg_list_spec_top _ W12) as [Wc [HCc HKc]].
  destruct (mg_pmerge_spec _ _ Wa Wb) as [Wm [HC HK]].
  apply mg_part_ext_cut; auto.
  - intros x. rewrite HCc, HC, HCa, HCb. split.
    + intros [p [I H]]. apply in_app_or in I. destruct I as [I | I]; [left | right]; exists p; auto.
    + intros [[p [I H]] | [p [I H]]]; exists p; split; auto; apply in_or_app; auto.
  - intros x G. rewrite (HKc x G), (HK x G), (HKa x G), (HKb x G). split.
    + intros [p [I H]]. apply in_app_or in I. destruct I as [I | I]; [left | right]; exists p; auto.
    + intros [[p [I H]] | [p [I H]]]; exists p; split; auto; apply in_or_app; auto.
Qed.

Lemma merge_list_class_exact l x y : Forall pwf l -> x <= y -> good y ->
  (same_class (pmerge_list l) x y <->
   (forall p, In p l -> ~ covered (ivs p) x /\ ~ covered (ivs p) y)
   \/ (forall z, x <= z <= y -> forall p, In p l -> same_class p x z)).
Proof.
  intros Wl L G. destruct (mg_list_spec_top l Wl) as [W [HC HK]].
  apply mg_exact_gen; auto.
Qed.

Lemma merge_list_refines l x y : Forall pwf l ->
  same_class (pmerge_list l) x y -> forall p, In p l -> same_class p x y.
Proof.
  intros Wl SC p I.
  assert (forall u v, u <= v -> same_class (pmerge_list l) u v -> same_class p u v) as KEY.
  { intros u v L H. destruct (N.le_gt_cases v MAXC) as [G | G].
    - apply (merge_list_class_exact l u v Wl L G) in H.
      destruct H as [U | A]; [right; apply U; exact I | apply A; [lia | exact I]].
    - apply (mg_not_good_same _ u v (merge_list_wf l Wl)) in H; [| right; unfold good; lia].
      destruct (mg_list_spec_top l Wl) as [_ [HC _]]. rewrite !HC in H.
      right. split; intros C; [apply (proj1 H) | apply (proj2 H)]; exists p; auto. }
  destruct (N.le_ge_cases x y) as [L | L]; [apply KEY; auto |].
  apply mg_same_class_sym. apply KEY; auto. apply mg_same_class_sym. exact SC.
Qed.

Lemma merge_list_complement l x : Forall pwf l ->
  (in_class (pmerge_list l) x CComp <-> good x /\ forall p, In p l -> in_class p x CComp).
Proof.
  intros Wl. destruct (mg_list_spec_top l Wl) as [_ [HC _]]. unfold in_class. rewrite HC. split.
  - intros [G N]. split; [exact G |]. intros p I. split; [exact G |]. intros C. apply N. exists p. auto.
  - intros [G A]. split; [exact G |]. intros [p [I C]]. destruct (A p I) as [_ N]. auto.
Qed.

(* ------------------------------------------------------------------ D9: the literal "iff" fails *)
Definition mg_d9_p1 : part := ppush pnew 0 10.
Definition mg_d9_p2 : part := ppush pnew 4 5.

Lemma mg_d9_wf1 : pwf mg_d9_p1.
Proof.
  unfold mg_d9_p1, pwf, wit_ok, ppush, pnew. simpl ivs. simpl wit. unfold ivs_sorted, cs_valid, MAXC. simpl.
  repeat split; try lia.
  - rewrite mg_cov_cons, mg_cov_nil. unfold mem. simpl. lia.
  - intros x X. rewrite mg_cov_cons. left. unfold mem. simpl. lia.
Qed.
Lemma mg_d9_wf2 : pwf mg_d9_p2.
Proof.
  unfold mg_d9_p2, pwf, wit_ok, ppush, pnew. simpl ivs. simpl wit. unfold ivs_sorted, cs_valid, MAXC. simpl.
  repeat split; try lia.
  rewrite mg_cov_cons, mg_cov_nil. unfold mem. simpl. lia.
Qed.
Lemma mg_d9_merge : pmerge mg_d9_p1 mg_d9_p2 = {| ivs := [(0, 3); (4, 5); (6, 10)]; wit := 11 |}.
Proof. vm_compute. reflexivity. Qed.

Lemma literal_iff_refuted : exists p1 p2 x y, pwf p1 /\ pwf p2 /\ good x /\ good y /\
  same_class p1 x y /\ same_class p2 x y /\ ~ same_class (pmerge p1 p2) x y.
Proof.
  exists mg_d9_p1, mg_d9_p2, 1, 8.
  split; [exact mg_d9_wf1 | split; [exact mg_d9_wf2 |]].
  split; [unfold good, MAXC; lia | split; [unfold good, MAXC; lia |]].
  split; [| split].
  - left. exists (0, 10). unfold mg_d9_p1, mem. simpl. repeat split; auto; lia.
  - right. unfold mg_d9_p2. simpl ivs. rewrite !mg_cov_cons, !mg_cov_nil. unfold mem. simpl. lia.
  - rewrite mg_d9_merge. unfold same_class. simpl ivs.
    intros [[s [I [M1 M2]]] | [N1 _]].
    + unfold mem in *. simpl in I. destruct I as [E | [E | [E | []]]]; subst s; simpl in *; lia.
    + apply N1. rewrite mg_cov_cons. left. unfold mem. simpl. lia.
Qed.

(* the D9 pair does lie in the known class *)
Lemma mg_d9_known : KnownClass_C12 mg_d9_p1 mg_d9_p2 1 8.
Proof.
  unfold KnownClass_C12. split; [| split; [| split]].
  - left. exists (0, 10). unfold mg_d9_p1, mem. simpl. repeat split; auto; lia.
  - right. unfold mg_d9_p2. simpl ivs. rewrite !mg_cov_cons, !mg_cov_nil. unfold mem. simpl. lia.
  - intros [N1 _]. apply N1. unfold mg_d9_p1. simpl ivs. rewrite mg_cov_cons. left. unfold mem. simpl. lia.
  - exists 4. split; [lia |]. intros [_ [[s [I [M1 M2]]] | [N1 N2]]].
    + unfold mg_d9_p2 in I. simpl in I. destruct I as [E | []]. subst s. unfold mem in M1. simpl in M1. lia.
    + apply N2. unfold mg_d9_p2. simpl ivs. rewrite mg_cov_cons. left. unfold mem. simpl. lia.
Qed.

Lemma mg_known_class_unfold p1 p2 x y :
  KnownClass_C12 p1 p2 x y <->
  (same_class p1 x y /\ same_class p2 x y /\
   ~ (~ covered (ivs p1) x /\ ~ covered (ivs p2) x /\ ~ covered (ivs p1) y /\ ~ covered (ivs p2) y) /\
   exists z, (x < z < y \/ y < z < x) /\ ~ (same_class p1 x z /\ same_class p2 x z)).
Proof. unfold KnownClass_C12. tauto. Qed.
