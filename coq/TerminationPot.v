(* TerminationPot.v -- the potential [pa]/[phi] and the virtual length [vl] (Termination.v) through
   the smart constructors: every constructor called by the derivative function returns a term whose
   potential is bounded by the potential of the term it stands for. *)
Require Import Base CharSet Partition PartitionSpec LoopRange Regex Inclusion Constructors Deriv Denote Sem.
Require Import Lang LoopRangeProofs ManagerProofs ConstructorProofs Termination.
Open Scope N_scope.

(* ------------------------------------------------------------------------------------------ *)
(** * Unfolding *)

Fixpoint lmax (f : re -> N) (b : N) (l : list re) : N :=
  match l with [] => b | x :: t => N.max (f x) (lmax f b t) end.

Lemma lmax_ge_base f b l : b <= lmax f b l.
Proof. induction l as [|x t IH]; cbn [lmax]; lia. Qed.
Lemma lmax_ge f b l x : In x l -> f x <= lmax f b l.
Proof. induction l as [|y t IH]; cbn [lmax In]; [tauto|]. intros [->|H]; [lia|]. specialize (IH H). lia. Qed.
Lemma lmax_le f b l B : b <= B -> (forall x, In x l -> f x <= B) -> lmax f b l <= B.
Proof.
  intros Hb. induction l as [|y t IH]; cbn [lmax]; intros H; [exact Hb|].
  assert (f y <= B) by (apply H; left; reflexivity).
  assert (lmax f b t <= B) by (apply IH; intros z Hz; apply H; right; exact Hz). lia.
Qed.

Definition lpa (p v : N) (r : lr) : N :=
  match r with
  | LR i (Some j) => p + (j - 1) * v
  | LR i None => p + 1 + (i - 1) * v
  end.
Definition lvl (v : N) (r : lr) : N :=
  match r with
  | LR i (Some j) => N.max 1 (j * v)
  | LR i None => i * v + 1
  end.
Definition loop_pa (a : re) (r : lr) : N := lpa (phi a) (vl a) r.
Definition loop_vl (a : re) (r : lr) : N := lvl (vl a) r.

Lemma pa_node e :
  pa e = match rnode e with
         | NEmpty | NEps | NRange _ => 1
         | NConcat a b => N.max (phi a + vl b) (pa b)
         | NLoop a r => loop_pa a r
         | NCompl a => 1 + phi a
         | NUnion l => CW + lmax pa 1 l
         | NInter l => CW + lmax phi 2 l
         end.
Proof.
  destruct e as [i n c k]. destruct k as [| |s|a b|a [lo [hi|]]|a|l|l]; cbn [rnode pa loop_pa lpa]; try reflexivity.
  - f_equal. induction l as [|x t IH]; cbn [lmax]; [reflexivity|]. rewrite IH. reflexivity.
  - f_equal. induction l as [|x t IH]; cbn [lmax]; [reflexivity|]. rewrite IH. reflexivity.
Qed.
Lemma vl_node e :
  vl e = match rnode e with
         | NConcat a b => vl a + vl b
         | NLoop a r => loop_vl a r
         | _ => 1
         end.
Proof. destruct e as [i n c k]. destruct k as [| |s|a b|a [lo [hi|]]|a|l|l]; reflexivity. Qed.

Lemma vl_pos e : 1 <= vl e.
Proof.
  induction e as [e IH] using re_induction. rewrite vl_node.
  destruct (rnode e) as [| |s|a b|a [lo [hi|]]|a|l|l] eqn:K; unfold loop_vl; cbn [lvl children] in *; try lia.
  assert (1 <= vl a) by (apply IH; left; reflexivity). lia.
Qed.
Lemma pa_pos e : 1 <= pa e.
Proof.
  induction e as [e IH] using re_induction. rewrite pa_node. unfold CW.
  destruct (rnode e) as [| |s|a b|a [lo [hi|]]|a|l|l] eqn:K; unfold loop_pa; cbn [lpa children] in *; try lia.
  - assert (1 <= pa b) by (apply IH; right; left; reflexivity). lia.
  - unfold phi. assert (1 <= pa a) by (apply IH; left; reflexivity). destruct (is_union a); unfold CW; nia.
  - unfold phi. assert (1 <= pa a) by (apply IH; left; reflexivity). destruct (is_union a); unfold CW; nia.
Qed.
Lemma phi_ge_pa e : pa e <= phi e.
Proof. unfold phi. destruct (is_union e); unfold CW; lia. Qed.
Lemma phi_le e : phi e <= CW + pa e.
Proof. unfold phi. destruct (is_union e); unfold CW; lia. Qed.
Lemma phi_nonunion e : is_union e = false -> phi e = CW + pa e.
Proof. unfold phi. intros ->. reflexivity. Qed.
Lemma phi_union e : is_union e = true -> phi e = pa e.
Proof. unfold phi. intros ->. reflexivity. Qed.
Lemma phi_ge2 e : 2 <= phi e.
Proof.
  unfold phi. destruct (is_union e) eqn:U; [|pose proof (pa_pos e); unfold CW; lia].
  unfold is_union in U. rewrite pa_node. destruct (rnode e); try discriminate.
  pose proof (lmax_ge_base pa 1 l). unfold CW. lia.
Qed.

(* the constants *)
Lemma pa_m_empty m : wf m -> pa (m_empty m) = 1.
Proof. intros W. rewrite (c_empty m (wf_consts m W)). reflexivity. Qed.
Lemma pa_m_eps m : wf m -> pa (m_eps m) = 1.
Proof. intros W. rewrite (c_eps m (wf_consts m W)). reflexivity. Qed.
Lemma phi_m_empty m : wf m -> phi (m_empty m) = CW + 1.
Proof. intros W. rewrite (c_empty m (wf_consts m W)). reflexivity. Qed.
Lemma phi_m_eps m : wf m -> phi (m_eps m) = CW + 1.
Proof. intros W. rewrite (c_eps m (wf_consts m W)). reflexivity. Qed.
Lemma vl_m_empty m : wf m -> vl (m_empty m) = 1.
Proof. intros W. rewrite (c_empty m (wf_consts m W)). reflexivity. Qed.
Lemma vl_m_eps m : wf m -> vl (m_eps m) = 1.
Proof. intros W. rewrite (c_eps m (wf_consts m W)). reflexivity. Qed.
Lemma pa_m_full m : wf m -> pa (m_full m) = CW + 2.
Proof.
  intros W. rewrite (c_full m (wf_consts m W)), (c_sigma m (wf_consts m W)). reflexivity.
Qed.
Lemma phi_m_full m : wf m -> phi (m_full m) = CW + CW + 2.
Proof.
  intros W. rewrite (c_full m (wf_consts m W)), (c_sigma m (wf_consts m W)). reflexivity.
Qed.
Lemma pa_m_splus m : wf m -> pa (m_splus m) = CW + 2.
Proof.
  intros W. rewrite (c_splus m (wf_consts m W)), (c_sigma m (wf_consts m W)). reflexivity.
Qed.

(* a made node has the node it was made from *)
Lemma make_rnode m k m' t : wf m -> not_compl k -> k_closed m k -> make m k = Some (m', t) -> rnode t = k.
Proof.
  intros W Hk Hc Hmk.
  destruct (lookup (key_of k) (tbl m)) as [e|] eqn:Hl.
  - rewrite (make_existing m k e W Hk Hl) in Hmk. inversion Hmk; subst.
    apply lookup_in in Hl. apply (wf_tbl _ W) in Hl as [Hkey Ho].
    apply (key_of_inj m'); auto. intros c Hin. apply (wf_child m' W t c Ho Hin).
  - rewrite (make_new m k W Hk Hl) in Hmk. inversion Hmk; subst. reflexivity.
Qed.

(* ------------------------------------------------------------------------------------------ *)
(** * Arithmetic *)

Lemma Npred_ex n : n = 0 \/ exists k, n = k + 1.
Proof. destruct (N.eq_dec n 0); [left; auto | right; exists (n - 1); lia]. Qed.

Lemma add32_some x y z : add32 x y = Some z -> z = x + y /\ x + y <= U32MAX.
Proof. unfold add32. destruct (x + y <=? U32MAX) eqn:E; intros H; inversion H. apply N.leb_le in E. auto. Qed.
Lemma mul32_some x y z : mul32 x y = Some z -> z = x * y /\ x * y <= U32MAX.
Proof. unfold mul32. destruct (x * y <=? U32MAX) eqn:E; intros H; inversion H. apply N.leb_le in E. auto. Qed.

Lemma lr_add_shape a ha c hc r : lr_add (LR a ha) (LR c hc) = Some r ->
  r = LR (a + c) (match ha, hc with Some b, Some d => Some (b + d) | _, _ => None end).
Proof.
  unfold lr_add. cbn [lr_start]. destruct (add32 a c) as [i|] eqn:A; cbn [bind]; [|discriminate].
  apply add32_some in A as [-> _].
  destruct ha as [b|], hc as [d|]; try (intros H; inversion H; reflexivity).
  destruct (add32 b d) as [j|] eqn:B; cbn [bind]; [|discriminate].
  apply add32_some in B as [-> _]. intros H; inversion H; reflexivity.
Qed.
Lemma lr_add_point_shape a ha r : lr_add_point (LR a ha) 1 = Some r ->
  r = LR (a + 1) (match ha with Some b => Some (b + 1) | None => None end).
Proof. unfold lr_add_point, lr_point. intros H. apply lr_add_shape in H. destruct ha; exact H. Qed.

(* ------------------------------------------------------------------------------------------ *)
(** * mk_loop *)

Lemma lvl_pos v r : 1 <= lvl v r.
Proof. destruct r as [i [j|]]; cbn [lvl]; lia. Qed.
Lemma lpa_ge p v r : p <= lpa p v r.
Proof. destruct r as [i [j|]]; cbn [lpa]; [generalize ((j - 1) * v) | generalize ((i - 1) * v)]; intros; lia. Qed.
Lemma loop_vl_pos a r : 1 <= loop_vl a r.
Proof. apply lvl_pos. Qed.
Lemma loop_pa_ge a r : phi a <= loop_pa a r.
Proof. apply lpa_ge. Qed.
Lemma lpa_mono p p' v r : p <= p' -> lpa p v r <= lpa p' v r.
Proof. destruct r as [i [j|]]; cbn [lpa]; lia. Qed.

Lemma node_valid m e x r : wf m -> owned m e -> rnode e = NLoop x r -> lr_valid r.
Proof.
  intros W Ho K. pose proof (wf_terms m W e Ho) as Hw. apply wf_term_iff in Hw as (_ & _ & Hok & _).
  rewrite K in Hok. exact Hok.
Qed.

Lemma zero_fin a b : a <= b -> lr_is_zero (LR a (Some b)) = false -> b <> 0.
Proof. intros H Z ->. assert (a = 0) by lia. subst. discriminate. Qed.

(* flattening a loop of a loop does not increase the potential *)
Lemma mul_flat p v xr rg r : 1 <= v -> lr_valid xr -> lr_valid rg -> lr_mul xr rg = Some r ->
  lpa p v r <= lpa (CW + lpa p v xr) (lvl v xr) rg /\ lvl v r <= lvl (lvl v xr) rg.
Proof.
  intros Hv Vx Vr H. unfold lr_mul in H.
  destruct (lr_is_zero xr || lr_is_zero rg) eqn:Z.
  { inversion H; subst r. unfold lr_point. cbn [lpa lvl]. change (0 - 1) with 0. rewrite !N.mul_0_l.
    split; [|pose proof (lvl_pos (lvl v xr) rg); lia].
    pose proof (lpa_ge (CW + lpa p v xr) (lvl v xr) rg). pose proof (lpa_ge p v xr). lia. }
  apply orb_false_iff in Z as [Z1 Z2].
  destruct xr as [a [b|]], rg as [c [d|]]; cbn [lr_valid] in Vx, Vr.
  - destruct (mul32 a c) as [i|] eqn:A; cbn [bind] in H; [|discriminate].
    destruct (mul32 b d) as [j|] eqn:B; cbn [bind] in H; [|discriminate].
    apply mul32_some in A as [-> _]. apply mul32_some in B as [-> _]. inversion H; subst r. clear H. cbn [lpa lvl].
    pose proof (zero_fin a b (proj1 Vx) Z1). pose proof (zero_fin c d (proj1 Vr) Z2).
    destruct (Npred_ex b) as [->|[b' ->]]; [lia|]. destruct (Npred_ex d) as [->|[d' ->]]; [lia|].
    clear - Hv. replace (b' + 1 - 1) with b' by lia. replace (d' + 1 - 1) with d' by lia.
    replace (N.max 1 ((b' + 1) * v)) with ((b' + 1) * v) by nia.
    replace ((b' + 1) * (d' + 1) - 1) with (b' + d' * (b' + 1)) by nia.
    replace ((b' + d' * (b' + 1)) * v) with (b' * v + d' * ((b' + 1) * v)) by ring.
    replace ((b' + 1) * (d' + 1) * v) with ((d' + 1) * ((b' + 1) * v)) by ring.
    split; unfold CW; lia.
  - destruct (mul32 a c) as [i|] eqn:A; cbn [bind] in H; [|discriminate].
    apply mul32_some in A as [-> _]. inversion H; subst r. clear H. cbn [lpa lvl].
    pose proof (zero_fin a b (proj1 Vx) Z1).
    destruct (Npred_ex b) as [->|[b' ->]]; [lia|].
    replace (b' + 1 - 1) with b' by lia.
    replace (N.max 1 ((b' + 1) * v)) with ((b' + 1) * v) by nia.
    destruct (Npred_ex c) as [->|[c' ->]].
    + rewrite N.mul_0_r. change (0 - 1) with 0. rewrite !N.mul_0_l. split; [unfold CW; nia|nia].
    + replace (c' + 1 - 1) with c' by lia.
      assert (E : a * (c' + 1) <= (b' + 1) * (c' + 1)) by nia. clear - E Hv.
      assert (E2 : (a * (c' + 1) - 1) * v <= (b' + c' * (b' + 1)) * v) by (apply N.mul_le_mono_r; nia).
      replace ((b' + c' * (b' + 1)) * v) with (b' * v + c' * ((b' + 1) * v)) in E2 by ring.
      split; [unfold CW; lia|].
      assert (E3 : a * (c' + 1) * v <= (b' + 1) * (c' + 1) * v) by (apply N.mul_le_mono_r; exact E).
      replace ((b' + 1) * (c' + 1) * v) with ((c' + 1) * ((b' + 1) * v)) in E3 by ring. lia.
  - destruct (mul32 a c) as [i|] eqn:A; cbn [bind] in H; [|discriminate].
    apply mul32_some in A as [-> _]. inversion H; subst r. clear H. cbn [lpa lvl].
    pose proof (zero_fin c d (proj1 Vr) Z2).
    destruct (Npred_ex d) as [->|[d' ->]]; [lia|].
    replace (d' + 1 - 1) with d' by lia.
    destruct (Npred_ex a) as [->|[a' ->]].
    + rewrite N.mul_0_l. change (0 - 1) with 0. rewrite !N.mul_0_l. split; [unfold CW; nia|nia].
    + replace (a' + 1 - 1) with a' by lia.
      assert (E : (a' + 1) * c <= (a' + 1) * (d' + 1)) by nia. clear - E Hv.
      assert (E2 : ((a' + 1) * c - 1) * v <= (a' + d' * (a' + 1)) * v) by (apply N.mul_le_mono_r; nia).
      replace ((a' + d' * (a' + 1)) * v) with (a' * v + d' * ((a' + 1) * v)) in E2 by ring.
      assert (E3 : (a' + 1) * c * v <= (a' + 1) * (d' + 1) * v) by (apply N.mul_le_mono_r; exact E).
      replace ((a' + 1) * (d' + 1) * v) with ((d' + 1) * ((a' + 1) * v)) in E3 by ring.
      replace (d' * ((a' + 1) * v + 1)) with (d' * ((a' + 1) * v) + d') by ring.
      replace ((d' + 1) * ((a' + 1) * v + 1)) with ((d' + 1) * ((a' + 1) * v) + d' + 1) by ring.
      split; unfold CW; lia.
  - destruct (mul32 a c) as [i|] eqn:A; cbn [bind] in H; [|discriminate].
    apply mul32_some in A as [-> _]. inversion H; subst r. clear H. cbn [lpa lvl].
    destruct (Npred_ex a) as [->|[a' ->]].
    + rewrite N.mul_0_l. change (0 - 1) with 0. rewrite !N.mul_0_l. split; [unfold CW; nia|nia].
    + replace (a' + 1 - 1) with a' by lia.
      destruct (Npred_ex c) as [->|[c' ->]].
      * rewrite N.mul_0_r. change (0 - 1) with 0. rewrite !N.mul_0_l. split; [unfold CW; nia|nia].
      * replace (c' + 1 - 1) with c' by lia. clear - Hv.
        replace ((a' + 1) * (c' + 1) - 1) with (a' + c' * (a' + 1)) by nia.
        replace ((a' + c' * (a' + 1)) * v) with (a' * v + c' * ((a' + 1) * v)) by ring.
        replace (c' * ((a' + 1) * v + 1)) with (c' * ((a' + 1) * v) + c') by ring.
        replace ((a' + 1) * (c' + 1) * v) with ((c' + 1) * ((a' + 1) * v)) by ring.
        replace ((c' + 1) * ((a' + 1) * v + 1)) with ((c' + 1) * ((a' + 1) * v) + c' + 1) by ring.
        split; unfold CW; lia.
Qed.

Lemma is_union_node e : is_union e = match rnode e with NUnion _ => true | _ => false end.
Proof. reflexivity. Qed.

Theorem mk_loop_pot m e rg m' t :
  wf m -> owned m e -> lr_valid rg -> mk_loop m e rg = Some (m', t) ->
  pa t <= loop_pa e rg /\ vl t <= loop_vl e rg.
Proof.
  intros W Ho Hr H. unfold mk_loop in H.
  pose proof (loop_pa_ge e rg) as Hge. pose proof (loop_vl_pos e rg) as Hvp. pose proof (phi_ge2 e) as H2.
  destruct (lr_is_zero rg) eqn:Z.
  { inversion H; subst. rewrite (pa_m_eps m' W), (vl_m_eps m' W). lia. }
  destruct (lr_is_one rg) eqn:O1.
  { inversion H; subst. pose proof (phi_ge_pa t). split; [lia|].
    unfold loop_vl. destruct rg as [[|[| |]] [[|[| |]]|]]; try discriminate. cbn [lvl]. lia. }
  assert (Hgen : make m (NLoop e rg) = Some (m', t) -> pa t <= loop_pa e rg /\ vl t <= loop_vl e rg).
  { intros Hm. apply make_rnode in Hm; [|exact W|exact I|intros c [<-|[]]; exact Ho].
    rewrite pa_node, vl_node, Hm. lia. }
  destruct (rnode e) as [| |s|a b|x xr|a|l|l] eqn:K; try (apply Hgen; exact H).
  - inversion H; subst. destruct (lr_start rg =? 0); rewrite ?(pa_m_eps m' W), ?(vl_m_eps m' W), ?(pa_m_empty m' W), ?(vl_m_empty m' W); lia.
  - inversion H; subst. rewrite (pa_m_eps m' W), (vl_m_eps m' W). lia.
  - assert (Hch : owned m x) by (apply (wf_child m W e x Ho); rewrite K; cbn; auto).
    pose proof (node_valid m e x xr W Ho K) as Hxr.
    destruct (lr_rmie xr rg) as [[|]|] eqn:R; try (apply Hgen; exact H).
    destruct (lr_mul xr rg) as [r|] eqn:M; try (apply Hgen; exact H).
    apply make_rnode in H; [|exact W|exact I|intros c [<-|[]]; exact Hch].
    rewrite pa_node, vl_node, H. unfold loop_pa, loop_vl.
    destruct (mul_flat (phi x) (vl x) xr rg r (vl_pos x) Hxr Hr M) as [E1 E2].
    assert (Ep : phi e = CW + lpa (phi x) (vl x) xr).
    { rewrite phi_nonunion; [|rewrite is_union_node, K; reflexivity]. rewrite pa_node, K. reflexivity. }
    assert (Ev : vl e = lvl (vl x) xr) by (rewrite vl_node, K; reflexivity).
    rewrite Ep, Ev. auto.
Qed.

(* ------------------------------------------------------------------------------------------ *)
(** * concat *)

Lemma succ_pot p v rng r : 1 <= v -> lr_add_point rng 1 = Some r ->
  lpa p v r <= p + lvl v rng /\ lvl v r <= v + lvl v rng /\
  lpa p v r <= CW + lpa p v rng + v.
Proof.
  intros Hv H. destruct rng as [a [b|]]; apply lr_add_point_shape in H; subst r; cbn [lpa lvl].
  - replace (b + 1 - 1) with b by lia. replace ((b + 1) * v) with (b * v + v) by ring.
    destruct (Npred_ex b) as [->|[b' ->]].
    + change (0 - 1) with 0. rewrite !N.mul_0_l. unfold CW. lia.
    + replace (b' + 1 - 1) with b' by lia. replace ((b' + 1) * v) with (b' * v + v) by ring. unfold CW. lia.
  - replace (a + 1 - 1) with a by lia. replace ((a + 1) * v) with (a * v + v) by ring.
    destruct (Npred_ex a) as [->|[a' ->]].
    + change (0 - 1) with 0. rewrite !N.mul_0_l. unfold CW. lia.
    + replace (a' + 1 - 1) with a' by lia. replace ((a' + 1) * v) with (a' * v + v) by ring. unfold CW. lia.
Qed.

Lemma add_pot p v xr yr r : 1 <= v -> lr_valid xr -> lr_valid yr -> lr_add xr yr = Some r ->
  lpa p v r <= CW + lpa p v xr + lvl v yr /\ lvl v r <= lvl v xr + lvl v yr.
Proof.
  intros Hv Vx Vy H. destruct xr as [a hb], yr as [c hd]. apply lr_add_shape in H. subst r.
  destruct hb as [b|], hd as [d|]; cbn [lpa lvl lr_valid] in *.
  - replace ((b + d) * v) with (b * v + d * v) by ring.
    destruct (Npred_ex b) as [->|[b' ->]].
    + cbn [N.add]. change (0 - 1) with 0. rewrite !N.mul_0_l.
      assert ((d - 1) * v <= d * v) by (apply N.mul_le_mono_r; lia). unfold CW. lia.
    + replace (b' + 1 + d - 1) with (b' + d) by lia. replace (b' + 1 - 1) with b' by lia.
      replace ((b' + d) * v) with (b' * v + d * v) by ring. replace ((b' + 1) * v) with (b' * v + v) by ring.
      unfold CW. lia.
  - assert (E : (a + c - 1) * v <= ((b - 1) + c) * v) by (apply N.mul_le_mono_r; lia).
    replace ((b - 1 + c) * v) with ((b - 1) * v + c * v) in E by ring.
    assert (E2 : a * v <= b * v) by (apply N.mul_le_mono_r; lia).
    replace ((a + c) * v) with (a * v + c * v) by ring. unfold CW. lia.
  - assert (E : (a + c - 1) * v <= ((a - 1) + d) * v).
    { apply N.mul_le_mono_r. destruct (Npred_ex a) as [->|[a' ->]]; lia. }
    destruct (Npred_ex a) as [->|[a' ->]].
    + cbn [N.add] in *. change (0 - 1) with 0 in *. rewrite !N.mul_0_l in *.
      assert ((c - 1) * v <= d * v) by (apply N.mul_le_mono_r; lia).
      assert (c * v <= d * v) by (apply N.mul_le_mono_r; lia). unfold CW. lia.
    + replace (a' + 1 - 1 + d) with (a' + d) in E by lia. replace (a' + 1 - 1) with a' by lia.
      replace ((a' + d) * v) with (a' * v + d * v) in E by ring.
      assert (c * v <= d * v) by (apply N.mul_le_mono_r; lia).
      replace ((a' + 1 + c) * v) with ((a' + 1) * v + c * v) by ring. unfold CW. lia.
  - assert (E : (a + c - 1) * v <= ((a - 1) + c) * v).
    { apply N.mul_le_mono_r. lia. }
    replace ((a - 1 + c) * v) with ((a - 1) * v + c * v) in E by ring.
    replace ((a + c) * v) with (a * v + c * v) by ring. unfold CW. lia.
Qed.

Theorem concat_pot : forall e1 m e2 m' t,
  wf m -> owned m e1 -> owned m e2 -> concat e1 m e2 = Some (m', t) ->
  pa t <= N.max (phi e1 + vl e2) (pa e2) /\ vl t <= vl e1 + vl e2.
Proof.
  induction e1 as [e1 IH] using re_induction. intros m e2 m' t W O1 O2 H.
  pose proof (pa_pos e2) as Hp2. pose proof (vl_pos e1) as Hv1. pose proof (vl_pos e2) as Hv2.
  pose proof (phi_ge_pa e1) as Hpp.
  rewrite concat_unfold in H.
  destruct (is_empty_node e1). { inversion H; subst. rewrite (pa_m_empty m' W), (vl_m_empty m' W). lia. }
  destruct (is_empty_node e2). { inversion H; subst. rewrite (pa_m_empty m' W), (vl_m_empty m' W). lia. }
  destruct (is_eps_node e1). { inversion H; subst. lia. }
  destruct (is_eps_node e2). { inversion H; subst. lia. }
  unfold concat_rules in H.
  destruct (rule5g e1 e2) as [r|] eqn:G5.
  { apply rule5g_some in G5 as (rng & R5 & A).
    unfold rule5 in R5. destruct (loop_of e2) as [[y r0]|] eqn:E; [|discriminate].
    destruct (re_eqb e1 y) eqn:Q; [|discriminate]. inversion R5; subst r0. apply loop_of_some in E.
    destruct (loop_child m e2 y rng W O2 E) as (Hy & Hv & _).
    apply (re_eqb_owned m e1 y O1 Hy) in Q. subst y.
    apply make_rnode in H; [|exact W|exact I|intros c [<-|[]]; exact O1].
    rewrite (pa_node t), (vl_node t), H, (vl_node e2), E. unfold loop_pa, loop_vl.
    destruct (succ_pot (phi e1) (vl e1) rng r Hv1 A) as (S1 & S2 & _). lia. }
  destruct (rule5g e2 e1) as [r|] eqn:G6.
  { apply rule5g_some in G6 as (rng & R6 & A).
    unfold rule5 in R6. destruct (loop_of e1) as [[y r0]|] eqn:E; [|discriminate].
    destruct (re_eqb e2 y) eqn:Q; [|discriminate]. inversion R6; subst r0. apply loop_of_some in E.
    destruct (loop_child m e1 y rng W O1 E) as (Hy & Hv & _).
    apply (re_eqb_owned m e2 y O2 Hy) in Q. subst y.
    apply make_rnode in H; [|exact W|exact I|intros c [<-|[]]; exact O2].
    rewrite (pa_node t), (vl_node t), H. unfold loop_pa, loop_vl.
    assert (Ep : phi e1 = CW + lpa (phi e2) (vl e2) rng).
    { rewrite phi_nonunion; [|rewrite is_union_node, E; reflexivity]. rewrite pa_node, E. reflexivity. }
    assert (Ev : vl e1 = lvl (vl e2) rng) by (rewrite vl_node, E; reflexivity).
    rewrite Ep, Ev. destruct (succ_pot (phi e2) (vl e2) rng r Hv2 A) as (_ & S2 & S3). lia. }
  destruct (rule7g e1 e2) as [[x r]|] eqn:G7.
  { apply rule7g_some in G7 as (xr & yr & R7 & A).
    unfold rule7 in R7.
    destruct (loop_of e1) as [[x1 r1]|] eqn:E1; [|discriminate].
    destruct (loop_of e2) as [[x2 r2]|] eqn:E2; [|discriminate].
    destruct (re_eqb x1 x2) eqn:Q; [|discriminate]. inversion R7; subst x1 r1 r2.
    apply loop_of_some in E1, E2.
    destruct (loop_child m e1 x xr W O1 E1) as (Hx & Hvx & _).
    destruct (loop_child m e2 x2 yr W O2 E2) as (Hy & Hvy & _).
    apply (re_eqb_owned m x x2 Hx Hy) in Q. subst x2.
    apply make_rnode in H; [|exact W|exact I|intros c [<-|[]]; exact Hx].
    rewrite (pa_node t), (vl_node t), H, (vl_node e2), E2. unfold loop_pa, loop_vl.
    assert (Ep : phi e1 = CW + lpa (phi x) (vl x) xr).
    { rewrite phi_nonunion; [|rewrite is_union_node, E1; reflexivity]. rewrite pa_node, E1. reflexivity. }
    assert (Ev : vl e1 = lvl (vl x) xr) by (rewrite vl_node, E1; reflexivity).
    rewrite Ep, Ev. destruct (add_pot (phi x) (vl x) xr yr r (vl_pos x) Hvx Hvy A) as (S1 & S2). lia. }
  destruct (re_eqb e1 e2) eqn:Q.
  { apply (re_eqb_owned m e1 e2 O1 O2) in Q. subst e2.
    apply make_rnode in H; [|exact W|exact I|intros c [<-|[]]; exact O1].
    rewrite (pa_node t), (vl_node t), H. unfold loop_pa, loop_vl, lr_point. cbn [lpa lvl].
    change (2 - 1) with 1. lia. }
  assert (Hdef : (if rnul e1 && re_eqb e2 (m_full m) then Some (m, e2) else make m (NConcat e1 e2)) = Some (m', t) ->
                 pa t <= N.max (phi e1 + vl e2) (pa e2) /\ vl t <= vl e1 + vl e2).
  { intros Hd. destruct (rnul e1 && re_eqb e2 (m_full m)).
    - inversion Hd; subst. lia.
    - apply make_rnode in Hd; [|exact W|exact I|intros c [<-|[<-|[]]]; assumption].
      rewrite (pa_node t), (vl_node t), Hd. lia. }
  destruct (rnode e1) as [| |s|x y|x xr|x|l|l] eqn:K; try (apply Hdef; exact H).
  destruct (wf_child m W e1 x O1) as [Ox _]; [rewrite K; cbn; auto|].
  destruct (wf_child m W e1 y O1) as [Oy _]; [rewrite K; cbn; auto|].
  destruct (concat y m e2) as [[m1 rt]|] eqn:C1; cbn [bind] in H; [|discriminate].
  destruct (concat_ok y m e2 m1 rt W Oy O2 C1) as (W1 & X1 & Ort & _).
  destruct (IH y (or_intror (or_introl eq_refl)) m e2 m1 rt W Oy O2 C1) as [P1 V1].
  destruct (IH x (or_introl eq_refl) m1 rt m' t W1 (ext_owned m m1 x X1 Ox) Ort H) as [P2 V2].
  assert (Ep : phi e1 = CW + N.max (phi x + vl y) (pa y)).
  { rewrite phi_nonunion; [|rewrite is_union_node, K; reflexivity]. rewrite pa_node, K. reflexivity. }
  assert (Ev : vl e1 = vl x + vl y) by (rewrite vl_node, K; reflexivity).
  pose proof (phi_le y). rewrite Ep, Ev. lia.
Qed.

(* ------------------------------------------------------------------------------------------ *)
(** * complement, union, intersection *)

Lemma rid_m_full m : wf m -> rid (m_full m) = 3.
Proof. intros W. rewrite (c_full m (wf_consts m W)). reflexivity. Qed.
Lemma rid_m_splus m : wf m -> rid (m_splus m) = 5.
Proof. intros W. rewrite (c_splus m (wf_consts m W)). reflexivity. Qed.

(* the odd member of a complementary pair has potential at least that of Sigma^* *)
Lemma pair_pa m x y : wf m -> owned m x -> owned m y -> rid y = rid x + 1 -> N.even (rid x) = true ->
  CW + 2 <= pa y /\ (rid x <> 2 -> rid x <> 4 -> pa y = 1 + phi x).
Proof.
  intros W Ox Oy E Ev. apply even_nat_N in Ev.
  assert (Oy' : at_id m (S (N.to_nat (rid x))) = Some y).
  { unfold owned in Oy. rewrite E in Oy. replace (N.to_nat (rid x + 1)) with (S (N.to_nat (rid x))) in Oy by lia. exact Oy. }
  destruct (wf_pair m W (N.to_nat (rid x)) x y Ev Ox Oy') as [Hn _].
  assert (Hc : rid x <> 2 -> rid x <> 4 -> pa y = 1 + phi x).
  { intros H2 H4. rewrite pa_node, Hn; [reflexivity| |]; lia. }
  split; [|exact Hc].
  destruct (N.eq_dec (rid x) 2) as [E2|E2].
  - assert (y = m_full m); [|subst y; rewrite (pa_m_full m W); lia].
    apply (id_inj m); auto; [apply (c_full_o m (wf_consts m W))|]. rewrite (rid_m_full m W). lia.
  - destruct (N.eq_dec (rid x) 4) as [E4|E4].
    + assert (y = m_splus m); [|subst y; rewrite (pa_m_splus m W); lia].
      apply (id_inj m); auto; [apply (c_splus_o m (wf_consts m W))|]. rewrite (rid_m_splus m W). lia.
    + rewrite (Hc E2 E4). pose proof (phi_ge2 x). unfold CW. lia.
Qed.

Theorem complement_pot m e r : wf m -> owned m e -> complement m e = Some r -> phi r <= CW + 1 + phi e.
Proof.
  intros W Ho Hc. destruct (partner m e W Ho) as (r' & H1 & Or & Hid & _).
  rewrite H1 in Hc. inversion Hc; subst r'. clear Hc.
  destruct (N.even (rid e)) eqn:Ev.
  - rewrite (lxor1_even _ Ev) in Hid.
    destruct (pair_pa m e r W Ho Or Hid Ev) as [_ Hc].
    destruct (N.eq_dec (rid e) 2) as [E2|E2].
    { assert (r = m_full m); [|subst r; rewrite (phi_m_full m W); pose proof (phi_ge2 e); unfold CW; lia].
      apply (id_inj m); auto; [apply (c_full_o m (wf_consts m W))|]. rewrite (rid_m_full m W). lia. }
    destruct (N.eq_dec (rid e) 4) as [E4|E4].
    { assert (r = m_splus m).
      { apply (id_inj m); auto; [apply (c_splus_o m (wf_consts m W))|]. rewrite (rid_m_splus m W). lia. }
      subst r. pose proof (phi_le (m_splus m)). rewrite (pa_m_splus m W) in H. pose proof (phi_ge2 e). unfold CW in *. lia. }
    pose proof (phi_le r). rewrite (Hc E2 E4) in H. lia.
  - destruct (lxor1_odd _ Ev) as [Hx Hge]. rewrite Hx in Hid.
    assert (Ev' : N.even (rid r) = true).
    { rewrite Hid. replace (rid e) with (N.succ (rid e - 1)) in Ev by lia.
      rewrite N.even_succ in Ev. rewrite <- N.negb_odd. rewrite Ev. reflexivity. }
    assert (Hid' : rid e = rid r + 1) by lia.
    destruct (pair_pa m r e W Or Ho Hid' Ev') as [Hlow Hc].
    destruct (N.eq_dec (rid r) 2) as [E2|E2].
    { assert (r = m_empty m); [|subst r; rewrite (phi_m_empty m W); pose proof (phi_ge2 e); unfold CW; lia].
      apply (id_inj m); auto; [apply (c_empty_o m (wf_consts m W))|]. rewrite (c_empty m (wf_consts m W)). cbn. lia. }
    destruct (N.eq_dec (rid r) 4) as [E4|E4].
    { assert (r = m_eps m); [|subst r; rewrite (phi_m_eps m W); pose proof (phi_ge2 e); unfold CW; lia].
      apply (id_inj m); auto; [apply (c_eps_o m (wf_consts m W))|]. rewrite (c_eps m (wf_consts m W)). cbn. lia. }
    pose proof (phi_ge_pa e). rewrite (Hc E2 E4) in H. lia.
Qed.

Lemma flatten_union_pa : forall e y, In y (flatten_union e) -> CW + pa y <= phi e.
Proof.
  induction e as [e IH] using re_induction. intros y Hy. rewrite flatten_union_unfold in Hy.
  destruct (rnode e) as [| |s|a b|x xr|a|l|l] eqn:K;
    try (destruct Hy as [<-|[]]; rewrite phi_nonunion; [lia | rewrite is_union_node, K; reflexivity]).
  apply in_flat_map in Hy as (x & Hx & Hy).
  assert (CW + pa y <= phi x) by (apply IH; [exact Hx | exact Hy]).
  pose proof (phi_le x). pose proof (lmax_ge pa 1 l x Hx).
  rewrite phi_union; [|rewrite is_union_node, K; reflexivity]. rewrite (pa_node e), K. lia.
Qed.
Lemma flatten_inter_phi : forall e y, In y (flatten_inter e) -> phi y <= phi e.
Proof.
  induction e as [e IH] using re_induction. intros y Hy. rewrite flatten_inter_unfold in Hy.
  destruct (rnode e) as [| |s|a b|x xr|a|l|l] eqn:K; try (destruct Hy as [<-|[]]; lia).
  apply in_flat_map in Hy as (x & Hx & Hy).
  assert (phi y <= phi x) by (apply IH; [exact Hx | exact Hy]).
  pose proof (lmax_ge phi 2 l x Hx). pose proof (phi_ge_pa e). rewrite pa_node, K in H1. lia.
Qed.

Theorem make_union_pot m v m' t B : wf m -> (forall x, In x v -> owned m x) ->
  make_union m v = Some (m', t) -> CW + 1 <= B -> (forall x, In x v -> CW + pa x <= B) -> phi t <= B.
Proof.
  intros W Hv H HB Hb. unfold make_union in H.
  pose proof (simplify_spec m v (m_empty m) (m_full m) Hv (c_empty_o m (wf_consts m W)) (c_full_o m (wf_consts m W))) as S.
  cbv zeta in S. set (v1 := simplify_set_operation v (m_empty m) (m_full m)) in *.
  destruct S as [[E Hc] | S].
  - (* absorbed: the result is Sigma^* *)
    rewrite E in H. inversion H; subst m' t. rewrite (phi_m_full m W).
    destruct Hc as [Hin | (x & y & Hx & Hy & Hid & Hev)].
    + apply Hb in Hin. rewrite (pa_m_full m W) in Hin. lia.
    + destruct (pair_pa m x y W (Hv x Hx) (Hv y Hy) Hid Hev) as [Hp _]. apply Hb in Hy. lia.
  - set (v2 := match v1 with _ :: _ :: _ => remove_subsumed_go [] v1 | _ => v1 end) in *.
    assert (S2 : forall x, In x v2 -> In x v).
    { intros x Hx. apply S. unfold v2 in Hx. destruct v1 as [|a [|b r]]; auto.
      apply remove_subsumed_sub in Hx. exact Hx. }
    clearbody v2. destruct v2 as [|x [|y r]].
    + inversion H; subst. rewrite (phi_m_empty m' W). exact HB.
    + inversion H; subst. pose proof (phi_le t). assert (CW + pa t <= B) by (apply Hb, S2; left; reflexivity). lia.
    + apply make_rnode in H; [|exact W|exact I|intros c Hc; apply Hv, S2; exact Hc].
      rewrite phi_union; [|rewrite is_union_node, H; reflexivity]. rewrite pa_node, H.
      assert (lmax pa 1 (x :: y :: r) <= B - CW); [|lia].
      apply lmax_le; [lia|]. intros z Hz. apply S2, Hb in Hz. lia.
Qed.

Theorem union_list_pot m l m' t B : wf m -> (forall x, In x l -> owned m x) ->
  union_list m l = Some (m', t) -> CW + 1 <= B -> (forall x, In x l -> phi x <= B) -> phi t <= B.
Proof.
  intros W Hl H HB Hb. unfold union_list in H. destruct (flat_map_union_ok m l W Hl) as [Ho _].
  apply (make_union_pot m _ m' t B W Ho H HB). intros y Hy. apply in_flat_map in Hy as (x & Hx & Hy).
  apply flatten_union_pa in Hy. specialize (Hb x Hx). lia.
Qed.
Theorem union_pot m a b m' t : wf m -> owned m a -> owned m b -> union m a b = Some (m', t) ->
  phi t <= N.max (phi a) (phi b).
Proof.
  intros W Oa Ob H. unfold union in H. apply (union_list_pot m [a; b] m' t); auto.
  - intros x [<-|[<-|[]]]; auto.
  - pose proof (phi_ge2 a). unfold CW. lia.
  - intros x [<-|[<-|[]]]; lia.
Qed.

Theorem make_inter_pot m v m' t B : wf m -> (forall x, In x v -> owned m x) ->
  make_inter m v = Some (m', t) -> 2 <= B -> (forall x, In x v -> phi x <= B) -> phi t <= CW + CW + B.
Proof.
  intros W Hv H HB Hb. unfold make_inter in H.
  pose proof (simplify_spec m v (m_full m) (m_empty m) Hv (c_full_o m (wf_consts m W)) (c_empty_o m (wf_consts m W))) as S.
  cbv zeta in S. set (v1 := simplify_set_operation v (m_full m) (m_empty m)) in *.
  destruct (contains v1 (m_eps m)).
  { inversion H; subst. destruct (forallb rnul v1); rewrite ?(phi_m_eps m' W), ?(phi_m_empty m' W); lia. }
  destruct S as [[E Hc] | S].
  - rewrite E in H. inversion H; subst m' t. rewrite (phi_m_empty m W). lia.
  - clearbody v1. destruct v1 as [|x [|y r]].
    + inversion H; subst. rewrite (phi_m_full m' W). lia.
    + inversion H; subst. assert (phi t <= B) by (apply Hb, S; left; reflexivity). lia.
    + apply make_rnode in H; [|exact W|exact I|intros c Hc; apply Hv, S; exact Hc].
      rewrite phi_nonunion; [|rewrite is_union_node, H; reflexivity]. rewrite pa_node, H.
      assert (lmax phi 2 (x :: y :: r) <= B); [|lia].
      apply lmax_le; [lia|]. intros z Hz. apply S in Hz as [Hz _]. apply Hb. exact Hz.
Qed.
Theorem inter_list_pot m l m' t B : wf m -> (forall x, In x l -> owned m x) ->
  inter_list m l = Some (m', t) -> 2 <= B -> (forall x, In x l -> phi x <= B) -> phi t <= CW + CW + B.
Proof.
  intros W Hl H HB Hb. unfold inter_list in H. destruct (flat_map_inter_ok m l W Hl) as [Ho _].
  apply (make_inter_pot m _ m' t B W Ho H HB). intros y Hy. apply in_flat_map in Hy as (x & Hx & Hy).
  apply flatten_inter_phi in Hy. specialize (Hb x Hx). lia.
Qed.

(* the virtual length is bounded by the potential *)
Lemma vl_le_pa : forall e, vl e <= pa e + 1.
Proof.
  induction e as [e IH] using re_induction. rewrite (vl_node e), (pa_node e).
  destruct (rnode e) as [| |s|a b|a [i [j|]]|a|l|l] eqn:K; unfold loop_pa, loop_vl; cbn [lpa lvl children] in *; try lia.
  - assert (Ha : vl a <= pa a + 1) by (apply IH; left; reflexivity).
    pose proof (phi_ge2 a). pose proof (vl_pos b). unfold phi in *. destruct (is_union a) eqn:U.
    + assert (vl a = 1); [|lia]. rewrite vl_node. unfold is_union in U. destruct (rnode a); try discriminate; reflexivity.
    + unfold CW in *. lia.
  - assert (Ha : vl a <= pa a + 1) by (apply IH; left; reflexivity). pose proof (phi_ge_pa a). pose proof (phi_ge2 a).
    destruct (Npred_ex j) as [->|[j' ->]]; [rewrite N.mul_0_l; lia|].
    replace (j' + 1 - 1) with j' by lia. replace ((j' + 1) * vl a) with (j' * vl a + vl a) by ring.
    assert (Hu : phi a = pa a -> vl a = 1).
    { intros Hp. unfold phi in Hp. destruct (is_union a) eqn:U; [|unfold CW in Hp; lia].
      rewrite vl_node. unfold is_union in U. destruct (rnode a); try discriminate; reflexivity. }
    destruct (N.eq_dec (phi a) (pa a)) as [Hp|Hp]; [rewrite (Hu Hp) in *; lia | lia].
  - assert (Ha : vl a <= pa a + 1) by (apply IH; left; reflexivity). pose proof (phi_ge_pa a). pose proof (phi_ge2 a).
    assert (Hu : phi a = pa a -> vl a = 1).
    { intros Hp. unfold phi in Hp. destruct (is_union a) eqn:U; [|unfold CW in Hp; lia].
      rewrite vl_node. unfold is_union in U. destruct (rnode a); try discriminate; reflexivity. }
    destruct (Npred_ex i) as [->|[i' ->]]; [rewrite N.mul_0_l; lia|].
    replace (i' + 1 - 1) with i' by lia. replace ((i' + 1) * vl a) with (i' * vl a + vl a) by ring.
    destruct (N.eq_dec (phi a) (pa a)) as [Hp|Hp]; [rewrite (Hu Hp) in *; lia | lia].
Qed.

