(* LiteralProofs.v -- specification and proofs for the string-literal model (Literal.v).

   Specification: [lit_parse_ref], the grammar-level reading of an SMT-LIB 2.6 string literal
   body with look-ahead, and [LitDenote], the same as a relation.

   Theorems (all inputs; no bound unless it is written in the statement):
     parse_is_ref        parse_smt_literal t = Some (lit_parse_ref t)            (any text; no panic)
     lit_ref_denote      LitDenote t w <-> w = lit_parse_ref t                    (the reference is the grammar)
     parse_denotes       parse_smt_literal t = Some w <-> LitDenote t w
     parse_good, parse_total_good                                                 (result is a good word)
     display_ascii, display_quote, roundtrip, display_injective                   (any good string)
     char_printers_ascii, char_roundtrip                                          (char_to_smt, smt_char_as_string)
     ctor_good_from_str / _from_char / _from_u32 / _from_slice / _from_vec        (C17)
   parse_is_ref is proved by induction on the text, generalised over the automaton configuration:
   [coh p used] relates (state, pending buffer, escape_code) to the part [used] of a possible
   escape sequence the look-ahead of the reference has to re-read; one step lemma per state.
   The per-character facts about the printers are finite statements over the 196608 code points
   0..0x2FFFF; they are checked by [vm_compute] over a complete binary-splitting enumeration
   ([cp_sweep], [all_code_points]) and lifted by [all_code_points_complete] (the bound is in its statement). *)
Require Import Base Literal.
Open Scope N_scope.

(* ================================================================== the reference reading *)

(* value of a sequence of hexadecimal digits, most significant first *)
Definition hexfold (acc : N) (h : list N) : N :=
  fold_left (fun a x => 16 * a + match hexval x with Some d => d | None => 0 end) h acc.
Definition hexvalue (h : list N) : N := hexfold 0 h.

(* longest prefix of at most n hexadecimal digits, and what follows *)
Fixpoint take_hex (n : nat) (t : list N) : list N * list N :=
  match n, t with
  | S k, x :: r => if is_hex x then (let (h, r') := take_hex k r in (x :: h, r')) else ([], t)
  | _, _ => ([], t)
  end.

(* does the text start with an escape sequence?  Some (code, number of characters it spans):
     \ u d d d d                       exactly four hex digits
     \ u { d .. d }                    one to five hex digits, value <= 0x2FFFF           *)
Definition try_escape (t : list N) : option (N * nat) :=
  match t with
  | a :: b :: r =>
      if (a =? 92) && (b =? 117) then
        match r with
        | c :: r' =>
            if c =? 123 then
              (let (h, r'') := take_hex 5 r' in
               match h, r'' with
               | _ :: _, d :: _ =>
                   if (d =? 125) && (hexvalue h <=? MAXC) then Some (hexvalue h, (4 + length h)%nat)
                   else None
               | _, _ => None
               end)
            else
              (let (h, _) := take_hex 4 r in
               if (length h =? 4)%nat then Some (hexvalue h, 6%nat) else None)
        | [] => None
        end
      else None
  | _ => None
  end.

(* at each position: an escape sequence is replaced by its code and skipped, any other character
   is copied (characters beyond MAX_CHAR as REPLACEMENT_CHAR).  [skip] = characters of an escape
   sequence still to be skipped. *)
Fixpoint ref_go (skip : nat) (t : list N) : list N :=
  match t with
  | [] => []
  | x :: r =>
      match skip with
      | S k => ref_go k r
      | O =>
          match try_escape t with
          | Some (v, n) => v :: ref_go (n - 1) r
          | None => clampc x :: ref_go 0 r
          end
      end
  end.
Definition lit_parse_ref (t : list N) : list N := ref_go 0 t.

(* the same as a relation: the SMT-LIB 2.6 escape sequences ... *)
Definition hexdigit (x : N) : Prop :=
  (48 <= x <= 57) \/ (97 <= x <= 102) \/ (65 <= x <= 70).
Definition digit_value (x : N) : N :=
  if x <=? 57 then x - 48 else if x <=? 70 then x - 55 else x - 87.
Fixpoint digits_value (acc : N) (h : list N) : N :=
  match h with [] => acc | x :: r => digits_value (16 * acc + digit_value x) r end.
Definition EscapeSeq (e : list N) (v : N) : Prop :=
  exists h, Forall hexdigit h /\ v = digits_value 0 h /\
    ((e = [92; 117] ++ h /\ length h = 4%nat) \/
     (e = [92; 117; 123] ++ h ++ [125] /\ (1 <= length h <= 5)%nat /\ v <= MAXC)).
(* ... and the reading of a text: escape sequences denote their code, a character at which no
   escape sequence starts denotes itself *)
Inductive LitDenote : list N -> list N -> Prop :=
| LD_nil : LitDenote [] []
| LD_esc : forall e v r w, EscapeSeq e v -> LitDenote r w -> LitDenote (e ++ r) (v :: w)
| LD_chr : forall x r w, (forall e v r', EscapeSeq e v -> x :: r <> e ++ r') ->
                         LitDenote r w -> LitDenote (x :: r) (clampc x :: w).

(* ================================================================== hexadecimal digits *)

Lemma is_hex_val x : is_hex x = true -> exists d, hexval x = Some d /\ d < 16.
Proof.
  unfold is_hex, hexval.
  destruct ((48 <=? x) && (x <=? 57)) eqn:E1.
  { intros _. apply andb_true_iff in E1. destruct E1 as [A B].
    apply N.leb_le in A. apply N.leb_le in B. eexists. split; [reflexivity | lia]. }
  destruct ((97 <=? x) && (x <=? 102)) eqn:E2.
  { intros _. apply andb_true_iff in E2. destruct E2 as [A B].
    apply N.leb_le in A. apply N.leb_le in B. eexists. split; [reflexivity | lia]. }
  destruct ((65 <=? x) && (x <=? 70)) eqn:E3.
  { intros _. apply andb_true_iff in E3. destruct E3 as [A B].
    apply N.leb_le in A. apply N.leb_le in B. eexists. split; [reflexivity | lia]. }
  discriminate.
Qed.

Lemma is_hex_iff x : is_hex x = true <-> hexdigit x.
Proof.
  unfold is_hex, hexval, hexdigit.
  destruct (N.leb_spec 48 x), (N.leb_spec x 57), (N.leb_spec 97 x), (N.leb_spec x 102),
    (N.leb_spec 65 x), (N.leb_spec x 70); cbn [andb]; split; intros HH; try discriminate;
    try reflexivity; try lia.
Qed.

Lemma hexval_digit_value x : is_hex x = true -> hexval x = Some (digit_value x).
Proof.
  intros HH. apply is_hex_iff in HH. unfold hexval, digit_value, hexdigit in *.
  destruct (N.leb_spec 48 x), (N.leb_spec x 57), (N.leb_spec 97 x), (N.leb_spec x 102),
    (N.leb_spec 65 x), (N.leb_spec x 70); cbn [andb]; try lia;
    destruct (N.leb_spec x 70); try lia; reflexivity.
Qed.

Lemma is_hex_range x : is_hex x = true -> 48 <= x <= 102.
Proof. intros H. apply is_hex_iff in H. unfold hexdigit in H. lia. Qed.

Lemma is_hex_plain x : is_hex x = true -> x <> 92 /\ x <= MAXC /\ x <> 123 /\ x <> 125 /\ x <> 117.
Proof. intros H. apply is_hex_iff in H. unfold hexdigit, MAXC in *. lia. Qed.

(* escape_code << 4 | hex  is  16 * escape_code + hex *)
Lemma lor_shift c h : h < 16 -> N.lor (N.shiftl c 4) h = 16 * c + h.
Proof.
  intros Hh.
  assert (E : h = 0 \/ h = 1 \/ h = 2 \/ h = 3 \/ h = 4 \/ h = 5 \/ h = 6 \/ h = 7 \/ h = 8 \/
              h = 9 \/ h = 10 \/ h = 11 \/ h = 12 \/ h = 13 \/ h = 14 \/ h = 15) by lia.
  repeat (destruct E as [E | E]; [subst h; destruct c; reflexivity | ]).
  subst h; destruct c; reflexivity.
Qed.

Lemma hexfold_app acc h1 h2 : hexfold acc (h1 ++ h2) = hexfold (hexfold acc h1) h2.
Proof. unfold hexfold. apply fold_left_app. Qed.

Lemma hexfold_snoc acc h x d : hexval x = Some d -> hexfold acc (h ++ [x]) = 16 * hexfold acc h + d.
Proof. intros H. rewrite hexfold_app. unfold hexfold at 1. cbn [fold_left]. rewrite H. reflexivity. Qed.

Definition all_hex (h : list N) : Prop := Forall (fun x => is_hex x = true) h.

Lemma hexfold_digits acc h : all_hex h -> hexfold acc h = digits_value acc h.
Proof.
  intros H. revert acc. induction H as [| x r Hx Hr IH]; intros acc; [reflexivity|].
  unfold hexfold in *. cbn [fold_left digits_value]. rewrite (hexval_digit_value x Hx). apply IH.
Qed.

(* ================================================================== take_hex *)

Definition hex_stops (r : list N) : Prop :=
  match r with [] => True | x :: _ => is_hex x = false end.

Lemma take_hex_intro n h r : all_hex h ->
  (length h = n \/ ((length h < n)%nat /\ hex_stops r)) -> take_hex n (h ++ r) = (h, r).
Proof.
  intros Hh. revert n. induction Hh as [| x h' Hx Hh' IH]; intros n Hn.
  - cbn [app length] in *. destruct Hn as [Hn | [Hn Hs]].
    + subst n. reflexivity.
    + destruct n; [lia|]. destruct r as [| y r']; [reflexivity|].
      cbn [take_hex]. cbn [hex_stops] in Hs. rewrite Hs. reflexivity.
  - cbn [app length] in *. destruct n as [| n]; [lia|].
    cbn [take_hex]. rewrite Hx. rewrite (IH n); [reflexivity|].
    destruct Hn as [Hn | [Hn Hs]]; [left; lia | right; split; [lia | exact Hs]].
Qed.

Lemma take_hex_elim n t h r : take_hex n t = (h, r) ->
  t = h ++ r /\ all_hex h /\ (length h <= n)%nat /\ (length h = n \/ hex_stops r).
Proof.
  revert t h r. induction n as [| n IH]; intros t h r H.
  - assert (E : h = [] /\ r = t) by (destruct t; cbn [take_hex] in H; inversion H; auto).
    destruct E; subst. split; [reflexivity|]. split; [constructor|]. split; [cbn [length]; lia|].
    left; reflexivity.
  - destruct t as [| x t'].
    + cbn [take_hex] in H. inversion H; subst.
      split; [reflexivity|]. split; [constructor|]. split; [cbn [length]; lia|]. right; exact I.
    + cbn [take_hex] in H. destruct (is_hex x) eqn:Hx.
      * destruct (take_hex n t') as [h' r'] eqn:E. inversion H; subst.
        destruct (IH _ _ _ E) as (A & B & C & D).
        split; [cbn [app]; rewrite A at 1; reflexivity|].
        split; [constructor; assumption|].
        split; [cbn [length]; lia|].
        cbn [length]. destruct D as [D | D]; [left; lia | right; exact D].
      * inversion H; subst.
        split; [reflexivity|]. split; [constructor|]. split; [cbn [length]; lia|].
        right. cbn [hex_stops]. exact Hx.
Qed.

(* ================================================================== ref_go, unfolded *)

Lemma ref_go_skip k t : ref_go k t = ref_go 0 (skipn k t).
Proof.
  revert k. induction t as [| x r IH]; intros k.
  - destruct k; reflexivity.
  - destruct k as [| k]; [reflexivity|]. cbn [ref_go skipn]. apply IH.
Qed.

Lemma ref_nil : lit_parse_ref [] = [].
Proof. reflexivity. Qed.

Lemma ref_plain x r : try_escape (x :: r) = None -> lit_parse_ref (x :: r) = clampc x :: lit_parse_ref r.
Proof. intros H. unfold lit_parse_ref. cbn [ref_go]. rewrite H. reflexivity. Qed.

Lemma ref_escape e r v : e <> [] -> try_escape (e ++ r) = Some (v, length e) ->
  lit_parse_ref (e ++ r) = v :: lit_parse_ref r.
Proof.
  intros Hne H. destruct e as [| x e']; [congruence|].
  unfold lit_parse_ref. cbn [app] in *. cbn [ref_go]. rewrite H.
  rewrite ref_go_skip. cbn [length]. replace (S (length e') - 1)%nat with (length e') by lia.
  rewrite skipn_app, skipn_all, Nat.sub_diag. reflexivity.
Qed.

Lemma try_escape_not_bs x r : x <> 92 -> try_escape (x :: r) = None.
Proof.
  intros H. unfold try_escape. destruct r as [| b r']; [reflexivity|].
  destruct (N.eqb_spec x 92); [contradiction|]. reflexivity.
Qed.

(* characters other than the backslash are copied *)
Definition plainc (c : N) : Prop := c <> 92 /\ c <= MAXC.

Lemma clampc_id c : c <= MAXC -> clampc c = c.
Proof. intros H. unfold clampc. apply N.leb_le in H. rewrite H. reflexivity. Qed.

Lemma ref_copy l t : Forall plainc l -> lit_parse_ref (l ++ t) = l ++ lit_parse_ref t.
Proof.
  intros H. induction H as [| c l' [Hc1 Hc2] Hl IH]; [reflexivity|].
  cbn [app]. rewrite ref_plain by (apply try_escape_not_bs; exact Hc1).
  rewrite clampc_id by exact Hc2. rewrite IH. reflexivity.
Qed.

Lemma all_hex_plain h : all_hex h -> Forall plainc h.
Proof.
  intros H. induction H as [| x r Hx Hr IH]; constructor; auto.
  destruct (is_hex_plain x Hx) as (A & B & _). split; assumption.
Qed.

(* a backslash at which no escape sequence starts is copied, and so is a following run of
   plain characters *)
Lemma ref_bs_copy l t : Forall plainc l -> try_escape (92 :: l ++ t) = None ->
  lit_parse_ref (92 :: l ++ t) = 92 :: l ++ lit_parse_ref t.
Proof.
  intros Hl H. rewrite ref_plain by exact H. rewrite clampc_id by (unfold MAXC; lia).
  rewrite ref_copy by exact Hl. reflexivity.
Qed.

(* ================================================================== try_escape: the cases *)

Lemma all_hex_hd_not_brace h r c r' : all_hex h -> h <> [] -> h ++ r = c :: r' -> (c =? 123) = false.
Proof.
  intros Hh Hne E. destruct h as [| y h']; [congruence|]. cbn [app] in E. inversion E; subst.
  inversion Hh; subst. destruct (is_hex_plain c H1) as (_ & _ & A & _). apply N.eqb_neq. exact A.
Qed.

(* \ u d d d d *)
Lemma try_escape_four h r : all_hex h -> length h = 4%nat ->
  try_escape (92 :: 117 :: h ++ r) = Some (hexvalue h, 6%nat).
Proof.
  intros Hh Hl. unfold try_escape. cbn [N.eqb Pos.eqb andb].
  destruct (h ++ r) as [| c r'] eqn:E.
  { destruct h; cbn [length] in Hl; [lia | discriminate]. }
  rewrite (all_hex_hd_not_brace h r c r' Hh) by (first [exact E | destruct h; cbn [length] in Hl; [lia | discriminate]]).
  rewrite <- E. rewrite (take_hex_intro 4 h r Hh) by (left; exact Hl).
  rewrite Hl. reflexivity.
Qed.

(* \ u { d .. d } *)
Lemma try_escape_brace h r : all_hex h -> (1 <= length h <= 5)%nat -> hexvalue h <= MAXC ->
  try_escape (92 :: 117 :: 123 :: h ++ 125 :: r) = Some (hexvalue h, (4 + length h)%nat).
Proof.
  intros Hh Hl Hv. unfold try_escape. cbn [N.eqb Pos.eqb andb].
  rewrite (take_hex_intro 5 h (125 :: r) Hh).
  2:{ destruct (Nat.eq_dec (length h) 5) as [E | E]; [left; exact E | right; split; [lia | reflexivity]]. }
  destruct h as [| y h']; [cbn [length] in Hl; lia|].
  cbn [N.eqb Pos.eqb andb]. apply N.leb_le in Hv. rewrite Hv. reflexivity.
Qed.

(* \ followed by something else than u *)
Lemma try_escape_slash tail :
  match tail with [] => True | x :: _ => x <> 117 end -> try_escape (92 :: tail) = None.
Proof.
  intros H. unfold try_escape. destruct tail as [| x r]; [reflexivity|].
  cbn [N.eqb Pos.eqb andb]. apply N.eqb_neq in H. rewrite H. reflexivity.
Qed.

(* \ u followed by neither { nor a hex digit *)
Lemma try_escape_slash_u tail :
  match tail with [] => True | x :: _ => x <> 123 /\ is_hex x = false end ->
  try_escape (92 :: 117 :: tail) = None.
Proof.
  intros H. unfold try_escape. cbn [N.eqb Pos.eqb andb]. destruct tail as [| x r]; [reflexivity|].
  destruct H as [H1 H2]. apply N.eqb_neq in H1. rewrite H1.
  cbn [take_hex]. rewrite H2. reflexivity.
Qed.

(* \ u and one to three hex digits, followed by no hex digit *)
Lemma try_escape_slash_u_hex h tail : all_hex h -> (1 <= length h <= 3)%nat -> hex_stops tail ->
  try_escape (92 :: 117 :: h ++ tail) = None.
Proof.
  intros Hh Hl Hs. unfold try_escape. cbn [N.eqb Pos.eqb andb].
  destruct (h ++ tail) as [| c r'] eqn:E.
  { reflexivity. }
  rewrite (all_hex_hd_not_brace h tail c r' Hh) by (first [exact E | destruct h; cbn [length] in Hl; [lia | discriminate]]).
  rewrite <- E. rewrite (take_hex_intro 4 h tail Hh) by (right; split; [lia | exact Hs]).
  destruct (Nat.eqb_spec (length h) 4); [lia | reflexivity].
Qed.

(* \ u { and at most five hex digits, not followed by what would continue or close the escape *)
Definition brace_stop (h tail : list N) : Prop :=
  match tail with
  | [] => True
  | x :: _ => ~ (x = 125 /\ (1 <= length h)%nat /\ hexvalue h <= MAXC) /\
              (is_hex x = true -> length h = 5%nat)
  end.

Lemma try_escape_slash_u_brace h tail : all_hex h -> (length h <= 5)%nat -> brace_stop h tail ->
  try_escape (92 :: 117 :: 123 :: h ++ tail) = None.
Proof.
  intros Hh Hl Hs. unfold try_escape. cbn [N.eqb Pos.eqb andb].
  rewrite (take_hex_intro 5 h tail Hh).
  2:{ destruct (Nat.eq_dec (length h) 5) as [E | E]; [left; exact E | right; split; [lia|]].
      destruct tail as [| x r]; [exact I|]. cbn [hex_stops]. destruct Hs as [_ Hs].
      destruct (is_hex x); [specialize (Hs eq_refl); lia | reflexivity]. }
  destruct h as [| y h']; [reflexivity|]. destruct tail as [| x r]; [reflexivity|].
  destruct Hs as [Hs _].
  destruct (N.eqb_spec x 125) as [Ex | Ex]; [|reflexivity].
  destruct (N.leb_spec (hexvalue (y :: h')) MAXC) as [Ev | Ev]; [|reflexivity].
  exfalso. apply Hs. split; [exact Ex|]. split; [cbn [length]; lia | exact Ev].
Qed.

(* ================================================================== the pending array *)

(* [pview p used]: the filled part of the 9-slot array is [used] *)
Definition pview (p : pa) (used : list N) : Prop :=
  exists rest, pa_buf p = used ++ rest /\ (length used + length rest = 9)%nat /\ pa_idx p = length used.

Lemma upd_app used y rest x : lit_upd (used ++ y :: rest) (length used) x = Some (used ++ x :: rest).
Proof.
  induction used as [| a u IH]; [reflexivity|].
  cbn [app length lit_upd]. rewrite IH. reflexivity.
Qed.

Lemma pview_len p used : pview p used -> length (pa_buf p) = 9%nat /\ pa_idx p = length used /\ (length used <= 9)%nat.
Proof.
  intros (rest & A & B & C). rewrite A, app_length. repeat split; [exact B | exact C | lia].
Qed.

Lemma pview_nil st sf pe ec : length pe = 9%nat -> pview (mkpa st sf pe 0 ec) [].
Proof. intros H. exists pe. cbn [pa_buf pa_idx app length]. repeat split; auto. Qed.

Lemma pending_view p used x : pview p used -> (length used < 9)%nat ->
  exists a, pa_pending p x = Some (mkpa (pa_state p) (pa_so_far p) a (S (pa_idx p)) (pa_code p)) /\
            forall st sf ec, pview (mkpa st sf a (S (pa_idx p)) ec) (used ++ [x]).
Proof.
  intros (rest & A & B & C) Hl. unfold pa_pending.
  destruct (Nat.ltb_spec (pa_idx p) 9) as [Hi | Hi]; [| lia].
  destruct rest as [| y rest']; [cbn [length] in B; lia|].
  rewrite A, C, upd_app. cbn [bind]. eexists. split; [reflexivity|].
  intros st sf ec. exists rest'. cbn [pa_buf pa_idx]. rewrite <- app_assoc. cbn [app].
  split; [reflexivity|]. rewrite app_length. cbn [length] in *. split; lia.
Qed.

Lemma flush_view p used : pview p used ->
  pa_flush_pending p = Some (mkpa LInit (pa_so_far p ++ used) (pa_buf p) 0 0).
Proof.
  intros (rest & A & B & C). unfold pa_flush_pending.
  destruct (Nat.leb_spec (pa_idx p) (length (pa_buf p))) as [Hi | Hi].
  2:{ rewrite A, app_length in Hi. lia. }
  rewrite C. rewrite A at 1. rewrite firstn_app, firstn_all, Nat.sub_diag. cbn [firstn].
  rewrite app_nil_r. reflexivity.
Qed.

(* ================================================================== one step of the automaton *)

(* the automaton's state and pending buffer describe how far the look-ahead of the reference
   reading has got into a possible escape sequence *)
Definition coh (p : pa) (used : list N) : Prop :=
  pview p used /\
  match pa_state p with
  | LInit => used = [] /\ pa_code p = 0
  | LAfterSlash => used = [92] /\ pa_code p = 0
  | LAfterSlashU => used = [92; 117] /\ pa_code p = 0
  | LAfterSlashUHex =>
      exists h, used = 92 :: 117 :: h /\ all_hex h /\ (1 <= length h <= 3)%nat /\ pa_code p = hexvalue h
  | LAfterSlashUBrace =>
      exists h, used = 92 :: 117 :: 123 :: h /\ all_hex h /\ (length h <= 5)%nat /\ pa_code p = hexvalue h
  end.

(* what one step must establish: a new coherent configuration that accounts for the same
   reading of used ++ x :: r, for every continuation r *)
Definition step_ok (p : pa) (used : list N) (x : N) (o : option pa) : Prop :=
  exists q used', o = Some q /\ coh q used' /\
    forall r, pa_so_far q ++ lit_parse_ref (used' ++ r) = pa_so_far p ++ lit_parse_ref (used ++ x :: r).

Lemma coh_init : coh new_parsing_automaton [].
Proof. split; [apply pview_nil; reflexivity | split; reflexivity]. Qed.

(* Init: consume *)
Lemma consume_step p x : pa_state p = LInit -> coh p [] -> step_ok p [] x (pa_consume p x).
Proof.
  intros Hst [Hv Hc]. rewrite Hst in Hc. destruct Hc as [_ Hec]. unfold step_ok, pa_consume.
  destruct (N.eqb_spec x 92) as [E | E].
  - subst x. destruct (pending_view p [] 92 Hv) as (a & Hp & Hq); [cbn [length]; lia|].
    rewrite Hp. cbn [bind]. eexists. exists [92]. split; [reflexivity|]. split.
    + split; [apply (Hq LAfterSlash) | ]. cbn [pa_set_state pa_state pa_code]. split; [reflexivity|].
      exact Hec.
    + intros r. reflexivity.
  - exists (pa_push p x), []. split; [reflexivity|]. split.
    + unfold pa_push. destruct Hv as (rest & A & B & C). split.
      * exists rest. cbn [pa_buf pa_idx]. auto.
      * cbn [pa_state pa_code]. rewrite Hst. split; [reflexivity|]. exact Hec.
    + intros r. cbn [app pa_push pa_so_far]. rewrite ref_plain by (apply try_escape_not_bs; exact E).
      rewrite <- app_assoc. reflexivity.
Qed.

(* flush_pending; consume(x): the pending characters were no escape sequence and are copied *)
Lemma flush_consume_step p used x : coh p used ->
  (forall r, lit_parse_ref (used ++ x :: r) = used ++ lit_parse_ref (x :: r)) ->
  step_ok p used x (do q <- pa_flush_pending p; pa_consume q x).
Proof.
  intros [Hv _] Hcopy. rewrite (flush_view p used Hv). cbn [bind].
  destruct (pview_len _ _ Hv) as (H9 & _ & _).
  set (p0 := mkpa LInit (pa_so_far p ++ used) (pa_buf p) 0 0).
  assert (C0 : coh p0 []).
  { split; [apply pview_nil; exact H9 | split; reflexivity]. }
  destruct (consume_step p0 x eq_refl C0) as (q & used' & Hq & Hc & He).
  exists q, used'. split; [exact Hq|]. split; [exact Hc|].
  intros r. rewrite (He r). unfold p0. cbn [pa_so_far app]. rewrite Hcopy, <- app_assoc. reflexivity.
Qed.

Lemma add_hex_view p used x : pview p used -> (length used < 9)%nat -> is_hex x = true ->
  exists a d, hexval x = Some d /\
    pa_add_hex p x = Some (mkpa (pa_state p) (pa_so_far p) a (S (pa_idx p)) (16 * pa_code p + d)) /\
    forall st sf ec, pview (mkpa st sf a (S (pa_idx p)) ec) (used ++ [x]).
Proof.
  intros Hv Hl Hx. destruct (is_hex_val x Hx) as (d & Hd & Hd16).
  unfold pa_add_hex. rewrite Hd. cbn [bind].
  set (p1 := mkpa (pa_state p) (pa_so_far p) (pa_buf p) (pa_idx p) (N.lor (N.shiftl (pa_code p) 4) d)).
  assert (Hv1 : pview p1 used) by exact Hv.
  destruct (pending_view p1 used x Hv1 Hl) as (a & Hp & Hq).
  exists a, d. split; [reflexivity|]. split; [| exact Hq].
  rewrite Hp. unfold p1. cbn [pa_state pa_so_far pa_idx pa_code]. rewrite lor_shift by exact Hd16. reflexivity.
Qed.

Lemma all_hex_snoc h x : all_hex h -> is_hex x = true -> all_hex (h ++ [x]).
Proof. intros A B. apply Forall_app. split; [exact A | constructor; [exact B | constructor]]. Qed.

(* AfterSlash *)
Lemma step_after_slash p x : pa_state p = LAfterSlash -> coh p [92] -> step_ok p [92] x (pa_accept p x).
Proof.
  intros Hst Hc. unfold pa_accept. rewrite Hst. destruct (N.eqb_spec x 117) as [E | E].
  - subst x. destruct Hc as [Hv Hc]. rewrite Hst in Hc. destruct Hc as [_ Hec].
    destruct (pending_view p [92] 117 Hv) as (a & Hp & Hq); [cbn [length]; lia|].
    rewrite Hp. cbn [bind]. eexists. exists [92; 117]. split; [reflexivity|]. split.
    + split; [apply (Hq LAfterSlashU)|]. cbn [pa_set_state pa_state pa_code]. split; [reflexivity | exact Hec].
    + intros r. reflexivity.
  - apply flush_consume_step; [exact Hc|]. intros r.
    apply (ref_bs_copy [] (x :: r)); [constructor|]. apply try_escape_slash. exact E.
Qed.

(* AfterSlashU *)
Lemma step_after_slash_u p x : pa_state p = LAfterSlashU -> coh p [92; 117] ->
  step_ok p [92; 117] x (pa_accept p x).
Proof.
  intros Hst Hc. unfold pa_accept. rewrite Hst.
  assert (Hc' := Hc). destruct Hc' as [Hv Hc']. rewrite Hst in Hc'. destruct Hc' as [_ Hec].
  destruct (N.eqb_spec x 123) as [E | E].
  - subst x. destruct (pending_view p [92; 117] 123 Hv) as (a & Hp & Hq); [cbn [length]; lia|].
    rewrite Hp. cbn [bind]. eexists. exists [92; 117; 123]. split; [reflexivity|]. split.
    + split; [apply (Hq LAfterSlashUBrace)|]. cbn [pa_set_state pa_state pa_code].
      exists []. split; [reflexivity|]. split; [constructor|]. split; [cbn [length]; lia | exact Hec].
    + intros r. reflexivity.
  - destruct (is_hex x) eqn:Hx.
    + destruct (add_hex_view p [92; 117] x Hv) as (a & d & Hd & Ha & Hq); [cbn [length]; lia | exact Hx |].
      rewrite Ha. cbn [bind]. eexists. exists [92; 117; x]. split; [reflexivity|]. split.
      * split; [apply (Hq LAfterSlashUHex)|]. cbn [pa_set_state pa_state pa_code].
        exists [x]. split; [reflexivity|]. split; [constructor; [exact Hx | constructor]|].
        split; [cbn [length]; lia|]. rewrite Hec. unfold hexvalue, hexfold. cbn [fold_left].
        rewrite Hd. reflexivity.
      * intros r. reflexivity.
    + apply flush_consume_step; [exact Hc|]. intros r.
      apply (ref_bs_copy [117] (x :: r)).
      * constructor; [split; unfold MAXC; lia | constructor].
      * apply try_escape_slash_u. split; assumption.
Qed.

(* AfterSlashUHex *)
Lemma step_after_slash_u_hex p x used : pa_state p = LAfterSlashUHex -> coh p used ->
  step_ok p used x (pa_accept p x).
Proof.
  intros Hst Hc. unfold pa_accept. rewrite Hst.
  assert (Hc' := Hc). destruct Hc' as [Hv Hc']. rewrite Hst in Hc'.
  destruct Hc' as (h & Hu & Hh & Hl & Hec).
  destruct (pview_len _ _ Hv) as (H9 & Hidx & _).
  destruct (is_hex x) eqn:Hx.
  - destruct (add_hex_view p used x Hv) as (a & d & Hd & Ha & Hq);
      [subst used; cbn [length]; lia | exact Hx |].
    rewrite Ha. cbn [bind pa_idx].
    assert (Hval : 16 * pa_code p + d = hexvalue (h ++ [x])).
    { rewrite Hec. unfold hexvalue. rewrite (hexfold_snoc 0 h x d Hd). reflexivity. }
    assert (Hlen : pa_idx p = (2 + length h)%nat) by (rewrite Hidx, Hu; reflexivity).
    destruct (Nat.eqb_spec (S (pa_idx p)) 6) as [E6 | E6].
    + (* fourth digit: the escape sequence is complete *)
      eexists. exists []. split; [reflexivity|]. split.
      * unfold pa_close_escape_seq. cbn [pa_so_far pa_buf pa_code].
        split; [apply pview_nil | split; reflexivity].
        destruct (pview_len _ _ (Hq LInit [] 0)) as (L & _ & _). exact L.
      * intros r. unfold pa_close_escape_seq. cbn [pa_so_far pa_buf pa_code app].
        rewrite Hval, Hu. cbn [app].
        replace (92 :: 117 :: h ++ x :: r) with ((92 :: 117 :: h ++ [x]) ++ r)
          by (cbn [app]; rewrite <- app_assoc; reflexivity).
        rewrite (ref_escape (92 :: 117 :: h ++ [x]) r (hexvalue (h ++ [x]))).
        -- rewrite <- app_assoc. reflexivity.
        -- discriminate.
        -- cbn [app]. rewrite try_escape_four;
             [| apply all_hex_snoc; assumption | rewrite app_length; cbn [length]; lia].
           cbn [length]. rewrite app_length. cbn [length]. do 2 f_equal. lia.
    + eexists. exists (used ++ [x]). split; [reflexivity|]. split.
      * split; [apply Hq|]. cbn [pa_state pa_code]. rewrite Hst.
        exists (h ++ [x]). split; [rewrite Hu; reflexivity|].
        split; [apply all_hex_snoc; assumption|].
        split; [rewrite app_length; cbn [length]; lia | exact Hval].
      * intros r. cbn [pa_so_far]. rewrite <- app_assoc. reflexivity.
  - apply flush_consume_step; [exact Hc|]. intros r. rewrite Hu.
    apply (ref_bs_copy (117 :: h) (x :: r)).
    + constructor; [split; unfold MAXC; lia | apply all_hex_plain; exact Hh].
    + cbn [app]. apply try_escape_slash_u_hex; [exact Hh | exact Hl | exact Hx].
Qed.

(* AfterSlashUBrace *)
Lemma step_after_slash_u_brace p x used : pa_state p = LAfterSlashUBrace -> coh p used ->
  step_ok p used x (pa_accept p x).
Proof.
  intros Hst Hc. unfold pa_accept. rewrite Hst.
  assert (Hc' := Hc). destruct Hc' as [Hv Hc']. rewrite Hst in Hc'.
  destruct Hc' as (h & Hu & Hh & Hl & Hec).
  destruct (pview_len _ _ Hv) as (H9 & Hidx & _).
  assert (Hlen : pa_idx p = (3 + length h)%nat) by (rewrite Hidx, Hu; reflexivity).
  destruct ((x =? 125) && (3 <? pa_idx p)%nat && (pa_code p <=? MAXC)) eqn:C1.
  - (* closing brace after at least one digit, value in range *)
    apply andb_true_iff in C1. destruct C1 as [C1 C13]. apply andb_true_iff in C1.
    destruct C1 as [C11 C12].
    apply N.eqb_eq in C11. apply Nat.ltb_lt in C12. apply N.leb_le in C13. subst x.
    eexists. exists []. split; [reflexivity|]. split.
    + unfold pa_close_escape_seq. split; [apply pview_nil; exact H9 | split; reflexivity].
    + intros r. unfold pa_close_escape_seq. cbn [pa_so_far app]. rewrite Hu, Hec.
      replace ((92 :: 117 :: 123 :: h) ++ 125 :: r) with ((92 :: 117 :: 123 :: h ++ [125]) ++ r)
        by (cbn [app]; rewrite <- app_assoc; reflexivity).
      rewrite (ref_escape (92 :: 117 :: 123 :: h ++ [125]) r (hexvalue h)).
      * rewrite <- app_assoc. reflexivity.
      * discriminate.
      * cbn [app]. rewrite <- app_assoc. cbn [app].
        rewrite try_escape_brace; [| exact Hh | lia | rewrite <- Hec; exact C13].
        cbn [length]. rewrite app_length. cbn [length]. do 2 f_equal. lia.
  - destruct (is_hex x && (pa_idx p <? 8)%nat) eqn:C2.
    + (* one more digit *)
      apply andb_true_iff in C2. destruct C2 as [Hx C22]. apply Nat.ltb_lt in C22.
      destruct (add_hex_view p used x Hv) as (a & d & Hd & Ha & Hq); [lia | exact Hx |].
      rewrite Ha. eexists. exists (used ++ [x]). split; [reflexivity|]. split.
      * split; [apply Hq|]. cbn [pa_state pa_code]. rewrite Hst.
        exists (h ++ [x]). split; [rewrite Hu; reflexivity|].
        split; [apply all_hex_snoc; assumption|].
        split; [rewrite app_length; cbn [length]; lia|].
        rewrite Hec. unfold hexvalue. rewrite (hexfold_snoc 0 h x d Hd). reflexivity.
      * intros r. cbn [pa_so_far]. rewrite <- app_assoc. reflexivity.
    + (* malformed or out of range: copied *)
      apply flush_consume_step; [exact Hc|]. intros r. rewrite Hu.
      apply (ref_bs_copy (117 :: 123 :: h) (x :: r)).
      * constructor; [split; unfold MAXC; lia|].
        constructor; [split; unfold MAXC; lia | apply all_hex_plain; exact Hh].
      * cbn [app]. apply try_escape_slash_u_brace; [exact Hh | exact Hl |]. cbn [brace_stop]. split.
        -- intros (A & B & C).
           assert (T1 : (x =? 125) = true) by (apply N.eqb_eq; exact A).
           assert (T2 : (3 <? pa_idx p)%nat = true) by (apply Nat.ltb_lt; lia).
           assert (T3 : (pa_code p <=? MAXC) = true) by (apply N.leb_le; rewrite Hec; exact C).
           rewrite T1, T2, T3 in C1. discriminate.
        -- intros Hx. rewrite Hx in C2. cbn [andb] in C2. apply Nat.ltb_ge in C2. lia.
Qed.

(* one lemma for all states *)
Lemma accept_step p used x : coh p used -> step_ok p used x (pa_accept p x).
Proof.
  intros Hc. destruct (pa_state p) eqn:Hst.
  - assert (E : used = []) by (destruct Hc as [_ Hc]; rewrite Hst in Hc; apply Hc). subst used.
    unfold pa_accept. rewrite Hst. apply consume_step; assumption.
  - assert (E : used = [92]) by (destruct Hc as [_ Hc]; rewrite Hst in Hc; apply Hc). subst used.
    apply step_after_slash; assumption.
  - assert (E : used = [92; 117]) by (destruct Hc as [_ Hc]; rewrite Hst in Hc; apply Hc). subst used.
    apply step_after_slash_u; assumption.
  - apply step_after_slash_u_hex; assumption.
  - apply step_after_slash_u_brace; assumption.
Qed.

(* at the end of the text the pending characters are an incomplete escape sequence: copied *)
Lemma ref_partial p used : coh p used -> lit_parse_ref used = used.
Proof.
  intros [_ Hc]. destruct (pa_state p).
  - destruct Hc as [E _]; subst. reflexivity.
  - destruct Hc as [E _]; subst.
    apply (ref_bs_copy [] []); [constructor | apply try_escape_slash; exact I].
  - destruct Hc as [E _]; subst.
    apply (ref_bs_copy [117] []); [constructor; [split; unfold MAXC; lia | constructor]|].
    apply try_escape_slash_u; exact I.
  - destruct Hc as (h & E & Hh & Hl & _); subst.
    generalize (ref_bs_copy (117 :: h) []). rewrite ref_nil, !app_nil_r. intros R. apply R.
    + constructor; [split; unfold MAXC; lia | apply all_hex_plain; exact Hh].
    + generalize (try_escape_slash_u_hex h [] Hh Hl I). rewrite app_nil_r. intros T; exact T.
  - destruct Hc as (h & E & Hh & Hl & _); subst.
    generalize (ref_bs_copy (117 :: 123 :: h) []). rewrite ref_nil, !app_nil_r. intros R. apply R.
    + constructor; [split; unfold MAXC; lia|].
      constructor; [split; unfold MAXC; lia | apply all_hex_plain; exact Hh].
    + generalize (try_escape_slash_u_brace h [] Hh Hl I). rewrite app_nil_r. intros T; exact T.
Qed.

Lemma run_ref t : forall p used, coh p used ->
  exists q q', pa_run p t = Some q /\ pa_flush_pending q = Some q' /\
               pa_so_far q' = pa_so_far p ++ lit_parse_ref (used ++ t).
Proof.
  induction t as [| x r IH]; intros p used Hc.
  - exists p. eexists. split; [reflexivity|]. destruct Hc as [Hv Hc'].
    split; [apply (flush_view p used Hv)|]. cbn [pa_so_far]. rewrite app_nil_r.
    rewrite (ref_partial p used); [reflexivity | split; assumption].
  - destruct (accept_step p used x Hc) as (q & used' & Hq & Hcq & He).
    destruct (IH q used' Hcq) as (q1 & q2 & R1 & R2 & R3).
    exists q1, q2. cbn [pa_run]. rewrite Hq. cbn [bind]. split; [exact R1|]. split; [exact R2|].
    rewrite R3. apply He.
Qed.

(* ------------------------------------------------------------------ C08: parsing *)
Theorem parse_is_ref : forall text, parse_smt_literal text = Some (lit_parse_ref text).
Proof.
  intros t. destruct (run_ref t new_parsing_automaton [] coh_init) as (q & q' & R1 & R2 & R3).
  unfold parse_smt_literal. rewrite R1. cbn [bind]. rewrite R2. cbn [bind]. rewrite R3. reflexivity.
Qed.

(* ================================================================== complete enumeration of 0..0x2FFFF *)

(* f holds on [lo, lo + 2^k): binary splitting (2^16 leaves per call below, never a unary number) *)
Fixpoint cp_sweep (f : N -> bool) (k : nat) (lo : N) : bool :=
  match k with
  | O => f lo
  | S j => cp_sweep f j lo && cp_sweep f j (lo + N.shiftl 1 (N.of_nat j))
  end.

Lemma cp_sweep_complete f k : forall lo, cp_sweep f k lo = true ->
  forall x, lo <= x < lo + 2 ^ N.of_nat k -> f x = true.
Proof.
  induction k as [| j IH]; intros lo H x Hx.
  - cbn [cp_sweep] in H. change (2 ^ N.of_nat 0) with 1 in Hx. replace x with lo by lia. exact H.
  - cbn [cp_sweep] in H. apply andb_true_iff in H. destruct H as [H1 H2].
    rewrite N.shiftl_1_l in H2.
    rewrite Nat2N.inj_succ, N.pow_succ_r' in Hx.
    destruct (N.lt_ge_cases x (lo + 2 ^ N.of_nat j)) as [L | L].
    + apply (IH lo H1). lia.
    + apply (IH _ H2). lia.
Qed.

Definition all_code_points (f : N -> bool) : bool :=
  cp_sweep f 16 0 && cp_sweep f 16 65536 && cp_sweep f 16 131072.

(* 0x30000 = 3 * 2^16 *)
Lemma all_code_points_complete f : all_code_points f = true -> forall x, x <= MAXC -> f x = true.
Proof.
  unfold all_code_points, MAXC. intros H x Hx.
  apply andb_true_iff in H. destruct H as [H H3]. apply andb_true_iff in H. destruct H as [H1 H2].
  change 65536 with (2 ^ N.of_nat 16) in *.
  destruct (N.lt_ge_cases x (2 ^ N.of_nat 16)) as [L | L].
  { apply (cp_sweep_complete f 16 0 H1). lia. }
  destruct (N.lt_ge_cases x (2 ^ N.of_nat 16 + 2 ^ N.of_nat 16)) as [L2 | L2].
  { apply (cp_sweep_complete f 16 _ H2). lia. }
  apply (cp_sweep_complete f 16 131072 H3).
  change (2 ^ N.of_nat 16) with 65536 in *. lia.
Qed.

(* ================================================================== the printers, per character *)

Definition ascii_printable (c : N) : bool := (32 <=? c) && (c <=? 126).
Definition no_quote (l : list N) : bool := forallb (fun c => negb (c =? 34)) l.

(* [reads_as l v]: the text l is one plain character v, or exactly one escape sequence of value v *)
Definition reads_as (l : list N) (v : N) : bool :=
  match l with
  | [c] => (c =? v) && negb (c =? 92) && (c <=? MAXC)
  | a :: b :: c :: r =>
      (a =? 92) && (b =? 117) &&
      (if c =? 123 then
         match take_hex 5 r with
         | (h, [d]) => (d =? 125) && (1 <=? length h)%nat && (hexvalue h =? v) && (v <=? MAXC)
         | _ => false
         end
       else
         match take_hex 4 (c :: r) with
         | (h, []) => (length h =? 4)%nat && (hexvalue h =? v)
         | _ => false
         end)
  | _ => false
  end.

(* ... and then it reads as v in front of any continuation *)
Lemma reads_as_ref l v rest : reads_as l v = true ->
  lit_parse_ref (l ++ rest) = v :: lit_parse_ref rest.
Proof.
  unfold reads_as. intros H.
  destruct l as [| a [| b [| c r]]]; try discriminate.
  - apply andb_true_iff in H. destruct H as [H H3]. apply andb_true_iff in H. destruct H as [H1 H2].
    apply N.eqb_eq in H1. subst v. apply negb_true_iff in H2. apply N.eqb_neq in H2.
    apply N.leb_le in H3. cbn [app].
    rewrite ref_plain by (apply try_escape_not_bs; exact H2). rewrite clampc_id by exact H3. reflexivity.
  - apply andb_true_iff in H. destruct H as [H H3]. apply andb_true_iff in H. destruct H as [H1 H2].
    apply N.eqb_eq in H1. apply N.eqb_eq in H2. subst a b.
    destruct (N.eqb_spec c 123) as [Ec | Ec].
    + subst c. destruct (take_hex 5 r) as [h r2] eqn:E.
      destruct r2 as [| d [| d2 r3]]; try discriminate.
      apply andb_true_iff in H3. destruct H3 as [H3 H7]. apply andb_true_iff in H3.
      destruct H3 as [H3 H6]. apply andb_true_iff in H3. destruct H3 as [H4 H5].
      apply N.eqb_eq in H4. apply Nat.leb_le in H5. apply N.eqb_eq in H6. apply N.leb_le in H7.
      subst d. destruct (take_hex_elim _ _ _ _ E) as (A & B & C & _). subst r.
      rewrite (ref_escape (92 :: 117 :: 123 :: h ++ [125]) rest v).
      * reflexivity.
      * discriminate.
      * cbn [app]. rewrite <- app_assoc. cbn [app].
        rewrite try_escape_brace; [| exact B | lia | rewrite H6; exact H7].
        rewrite H6. cbn [length]. rewrite app_length. cbn [length]. do 2 f_equal. lia.
    + destruct (take_hex 4 (c :: r)) as [h r2] eqn:E.
      destruct r2 as [| d r3]; try discriminate.
      apply andb_true_iff in H3. destruct H3 as [H4 H5].
      apply Nat.eqb_eq in H4. apply N.eqb_eq in H5.
      destruct (take_hex_elim _ _ _ _ E) as (A & B & _). rewrite app_nil_r in A. rewrite A.
      rewrite (ref_escape (92 :: 117 :: h) rest v).
      * reflexivity.
      * discriminate.
      * cbn [app]. rewrite try_escape_four; [| exact B | exact H4].
        rewrite H5. cbn [length]. rewrite H4. reflexivity.
Qed.

(* the text of one character once doubled quotes are undone *)
Definition unq_char (x : N) : list N := if x =? 34 then [34] else fmt_char x.

(* the finite statement checked for every code point *)
Definition check_char (x : N) : bool :=
  forallb ascii_printable (fmt_char x) &&
  (if x =? 34 then true else no_quote (fmt_char x)) &&
  reads_as (unq_char x) x.

Lemma check_all_code_points : all_code_points check_char = true.
Proof. vm_compute. reflexivity. Qed.

Lemma check_char_ok x : x <= MAXC -> check_char x = true.
Proof. apply all_code_points_complete. exact check_all_code_points. Qed.

Lemma fmt_char_quote : fmt_char 34 = [34; 34].
Proof. reflexivity. Qed.

(* the three printers are the same function *)
Lemma smt_char_as_string_fmt x : smt_char_as_string x = fmt_char x.
Proof. reflexivity. Qed.
Lemma char_to_smt_fmt x : char_to_smt x = fmt_char x.
Proof. reflexivity. Qed.

Lemma char_ascii x : x <= MAXC -> Forall (fun c => 32 <= c <= 126) (fmt_char x).
Proof.
  intros Hx. generalize (check_char_ok x Hx). unfold check_char. intros H.
  apply andb_true_iff in H. destruct H as [H _]. apply andb_true_iff in H. destruct H as [H _].
  rewrite forallb_forall in H. apply Forall_forall. intros c Hc. specialize (H c Hc).
  unfold ascii_printable in H. apply andb_true_iff in H. destruct H as [A B].
  apply N.leb_le in A. apply N.leb_le in B. lia.
Qed.

Lemma char_no_quote x : x <= MAXC -> x <> 34 -> ~ In 34 (fmt_char x).
Proof.
  intros Hx Hq. generalize (check_char_ok x Hx). unfold check_char. intros H.
  apply andb_true_iff in H. destruct H as [H _]. apply andb_true_iff in H. destruct H as [_ H].
  apply N.eqb_neq in Hq. rewrite Hq in H. unfold no_quote in H. rewrite forallb_forall in H.
  intros Hin. specialize (H 34 Hin). discriminate.
Qed.

Lemma char_reads x rest : x <= MAXC ->
  lit_parse_ref (unq_char x ++ rest) = x :: lit_parse_ref rest.
Proof.
  intros Hx. apply reads_as_ref. generalize (check_char_ok x Hx). unfold check_char. intros H.
  apply andb_true_iff in H. destruct H as [_ H]. exact H.
Qed.

(* ================================================================== Display *)

Lemma body_display s : lit_body (smt_display s) = fmt_loop s.
Proof. unfold smt_display, lit_body. cbn [app]. apply removelast_last. Qed.

Lemma undouble_no_quote l rest : ~ In 34 l -> lit_undouble (l ++ rest) = l ++ lit_undouble rest.
Proof.
  induction l as [| c l' IH]; intros H; [reflexivity|].
  cbn [app lit_undouble]. destruct (N.eqb_spec c 34) as [E | E].
  - exfalso. apply H. left. exact E.
  - rewrite IH; [reflexivity|]. intros Hin. apply H. right. exact Hin.
Qed.

Fixpoint unq_loop (s : word) : list N :=
  match s with [] => [] | x :: r => unq_char x ++ unq_loop r end.

Lemma undouble_fmt_loop s : goodw s -> lit_undouble (fmt_loop s) = unq_loop s.
Proof.
  intros H. induction H as [| x r Hx Hr IH]; [reflexivity|].
  cbn [fmt_loop unq_loop]. unfold unq_char. destruct (N.eqb_spec x 34) as [E | E].
  - subst x. rewrite fmt_char_quote. cbn [app lit_undouble N.eqb Pos.eqb]. rewrite IH. reflexivity.
  - rewrite undouble_no_quote by (apply char_no_quote; assumption). rewrite IH. reflexivity.
Qed.

Lemma ref_unq_loop s : goodw s -> lit_parse_ref (unq_loop s) = s.
Proof.
  intros H. induction H as [| x r Hx Hr IH]; [reflexivity|].
  cbn [unq_loop]. rewrite char_reads by exact Hx. rewrite IH. reflexivity.
Qed.

(* ------------------------------------------------------------------ C08: printing *)

(* printable ASCII only *)
Theorem display_ascii : forall s, goodw s -> Forall (fun c => 32 <= c <= 126) (smt_display s).
Proof.
  intros s H. unfold smt_display. apply Forall_app. split; [constructor; [lia | constructor]|].
  apply Forall_app. split; [| constructor; [lia | constructor]].
  induction H as [| x r Hx Hr IH]; [constructor|].
  cbn [fmt_loop]. apply Forall_app. split; [apply char_ascii; exact Hx | exact IH].
Qed.

(* the printed form is: quote, one piece per character, quote; the piece of the double quote is
   two double quotes and no other piece contains a double quote *)
Theorem display_quote : forall s, goodw s ->
  exists pieces, smt_display s = [34] ++ concat pieces ++ [34] /\
    Forall2 (fun x l => l = fmt_char x /\ (x = 34 -> l = [34; 34]) /\ (x <> 34 -> ~ In 34 l)) s pieces.
Proof.
  intros s H. exists (map fmt_char s). split.
  - unfold smt_display. f_equal. f_equal. induction s as [| x r IH]; [reflexivity|].
    cbn [fmt_loop map concat]. inversion H; subst. rewrite IH by assumption. reflexivity.
  - induction H as [| x r Hx Hr IH]; [constructor|]. cbn [map]. constructor; [| exact IH].
    split; [reflexivity|]. split.
    + intros E. subst x. reflexivity.
    + intros E. apply char_no_quote; assumption.
Qed.

(* reading back the body of the printed form gives the string *)
Theorem roundtrip : forall s, goodw s -> parse_smt_literal (lit_undouble (lit_body (smt_display s))) = Some s.
Proof.
  intros s H. rewrite parse_is_ref, body_display, undouble_fmt_loop by exact H.
  rewrite ref_unq_loop by exact H. reflexivity.
Qed.

Theorem display_injective : forall s1 s2, goodw s1 -> goodw s2 -> smt_display s1 = smt_display s2 -> s1 = s2.
Proof.
  intros s1 s2 H1 H2 E. generalize (roundtrip s1 H1). rewrite E, (roundtrip s2 H2).
  intros X. inversion X. reflexivity.
Qed.

(* ================================================================== good results (C17) *)

Lemma clampc_good x : good (clampc x).
Proof.
  unfold clampc, good. destruct (N.leb_spec x MAXC); [assumption | unfold REPLC, MAXC; lia].
Qed.

Lemma clampc_valid x : x <= MAXC -> clampc x = x.
Proof. apply clampc_id. Qed.

Lemma clampc_invalid x : MAXC < x -> clampc x = REPLC.
Proof. intros H. unfold clampc. destruct (N.leb_spec x MAXC); [lia | reflexivity]. Qed.

Lemma hexvalue_four h : all_hex h -> length h = 4%nat -> hexvalue h < 65536.
Proof.
  intros Hh Hl. destruct h as [| a [| b [| c [| d [| e r]]]]]; cbn [length] in Hl; try lia.
  inversion Hh as [| ? ? Ha Hh1]; subst. inversion Hh1 as [| ? ? Hb Hh2]; subst.
  inversion Hh2 as [| ? ? Hc Hh3]; subst. inversion Hh3 as [| ? ? Hd Hh4]; subst.
  destruct (is_hex_val a Ha) as (da & Ea & La). destruct (is_hex_val b Hb) as (db & Eb & Lb).
  destruct (is_hex_val c Hc) as (dc & Ec & Lc). destruct (is_hex_val d Hd) as (dd & Ed & Ld).
  unfold hexvalue, hexfold. cbn [fold_left]. rewrite Ea, Eb, Ec, Ed. lia.
Qed.

Lemma try_escape_good t v n : try_escape t = Some (v, n) -> good v.
Proof.
  unfold try_escape. destruct t as [| a [| b r]]; try discriminate.
  destruct ((a =? 92) && (b =? 117)); [| discriminate].
  destruct r as [| c r']; [discriminate|].
  destruct (c =? 123).
  - destruct (take_hex 5 r') as [h r2]. destruct h as [| y h']; [discriminate|].
    destruct r2 as [| d r3]; [discriminate|].
    destruct (d =? 125); cbn [andb]; [| discriminate].
    destruct (N.leb_spec (hexvalue (y :: h')) MAXC) as [L | L]; [| discriminate].
    intros E. inversion E; subst. exact L.
  - destruct (take_hex 4 (c :: r')) as [h r2] eqn:E4.
    destruct (Nat.eqb_spec (length h) 4) as [L | L]; [| discriminate].
    intros E. inversion E; subst.
    destruct (take_hex_elim _ _ _ _ E4) as (_ & B & _).
    generalize (hexvalue_four h B L). unfold good, MAXC. lia.
Qed.

Lemma ref_go_good t : forall k, goodw (ref_go k t).
Proof.
  induction t as [| x r IH]; intros k; [constructor|].
  cbn [ref_go]. destruct k as [| k]; [| apply IH].
  destruct (try_escape (x :: r)) as [[v n] |] eqn:E.
  - constructor; [apply (try_escape_good _ _ _ E) | apply IH].
  - constructor; [apply clampc_good | apply IH].
Qed.

Theorem parse_good : forall text w, parse_smt_literal text = Some w -> goodw w.
Proof.
  intros t w H. rewrite parse_is_ref in H. inversion H; subst. apply ref_go_good.
Qed.

Theorem parse_total_good : forall text, exists w, parse_smt_literal text = Some w /\ goodw w.
Proof.
  intros t. exists (lit_parse_ref t). split; [apply parse_is_ref | apply ref_go_good].
Qed.

Definition clamp_spec (x y : N) : Prop := (x <= MAXC -> y = x) /\ (MAXC < x -> y = REPLC).

Lemma clampc_spec x : clamp_spec x (clampc x).
Proof. split; [apply clampc_valid | apply clampc_invalid]. Qed.

Lemma map_clampc_spec a : goodw (map clampc a) /\ Forall2 clamp_spec a (map clampc a).
Proof.
  induction a as [| x r [IH1 IH2]]; [split; constructor|].
  cbn [map]. split; constructor; auto using clampc_good, clampc_spec.
Qed.

(* each constructor yields a good string; valid integers are kept, the others become 0xFFFD *)
Theorem ctor_good_from_str : forall t, goodw (from_str t) /\ Forall2 clamp_spec t (from_str t).
Proof. intros t. apply map_clampc_spec. Qed.

Theorem ctor_good_from_slice : forall a, goodw (from_slice a) /\ Forall2 clamp_spec a (from_slice a).
Proof. intros a. apply map_clampc_spec. Qed.

Theorem ctor_good_from_vec : forall a, from_vec a = from_slice a.
Proof.
  intros a. unfold from_vec. destruct (forallb (fun x => x <=? MAXC) a) eqn:E; [| reflexivity].
  rewrite forallb_forall in E. unfold from_slice. induction a as [| x r IH]; [reflexivity|].
  cbn [map]. rewrite clampc_valid by (apply N.leb_le, E; left; reflexivity).
  f_equal. apply IH. intros y Hy. apply E. right. exact Hy.
Qed.

Theorem ctor_good_from_u32 : forall x, goodw (from_u32 x) /\ exists y, from_u32 x = [y] /\ clamp_spec x y.
Proof.
  intros x. split; [constructor; [apply clampc_good | constructor]|].
  exists (clampc x). split; [reflexivity | apply clampc_spec].
Qed.

Theorem ctor_good_from_char : forall x, from_char x = from_u32 x.
Proof. reflexivity. Qed.

(* ================================================================== the reference is the grammar *)

Lemma all_hex_hexdigit h : all_hex h <-> Forall hexdigit h.
Proof.
  unfold all_hex. split; intros H; induction H; constructor; auto; apply is_hex_iff; assumption.
Qed.

Lemma try_escape_complete e v : EscapeSeq e v -> e <> [] /\ forall r, try_escape (e ++ r) = Some (v, length e).
Proof.
  intros (h & Hh & Hv & Hs). apply all_hex_hexdigit in Hh.
  assert (Ev : v = hexvalue h) by (rewrite Hv; symmetry; apply hexfold_digits; exact Hh).
  destruct Hs as [[He Hl] | (He & Hl & Hm)]; subst e.
  - split; [discriminate|]. intros r. cbn [app]. rewrite try_escape_four by assumption.
    rewrite Ev. cbn [length]. rewrite Hl. reflexivity.
  - split; [discriminate|]. intros r. cbn [app]. rewrite <- app_assoc. cbn [app].
    rewrite try_escape_brace; [| exact Hh | exact Hl | rewrite <- Ev; exact Hm].
    rewrite Ev. cbn [length]. rewrite app_length. cbn [length]. do 2 f_equal. lia.
Qed.

Lemma try_escape_sound t v n : try_escape t = Some (v, n) ->
  exists e r, t = e ++ r /\ length e = n /\ EscapeSeq e v.
Proof.
  unfold try_escape. destruct t as [| a [| b r]]; try discriminate.
  destruct (N.eqb_spec a 92) as [Ea | Ea]; [| discriminate].
  destruct (N.eqb_spec b 117) as [Eb | Eb]; [| discriminate]. cbn [andb]. subst a b.
  destruct r as [| c r']; [discriminate|].
  destruct (N.eqb_spec c 123) as [Ec | Ec].
  - subst c. destruct (take_hex 5 r') as [h r2] eqn:E5. destruct h as [| y h']; [discriminate|].
    destruct r2 as [| d r3]; [discriminate|].
    destruct (N.eqb_spec d 125) as [Ed | Ed]; cbn [andb]; [| discriminate].
    destruct (N.leb_spec (hexvalue (y :: h')) MAXC) as [L | L]; [| discriminate].
    intros E. inversion E; subst.
    destruct (take_hex_elim _ _ _ _ E5) as (A & B & C & _).
    exists ([92; 117; 123] ++ (y :: h') ++ [125]), r3. split.
    { rewrite A. cbn [app]. rewrite <- app_assoc. reflexivity. }
    split.
    { cbn [app length]. rewrite app_length. cbn [length]. lia. }
    exists (y :: h'). split; [apply all_hex_hexdigit; exact B|].
    split; [exact (hexfold_digits 0 _ B)|].
    right. split; [reflexivity|]. split; [cbn [length] in *; lia | exact L].
  - destruct (take_hex 4 (c :: r')) as [h r2] eqn:E4.
    destruct (Nat.eqb_spec (length h) 4) as [L | L]; [| discriminate].
    intros E. inversion E; subst.
    destruct (take_hex_elim _ _ _ _ E4) as (A & B & _).
    exists ([92; 117] ++ h), r2. split; [rewrite A; reflexivity|].
    split; [cbn [app length]; lia|].
    exists h. split; [apply all_hex_hexdigit; exact B|].
    split; [exact (hexfold_digits 0 _ B)|].
    left. split; [reflexivity | exact L].
Qed.

Lemma ref_denotes_len n : forall t, (length t <= n)%nat -> LitDenote t (lit_parse_ref t).
Proof.
  induction n as [| n IH]; intros t Hl.
  - destruct t; [constructor | cbn [length] in Hl; lia].
  - destruct t as [| x r]; [constructor|].
    destruct (try_escape (x :: r)) as [[v k] |] eqn:E.
    + destruct (try_escape_sound _ _ _ E) as (e & r' & A & B & C).
      destruct (try_escape_complete e v C) as [Hne Hc].
      rewrite A. rewrite (ref_escape e r' v Hne (Hc r')).
      apply LD_esc; [exact C|]. apply IH.
      assert (L : length (x :: r) = length (e ++ r')) by (rewrite A; reflexivity).
      rewrite app_length in L. destruct e; [congruence|]. cbn [length] in *. lia.
    + rewrite (ref_plain x r E). apply LD_chr.
      * intros e v r' He A. destruct (try_escape_complete e v He) as [_ Hc].
        rewrite A, Hc in E. discriminate.
      * apply IH. cbn [length] in Hl. lia.
Qed.

(* the reference reading is the unique reading according to the SMT-LIB escape grammar *)
Theorem lit_ref_denote : forall t w, LitDenote t w <-> w = lit_parse_ref t.
Proof.
  intros t w. split.
  - intros H. induction H as [| e v r w He Hr IH | x r w Hx Hr IH].
    + reflexivity.
    + destruct (try_escape_complete e v He) as [Hne Hc].
      rewrite (ref_escape e r v Hne (Hc r)). rewrite IH. reflexivity.
    + destruct (try_escape (x :: r)) as [[v k] |] eqn:E.
      * destruct (try_escape_sound _ _ _ E) as (e & r' & A & _ & C).
        exfalso. apply (Hx e v r' C A).
      * rewrite (ref_plain x r E), IH. reflexivity.
  - intros E. subst w. apply (ref_denotes_len (length t)). lia.
Qed.

(* the parser returns the reading of the text according to the grammar *)
Theorem parse_denotes : forall text w, parse_smt_literal text = Some w <-> LitDenote text w.
Proof.
  intros t w. rewrite parse_is_ref, lit_ref_denote. split; intros H; [inversion H | subst]; reflexivity.
Qed.

(* the single-character printers round-trip as well *)
Lemma char_roundtrip x : x <= MAXC ->
  parse_smt_literal (lit_undouble (char_to_smt x)) = Some [x] /\
  parse_smt_literal (lit_undouble (smt_char_as_string x)) = Some [x].
Proof.
  intros Hx. change (char_to_smt x) with (fmt_char x). change (smt_char_as_string x) with (fmt_char x).
  assert (G : goodw [x]) by (constructor; [exact Hx | constructor]).
  generalize (roundtrip [x] G). rewrite body_display. cbn [fmt_loop]. rewrite app_nil_r.
  intros R. split; exact R.
Qed.

Lemma char_printers_ascii x : x <= MAXC ->
  Forall (fun c => 32 <= c <= 126) (char_to_smt x) /\
  Forall (fun c => 32 <= c <= 126) (smt_char_as_string x).
Proof. intros Hx. split; apply char_ascii; exact Hx. Qed.
