(* Termination.v -- definitions for the termination argument of the derivative exploration
   (no proofs here): the potential [pa]/[phi] and the virtual length [vl] of a term, and the
   three-valued run of the exploration. *)
Require Import Base CharSet Partition LoopRange Regex Inclusion Constructors Deriv Explore Denote Sem.
Open Scope N_scope.

Definition CW : N := 1.
Definition is_union (e : re) : bool := match rnode e with NUnion _ => true | _ => false end.

Fixpoint vl (e : re) : N :=
  match e with
  | Node _ _ _ k =>
    match k with
    | NConcat a b => vl a + vl b
    | NLoop a (LR i (Some j)) => N.max 1 (j * vl a)
    | NLoop a (LR i None) => i * vl a + 1
    | _ => 1
    end
  end.

Fixpoint pa (e : re) : N :=
  match e with
  | Node _ _ _ k =>
    match k with
    | NEmpty | NEps | NRange _ => 1
    | NConcat a b => N.max ((if is_union a then pa a else CW + pa a) + vl b) (pa b)
    | NLoop a (LR i (Some j)) => (if is_union a then pa a else CW + pa a) + (j - 1) * vl a
    | NLoop a (LR i None) => (if is_union a then pa a else CW + pa a) + 1 + (i - 1) * vl a
    | NCompl a => 1 + (if is_union a then pa a else CW + pa a)
    | NUnion l => CW + (fix go (l : list re) : N := match l with [] => 1 | x :: t => N.max (pa x) (go t) end) l
    | NInter l => CW + (fix go (l : list re) : N :=
                          match l with [] => 2 | x :: t => N.max (if is_union x then pa x else CW + pa x) (go t) end) l
    end
  end.
Definition phi (e : re) : N := if is_union e then pa e else CW + pa e.

(* a derivative cache that never records a derivative of larger potential than its term.  It holds
   for [new_mgr] (empty cache) and is preserved by every operation of the manager. *)
Definition hon (m : mgr) : Prop :=
  forall i cid d, In ((i, cid), d) (cache m) -> exists e, owned m e /\ rid e = i /\ phi d <= phi e.

(* the nodes created after the exploration started (ids >= c0) are never leaves, and their union /
   intersection operand lists are duplicate free *)
Definition nshape (k : node) : Prop :=
  match k with
  | NEmpty | NEps | NRange _ => False
  | NUnion l | NInter l => NoDup (map rid l)
  | _ => True
  end.
Definition nn (c0 : N) (m : mgr) : Prop := forall e, owned m e -> c0 <= rid e -> nshape (rnode e).

(* ---------- skeletons: terms with the ids of the new nodes erased ---------- *)
Inductive sk : Type :=
| SOld (i : N)                       (* a term that existed when the exploration started *)
| SBad                               (* a new leaf: never created by a derivative *)
| SCat (a b : sk) | SLoop (a : sk) (r : lr) | SNot (a : sk) | SUn (l : list sk) | SIn (l : list sk).

Fixpoint erase (c0 : N) (e : re) : sk :=
  match e with
  | Node i _ _ k =>
    if i <? c0 then SOld i else
    match k with
    | NEmpty | NEps | NRange _ => SBad
    | NConcat a b => SCat (erase c0 a) (erase c0 b)
    | NLoop a r => SLoop (erase c0 a) r
    | NCompl a => SNot (erase c0 a)
    | NUnion l => SUn ((fix go (l : list re) : list sk := match l with [] => [] | x :: t => erase c0 x :: go t end) l)
    | NInter l => SIn ((fix go (l : list re) : list sk := match l with [] => [] | x :: t => erase c0 x :: go t end) l)
    end
  end.

(* all lists of length <= k over u *)
Fixpoint lists_upto {A} (k : nat) (u : list A) : list (list A) :=
  match k with
  | O => [[]]
  | S k' => [] :: flat_map (fun x => map (cons x) (lists_upto k' u)) u
  end.
Definition nrange (b : N) : list N := map N.of_nat (seq 0 (S (N.to_nat b))).
Definition ranges (b : N) : list lr :=
  flat_map (fun i => LR i None :: map (fun j => LR i (Some j)) (nrange b)) (nrange b).
(* the skeletons of rank <= n: old terms at level 0, one more layer of new nodes per level *)
Fixpoint universe (c0 b : N) (n : nat) : list sk :=
  match n with
  | O => map SOld (nrange c0)
  | S n' =>
    let u := universe c0 b n' in
    u ++ flat_map (fun a => map (SCat a) u) u
      ++ flat_map (fun a => map (SLoop a) (ranges b)) u
      ++ map SNot u
      ++ map SUn (lists_upto (length u) u)
      ++ map SIn (lists_upto (length u) u)
  end.
Definition is_loop (e : re) : bool := match rnode e with NLoop _ _ => true | _ => false end.
(* the level of a term of potential <= P *)
Definition rank (P : N) (e : re) : N := 2 * (pa e * (P + 3) + vl e) + (if is_loop e then 1 else 0).
Definition level (P : N) : nat := N.to_nat (2 * (P * (P + 3) + (P + 1)) + 1).
(* the number of terms that an exploration starting at a term of potential P in a manager with c0
   terms can ever see *)
Definition term_bound (c0 P : N) : nat := length (universe c0 P (level P)).

(* ---------- the exploration with a three-valued outcome ---------- *)
Inductive status := Finished (m : mgr) (l : list re) | Panicked | OutOfFuel.
Fixpoint iter_go_st (fuel : nat) (m : mgr) (queue seen out : list re) : status :=
  match fuel with
  | O => OutOfFuel
  | S f =>
    match queue with
    | [] => Finished m out
    | r :: q =>
      match push_all_derivs m r (pclass_ids (rcls r)) q seen with
      | None => Panicked                 (* a class derivative returned None; never happens: iter_never_panics *)
      | Some (m1, q1, s1) => iter_go_st f m1 q1 s1 (out ++ [r])
      end
    end
  end.
Definition iter_status (fuel : nat) (m : mgr) (e : re) : status := iter_go_st fuel m [e] [e] [].

(* ---------- a bound on the potential of the term a construction program builds ---------- *)
Fixpoint pphi (p : prog) : N :=
  match p with
  | PNone | PEps | PAll | PAllChar => 4
  | PRange _ _ => 2
  | PStr w => N.of_nat (length w) + 4
  | PConcat p q => 1 + N.max (pphi p + pvl q) (pphi q)
  | PUnion p q => N.max (pphi p) (pphi q)
  | PInter p q => 2 + N.max (pphi p) (pphi q)
  | PComp p => 2 + pphi p
  | PDiff p q => 2 + N.max (pphi p) (2 + pphi q)
  | PLoop p lo (Some hi) => 1 + (pphi p + (hi - 1) * pvl p)
  | PLoop p lo None => 1 + (pphi p + 1 + (lo - 1) * pvl p)
  | PDeriv p _ => 0
  end
with pvl (p : prog) : N :=
  match p with
  | PNone | PEps | PAll | PAllChar | PRange _ _ => 1
  | PStr w => N.of_nat (length w) + 1
  | PConcat p q => pvl p + pvl q
  | PLoop p lo (Some hi) => N.max 1 (hi * pvl p)
  | PLoop p lo None => lo * pvl p + 1
  | PUnion p q => N.max (pphi p) (pphi q) + 1
  | PInter p q => 2 + N.max (pphi p) (pphi q) + 1
  | PComp p => 2 + pphi p + 1
  | PDiff p q => 2 + N.max (pphi p) (2 + pphi q) + 1
  | PDeriv p _ => 0
  end.
