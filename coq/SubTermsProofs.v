(* SubTermsProofs.v -- proofs about SubTerms.v (sub_terms / leaves / is_atomic / is_empty /
   num_deriv_classes / valid_class_id), additional property file C07c.

   Specification side: [child x y] = y is an immediate sub-term of x (Sem.children);
   [subterm r x] = reflexive-transitive closure; [dedup_ids l] = l without the later occurrences of
   an id already seen.  The BFS loop keeps the invariant
       out ++ queue = dedup_ids (r :: children of the terms of out, in order, in stored order)
   which pins down the order completely; the fuel (tree size + 1) suffices because the yielded ids
   are pairwise different ids of nodes of the tree. *)
Require Import Base CharSet Partition PartitionSpec PartitionProofs LoopRange Regex Denote Sem.
Require Import ManagerProofs SubTerms.
Require DerivProofs.   (* qualified use only: cls_wf, merge_ok_holds *)
From Coq Require Import Relations.
Open Scope nat_scope.

(* ------------------------------------------------------------------ 1. sub-terms as a relation *)

Lemma st_children_eq k : st_children k = children k.
Proof. destruct k; reflexivity. Qed.

Definition child (x y : re) : Prop := In y (children (rnode x)).
Definition subterm (r x : re) : Prop := clos_refl_trans re child r x.

Lemma subterm_refl r : subterm r r.
Proof. apply rt_refl. Qed.
Lemma subterm_step r x y : subterm r x -> child x y -> subterm r y.
Proof. intros H1 H2. eapply rt_trans; [exact H1|apply rt_step; exact H2]. Qed.

(* all nodes of the tree, root first *)
Fixpoint all_nodes (e : re) : list re :=
  match e with
  | Node _ _ _ k =>
    e :: match k with
         | NEmpty | NEps | NRange _ => []
         | NConcat a b => all_nodes a ++ all_nodes b
         | NLoop a _ | NCompl a => all_nodes a
         | NUnion l | NInter l =>
             (fix go (l : list re) := match l with [] => [] | x :: t => all_nodes x ++ go t end) l
         end
  end.

Lemma all_nodes_unfold e : all_nodes e = e :: flat_map all_nodes (children (rnode e)).
Proof.
  destruct e as [i n c k]. cbn [all_nodes rnode]. f_equal.
  destruct k as [| |s|a b|a r|a|l|l]; cbn [children flat_map]; rewrite ?app_nil_r; auto.
Qed.

Lemma re_size_unfold e : re_size e = S (list_sum (map re_size (children (rnode e)))).
Proof.
  destruct e as [i n c k]. cbn [re_size rnode]. f_equal.
  destruct k as [| |s|a b|a r|a|l|l]; cbn [children]; try (cbn; lia).
  - induction l as [|x t IH]; [reflexivity|]. rewrite IH. reflexivity.
  - induction l as [|x t IH]; [reflexivity|]. rewrite IH. reflexivity.
Qed.

Lemma flat_map_length_sum {A B} (f : A -> list B) l :
  length (flat_map f l) = list_sum (map (fun x => length (f x)) l).
Proof. induction l as [|x t IH]; cbn; [reflexivity|]. rewrite app_length, IH. reflexivity. Qed.

Lemma all_nodes_length e : length (all_nodes e) = re_size e.
Proof.
  induction e as [e IH] using re_induction. rewrite all_nodes_unfold, re_size_unfold.
  cbn [length]. f_equal. rewrite flat_map_length_sum. f_equal. apply map_ext_in. exact IH.
Qed.

Lemma subterm_in_all_nodes r x : subterm r x -> In x (all_nodes r).
Proof.
  intros H. apply clos_rt_rt1n in H. induction H as [r | r y x Hc _ IH].
  - rewrite all_nodes_unfold. left. reflexivity.
  - rewrite all_nodes_unfold. right. apply in_flat_map. exists y. split; [exact Hc|exact IH].
Qed.

(* ------------------------------------------------------------------ 2. first occurrences by id *)

Definition ids (l : list re) : list N := map rid l.

Fixpoint dedup_go (seen : list N) (l : list re) : list re :=
  match l with
  | [] => []
  | x :: t => if existsb (N.eqb (rid x)) seen then dedup_go seen t
              else x :: dedup_go (rid x :: seen) t
  end.
Definition dedup_ids (l : list re) : list re := dedup_go [] l.

Lemma existsb_id_iff i s : existsb (N.eqb i) s = true <-> In i s.
Proof.
  rewrite existsb_exists. split.
  - intros [y [Hy E]]. apply N.eqb_eq in E. subst. exact Hy.
  - intros H. exists i. split; [exact H|apply N.eqb_refl].
Qed.

Lemma bfs_push_all_dedup l : forall q seen,
  bfs_push_all (q, seen) l = (q ++ dedup_go seen l, rev (ids (dedup_go seen l)) ++ seen).
Proof.
  induction l as [|x t IH]; intros q seen; cbn [bfs_push_all fold_left dedup_go].
  - cbn. rewrite app_nil_r. reflexivity.
  - unfold bfs_push at 2. cbn [fst snd]. destruct (existsb (N.eqb (rid x)) seen).
    + apply IH.
    + change (fold_left bfs_push t (q ++ [x], rid x :: seen)) with (bfs_push_all (q ++ [x], rid x :: seen) t).
      rewrite IH. cbn [ids map rev]. rewrite <- !app_assoc. reflexivity.
Qed.

Lemma dedup_go_app a : forall seen b,
  dedup_go seen (a ++ b) = dedup_go seen a ++ dedup_go (rev (ids (dedup_go seen a)) ++ seen) b.
Proof.
  induction a as [|x t IH]; intros seen b; cbn [app dedup_go].
  - reflexivity.
  - destruct (existsb (N.eqb (rid x)) seen).
    + apply IH.
    + cbn [app ids map rev]. rewrite IH. rewrite <- !app_assoc. reflexivity.
Qed.

Lemma dedup_go_incl l : forall seen x, In x (dedup_go seen l) -> In x l.
Proof.
  induction l as [|y t IH]; intros seen x; cbn [dedup_go]; [auto|].
  destruct (existsb (N.eqb (rid y)) seen).
  - intros H. right. eapply IH; eauto.
  - intros [<-|H]; [left; reflexivity|right; eapply IH; eauto].
Qed.

Lemma dedup_go_fresh l : forall seen x, In x (dedup_go seen l) -> ~ In (rid x) seen.
Proof.
  induction l as [|y t IH]; intros seen x; cbn [dedup_go]; [intros []|].
  destruct (existsb (N.eqb (rid y)) seen) eqn:E.
  - apply IH.
  - intros [<-|H].
    + intros Hin. apply existsb_id_iff in Hin. congruence.
    + intros Hin. apply (IH _ _ H). right. exact Hin.
Qed.

Lemma dedup_go_nodup l : forall seen, NoDup (ids (dedup_go seen l)).
Proof.
  induction l as [|y t IH]; intros seen; cbn [dedup_go]; [constructor|].
  destruct (existsb (N.eqb (rid y)) seen); [apply IH|].
  cbn [ids map]. constructor; [|apply IH].
  intros Hin. apply in_map_iff in Hin. destruct Hin as [z [Ez Hz]].
  apply dedup_go_fresh in Hz. apply Hz. left. congruence.
Qed.

(* every id of the input is kept or was already seen *)
Lemma dedup_go_complete l : forall seen x, In x l -> In (rid x) (ids (dedup_go seen l)) \/ In (rid x) seen.
Proof.
  induction l as [|y t IH]; intros seen x; cbn [dedup_go]; [intros []|].
  destruct (existsb (N.eqb (rid y)) seen) eqn:E.
  - intros [<-|H]; [right; apply existsb_id_iff; exact E|apply IH; exact H].
  - intros [<-|H]; [left; left; reflexivity|].
    destruct (IH (rid y :: seen) x H) as [H1|[H1|H1]].
    + left. right. exact H1.
    + left. left. exact H1.
    + right. exact H1.
Qed.

(* ------------------------------------------------------------------ 3. the BFS loop *)

Definition kids_of (out : list re) : list re := flat_map (fun x => children (rnode x)) out.

Record bfs_inv (r : re) (q : list re) (seen : list N) (out : list re) : Prop := {
  bi_order : out ++ q = dedup_ids (r :: kids_of out);
  bi_seen : seen = rev (ids (out ++ q));
  bi_sub : forall x, In x (out ++ q) -> subterm r x
}.

Lemma bfs_inv_init r : bfs_inv r [r] [rid r] [].
Proof.
  split.
  - reflexivity.
  - reflexivity.
  - intros x [<-|[]]. apply subterm_refl.
Qed.

Lemma bfs_inv_step r x q seen out : bfs_inv r (x :: q) seen out ->
  bfs_inv r (q ++ dedup_go seen (children (rnode x)))
          (rev (ids (dedup_go seen (children (rnode x)))) ++ seen) (out ++ [x]).
Proof.
  intros [Ho Hs Hsub].
  assert (E : (out ++ [x]) ++ q ++ dedup_go seen (children (rnode x)) =
              (out ++ x :: q) ++ dedup_go seen (children (rnode x))).
  { rewrite <- !app_assoc. reflexivity. }
  split.
  - rewrite E. unfold dedup_ids, kids_of. rewrite flat_map_app. cbn [flat_map]. rewrite app_nil_r.
    change (r :: flat_map (fun x0 => children (rnode x0)) out ++ children (rnode x))
      with ((r :: flat_map (fun x0 => children (rnode x0)) out) ++ children (rnode x)).
    rewrite dedup_go_app. fold (kids_of out). fold (dedup_ids (r :: kids_of out)).
    rewrite <- Ho, app_nil_r, <- Hs. reflexivity.
  - rewrite E. unfold ids. rewrite map_app, rev_app_distr. fold (ids (out ++ x :: q)). rewrite <- Hs. reflexivity.
  - rewrite E. intros y Hy. apply in_app_or in Hy. destruct Hy as [Hy|Hy]; [apply Hsub; exact Hy|].
    apply dedup_go_incl in Hy. eapply subterm_step; [|exact Hy].
    apply Hsub. apply in_or_app. right. left. reflexivity.
Qed.

Lemma bfs_inv_bound r q seen out : bfs_inv r q seen out -> length out + length q <= re_size r.
Proof.
  intros [Ho _ Hsub]. rewrite <- app_length, <- all_nodes_length.
  rewrite <- (map_length rid (out ++ q)), <- (map_length rid (all_nodes r)).
  apply NoDup_incl_length.
  - rewrite Ho. apply dedup_go_nodup.
  - intros i Hi. apply in_map_iff in Hi. destruct Hi as [x [<- Hx]].
    apply in_map. apply subterm_in_all_nodes. apply Hsub. exact Hx.
Qed.

Lemma sub_go_spec r : forall fuel q seen out, bfs_inv r q seen out -> re_size r < fuel + length out ->
  exists res, sub_go fuel q seen out = Some res /\ bfs_inv r [] (rev (ids res)) res.
Proof.
  induction fuel as [|f IH]; intros q seen out Hinv Hf.
  - pose proof (bfs_inv_bound _ _ _ _ Hinv). lia.
  - cbn [sub_go]. destruct q as [|x q].
    + exists out. split; [reflexivity|]. destruct Hinv as [Ho Hs Hsub]. rewrite app_nil_r in *.
      split; rewrite ?app_nil_r; auto.
    + rewrite st_children_eq, bfs_push_all_dedup.
      apply IH; [apply bfs_inv_step; exact Hinv|].
      rewrite app_length. cbn [length]. lia.
Qed.

(* ------------------------------------------------------------------ 4. sub_terms *)

(* two sub-terms of r with the same id are the same term (hash-consing) *)
Definition id_determines (r : re) : Prop :=
  forall a b, subterm r a -> subterm r b -> rid a = rid b -> a = b.

Theorem sub_terms_spec r :
  exists res, sub_terms r = Some res /\
    (exists t, res = r :: t) /\
    NoDup (map rid res) /\
    (forall x, In x res -> subterm r x) /\
    res = dedup_ids (r :: flat_map (fun x => children (rnode x)) res) /\
    (id_determines r -> forall x, subterm r x -> In x res).
Proof.
  unfold sub_terms, sub_terms_fuel. unfold bfs_push. cbn [existsb snd fst app].
  destruct (sub_go_spec r (S (re_size r)) [r] [rid r] [] (bfs_inv_init r)) as [res [Hres [Ho _ Hsub]]].
  { cbn [length]. lia. }
  rewrite app_nil_r in *. exists res. split; [exact Hres|].
  assert (Hhead : exists t, res = r :: t).
  { rewrite Ho. unfold dedup_ids. cbn [dedup_go existsb]. eexists. reflexivity. }
  assert (Hids : forall x, In x res -> forall y, child x y -> In (rid y) (map rid res)).
  { intros x Hx y Hy. rewrite Ho at 1. unfold dedup_ids.
    assert (Hin : In y (r :: kids_of res)).
    { right. apply in_flat_map. exists x. split; [exact Hx|exact Hy]. }
    destruct (dedup_go_complete (r :: kids_of res) [] y Hin) as [H|[]]. exact H. }
  split; [exact Hhead|]. split; [rewrite Ho; apply dedup_go_nodup|]. split; [exact Hsub|].
  split; [exact Ho|].
  intros Hdet x Hx. apply clos_rt_rtn1 in Hx. induction Hx as [|y z Hc Hy IH].
  - destruct Hhead as [t ->]. left. reflexivity.
  - apply clos_rtn1_rt in Hy.
    destruct (proj1 (in_map_iff rid res (rid z)) (Hids y IH z Hc)) as [z' [Ez Hz']].
    assert (z' = z).
    { apply Hdet; [apply Hsub; exact Hz'|eapply subterm_step; [exact Hy|exact Hc]|exact Ez]. }
    subst z'. exact Hz'.
Qed.

(* hash-consing: a shared sub-term is yielded once (no term twice, not even two terms with one id) *)
Lemma NoDup_map_inv' {A B} (f : A -> B) l : NoDup (map f l) -> NoDup l.
Proof.
  induction l as [|x t IH]; intros H; [constructor|]. cbn [map] in H. inv H. constructor; auto.
  intros Hin. apply H2. apply in_map. exact Hin.
Qed.

Theorem sub_terms_nodup r res : sub_terms r = Some res -> NoDup (map rid res) /\ NoDup res.
Proof.
  intros H. destruct (sub_terms_spec r) as [res' [H' [_ [Hnd _]]]].
  assert (res' = res) by congruence. subst res'. split; [exact Hnd|eapply NoDup_map_inv'; exact Hnd].
Qed.

(* the fuel of the model is never exhausted *)
Theorem sub_terms_total r : sub_terms r <> None /\ leaves r <> None.
Proof.
  destruct (sub_terms_spec r) as [res [H _]]. unfold leaves, leaves_fuel. fold (sub_terms r). rewrite H. split; discriminate.
Qed.

(* more fuel does not change the answer *)
Lemma sub_go_mono fuel : forall q seen out res, sub_go fuel q seen out = Some res ->
  forall fuel', fuel <= fuel' -> sub_go fuel' q seen out = Some res.
Proof.
  induction fuel as [|f IH]; intros q seen out res H fuel' Hle; [discriminate|].
  destruct fuel' as [|f']; [lia|]. cbn [sub_go] in *. destruct q as [|x q]; [exact H|].
  destruct (bfs_push_all (q, seen) (st_children (rnode x))) as [q1 s1]. apply IH with (fuel' := f') in H; [exact H|lia].
Qed.

Theorem sub_terms_fuel_enough r fuel : re_size r < fuel -> sub_terms_fuel fuel r = sub_terms r.
Proof.
  intros Hf. destruct (sub_terms_spec r) as [res [H _]]. rewrite H.
  unfold sub_terms, sub_terms_fuel in *. destruct (bfs_push ([], []) r) as [q s].
  eapply sub_go_mono; [exact H|lia].
Qed.

(* whatever fuel the caller supplies, an answer is THE answer (the correspondence check runs the model
   with a fixed fuel instead of computing the tree size, which is exponential in the DAG size) *)
Theorem sub_terms_fuel_some r fuel res : sub_terms_fuel fuel r = Some res -> sub_terms r = Some res.
Proof.
  intros H. destruct (Nat.lt_ge_cases (re_size r) fuel) as [Hlt|Hge].
  - rewrite <- (sub_terms_fuel_enough r fuel Hlt). exact H.
  - unfold sub_terms, sub_terms_fuel in *. destruct (bfs_push ([], []) r) as [q s].
    eapply sub_go_mono; [exact H|lia].
Qed.

Theorem leaves_fuel_some r fuel lv : leaves_fuel fuel r = Some lv -> leaves r = Some lv.
Proof.
  unfold leaves, leaves_fuel. fold (sub_terms r). destruct (sub_terms_fuel fuel r) as [res|] eqn:E; [|discriminate].
  rewrite (sub_terms_fuel_some r fuel res E). auto.
Qed.

(* ------------------------------------------------------------------ 5. terms owned by a manager *)

Lemma owned_subterm m r x : wf m -> owned m r -> subterm r x -> owned m x.
Proof.
  intros W Or H. apply clos_rt_rtn1 in H. induction H as [|y z Hc _ IH]; [exact Or|].
  apply (wf_child m W y z IH Hc).
Qed.

Lemma owned_id_determines m r : wf m -> owned m r -> id_determines r.
Proof.
  intros W Or a b Ha Hb E. eapply id_inj; [eapply owned_subterm; eauto|eapply owned_subterm; eauto|exact E].
Qed.

(* sub_terms of a term of a well-formed manager: exactly its sub-terms, each once, r first, in
   breadth-first order with the children of a term in stored order *)
Theorem sub_terms_owned m r : wf m -> owned m r ->
  exists res, sub_terms r = Some res /\
    (exists t, res = r :: t) /\ NoDup (map rid res) /\ NoDup res /\
    (forall x, In x res <-> subterm r x) /\
    (forall x, In x res -> owned m x) /\
    res = dedup_ids (r :: flat_map (fun x => children (rnode x)) res).
Proof.
  intros W Or. destruct (sub_terms_spec r) as [res [H [Hh [Hnd [Hsub [Ho Hall]]]]]].
  exists res. split; [exact H|]. split; [exact Hh|]. split; [exact Hnd|].
  split; [eapply NoDup_map_inv'; exact Hnd|]. split; [|split; [|exact Ho]].
  - intros x. split; [apply Hsub|apply Hall; eapply owned_id_determines; eauto].
  - intros x Hx. eapply owned_subterm; eauto.
Qed.

(* ------------------------------------------------------------------ 6. leaves, is_atomic *)

Lemma atomic_no_children e : re_is_atomic e = true -> children (rnode e) = [].
Proof. unfold re_is_atomic. destruct (rnode e); cbn; congruence. Qed.

Theorem atomic_subterm e x : re_is_atomic e = true -> subterm e x -> x = e.
Proof.
  intros Ha H. apply clos_rt_rt1n in H. destruct H as [|y z Hc _]; [reflexivity|].
  unfold child in Hc. rewrite (atomic_no_children e Ha) in Hc. destruct Hc.
Qed.

Theorem sub_terms_atomic r : re_is_atomic r = true -> sub_terms r = Some [r] /\ leaves r = Some [r].
Proof.
  intros Ha. assert (H : sub_terms r = Some [r]).
  { destruct r as [i n c k]. unfold re_is_atomic in Ha. cbn [rnode] in Ha.
    destruct k; try discriminate; reflexivity. }
  split; [exact H|]. unfold leaves, leaves_fuel. fold (sub_terms r). rewrite H. cbn [option_map filter]. rewrite Ha. reflexivity.
Qed.

Lemma NoDup_map_filter {A B} (f : A -> B) p l : NoDup (map f l) -> NoDup (map f (filter p l)).
Proof.
  induction l as [|x t IH]; intros H; [constructor|]. cbn [map] in H. inv H. cbn [filter].
  destruct (p x); [|auto]. cbn [map]. constructor; auto.
  intros Hin. apply H2. apply in_map_iff in Hin. destruct Hin as [y [E Hy]].
  apply filter_In in Hy. apply in_map_iff. exists y. tauto.
Qed.

(* leaves = the atomic sub-terms, each once, in the order of sub_terms *)
Theorem leaves_spec r :
  exists res lv, sub_terms r = Some res /\ leaves r = Some lv /\ lv = filter re_is_atomic res /\
    NoDup (map rid lv) /\
    (forall x, In x lv -> subterm r x /\ re_is_atomic x = true) /\
    (id_determines r -> forall x, subterm r x -> re_is_atomic x = true -> In x lv).
Proof.
  destruct (sub_terms_spec r) as [res [H [_ [Hnd [Hsub [_ Hall]]]]]].
  exists res, (filter re_is_atomic res). unfold leaves, leaves_fuel. fold (sub_terms r). rewrite H.
  split; [reflexivity|]. split; [reflexivity|]. split; [reflexivity|].
  split; [apply NoDup_map_filter; exact Hnd|]. split.
  - intros x Hx. apply filter_In in Hx. destruct Hx as [Hx Ha]. split; [apply Hsub; exact Hx|exact Ha].
  - intros Hdet x Hx Ha. apply filter_In. split; [apply Hall; auto|exact Ha].
Qed.

Theorem leaves_owned m r : wf m -> owned m r ->
  exists lv, leaves r = Some lv /\ NoDup (map rid lv) /\
    forall x, In x lv <-> subterm r x /\ re_is_atomic x = true.
Proof.
  intros W Or. destruct (leaves_spec r) as [res [lv [_ [Hl [_ [Hnd [H1 H2]]]]]]].
  exists lv. split; [exact Hl|]. split; [exact Hnd|]. intros x. split; [apply H1|].
  intros [Hs Ha]. apply H2; auto. eapply owned_id_determines; eauto.
Qed.

(* ------------------------------------------------------------------ 7. is_empty, classes *)

Theorem re_is_empty_lang e : re_is_empty e = true -> forall w, ~ L e w.
Proof.
  destruct e as [i n c k]. unfold re_is_empty. cbn [rnode]. destruct k; try discriminate.
  intros _ w H. exact H.
Qed.

(* in one manager the empty term is unique (hash-consing): is_empty is equality with the constant *)
Theorem re_is_empty_owned m e : wf m -> owned m e -> (re_is_empty e = true <-> e = m_empty m).
Proof.
  intros W Oe. pose proof (wf_consts m W) as C. split.
  - intros H. assert (K : key_of (rnode e) = key_of (rnode (m_empty m))).
    { rewrite (c_empty m C). unfold re_is_empty in H. destruct (rnode e); try discriminate. reflexivity. }
    pose proof (wf_lookup m W e Oe) as L1. pose proof (wf_lookup m W _ (c_empty_o m C)) as L2.
    rewrite K in L1. congruence.
  - intros ->. rewrite (c_empty m C). reflexivity.
Qed.

(* num_deriv_classes / valid_class_id: the derivative classes of a well-formed term are a well-formed
   partition; a class id is valid exactly when its class has a member (C11) *)
Theorem re_classes_spec e : wf_term e ->
  pwf (rcls e) /\ re_num_deriv_classes e = length (ivs (rcls e)) /\
  (forall i, re_valid_class_id e (CInt i) = true <-> i < re_num_deriv_classes e) /\
  (re_valid_class_id e CComp = negb (pempty_complement (rcls e))) /\
  (forall cid, re_valid_class_id e cid = true <-> exists x, good x /\ in_class (rcls e) x cid).
Proof.
  intros We. pose proof (DerivProofs.cls_wf DerivProofs.merge_ok_holds e We) as Hp.
  split; [exact Hp|]. split; [reflexivity|]. split; [|split; [reflexivity|]].
  - intros i. unfold re_valid_class_id, re_num_deriv_classes. cbn [pvalid]. apply Nat.ltb_lt.
  - intros cid. apply pvalid_iff. exact Hp.
Qed.

(* ------------------------------------------------------------------ 8. construction programs *)
Require RunProofs.

(* the term built by any SMT-LIB construction program, from any well-formed manager *)
Theorem sub_terms_of_program p m m' t : wf m -> RunProofs.prog_ok p = true -> RunProofs.run p m = Some (m', t) ->
  exists res lv, sub_terms t = Some res /\ leaves t = Some lv /\
    (exists tl, res = t :: tl) /\ NoDup (map rid res) /\ NoDup res /\
    (forall x, In x res <-> subterm t x) /\
    (forall x, In x lv <-> subterm t x /\ re_is_atomic x = true) /\
    (forall x, In x res -> owned m' x /\ wf_term x).
Proof.
  intros W Hok H. destruct (RunProofs.run_wf p m m' t W Hok H) as [W' [_ Ot]].
  destruct (sub_terms_owned m' t W' Ot) as [res [Hr [Hh [Hn1 [Hn2 [Hin [Hown _]]]]]]].
  destruct (leaves_owned m' t W' Ot) as [lv [Hl [_ Hlv]]].
  exists res, lv. split; [exact Hr|]. split; [exact Hl|]. split; [exact Hh|]. split; [exact Hn1|].
  split; [exact Hn2|]. split; [exact Hin|]. split; [exact Hlv|].
  intros x Hx. split; [apply Hown; exact Hx|]. apply (wf_terms m' W'). apply Hown. exact Hx.
Qed.
