(* GoodProofs.v -- C17: every SmtString the API hands out contains only SMT-LIB characters.
   Collects the goodness facts of the producers proved in LiteralProofs / StrSearchProofs /
   StrConvProofs and proves the remaining ones (regex replace, get_string). *)
Require Import Base CharSet Partition LoopRange Regex Inclusion Constructors Deriv Explore.
Require Import Literal LiteralProofs StrSearch StrSearchProofs StrConv StrConvProofs.
Open Scope N_scope.

Lemma goodw_app_intro (a b : word) : goodw a -> goodw b -> goodw (a ++ b).
Proof. unfold goodw. intros Ha Hb. apply Forall_app. split; assumption. Qed.
Lemma goodw_firstn (n : nat) (a : word) : goodw a -> goodw (firstn n a).
Proof.
  unfold goodw. intros H. rewrite <- (firstn_skipn n a) in H. apply Forall_app in H. tauto.
Qed.
Lemma goodw_skipn (n : nat) (a : word) : goodw a -> goodw (skipn n a).
Proof.
  unfold goodw. intros H. rewrite <- (firstn_skipn n a) in H. apply Forall_app in H. tauto.
Qed.

Lemma str_replace_re_good m s1 r s2 m' x :
  goodw s1 -> goodw s2 -> str_replace_re m s1 r s2 = Some (m', x) -> goodw x.
Proof.
  intros H1 H2. unfold str_replace_re, bind.
  destruct (naive_re_search m r s1 0 true) as [[m1 res]|]; [|discriminate].
  destruct res as [i j|]; intros [= _ <-].
  - apply goodw_app_intro; [apply goodw_firstn; assumption|].
    apply goodw_app_intro; [assumption|apply goodw_skipn; assumption].
  - assumption.
Qed.

Lemma replace_re_all_go_good fuel : forall m s1 r s2 i x m' y,
  goodw s1 -> goodw s2 -> goodw x ->
  replace_re_all_go fuel m s1 r s2 i x = Some (m', y) -> goodw y.
Proof.
  induction fuel as [|f IH]; intros m s1 r s2 i x m' y H1 H2 Hx; cbn [replace_re_all_go]; [discriminate|].
  unfold bind. destruct (naive_re_search m r s1 i false) as [[m1 res]|]; [|discriminate].
  destruct res as [j k|].
  - intros H. eapply IH; [exact H1|exact H2| |exact H].
    apply goodw_app_intro; [assumption|].
    apply goodw_app_intro; [apply goodw_firstn, goodw_skipn; assumption|assumption].
  - intros [= _ <-]. apply goodw_app_intro; [assumption|apply goodw_skipn; assumption].
Qed.

Lemma str_replace_re_all_good m s1 r s2 m' x :
  goodw s1 -> goodw s2 -> str_replace_re_all m s1 r s2 = Some (m', x) -> goodw x.
Proof.
  intros H1 H2. unfold str_replace_re_all. intros H.
  eapply replace_re_all_go_good; [exact H1|exact H2| |exact H]. constructor.
Qed.

(* get_string: the result goes through From<Vec<u32>>, which clamps *)
Lemma get_string_good fuel m e m' w : get_string fuel m e = Some (m', Some w) -> goodw w.
Proof.
  unfold get_string, bind. destruct (gs_go fuel m [e] [(e, None)]) as [[m1 op]|]; [|discriminate].
  destruct op as [p|]; [|discriminate].
  destruct (pick_all p) as [cs|]; [|discriminate]. intros [= _ <-].
  unfold goodw. apply Forall_forall. intros x Hx. apply in_map_iff in Hx. destruct Hx as [c [<- _]].
  unfold good. destruct (N.leb_spec c MAXC) as [Hc|Hc]; [assumption|]. unfold REPLC, MAXC. lia.
Qed.
