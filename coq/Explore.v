(* Explore.v -- executable model of the worklist users of derivatives (no proofs here):
   iter_derivatives (BfsQueue = FIFO + seen set), is_empty_re (lazy `all`: stops at the first
   nullable term popped), start_char (repair D8), start_class, get_string (LabeledQueue = FIFO +
   predecessor map), naive_re_search, str_replace_re(_all).
   Worklist loops run on explicit fuel; out of fuel => None (excluded by the theorems' statements). *)
Require Import Base CharSet Partition LoopRange Regex Inclusion Constructors Deriv.
Open Scope N_scope.

(* one DerivativeIterator::next step on the popped term r: push all class derivatives *)
Fixpoint push_all_derivs (m : mgr) (r : re) (cids : list classid) (queue seen : list re)
  : option (mgr * list re * list re) :=
  match cids with
  | [] => Some (m, queue, seen)
  | cid :: t =>
    do (m1, d) <- cached_deriv r m cid;
    if existsb (re_eqb d) seen then push_all_derivs m1 r t queue seen
    else push_all_derivs m1 r t (queue ++ [d]) (d :: seen)
  end.
Fixpoint iter_go (fuel : nat) (m : mgr) (queue seen out : list re) : option (mgr * list re) :=
  match fuel with
  | O => None
  | S f =>
    match queue with
    | [] => Some (m, out)
    | r :: q =>
      do (m1, q1, s1) <- push_all_derivs m r (pclass_ids (rcls r)) q seen;
      iter_go f m1 q1 s1 (out ++ [r])
    end
  end.
(* the full enumeration (iterator run to exhaustion) *)
Definition iter_derivatives (fuel : nat) (m : mgr) (e : re) : option (mgr * list re) :=
  iter_go fuel m [e] [e] [].

(* is_empty_re = iter.all(|x| !x.nullable): each next() first pushes the derivatives of the popped
   term, then the term is tested; iteration stops at the first nullable term *)
Fixpoint empty_go (fuel : nat) (m : mgr) (queue seen : list re) : option (mgr * bool) :=
  match fuel with
  | O => None
  | S f =>
    match queue with
    | [] => Some (m, true)
    | r :: q =>
      do (m1, q1, s1) <- push_all_derivs m r (pclass_ids (rcls r)) q seen;
      if rnul r then Some (m1, false) else empty_go f m1 q1 s1
    end
  end.
Definition is_empty_re (fuel : nat) (m : mgr) (e : re) : option (mgr * bool) := empty_go fuel m [e] [e].

(* start_char after repair D8: Concat / Inter decided like Complement *)
Fixpoint start_char (fuel : nat) (e : re) (m : mgr) (c : N) {struct e} : option (mgr * bool) :=
  match e with
  | Node _ _ _ k =>
    match k with
    | NEmpty | NEps => Some (m, false)
    | NRange s => Some (m, cs_contains s c)
    | NLoop x _ => start_char fuel x m c
    | NUnion l =>
        (fix go (l : list re) (m : mgr) : option (mgr * bool) :=
           match l with
           | [] => Some (m, false)
           | x :: t => do (m1, b) <- start_char fuel x m c; if b then Some (m1, true) else go t m1
           end) l m
    | _ => do (m1, d) <- deriv m e c; do (m2, b) <- is_empty_re fuel m1 d; Some (m2, negb b)
    end
  end.
Inductive sres := SErr (e : rerr) | SOk (b : bool).
Definition start_class (fuel : nat) (m : mgr) (e : re) (cid : classid) : option (mgr * sres) :=
  if pvalid (rcls e) cid then
    do c <- ppick (rcls e) cid; do (m1, b) <- start_char fuel e m c; Some (m1, SOk b)
  else Some (m, SErr BadClassId).

(* ---------- get_string: LabeledQueue ---------- *)
Definition lqmap := list (re * option (classid * re)).      (* insertion-ordered HashMap *)
Fixpoint lq_find (i : N) (l : lqmap) : option (option (classid * re)) :=
  match l with [] => None | (n, e) :: t => if rid n =? i then Some e else lq_find i t end.
Fixpoint gs_push (m : mgr) (r : re) (cids : list classid) (queue : list re) (map : lqmap)
  : option (mgr * list re * lqmap) :=
  match cids with
  | [] => Some (m, queue, map)
  | cid :: t =>
    do (m1, d) <- cached_deriv r m cid;
    match lq_find (rid d) map with
    | Some _ => gs_push m1 r t queue map
    | None => gs_push m1 r t (queue ++ [d]) (map ++ [(d, Some (cid, r))])
    end
  end.
(* EdgeIterator: follow predecessor links; unwrap() of a missing node = panic = None *)
Fixpoint path_go (fuel : nat) (map : lqmap) (edge : option (classid * re)) (acc : list (re * classid))
  : option (list (re * classid)) :=
  match fuel with
  | O => None
  | S f =>
    match edge with
    | None => Some acc
    | Some (lbl, node) => do e' <- lq_find (rid node) map; path_go f map e' ((node, lbl) :: acc)
    end
  end.
Fixpoint gs_go (fuel : nat) (m : mgr) (queue : list re) (map : lqmap)
  : option (mgr * option (list (re * classid))) :=
  match fuel with
  | O => None
  | S f =>
    match queue with
    | [] => Some (m, None)
    | r :: q =>
      if rnul r then
        do e <- lq_find (rid r) map;
        do p <- path_go (S (length map)) map e [];
        Some (m, Some p)
      else do (m1, q1, map1) <- gs_push m r (pclass_ids (rcls r)) q map; gs_go f m1 q1 map1
    end
  end.
Fixpoint pick_all (p : list (re * classid)) : option word :=
  match p with
  | [] => Some []
  | (r, cid) :: t => do c <- ppick (rcls r) cid; do rest <- pick_all t; Some (c :: rest)
  end.
(* the characters go through From<Vec<u32>>, which clamps; picks are good characters anyway *)
Definition get_string (fuel : nat) (m : mgr) (e : re) : option (mgr * option word) :=
  do (m1, op) <- gs_go fuel m [e] [(e, None)];
  match op with
  | None => Some (m1, None)
  | Some p => do w <- pick_all p; Some (m1, Some (map (fun c => if c <=? MAXC then c else REPLC) w))
  end.

(* ---------- matcher.rs :: naive_re_search and the regex replace functions ---------- *)
Inductive sr := Found (i j : nat) | NotFound.
(* inner loop: extend the candidate match starting at i; rest = string[j..] *)
Fixpoint re_extend (m : mgr) (p : re) (rest : word) (j : nat) : option (mgr * option nat) :=
  match rest with
  | [] => Some (m, None)
  | c :: t =>
    do (m1, p1) <- char_derivative m p c;
    if rnul p1 then Some (m1, Some (S j))
    else if is_empty_node p1 then Some (m1, None)
    else re_extend m1 p1 t (S j)
  end.
(* outer loop over start positions i; s = string[i..] *)
Fixpoint re_search_from (m : mgr) (pattern : re) (s : word) (i : nat) : option (mgr * sr) :=
  match s with
  | [] => Some (m, NotFound)
  | _ :: t =>
    do (m1, r) <- re_extend m pattern s i;
    match r with
    | Some j => Some (m1, Found i j)
    | None => re_search_from m1 pattern t (S i)
    end
  end.
Definition naive_re_search (m : mgr) (pattern : re) (s : word) (k : nat) (allow_empty : bool)
  : option (mgr * sr) :=
  if allow_empty && rnul pattern then Some (m, Found k k)
  else re_search_from m pattern (skipn k s) k.
Definition str_replace_re (m : mgr) (s1 : word) (r : re) (s2 : word) : option (mgr * word) :=
  do (m1, res) <- naive_re_search m r s1 0 true;
  match res with
  | NotFound => Some (m1, s1)
  | Found i j => Some (m1, firstn i s1 ++ s2 ++ skipn j s1)
  end.
Fixpoint replace_re_all_go (fuel : nat) (m : mgr) (s1 : word) (r : re) (s2 : word) (i : nat) (x : word)
  : option (mgr * word) :=
  match fuel with
  | O => None
  | S f =>
    do (m1, res) <- naive_re_search m r s1 i false;
    match res with
    | Found j k => replace_re_all_go f m1 s1 r s2 k (x ++ firstn (j - i) (skipn i s1) ++ s2)
    | NotFound => Some (m1, x ++ skipn i s1)
    end
  end.
(* every non-empty match advances i by at least one: fuel |s1| + 1 suffices *)
Definition str_replace_re_all (m : mgr) (s1 : word) (r : re) (s2 : word) : option (mgr * word) :=
  replace_re_all_go (S (length s1)) m s1 r s2 0 [].
