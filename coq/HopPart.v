(* HopPart.v -- C04, layer C part 1: the array partitions of partitions.rs as modelled in Minimizer.v.
   Representation invariants of BasePartition / Partition (segment = permutation of 0..n-1, block
   headers = disjoint non-empty ranges covering 0..n-1, block_id consistent) and the exact effect of
   the in-place refine_block swaps (bp_refine / fp_refine). *)
Require Import Base CharSet Partition Automaton Minimizer.
From Coq Require Import Permutation.
Open Scope nat_scope.

(* ------------------------------------------------------------------ 1. lists *)
Lemma hp_upd_length {A} (l : list A) : forall i x, length (upd l i x) = length l.
Proof. induction l as [|y t IH]; intros [|i] x; simpl; auto. Qed.

Lemma hp_nth_upd_same {A} (l : list A) : forall i x d, i < length l -> nth i (upd l i x) d = x.
Proof. induction l as [|y t IH]; intros [|i] x d H; simpl in *; try lia; auto. apply IH. lia. Qed.

Lemma hp_nth_upd_other {A} (l : list A) : forall i j x d, i <> j -> nth j (upd l i x) d = nth j l d.
Proof. induction l as [|y t IH]; intros [|i] [|j] x d H; simpl; auto; try lia. Qed.

Lemma hp_upd_oob {A} (l : list A) : forall i x, length l <= i -> upd l i x = l.
Proof. induction l as [|y t IH]; intros [|i] x H; simpl in *; auto; try lia. f_equal. apply IH. lia. Qed.

Lemma hp_upd_app_r {A} (a : list A) : forall l t v, upd (a ++ l) (length a + t) v = a ++ upd l t v.
Proof. induction a as [|y a IH]; intros l t v; simpl; auto. f_equal. apply IH. Qed.

Lemma hp_upd_app_l {A} (a : list A) : forall l t v, t < length a -> upd (a ++ l) t v = upd a t v ++ l.
Proof. induction a as [|y a IH]; intros l [|t] v H; simpl in *; try lia; auto. f_equal. apply IH. lia. Qed.

Lemma hp_nth_mid {A} (a : list A) x b d : nth (length a) (a ++ x :: b) d = x.
Proof. rewrite app_nth2 by lia. rewrite Nat.sub_diag. reflexivity. Qed.

Lemma hp_swap_app {A} (d : A) a f b x c :
  swap d (a ++ f :: b ++ x :: c) (length a + S (length b)) (length a) = a ++ x :: b ++ f :: c.
Proof.
  unfold swap.
  assert (H1 : nth (length a + S (length b)) (a ++ f :: b ++ x :: c) d = x).
  { rewrite app_nth2 by lia. replace (length a + S (length b) - length a) with (S (length b)) by lia.
    cbn [nth]. apply hp_nth_mid. }
  assert (H2 : nth (length a) (a ++ f :: b ++ x :: c) d = f) by apply hp_nth_mid.
  rewrite H1, H2. rewrite hp_upd_app_r. cbn [upd].
  replace (length b) with (length b + 0) at 1 by lia. rewrite hp_upd_app_r. cbn [upd].
  replace (length a) with (length a + 0) at 1 by lia. rewrite hp_upd_app_r. cbn [upd]. reflexivity.
Qed.

Definition slice {A} (l : list A) (s e : nat) : list A := firstn (e - s) (skipn s l).

Lemma hp_firstn_skipn_map {A} (d : A) : forall (l : list A) s k, s + k <= length l ->
  firstn k (skipn s l) = map (fun q => nth q l d) (seq s k).
Proof.
  induction l as [|x t IH]; intros s k H; simpl in H.
  - assert (k = 0) by lia. subst. destruct s; reflexivity.
  - destruct s as [|s].
    + cbn [skipn]. destruct k as [|k]; [reflexivity|]. cbn [firstn seq map nth]. f_equal.
      specialize (IH 0 k). cbn [skipn] in IH. rewrite IH by lia.
      rewrite <- seq_shift, map_map. reflexivity.
    + cbn [skipn]. rewrite IH by lia. rewrite <- seq_shift, map_map. reflexivity.
Qed.

Lemma slice_map {A} (d : A) (l : list A) s e : e <= length l -> slice l s e = map (fun q => nth q l d) (seq s (e - s)).
Proof.
  intros H. unfold slice. destruct (le_lt_dec s e) as [Hse|Hse].
  - apply hp_firstn_skipn_map. lia.
  - replace (e - s) with 0 by lia. reflexivity.
Qed.

Lemma slice_in {A} (d : A) (l : list A) s e x : e <= length l ->
  (In x (slice l s e) <-> exists q, s <= q < e /\ nth q l d = x).
Proof.
  intros H. rewrite (slice_map d) by exact H. rewrite in_map_iff. split.
  - intros [q [Hq Hin]]. apply in_seq in Hin. exists q. split; [lia|exact Hq].
  - intros [q [Hq Hx]]. exists q. split; [exact Hx|]. apply in_seq. lia.
Qed.

Lemma slice_length {A} (l : list A) s e : e <= length l -> length (slice l s e) = e - s.
Proof. intros H. unfold slice. rewrite firstn_length, skipn_length. lia. Qed.

Lemma slice_ext {A} (d : A) (l1 l2 : list A) s e : e <= length l1 -> e <= length l2 ->
  (forall q, s <= q < e -> nth q l1 d = nth q l2 d) -> slice l1 s e = slice l2 s e.
Proof.
  intros H1 H2 He. rewrite (slice_map d l1), (slice_map d l2) by assumption.
  apply map_ext_in. intros q Hq. apply in_seq in Hq. apply He. lia.
Qed.

Lemma hp_skipn_skipn {A} : forall b a (l : list A), skipn a (skipn b l) = skipn (b + a) l.
Proof.
  induction b as [|b IH]; intros a l; [reflexivity|].
  destruct l as [|x l]; cbn [skipn plus]; [destruct a; reflexivity|apply IH].
Qed.

Lemma slice_split {A} (l : list A) s e : s <= e -> e <= length l ->
  l = firstn s l ++ slice l s e ++ skipn e l.
Proof.
  intros Hse He. unfold slice.
  rewrite <- (firstn_skipn s l) at 1. f_equal.
  rewrite <- (firstn_skipn (e - s) (skipn s l)) at 1. f_equal.
  rewrite hp_skipn_skipn. f_equal. lia.
Qed.

(* ------------------------------------------------------------------ 2. the swap loop *)
Lemma refine_scan_S pr seg start l k j :
  refine_scan pr seg start (S l) k j =
  if pr (nth (start + k) seg 0) then
    refine_scan pr (if Nat.ltb j k then swap 0 seg (start + k) (start + j) else seg) start l (S k) (S j)
  else refine_scan pr seg start l (S k) j.
Proof. reflexivity. Qed.

Lemma refine_scan_app (pr : nat -> bool) : forall R pre T F post,
  Forall (fun x => pr x = true) T -> Forall (fun x => pr x = false) F ->
  exists T' F',
    refine_scan pr (pre ++ T ++ F ++ R ++ post) (length pre) (length R) (length T + length F) (length T)
      = (pre ++ T' ++ F' ++ post, length T') /\
    Permutation (T' ++ F') (T ++ F ++ R) /\
    Forall (fun x => pr x = true) T' /\ Forall (fun x => pr x = false) F'.
Proof.
  induction R as [|x R IH]; intros pre T F post HT HF.
  - exists T, F. cbn [length refine_scan app]. rewrite app_nil_r. auto.
  - cbn [length]. rewrite refine_scan_S.
    assert (Hx : nth (length pre + (length T + length F)) (pre ++ T ++ F ++ (x :: R) ++ post) 0 = x).
    { replace (length pre + (length T + length F)) with (length (pre ++ T ++ F)) by (rewrite !app_length; lia).
      replace (pre ++ T ++ F ++ (x :: R) ++ post) with ((pre ++ T ++ F) ++ x :: (R ++ post))
        by (rewrite <- !app_assoc; reflexivity).
      apply hp_nth_mid. }
    rewrite Hx. destruct (pr x) eqn:Hp.
    + destruct F as [|f F'].
      * replace (length T <? length T + length (@nil nat)) with false
          by (symmetry; apply Nat.ltb_ge; simpl; lia).
        destruct (IH pre (T ++ [x]) [] post) as [T' [F' [He [Hperm [HT' HF']]]]].
        { apply Forall_app. split; auto. }
        { constructor. }
        exists T', F'. split; [|split; [|split]]; auto.
        -- rewrite <- He. f_equal.
           ++ rewrite <- !app_assoc. reflexivity.
           ++ rewrite !app_length. simpl. lia.
           ++ rewrite !app_length. simpl. lia.
        -- rewrite Hperm. cbn [app]. rewrite <- !app_assoc. reflexivity.
      * replace (length T <? length T + length (f :: F')) with true
          by (symmetry; apply Nat.ltb_lt; simpl; lia).
        assert (Hsw : swap 0 (pre ++ T ++ (f :: F') ++ (x :: R) ++ post)
                        (length pre + (length T + length (f :: F'))) (length pre + length T)
                      = pre ++ (T ++ [x]) ++ (F' ++ [f]) ++ R ++ post).
        { replace (pre ++ T ++ (f :: F') ++ (x :: R) ++ post) with ((pre ++ T) ++ f :: F' ++ x :: (R ++ post))
            by (rewrite <- !app_assoc; reflexivity).
          replace (length pre + (length T + length (f :: F'))) with (length (pre ++ T) + S (length F'))
            by (rewrite app_length; simpl; lia).
          replace (length pre + length T) with (length (pre ++ T)) by (rewrite app_length; lia).
          rewrite hp_swap_app. rewrite <- !app_assoc. reflexivity. }
        rewrite Hsw.
        destruct (IH pre (T ++ [x]) (F' ++ [f]) post) as [T' [F'' [He [Hperm [HT' HF']]]]].
        { apply Forall_app. split; auto. }
        { inversion HF; subst. apply Forall_app. split; auto. }
        exists T', F''. split; [|split; [|split]]; auto.
        -- rewrite <- He. f_equal.
           ++ rewrite !app_length. simpl. lia.
           ++ rewrite !app_length. simpl. lia.
        -- rewrite Hperm. rewrite <- !app_assoc. apply Permutation_app_head. cbn [app].
           transitivity (x :: f :: F' ++ R). { apply perm_skip. apply Permutation_sym, Permutation_middle. }
           transitivity (f :: x :: F' ++ R). { apply perm_swap. }
           apply perm_skip. apply Permutation_middle.
    + destruct (IH pre T (F ++ [x]) post) as [T' [F' [He [Hperm [HT' HF']]]]]; auto.
      { apply Forall_app. split; auto. }
      exists T', F'. split; [|split; [|split]]; auto.
      -- rewrite <- He. f_equal.
         ++ rewrite <- !app_assoc. reflexivity.
         ++ rewrite !app_length. simpl. lia.
      -- rewrite Hperm. rewrite <- !app_assoc. reflexivity.
Qed.

Lemma slice_app_mid {A} (a X b : list A) : slice (a ++ X ++ b) (length a) (length a + length X) = X.
Proof.
  unfold slice. replace (length a + length X - length a) with (length X) by lia.
  induction a as [|y a IH]; cbn [app length skipn plus].
  - induction X as [|z X IHX]; cbn [app length firstn]; [destruct b; reflexivity|]. f_equal. exact IHX.
  - exact IH.
Qed.

Lemma scan_facts pr seg s e : s <= e -> e <= length seg ->
  exists T' F', refine_scan pr seg s (e - s) 0 0 = (firstn s seg ++ T' ++ F' ++ skipn e seg, length T') /\
     Permutation (T' ++ F') (slice seg s e) /\
     Forall (fun x => pr x = true) T' /\ Forall (fun x => pr x = false) F'.
Proof.
  intros Hse He.
  destruct (refine_scan_app pr (slice seg s e) (firstn s seg) [] [] (skipn e seg)) as [T' [F' [H1 [H2 [H3 H4]]]]];
    [constructor|constructor|].
  exists T', F'. split; [|split; [|split]]; auto.
  cbn [app length plus] in H1. rewrite <- (slice_split seg s e Hse He) in H1.
  rewrite firstn_length_le in H1 by lia. rewrite slice_length in H1 by lia. exact H1.
Qed.

(* ------------------------------------------------------------------ 3. BasePartition *)
Definition blk (p : bpart) (i : nat) : nat * nat := nth i (bp_block p) (0,0).
Definition nblk (p : bpart) : nat := length (bp_block p).
Definition in_blk (p : bpart) (i x : nat) : Prop := In x (bp_elements p i).

Record bp_wf (n : nat) (p : bpart) : Prop := {
  bw_len : length (bp_seg p) = n;
  bw_nodup : NoDup (bp_seg p);
  bw_lt : forall x, In x (bp_seg p) -> x < n;
  bw_nb : 1 <= nblk p;
  bw_b0 : blk p 0 = (0,0);
  bw_rng : forall i, 1 <= i < nblk p -> fst (blk p i) < snd (blk p i) <= n;
  bw_disj : forall i j, 1 <= i < nblk p -> 1 <= j < nblk p -> i <> j ->
       snd (blk p i) <= fst (blk p j) \/ snd (blk p j) <= fst (blk p i);
  bw_cov : forall q, q < n -> exists i, 1 <= i < nblk p /\ fst (blk p i) <= q < snd (blk p i) }.

Lemma bp_elements_slice p i : bp_elements p i = slice (bp_seg p) (fst (blk p i)) (snd (blk p i)).
Proof. unfold bp_elements, blk. destruct (nth i (bp_block p) (0,0)) as [s e]. reflexivity. Qed.

Lemma bp_block_size_len p i : bp_block_size p i = snd (blk p i) - fst (blk p i).
Proof. unfold bp_block_size, blk. destruct (nth i (bp_block p) (0,0)) as [s e]. reflexivity. Qed.

Lemma blk_snd_le n p i : bp_wf n p -> snd (blk p i) <= n.
Proof.
  intros W. destruct (Nat.eq_dec i 0) as [->|Hi]; [rewrite (bw_b0 _ _ W); simpl; lia|].
  destruct (le_lt_dec (nblk p) i) as [Hge|Hlt].
  - unfold blk. rewrite nth_overflow by exact Hge. simpl. lia.
  - apply (bw_rng _ _ W). lia.
Qed.

Lemma in_blk_pos n p i x : bp_wf n p ->
  (in_blk p i x <-> exists q, fst (blk p i) <= q < snd (blk p i) /\ nth q (bp_seg p) 0 = x).
Proof.
  intros W. unfold in_blk. rewrite bp_elements_slice. apply slice_in.
  rewrite (bw_len _ _ W). apply (blk_snd_le n p i W).
Qed.

Lemma bp_size_elements n p i : bp_wf n p -> bp_block_size p i = length (bp_elements p i).
Proof.
  intros W. rewrite bp_block_size_len, bp_elements_slice, slice_length; [reflexivity|].
  rewrite (bw_len _ _ W). apply (blk_snd_le n p i W).
Qed.

Lemma in_blk_lt n p i x : bp_wf n p -> in_blk p i x -> x < n.
Proof.
  intros W H. apply (in_blk_pos n p i x W) in H. destruct H as [q [Hq Hx]].
  apply (bw_lt _ _ W). rewrite <- Hx. apply nth_In. rewrite (bw_len _ _ W).
  pose proof (blk_snd_le n p i W). lia.
Qed.

Lemma in_blk_0 n p x : bp_wf n p -> ~ in_blk p 0 x.
Proof.
  intros W H. apply (in_blk_pos n p 0 x W) in H. destruct H as [q [Hq _]].
  rewrite (bw_b0 _ _ W) in Hq. simpl in Hq. lia.
Qed.

Lemma in_blk_range n p i x : bp_wf n p -> in_blk p i x -> 1 <= i < nblk p.
Proof.
  intros W H. destruct (Nat.eq_dec i 0) as [->|Hi]; [exfalso; eapply in_blk_0; eauto|].
  split; [lia|]. destruct (le_lt_dec (nblk p) i) as [Hge|Hlt]; [|exact Hlt].
  apply (in_blk_pos n p i x W) in H. destruct H as [q [Hq _]].
  unfold blk in Hq. rewrite nth_overflow in Hq by exact Hge. simpl in Hq. lia.
Qed.

Lemma seg_all n p x : bp_wf n p -> x < n -> exists q, q < n /\ nth q (bp_seg p) 0 = x.
Proof.
  intros W Hx.
  assert (Hin : In x (bp_seg p)).
  { apply (NoDup_length_incl (bw_nodup _ _ W) (l' := seq 0 n)).
    - rewrite seq_length, (bw_len _ _ W). lia.
    - intros y Hy. apply in_seq. pose proof (bw_lt _ _ W y Hy). lia.
    - apply in_seq. lia. }
  destruct (In_nth _ _ 0 Hin) as [q [Hq He]]. exists q. rewrite (bw_len _ _ W) in Hq. auto.
Qed.

Lemma in_blk_ex n p x : bp_wf n p -> x < n -> exists i, 1 <= i < nblk p /\ in_blk p i x.
Proof.
  intros W Hx. destruct (seg_all n p x W Hx) as [q [Hq He]].
  destruct (bw_cov _ _ W q Hq) as [i [Hi Hr]]. exists i. split; [exact Hi|].
  apply (in_blk_pos n p i x W). exists q. auto.
Qed.

Lemma in_blk_uniq n p i j x : bp_wf n p -> in_blk p i x -> in_blk p j x -> i = j.
Proof.
  intros W Hi Hj. pose proof (in_blk_range n p i x W Hi) as Ri. pose proof (in_blk_range n p j x W Hj) as Rj.
  apply (in_blk_pos n p i x W) in Hi. apply (in_blk_pos n p j x W) in Hj.
  destruct Hi as [q [Hq Hx]], Hj as [q' [Hq' Hx']].
  pose proof (blk_snd_le n p i W). pose proof (blk_snd_le n p j W).
  assert (q = q').
  { apply (proj1 (NoDup_nth (bp_seg p) 0) (bw_nodup _ _ W)); rewrite ?(bw_len _ _ W); lia. }
  subst q'. destruct (Nat.eq_dec i j) as [|Hne]; [assumption|].
  destruct (bw_disj _ _ W i j Ri Rj Hne); lia.
Qed.

Lemma blk_first_in n p i : bp_wf n p -> 1 <= i < nblk p -> in_blk p i (nth (fst (blk p i)) (bp_seg p) 0).
Proof.
  intros W Hi. apply (in_blk_pos n p i _ W). exists (fst (blk p i)). split; [|reflexivity].
  pose proof (bw_rng _ _ W i Hi). lia.
Qed.

Lemma blk_two_size n p i x y : bp_wf n p -> in_blk p i x -> in_blk p i y -> x <> y -> 1 < bp_block_size p i.
Proof.
  intros W Hx Hy Hne. rewrite (bp_size_elements n p i W). unfold in_blk in *.
  destruct (bp_elements p i) as [|a [|b t]]; simpl in *; try lia; try contradiction.
Qed.

Lemma blk_small_eq n p i x y : bp_wf n p -> in_blk p i x -> in_blk p i y -> bp_block_size p i <= 1 -> x = y.
Proof.
  intros W Hx Hy Hs. destruct (Nat.eq_dec x y) as [|Hne]; [assumption|].
  pose proof (blk_two_size n p i x y W Hx Hy Hne). lia.
Qed.

Lemma bp_new_wf n : 1 <= n -> bp_wf n (bp_new n).
Proof.
  intros Hn. unfold bp_new. replace (Nat.eqb n 0) with false by (symmetry; apply Nat.eqb_neq; lia).
  constructor; unfold nblk, blk; cbn [bp_seg bp_block length nth].
  - apply seq_length.
  - apply seq_NoDup.
  - intros x Hx. apply in_seq in Hx. lia.
  - lia.
  - reflexivity.
  - intros i Hi. assert (i = 1) by lia. subst. simpl. lia.
  - intros i j Hi Hj Hne. lia.
  - intros q Hq. exists 1. simpl. lia.
Qed.

Lemma bp_new_in n x : 1 <= n -> (in_blk (bp_new n) 1 x <-> x < n).
Proof.
  intros Hn. rewrite (in_blk_pos n _ 1 x (bp_new_wf n Hn)). unfold blk, bp_new.
  replace (Nat.eqb n 0) with false by (symmetry; apply Nat.eqb_neq; lia). cbn [bp_block bp_seg nth fst snd].
  split.
  - intros [q [Hq He]]. rewrite seq_nth in He by lia. lia.
  - intros Hx. exists x. split; [lia|]. rewrite seq_nth by lia. reflexivity.
Qed.

(* ------------------------------------------------------------------ 4. refine_block *)
Definition bp_same (p p' : bpart) : Prop :=
  nblk p' = nblk p /\ forall l x, in_blk p' l x <-> in_blk p l x.

Inductive refine_res (p : bpart) (i : nat) (pr : nat -> bool) (p' : bpart) : nat * nat -> Prop :=
| RR_all : (forall x, in_blk p i x -> pr x = true) -> bp_same p p' -> refine_res p i pr p' (i, 0)
| RR_none : (forall x, in_blk p i x -> pr x = false) -> bp_same p p' -> refine_res p i pr p' (0, i)
| RR_split : nblk p' = S (nblk p) ->
    (forall x, in_blk p' i x <-> in_blk p i x /\ pr x = true) ->
    (forall x, in_blk p' (nblk p) x <-> in_blk p i x /\ pr x = false) ->
    (forall l x, l <> i -> l <> nblk p -> (in_blk p' l x <-> in_blk p l x)) ->
    refine_res p i pr p' (i, nblk p).

Lemma slice_empty {A} (l : list A) s : slice l s s = [].
Proof. unfold slice. rewrite Nat.sub_diag. reflexivity. Qed.

Lemma blk_out p l : l = 0 \/ nblk p <= l -> blk p 0 = (0,0) -> blk p l = (0,0).
Proof. intros [->|H] H0; [exact H0|]. unfold blk. apply nth_overflow. exact H. Qed.

Lemma bp_refine_spec n p i pr : bp_wf n p -> 1 <= i < nblk p ->
  bp_wf n (fst (bp_refine p i pr)) /\
  refine_res p i pr (fst (bp_refine p i pr)) (snd (bp_refine p i pr)).
Proof.
  intros W Hi. unfold bp_refine.
  destruct (nth i (bp_block p) (0,0)) as [s e] eqn:Hb.
  assert (Hbi : blk p i = (s, e)) by exact Hb.
  pose proof (bw_rng _ _ W i Hi) as Hr. rewrite Hbi in Hr. cbn [fst snd] in Hr.
  pose proof (bw_len _ _ W) as Hlen.
  destruct (scan_facts pr (bp_seg p) s e) as [T' [F' [Hscan [Hperm [HT HF]]]]]; [lia|lia|].
  rewrite Hscan. clear Hscan.
  set (pre := firstn s (bp_seg p)) in *. set (post := skipn e (bp_seg p)) in *.
  set (seg' := pre ++ T' ++ F' ++ post).
  assert (Hpre : length pre = s) by (unfold pre; apply firstn_length_le; lia).
  assert (Hpost : length post = n - e) by (unfold post; rewrite skipn_length; lia).
  assert (HTF : length T' + length F' = e - s).
  { rewrite <- app_length, (Permutation_length Hperm). apply slice_length. lia. }
  assert (Hlen' : length seg' = n) by (unfold seg'; rewrite !app_length; lia).
  assert (Hsplit : bp_seg p = pre ++ slice (bp_seg p) s e ++ post) by (apply slice_split; lia).
  assert (Hpermseg : Permutation seg' (bp_seg p)).
  { rewrite Hsplit. unfold seg'. apply Permutation_app_head. rewrite app_assoc.
    apply Permutation_app_tail. exact Hperm. }
  assert (Hout : forall q, q < s \/ e <= q -> nth q seg' 0 = nth q (bp_seg p) 0).
  { intros q Hq. rewrite Hsplit. unfold seg'. destruct Hq as [Hq|Hq].
    - rewrite !app_nth1 by lia. reflexivity.
    - rewrite (app_nth2 pre) by lia. rewrite (app_nth2 pre (slice _ _ _ ++ post)) by lia.
      rewrite (app_assoc T' F' post). rewrite (app_nth2 (T' ++ F')) by (rewrite app_length; lia).
      rewrite (app_nth2 (slice _ _ _)) by (rewrite slice_length; lia).
      rewrite app_length, slice_length by lia. f_equal. lia. }
  assert (HsT : slice seg' s (s + length T') = T').
  { unfold seg'. rewrite <- Hpre. apply slice_app_mid. }
  assert (HsF : slice seg' (s + length T') e = F').
  { unfold seg'. rewrite app_assoc. replace (s + length T') with (length (pre ++ T')) by (rewrite app_length; lia).
    replace e with (length (pre ++ T') + length F') by (rewrite app_length; lia). apply slice_app_mid. }
  assert (HsTF : slice seg' s e = T' ++ F').
  { unfold seg'. rewrite (app_assoc T' F' post). rewrite <- Hpre at 1.
    replace e with (length pre + length (T' ++ F')) by (rewrite app_length; lia). apply slice_app_mid. }
  assert (Hnd' : NoDup seg') by (eapply Permutation_NoDup; [apply Permutation_sym; exact Hpermseg|apply (bw_nodup _ _ W)]).
  assert (Hlt' : forall x, In x seg' -> x < n).
  { intros x Hx. apply (bw_lt _ _ W). eapply Permutation_in; eauto. }
  (* membership in the old block *)
  assert (Hold : forall x, in_blk p i x <-> In x (T' ++ F')).
  { intros x. unfold in_blk. rewrite bp_elements_slice, Hbi. cbn [fst snd]. split; intros H.
    - eapply Permutation_in; [apply Permutation_sym; exact Hperm|exact H].
    - eapply Permutation_in; [exact Hperm|exact H]. }
  (* blocks other than i keep their elements when the headers are kept *)
  assert (Hother : forall l, l <> i -> slice seg' (fst (blk p l)) (snd (blk p l)) =
                                       slice (bp_seg p) (fst (blk p l)) (snd (blk p l))).
  { intros l Hl. destruct (Nat.eq_dec l 0) as [->|Hl0].
    { rewrite (bw_b0 _ _ W). cbn [fst snd]. rewrite !slice_empty. reflexivity. }
    destruct (le_lt_dec (nblk p) l) as [Hge|Hlt].
    { rewrite (blk_out p l (or_intror Hge) (bw_b0 _ _ W)). cbn [fst snd]. rewrite !slice_empty. reflexivity. }
    assert (Rl : 1 <= l < nblk p) by lia.
    pose proof (bw_rng _ _ W l Rl) as Hrl.
    apply (slice_ext 0); [lia|lia|].
    intros q Hq. apply Hout. destruct (bw_disj _ _ W l i Rl Hi Hl) as [Hd|Hd]; rewrite Hbi in Hd; cbn [fst snd] in Hd; lia. }
  (* the result when the headers are kept *)
  assert (Hkeep : bp_wf n {| bp_block := bp_block p; bp_seg := seg' |} /\
                  bp_same p {| bp_block := bp_block p; bp_seg := seg' |}).
  { split.
    - constructor; unfold nblk, blk; cbn [bp_block bp_seg]; auto.
      + apply (bw_nb _ _ W).
      + apply (bw_b0 _ _ W).
      + apply (bw_rng _ _ W).
      + apply (bw_disj _ _ W).
      + apply (bw_cov _ _ W).
    - split; [reflexivity|]. intros l x. unfold in_blk. rewrite !bp_elements_slice.
      change (blk {| bp_block := bp_block p; bp_seg := seg' |} l) with (blk p l). cbn [bp_seg].
      destruct (Nat.eq_dec l i) as [->|Hl].
      + rewrite Hbi. cbn [fst snd]. rewrite HsTF. split; intros H;
          [eapply Permutation_in; [exact Hperm|exact H]|eapply Permutation_in; [apply Permutation_sym; exact Hperm|exact H]].
      + rewrite (Hother l Hl). reflexivity. }
  destruct (Nat.eqb (length T') 0) eqn:Hj0.
  { apply Nat.eqb_eq in Hj0. cbn [fst snd]. split; [apply Hkeep|].
    apply RR_none; [|apply Hkeep]. intros x Hx. apply Hold in Hx.
    destruct T'; [|discriminate]. cbn [app] in Hx. rewrite Forall_forall in HF. auto. }
  destruct (Nat.eqb (length T') (e - s)) eqn:Hje.
  { apply Nat.eqb_eq in Hje. cbn [fst snd]. split; [apply Hkeep|].
    apply RR_all; [|apply Hkeep]. intros x Hx. apply Hold in Hx.
    destruct F'; [|cbn [length] in HTF; lia]. rewrite app_nil_r in Hx. rewrite Forall_forall in HT. auto. }
  apply Nat.eqb_neq in Hj0, Hje. cbn [fst snd].
  set (j := length T') in *.
  set (p' := {| bp_block := upd (bp_block p) i (s, s + j) ++ [(s + j, e)]; bp_seg := seg' |}).
  assert (Hnb' : nblk p' = S (nblk p)).
  { unfold nblk, p'. cbn [bp_block]. rewrite app_length, hp_upd_length. simpl. lia. }
  assert (Hbi' : blk p' i = (s, s + j)).
  { unfold blk, p'. cbn [bp_block]. rewrite app_nth1 by (rewrite hp_upd_length; unfold nblk in Hi; lia).
    apply hp_nth_upd_same. unfold nblk in Hi. lia. }
  assert (Hbk' : blk p' (nblk p) = (s + j, e)).
  { unfold blk, p'. cbn [bp_block]. rewrite app_nth2 by (rewrite hp_upd_length; unfold nblk; lia).
    rewrite hp_upd_length. unfold nblk. rewrite Nat.sub_diag. reflexivity. }
  assert (Hbl' : forall l, l <> i -> l <> nblk p -> blk p' l = blk p l).
  { intros l H1 H2. unfold blk, p'. cbn [bp_block]. destruct (le_lt_dec (nblk p) l) as [Hge|Hlt].
    - rewrite (nth_overflow (bp_block p)) by (unfold nblk in Hge; lia).
      apply nth_overflow. rewrite app_length, hp_upd_length. simpl. unfold nblk in *. lia.
    - rewrite app_nth1 by (rewrite hp_upd_length; unfold nblk in Hlt; lia).
      apply hp_nth_upd_other. auto. }
  assert (Wp' : bp_wf n p').
  { constructor; auto.
    - lia.
    - rewrite Hbl' by lia. apply (bw_b0 _ _ W).
    - intros l Hl. destruct (Nat.eq_dec l i) as [->|H1]; [rewrite Hbi'; cbn [fst snd]; lia|].
      destruct (Nat.eq_dec l (nblk p)) as [->|H2]; [rewrite Hbk'; cbn [fst snd]; lia|].
      rewrite Hbl' by auto. apply (bw_rng _ _ W). lia.
    - assert (Hsub : forall l, 1 <= l < nblk p' -> l = i \/ l = nblk p ->
                forall m, 1 <= m < nblk p' -> m <> i -> m <> nblk p ->
                snd (blk p' l) <= fst (blk p' m) \/ snd (blk p' m) <= fst (blk p' l)).
      { intros l Hl Hc m Hm M1 M2. rewrite (Hbl' m M1 M2).
        assert (Rm : 1 <= m < nblk p) by lia.
        destruct (bw_disj _ _ W m i Rm Hi M1) as [Hd|Hd]; rewrite Hbi in Hd; cbn [fst snd] in Hd;
          destruct Hc as [->| ->]; rewrite ?Hbi', ?Hbk'; cbn [fst snd]; lia. }
      intros l m Hl Hm Hne.
      destruct (Nat.eq_dec l i) as [L1|L1]; [|destruct (Nat.eq_dec l (nblk p)) as [L2|L2]].
      + destruct (Nat.eq_dec m (nblk p)) as [->|M2]; [subst l; rewrite Hbi', Hbk'; cbn [fst snd]; lia|].
        apply Hsub; auto. congruence.
      + destruct (Nat.eq_dec m i) as [->|M1]; [subst l; rewrite Hbi', Hbk'; cbn [fst snd]; lia|].
        apply Hsub; auto. congruence.
      + destruct (Nat.eq_dec m i) as [M1|M1]; [|destruct (Nat.eq_dec m (nblk p)) as [M2|M2]].
        * destruct (Hsub m Hm (or_introl M1) l Hl L1 L2); lia.
        * destruct (Hsub m Hm (or_intror M2) l Hl L1 L2); lia.
        * rewrite !Hbl' by auto. apply (bw_disj _ _ W); lia.
    - intros q Hq. destruct (bw_cov _ _ W q Hq) as [l [Hl Hql]].
      destruct (Nat.eq_dec l i) as [->|H1].
      + rewrite Hbi in Hql. cbn [fst snd] in Hql. destruct (le_lt_dec (s + j) q) as [Hge|Hlt].
        * exists (nblk p). rewrite Hbk'. cbn [fst snd]. lia.
        * exists i. rewrite Hbi'. cbn [fst snd]. lia.
      + exists l. rewrite Hbl' by lia. split; [lia|exact Hql]. }
  split; [exact Wp'|].
  apply RR_split; auto.
  - intros x. unfold in_blk at 1. rewrite bp_elements_slice, Hbi'. cbn [fst snd bp_seg p']. rewrite HsT.
    rewrite Hold, in_app_iff. rewrite Forall_forall in HT, HF. split.
    + intros H. split; auto.
    + intros [[H|H] Hp]; auto. rewrite (HF x H) in Hp. discriminate.
  - intros x. unfold in_blk at 1. rewrite bp_elements_slice, Hbk'. cbn [fst snd bp_seg p']. rewrite HsF.
    rewrite Hold, in_app_iff. rewrite Forall_forall in HT, HF. split.
    + intros H. split; auto.
    + intros [[H|H] Hp]; auto. rewrite (HT x H) in Hp. discriminate.
  - intros l x H1 H2. unfold in_blk. rewrite !bp_elements_slice, (Hbl' l H1 H2). cbn [bp_seg p'].
    rewrite (Hother l H1). reflexivity.
Qed.

(* ------------------------------------------------------------------ 5. Partition (with block ids) *)
Lemma fold_upd_spec (v : nat) : forall (l acc : list nat),
  length (fold_left (fun a y => upd a y v) l acc) = length acc /\
  (forall x, In x l -> x < length acc -> nth x (fold_left (fun a y => upd a y v) l acc) 0 = v) /\
  (forall x, ~ In x l -> nth x (fold_left (fun a y => upd a y v) l acc) 0 = nth x acc 0).
Proof.
  induction l as [|y l IH]; intros acc; cbn [fold_left].
  - split; [reflexivity|]. split; [intros x []|reflexivity].
  - destruct (IH (upd acc y v)) as [H1 [H2 H3]]. rewrite hp_upd_length in *. split; [exact H1|]. split.
    + intros x Hx Hlt. destruct (in_dec Nat.eq_dec x l) as [Hin|Hnin].
      * apply H2; auto.
      * destruct Hx as [->|Hx]; [|contradiction]. rewrite (H3 x Hnin). apply hp_nth_upd_same. exact Hlt.
    + intros x Hx. rewrite H3 by (intros H; apply Hx; right; exact H).
      apply hp_nth_upd_other. intros ->. apply Hx. left. reflexivity.
Qed.

Lemma hp_nth_repeat {A} (v d : A) : forall n x, x < n -> nth x (repeat v n) d = v.
Proof. induction n as [|n IH]; intros [|x] H; simpl; try lia; auto. apply IH. lia. Qed.

Record fp_wf (n : nat) (p : fpart) : Prop := {
  fw_base : bp_wf n (fp_base p);
  fw_len : length (fp_bid p) = n;
  fw_bid : forall x, x < n -> in_blk (fp_base p) (fp_block_id p x) x }.

Lemma fp_bid_range n p x : fp_wf n p -> x < n -> 1 <= fp_block_id p x < nblk (fp_base p).
Proof. intros W Hx. eapply in_blk_range; [apply (fw_base _ _ W)|apply (fw_bid _ _ W); exact Hx]. Qed.

Lemma fp_in_blk_iff n p b x : fp_wf n p -> (in_blk (fp_base p) b x <-> x < n /\ fp_block_id p x = b).
Proof.
  intros W. split.
  - intros H. pose proof (in_blk_lt _ _ _ _ (fw_base _ _ W) H) as Hx. split; [exact Hx|].
    eapply in_blk_uniq; [apply (fw_base _ _ W)|apply (fw_bid _ _ W); exact Hx|exact H].
  - intros [Hx <-]. apply (fw_bid _ _ W). exact Hx.
Qed.

Lemma fp_new_wf n : 1 <= n -> fp_wf n (fp_new n).
Proof.
  intros Hn. constructor; unfold fp_new; cbn [fp_base fp_bid].
  - apply bp_new_wf. exact Hn.
  - apply repeat_length.
  - intros x Hx. unfold fp_block_id. cbn [fp_bid].
    replace (nth x (repeat 1 n) 0) with 1.
    + apply bp_new_in; assumption.
    + symmetry. apply hp_nth_repeat. exact Hx.
Qed.

Lemma fp_new_bid n x : fp_block_id (fp_new n) x = 1 \/ fp_block_id (fp_new n) x = 0.
Proof.
  unfold fp_block_id, fp_new. cbn [fp_bid]. destruct (le_lt_dec n x) as [H|H].
  - right. apply nth_overflow. rewrite repeat_length. exact H.
  - left. apply hp_nth_repeat. exact H.
Qed.

Inductive fp_res (n : nat) (p : fpart) (i : nat) (pr : nat -> bool) (p' : fpart) : nat * nat -> Prop :=
| FR_all : (forall x, x < n -> fp_block_id p x = i -> pr x = true) ->
    nblk (fp_base p') = nblk (fp_base p) -> fp_bid p' = fp_bid p -> fp_res n p i pr p' (i, 0)
| FR_none : (forall x, x < n -> fp_block_id p x = i -> pr x = false) ->
    nblk (fp_base p') = nblk (fp_base p) -> fp_bid p' = fp_bid p -> fp_res n p i pr p' (0, i)
| FR_split : nblk (fp_base p') = S (nblk (fp_base p)) ->
    (forall x, x < n -> fp_block_id p' x =
       if Nat.eqb (fp_block_id p x) i && negb (pr x) then nblk (fp_base p) else fp_block_id p x) ->
    (exists x, x < n /\ fp_block_id p x = i /\ pr x = true) ->
    (exists x, x < n /\ fp_block_id p x = i /\ pr x = false) ->
    fp_res n p i pr p' (i, nblk (fp_base p)).

Lemma fp_refine_spec n p i pr : fp_wf n p -> 1 <= i < nblk (fp_base p) ->
  fp_wf n (fst (fp_refine p i pr)) /\ fp_res n p i pr (fst (fp_refine p i pr)) (snd (fp_refine p i pr)).
Proof.
  intros W Hi. unfold fp_refine.
  destruct (bp_refine_spec n (fp_base p) i pr (fw_base _ _ W) Hi) as [Wb Hres].
  destruct (bp_refine (fp_base p) i pr) as [b [b1 b2]]. cbn [fst snd] in Wb, Hres.
  inversion Hres as [Hall [Hnb Hsame] E|Hnone [Hnb Hsame] E|Hnb H1 H2 H3 E]; subst b1 b2.
  - replace (negb (Nat.eqb i 0) && negb (Nat.eqb 0 0)) with false by (rewrite andb_comm; reflexivity).
    cbn [fst snd]. split.
    + constructor; cbn [fp_base fp_bid]; auto; [apply (fw_len _ _ W)|].
      intros x Hx. apply Hsame. apply (fw_bid _ _ W). exact Hx.
    + apply FR_all; auto. intros x Hx Hb. apply Hall. rewrite <- Hb. apply (fw_bid _ _ W). exact Hx.
  - replace (negb (Nat.eqb 0 0) && negb (Nat.eqb i 0)) with false by reflexivity.
    cbn [fst snd]. split.
    + constructor; cbn [fp_base fp_bid]; auto; [apply (fw_len _ _ W)|].
      intros x Hx. apply Hsame. apply (fw_bid _ _ W). exact Hx.
    + apply FR_none; auto. intros x Hx Hb. apply Hnone. rewrite <- Hb. apply (fw_bid _ _ W). exact Hx.
  - replace (negb (Nat.eqb i 0) && negb (Nat.eqb (nblk (fp_base p)) 0)) with true.
    2:{ symmetry. apply andb_true_iff. split; apply negb_true_iff, Nat.eqb_neq; lia. }
    cbn [fst snd].
    destruct (fold_upd_spec (nblk (fp_base p)) (bp_elements b (nblk (fp_base p))) (fp_bid p)) as [F1 [F2 F3]].
    set (bid' := fold_left (fun acc x => upd acc x (nblk (fp_base p))) (bp_elements b (nblk (fp_base p))) (fp_bid p)) in *.
    assert (Hbid : forall x, x < n -> nth x bid' 0 =
               if Nat.eqb (fp_block_id p x) i && negb (pr x) then nblk (fp_base p) else fp_block_id p x).
    { intros x Hx. destruct (Nat.eqb (fp_block_id p x) i && negb (pr x)) eqn:Hc.
      - apply andb_true_iff in Hc. destruct Hc as [Hc1 Hc2]. apply Nat.eqb_eq in Hc1. apply negb_true_iff in Hc2.
        apply F2; [|rewrite (fw_len _ _ W); exact Hx]. apply H2. split; [|exact Hc2].
        rewrite <- Hc1. apply (fw_bid _ _ W). exact Hx.
      - rewrite F3; [reflexivity|]. intros Hin. apply H2 in Hin. destruct Hin as [Hin Hp].
        apply (fp_in_blk_iff n p i x W) in Hin. destruct Hin as [_ Hin].
        rewrite Hin, Nat.eqb_refl, Hp in Hc. discriminate. }
    split.
    + constructor; cbn [fp_base fp_bid]; auto; [rewrite F1; apply (fw_len _ _ W)|].
      intros x Hx. unfold fp_block_id. cbn [fp_bid]. rewrite (Hbid x Hx).
      pose proof (fw_bid _ _ W x Hx) as Hbx.
      destruct (Nat.eqb (fp_block_id p x) i && negb (pr x)) eqn:Hc.
      * apply andb_true_iff in Hc. destruct Hc as [Hc1 Hc2]. apply Nat.eqb_eq in Hc1. apply negb_true_iff in Hc2.
        apply H2. rewrite <- Hc1. auto.
      * destruct (Nat.eq_dec (fp_block_id p x) i) as [He|Hne].
        -- rewrite He. apply H1. rewrite <- He. split; [exact Hbx|].
           rewrite He, Nat.eqb_refl in Hc. cbn [andb] in Hc. apply negb_false_iff in Hc. exact Hc.
        -- apply H3; auto. pose proof (fp_bid_range n p x W Hx). lia.
    + apply FR_split; auto.
      * pose proof (bw_rng _ _ Wb i) as Hr. rewrite Hnb in Hr.
        pose proof (blk_first_in n b i Wb) as Hf. rewrite Hnb in Hf.
        assert (Hi' : 1 <= i < S (nblk (fp_base p))) by lia.
        specialize (Hf Hi'). apply H1 in Hf. destruct Hf as [Hf Hp].
        apply (fp_in_blk_iff n p i _ W) in Hf. destruct Hf as [Hlt Hb].
        eexists. split; [exact Hlt|]. split; [exact Hb|exact Hp].
      * pose proof (blk_first_in n b (nblk (fp_base p)) Wb) as Hf. rewrite Hnb in Hf.
        assert (Hi' : 1 <= nblk (fp_base p) < S (nblk (fp_base p))) by lia.
        specialize (Hf Hi'). apply H2 in Hf. destruct Hf as [Hf Hp].
        apply (fp_in_blk_iff n p i _ W) in Hf. destruct Hf as [Hlt Hb].
        eexists. split; [exact Hlt|]. split; [exact Hb|exact Hp].
Qed.
